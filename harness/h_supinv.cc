// C11 harness: for every entity of the schema library, the inverse attributes an instance gets entries for, in the order
// SDAI_Application_instance::InitIAttrs inserts them: the entity's own, then what superInvAttrIter yields.
//   ENT <entity> : <attr owner>.<attr name> ...
#include <cstdio>
#include <string>
#include "clstepcore/sdai.h"
#include "clstepcore/Registry.h"
#include "clstepcore/ExpDict.h"
#include "superInvAttrIter.h"
#include "schema.h"

int main() {
    Registry registry( SchemaInit );
    registry.ResetEntities();
    const EntityDescriptor * ed;
    while( ( ed = registry.NextEntity() ) != 0 ) {
        printf( "ENT %s :", ed->Name() );
        InverseAItr iai( &( ed->InverseAttr() ) );
        const Inverse_attribute * ia;
        while( 0 != ( ia = iai.NextInverse_attribute() ) ) {
            printf( " %s.%s", ia->Owner().Name(), ia->Name() );
        }
        superInvAttrIter siai( ed );
        int guard = 0;
        while( !siai.empty() && guard++ < 10000 ) {
            ia = siai.next();
            if( !ia ) {
                printf( " NULL" );
                break;
            }
            printf( " %s.%s", ia->Owner().Name(), ia->Name() );
        }
        printf( "\n" );
    }
    return 0;
}
