// Lazy-loader harness (C10, C11):  h_lazy <file> [load-order: ids separated by commas | "none"]
//   COUNT <totalInstanceCount>
//   IDX <id> <TYPE-as-indexed>            one per indexed instance
//   FWD <id> r1 r2 ...                    forward table (as stored, with multiplicity)
//   REV <id> r1 r2 ...                    reverse table
//   DEPS <id> d1 d2 ...                   instanceDependencies (sorted set)
//   LOAD <id> <serialisation by STEPwrite>           per load request, in the given order
//   INV <id> <Entity>.<attr-name> i1 i2 ...   inverse attributes of the loaded instance (Entity: where it is declared)
#define protected public
#define private public
#include "cllazyfile/lazyInstMgr.h"
#undef protected
#undef private
#include <cstdio>
#include <cstring>
#include <cstdlib>
#include <string>
#include <sstream>
#include <vector>
#include <algorithm>
#include "clstepcore/sdai.h"
#include "clstepcore/STEPcomplex.h"
#include "clstepcore/STEPaggrEntity.h"
#include "schema.h"

static std::string oneLine( const std::string & s ) {
    std::string o;
    for( size_t i = 0; i < s.size(); i++ ) {
        if( s[i] != '\n' && s[i] != '\0' ) {
            o += s[i];
        }
    }
    return o;
}

int main( int argc, char ** argv ) {
    if( argc < 2 ) {
        return 2;
    }
    lazyInstMgr * mgr = new lazyInstMgr;
    mgr->initRegistry( SchemaInit );
    mgr->openFile( argv[1] );
    printf( "COUNT %lu\n", mgr->totalInstanceCount() );
    std::vector<instanceID> ids;
    {
        instanceStreamPos_t::cpair p = mgr->_instanceStreamPos.begin();
        while( p.value != 0 ) {
            ids.push_back( p.key );
            p = mgr->_instanceStreamPos.next();
        }
    }
    for( size_t i = 0; i < ids.size(); i++ ) {
        instanceStreamPos_t::cvector * cv = mgr->_instanceStreamPos.find( ids[i] );
        // a data section the loader gave up on ("Corrupted data section") is not registered although its instances
        // stay indexed: typeFromFile() would index an empty vector (outside the properties: C10 speaks of conforming files)
        bool registered = cv && cv->size() == 1 && ( size_t )( cv->at( 0 ) >> 48 ) < mgr->_dataSections.size();
        const char * t = registered ? mgr->typeFromFile( ids[i] ) : 0;
        printf( "IDX %lu %s %lu\n", ( unsigned long )ids[i], t ? ( *t ? t : "(complex)" ) : "?", ( unsigned long )( cv ? cv->size() : 0 ) );
    }
    for( int dir = 0; dir < 2; dir++ ) {
        instanceRefs_t * refs = dir ? mgr->getRevRefs() : mgr->getFwdRefs();
        instanceRefs_t::cpair p = refs->begin();
        while( p.value != 0 ) {
            std::ostringstream o;
            o << ( dir ? "REV " : "FWD " ) << p.key;
            for( size_t k = 0; k < p.value->size(); k++ ) {
                o << " " << p.value->at( k );
            }
            puts( o.str().c_str() );
            p = refs->next();
        }
    }
    for( size_t i = 0; i < ids.size(); i++ ) {
        instanceSet * deps = mgr->instanceDependencies( ids[i] );
        std::ostringstream o;
        o << "DEPS " << ids[i];
        for( instanceSet::const_iterator it = deps->begin(); it != deps->end(); ++it ) {
            o << " " << *it;
        }
        puts( o.str().c_str() );
        delete deps;
    }
    fflush( stdout );
    if( argc > 2 && strcmp( argv[2], "none" ) ) {
        std::string order = argv[2];
        std::istringstream os( order );
        std::string tok;
        while( std::getline( os, tok, ',' ) ) {
            instanceID id = strtoul( tok.c_str(), 0, 10 );
            SDAI_Application_instance * inst = mgr->loadInstance( id, true );
            if( !inst || isNilSTEPentity( inst ) ) {
                printf( "LOAD %lu FAILED\n", ( unsigned long )id );
                continue;
            }
            std::ostringstream o;
            inst->STEPwrite( o );
            printf( "LOAD %lu %s\n", ( unsigned long )id, oneLine( o.str() ).c_str() );
            // inverse attributes, own and inherited; of every part when the instance is in external mapping
            // (INV: as held by the instance, or by the part whose entity declares the attribute; INVI: the copy another part inherits)
            for( SDAI_Application_instance * part = inst; part; part = part->IsComplex() ? ( ( STEPcomplex * )part )->sc : 0 ) {
                const SDAI_Application_instance::iAMap_t & m = part->getInvAttrs();
                for( SDAI_Application_instance::iAMap_t::const_iterator it = m.begin(); it != m.end(); ++it ) {
                    const Inverse_attribute * ia = it->first;
                    std::ostringstream io;
                    // the declaring entity is part of the name: two supertypes may each declare an inverse attribute called the same
                    if( inst->IsComplex() && &( ia->Owner() ) != part->eDesc ) {
                        io << "INVI " << id << " " << part->eDesc->Name() << " " << ia->Owner().Name() << "." << ia->Name();
                    } else {
                        io << "INV " << id << " " << ia->Owner().Name() << "." << ia->Name();
                    }
                    if( ia->IsAggrType() ) {
                        EntityAggregate * ea = it->second.a;
                        if( ea ) {
                            EntityNode * en = ( EntityNode * )ea->GetHead();
                            while( en ) {
                                io << " " << ( en->node ? en->node->StepFileId() : -1 );
                                en = ( EntityNode * )en->NextNode();
                            }
                        }
                    } else {
                        if( it->second.i ) {
                            io << " " << it->second.i->StepFileId();
                        }
                    }
                    puts( io.str().c_str() );
                }
            }
            fflush( stdout );
        }
    }
    fflush( stdout );
    _Exit( 0 ); // skip destructors: only the answers matter here
}
