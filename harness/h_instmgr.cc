// Correspondence harness for C13: drives a real InstMgr with the operation
// sequences the Coq model (coq/InstMgr.v) is run on, and prints every public
// query after every operation.  One sequence per input line:
//   <owns> op op op ...
// ops:  c<id>:<name>  a<h>:<st>  x<i>  y<h>  s<i>:<st>  C  D  n
// Output per sequence: "SEQ <k>" then one dump line per op, then "END <k>".
#include <cstdio>
#include <cstring>
#include <cstdlib>
#include <string>
#include <vector>
#include <sstream>
#include <iostream>

#include "clstepcore/sdai.h"
#include "clstepcore/instmgr.h"
#include "clstepcore/ExpDict.h"

static const char * NAMES[3]  = { "Alpha", "Beta_Gamma", "Delta" };
static const char * QUERY[3]  = { "alpha", "BETA_GAMMA", "dELTA" };   // PrettyTmpName folds these
static EntityDescriptor * EDS[3];

static std::vector<bool> alive;

class Dummy : public SDAI_Application_instance {
    public:
        int handle;
        Dummy( int h, int id, int nm ) : SDAI_Application_instance( id ), handle( h ) {
            eDesc = EDS[nm];
        }
        virtual ~Dummy() {
            alive[handle] = false;
        }
};

static stateEnum ST( int k ) {
    switch( k ) {
        case 0: return completeSE;
        case 1: return incompleteSE;
        case 2: return deleteSE;
        case 3: return newSE;
        default: return noStateSE;
    }
}
static int STi( stateEnum s ) {
    switch( s ) {
        case completeSE: return 0;
        case incompleteSE: return 1;
        case deleteSE: return 2;
        case newSE: return 3;
        default: return 4;
    }
}

static std::vector<Dummy *> objs;

static int handleOf( SDAI_Application_instance * se ) {
    if( !se || se == ENTITY_NULL ) {
        return -1;
    }
    for( size_t k = 0; k < objs.size(); k++ ) {
        if( alive[k] && objs[k] == se ) {
            return ( int )k;
        }
    }
    return -2; // dangling / unknown pointer
}

static bool inMgr( InstMgr & im, SDAI_Application_instance * se ) {
    int n = im.InstanceCount();
    for( int i = 0; i < n; i++ ) {
        if( im.GetApplication_instance( i ) == se ) {
            return true;
        }
    }
    return false;
}

static void dump( InstMgr & im, const char * tag, int maxq ) {
    std::ostringstream o;
    int n = im.InstanceCount();
    o << tag << " n=" << n << " max=" << im.MaxFileId() << " [";
    for( int i = 0; i < n; i++ ) {
        MgrNode * mn = im.GetMgrNode( i );
        SDAI_Application_instance * se = im.GetApplication_instance( i );
        int h = handleOf( se );
        o << ( i ? " " : "" ) << h << ":" << ( h >= 0 ? se->StepFileId() : -9 ) << ":" << STi( mn->CurrState() )
          << ":" << im.GetIndex( mn );
    }
    o << "] find";
    for( int id = -1; id <= maxq; id++ ) {
        MgrNode * mn = im.FindFileId( id );
        o << " " << ( mn ? handleOf( im.GetApplication_instance( mn ) ) : -1 );
    }
    o << " kw";
    for( int k = 0; k < 3; k++ ) {
        o << " " << im.EntityKeywordCount( QUERY[k] );
    }
    o << " byname";
    for( int k = 0; k < 3; k++ ) {
        for( int st = 0; st <= n; st++ ) {
            o << " " << handleOf( im.GetApplication_instance( QUERY[k], st ) );
        }
    }
    o << " ids";
    for( size_t k = 0; k < objs.size(); k++ ) {
        o << " " << ( alive[k] ? objs[k]->StepFileId() : -9 );
    }
    puts( o.str().c_str() );
}

int main( int argc, char ** argv ) {
    int maxq = argc > 1 ? atoi( argv[1] ) : 12;
    // silence the library's chatter on cout ("MgrNodeArray::..."): we print with stdio
    std::cout.setstate( std::ios_base::badbit );
    for( int k = 0; k < 3; k++ ) {
        EDS[k] = new EntityDescriptor( NAMES[k], 0, LFalse, LFalse, 0 );
    }
    std::string line;
    long seq = 0;
    while( std::getline( std::cin, line ) ) {
        std::istringstream ls( line );
        int owns = 0;
        ls >> owns;
        objs.clear();
        alive.clear();
        InstMgr * im = new InstMgr( owns );
        printf( "SEQ %ld\n", seq );
        std::string tok;
        while( ls >> tok ) {
            char c = tok[0];
            int a = 0, b = 0;
            const char * p = tok.c_str() + 1;
            a = atoi( p );
            const char * colon = strchr( p, ':' );
            if( colon ) {
                b = atoi( colon + 1 );
            }
            bool skipped = false;
            switch( c ) {
                case 'c': {
                    int h = ( int )objs.size();
                    alive.push_back( true );
                    objs.push_back( new Dummy( h, a, b ) );
                    break;
                }
                case 'a':
                    if( a < ( int )objs.size() && alive[a] ) {
                        im->Append( objs[a], ST( b ) );
                    } else {
                        skipped = true;
                    }
                    break;
                case 'x':
                    if( a < im->InstanceCount() ) {
                        im->Delete( im->GetMgrNode( a ) );
                    } else {
                        skipped = true;
                    }
                    break;
                case 'y':
                    if( a < ( int )objs.size() && alive[a] ) {
                        if( inMgr( *im, objs[a] ) && !im->FindFileId( objs[a]->StepFileId() ) ) {
                            puts( "CRASH null-node" );
                            skipped = true;
                        } else {
                            // also for an instance the manager does not hold (nothing must happen then,
                            // whoever carries the same file id)
                            im->Delete( objs[a] );
                        }
                    } else {
                        skipped = true;
                    }
                    break;
                case 's':
                    if( a < im->InstanceCount() ) {
                        im->ChangeState( im->GetMgrNode( a ), ST( b ) );
                    } else {
                        skipped = true;
                    }
                    break;
                case 'C':
                    im->ClearInstances();
                    break;
                case 'D':
                    im->DeleteInstances();
                    break;
                case 'n':
                    im->NextFileId();
                    break;
                default:
                    skipped = true;
            }
            dump( *im, skipped ? "-" : "+", maxq );
            fflush( stdout );
        }
        delete im;
        {
            std::string z = "Z";
            for( size_t k = 0; k < objs.size(); k++ ) {
                z += alive[k] ? " 1" : " 0";
            }
            puts( z.c_str() );
        }
        printf( "END %ld\n", seq );
        fflush( stdout );
        seq++;
        // surviving objects are leaked
    }
    return 0;
}
