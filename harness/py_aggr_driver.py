#!/usr/bin/env python3
"""C19 harness: runs operation sequences on /repo's AggregationDataTypes classes.
stdin: one sequence per line:  N<K>:<b1>:<b2>:<u>:<o>  then ops  S<i>:<v> G<i> A<v> Qs Qh Ql QH QL Qu
  K in A L B S ; b2 may be 'n' (None) ; v in 1 2 3 s (s = a STRING: wrong base type)
stdout: per line the results separated by ' | ':  ok:<repr> or raise:<ExceptionClass>"""
import sys
import os
repo = os.environ.get("VERIF_REPO", "/repo")
sys.path.insert(0, os.path.join(repo, "src", "exp2python", "python"))
from stepcode.AggregationDataTypes import ARRAY, LIST, BAG, SET   # noqa
from stepcode.SimpleDataTypes import INTEGER, STRING              # noqa


def val(tok):
    return STRING("a") if tok == "s" else INTEGER(int(tok))


def show(x):
    if x is None:
        return "None"
    if isinstance(x, STRING):
        return "str"
    if isinstance(x, bool):
        return "True" if x else "False"
    if isinstance(x, int):
        return "int:%d" % int(x)
    name = type(x).__name__
    s = str(x)
    if x is __import__("stepcode.SimpleDataTypes", fromlist=["Unknown"]).Unknown or "nknown" in s or "nknown" in name:
        return "Unknown"
    return "other:" + name


def main():
    for line in sys.stdin:
        toks = line.split()
        if not toks:
            print("")
            continue
        out = []
        obj = None
        for t in toks:
            try:
                c = t[0]
                if c == "N":
                    k, b1, b2, u, o = t[1:].split(":")
                    b1 = int(b1)
                    b2 = None if b2 == "n" else int(b2)
                    if k == "A":
                        obj = ARRAY(b1, b2, INTEGER, UNIQUE=(u == "1"), OPTIONAL=(o == "1"))
                    elif k == "L":
                        obj = LIST(b1, b2, INTEGER, UNIQUE=(u == "1"))
                    elif k == "B":
                        obj = BAG(b1, b2, INTEGER)
                    else:
                        obj = SET(b1, b2, INTEGER)
                    r = None
                elif obj is None:
                    out.append("skip")
                    continue
                elif c == "S":
                    i, v = t[1:].split(":")
                    obj[int(i)] = val(v)
                    r = None
                elif c == "G":
                    r = obj[int(t[1:])]
                elif c == "A":
                    r = obj.add(val(t[1:]))
                elif t == "Qs":
                    r = obj.get_size()
                elif t == "Qh":
                    r = obj.get_hiindex()
                elif t == "Ql":
                    r = obj.get_loindex()
                elif t == "QH":
                    r = obj.get_hibound()
                elif t == "QL":
                    r = obj.get_lobound()
                elif t == "Qu":
                    r = obj.get_value_unique()
                else:
                    out.append("skip")
                    continue
                out.append("ok:" + show(r))
            except Exception as e:   # noqa
                out.append("raise:" + type(e).__name__)
                if t[0] == "N":
                    obj = None
        print(" | ".join(out))
        sys.stdout.flush()


main()
