#!/usr/bin/env python3
"""C19 harness: runs operation sequences on /repo's AggregationDataTypes classes.
stdin: one sequence per line:  N<K>:<b1>:<b2>:<u>:<o>[:<E>]  then ops   (E: elements are aggregates of kind E of INTEGER;
  then a value token stands for one inner aggregate, s for one of another kind, t for one of the right kind OF STRING)  S<i>:<v> G<i> A<v> Qs Qh Ql QH QL Qu
  K in A L B S ; b2 may be 'n' (None) ; v in 1 2 3 s (s = a STRING: wrong base type)
stdout: per line the results separated by ' | ':  ok:<repr> or raise:<ExceptionClass>"""
import sys
import os
repo = os.environ.get("VERIF_REPO", "/repo")
sys.path.insert(0, os.path.join(repo, "src", "exp2python", "python"))
from stepcode.AggregationDataTypes import ARRAY, LIST, BAG, SET   # noqa
from stepcode.SimpleDataTypes import INTEGER, STRING              # noqa


KINDS = {"A": ARRAY, "L": LIST, "B": BAG, "S": SET}
ELEM = ["i"]          # element kind of the aggregate under test: i = INTEGER, A/L/B/S = an aggregate of INTEGER of that kind
INNER = {}            # token -> the inner aggregate that stands for it (one object per token: equal iff same token)


def inner(kind, base, content):
    a = KINDS[kind](1, 3, base)
    if content is not None:
        if kind in "AL":
            a[1] = base(content)
        else:
            a.add(base(content))
    return a


def elem_type():
    return INTEGER if ELEM[0] == "i" else inner(ELEM[0], INTEGER, None)


def val(tok):
    if ELEM[0] == "i":
        return STRING("a") if tok == "s" else INTEGER(int(tok))
    if tok not in INNER:
        if tok == "s":        # an aggregate of another kind
            INNER[tok] = inner("ALBS"[("ALBS".index(ELEM[0]) + 1) % 4], INTEGER, 7)
        elif tok == "t":      # the right kind of aggregate, of another base type
            INNER[tok] = inner(ELEM[0], STRING, "a")
        else:
            INNER[tok] = inner(ELEM[0], INTEGER, int(tok))
    return INNER[tok]


def show(x):
    if x is None:
        return "None"
    if isinstance(x, STRING):
        return "str"
    for tok_, obj_ in INNER.items():
        if x is obj_:
            return "int:" + tok_ if tok_ not in "st" else "str"
    if isinstance(x, bool):
        return "True" if x else "False"
    if isinstance(x, int):
        return "int:%d" % int(x)
    name = type(x).__name__
    s = str(x)
    if x is __import__("stepcode.SimpleDataTypes", fromlist=["Unknown"]).Unknown or "nknown" in s or "nknown" in name:
        return "Unknown"
    return "other:" + name


def main():
    for line in sys.stdin:
        toks = line.split()
        if not toks:
            print("")
            continue
        out = []
        obj = None
        for t in toks:
            try:
                c = t[0]
                if c == "N":
                    f = t[1:].split(":")
                    k, b1, b2, u, o = f[:5]
                    ELEM[0] = f[5] if len(f) > 5 else "i"
                    INNER.clear()
                    b1 = int(b1)
                    b2 = None if b2 == "n" else int(b2)
                    if k == "A":
                        obj = ARRAY(b1, b2, elem_type(), UNIQUE=(u == "1"), OPTIONAL=(o == "1"))
                    elif k == "L":
                        obj = LIST(b1, b2, elem_type(), UNIQUE=(u == "1"))
                    elif k == "B":
                        obj = BAG(b1, b2, elem_type())
                    else:
                        obj = SET(b1, b2, elem_type())
                    r = None
                elif obj is None:
                    out.append("skip")
                    continue
                elif c == "S":
                    i, v = t[1:].split(":")
                    obj[int(i)] = val(v)
                    r = None
                elif c == "G":
                    r = obj[int(t[1:])]
                elif c == "A":
                    r = obj.add(val(t[1:]))
                elif t == "Qs":
                    r = obj.get_size()
                elif t == "Qh":
                    r = obj.get_hiindex()
                elif t == "Ql":
                    r = obj.get_loindex()
                elif t == "QH":
                    r = obj.get_hibound()
                elif t == "QL":
                    r = obj.get_lobound()
                elif t == "Qu":
                    r = obj.get_value_unique()
                else:
                    out.append("skip")
                    continue
                out.append("ok:" + show(r))
            except Exception as e:   # noqa
                out.append("raise:" + type(e).__name__)
                if t[0] == "N":
                    obj = None
        print(" | ".join(out))
        sys.stdout.flush()


main()
