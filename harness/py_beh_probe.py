#!/usr/bin/env python3
"""C18 behaviour probe: imports the module exp2python wrote for schemas/py_beh.exp against /repo's bundled runtime
and prints one line per observation:
   DERIVE <attr> <value>            value of a derived attribute of a fixed BUDGET instance
   RULE <name> ok|raise             WHERE rule of that instance
   SET <attr> <case> accept|refuse  assignment of a right / wrong value to an attribute of a SWITCH instance
   ERR <text>                       the probe could not run a step
usage: py_beh_probe.py <dir> <module>"""
import os
import sys

repo = os.environ.get("VERIF_REPO", "/repo")
sys.path.insert(0, os.path.join(repo, "src", "exp2python", "python"))
sys.path.insert(0, sys.argv[1])
try:
    import importlib
    mod = importlib.import_module(sys.argv[2])
except BaseException as e:  # noqa
    print("ERR import %s: %s" % (type(e).__name__, e))
    sys.exit(0)
from stepcode.SimpleDataTypes import INTEGER, REAL, STRING, BOOLEAN, LOGICAL, NUMBER   # noqa
from stepcode.AggregationDataTypes import LIST, SET   # noqa


def num(x):
    try:
        return repr(float(x))
    except Exception as e:   # noqa
        return "?%s" % type(e).__name__


try:
    b = mod.budget(REAL(20.0), REAL(8.0), REAL(2.0), INTEGER(9), INTEGER(4), INTEGER(2))
    for a in ("remaining", "left_nested", "share", "prod", "mixed", "grouped", "powr", "neg", "idiv", "imod", "chain", "lit", "big"):
        try:
            print("DERIVE %s %s" % (a, num(getattr(b, a))))
        except BaseException as e:  # noqa
            print("DERIVE %s raise:%s" % (a, type(e).__name__))
    for rname in ("wr_balance", "wr_order"):
        try:
            getattr(b, rname)()
            print("RULE %s ok" % rname)
        except AssertionError:
            print("RULE %s raise" % rname)
        except BaseException as e:  # noqa
            print("RULE %s error:%s" % (rname, type(e).__name__))
    try:
        b.remaining = REAL(1.0)
        print("SET remaining derived accept")
    except BaseException:  # noqa
        print("SET remaining derived refuse")
except BaseException as e:  # noqa
    print("ERR budget %s: %s" % (type(e).__name__, e))

import inspect
for cname in ("redecl", "redecl_child", "neg_holder"):
    try:
        print("CTOR %s %s" % (cname, ",".join(list(inspect.signature(getattr(mod, cname).__init__).parameters)[1:])))
    except BaseException as e:  # noqa
        print("CTOR %s error:%s" % (cname, type(e).__name__))
for tname, base in (("mid", "zeta"), ("alpha_of_mid", "mid"), ("short_label", "label"), ("tag", "short_label"), ("top_count", "base_count"), ("a_first", "z_last")):
    try:
        print("BASE %s %s %s" % (tname, base, "ok" if issubclass(getattr(mod, tname), getattr(mod, base)) else "wrong"))
    except BaseException as e:  # noqa
        print("BASE %s %s error:%s" % (tname, base, type(e).__name__))
for tname in ("arr_neg", "lst_expr"):
    try:
        d = vars(getattr(mod, tname))
        print("BOUNDS %s %s:%s" % (tname, d.get("_bound_1"), d.get("_bound_2")))
    except BaseException as e:  # noqa
        print("BOUNDS %s error:%s" % (tname, type(e).__name__))

try:
    kw = mod.kw_user(INTEGER(3), INTEGER(4), STRING("it's"))
    try:
        print("DERIVE total_kw %s" % num(kw.total_kw))
    except BaseException as e:  # noqa
        print("DERIVE total_kw raise:%s" % type(e).__name__)
    try:
        kw.wr_kw()
        print("RULE wr_kw ok")
    except AssertionError:
        print("RULE wr_kw raise")
    except BaseException as e:  # noqa
        print("RULE wr_kw error:%s" % type(e).__name__)
except BaseException as e:  # noqa
    print("ERR kw_user %s: %s" % (type(e).__name__, e))

try:
    hist = LIST(0, None, BOOLEAN)
    cnts = SET(0, None, INTEGER)
    s = mod.switch(True, None, True, STRING("a"), REAL(1.5), INTEGER(3), REAL(2.0), True, REAL(2.5), mod.t_col.red, hist, cnts, None)
except BaseException as e:  # noqa
    s = None
    print("ERR switch %s: %s" % (type(e).__name__, e))
if s is not None:
    nums_list = LIST(0, None, NUMBER)
    str_list = LIST(1, 3, STRING)
    cases = [
        ("closed", "bool", True, True), ("closed", "real", REAL(1.5), False), ("closed", "string", STRING("x"), False), ("closed", "none", None, False),
        ("locked", "bool", False, True), ("locked", "none", None, True), ("locked", "int", INTEGER(1), False),
        ("state", "unknown", __import__("stepcode.SimpleDataTypes", fromlist=["Unknown"]).Unknown, True), ("state", "string", STRING("x"), False),
        ("label", "string", STRING("b"), True), ("label", "int", INTEGER(1), False), ("label", "bool", True, False),
        ("size", "real", REAL(2.5), True), ("size", "string", STRING("x"), False), ("size", "bool", True, False),
        ("cnt", "int", INTEGER(5), True), ("cnt", "string", STRING("x"), False), ("cnt", "real", REAL(1.5), False),
        ("num", "real", REAL(1.5), True), ("num", "int", INTEGER(2), True), ("num", "string", STRING("x"), False),
        ("flag", "bool", True, True), ("flag", "string", STRING("x"), False),
        ("len", "defined", mod.t_len(3.5), True), ("len", "string", STRING("x"), False),
        ("col", "item", getattr(mod.t_col, "blue", None), True), ("col", "string", STRING("red"), False), ("col", "int", INTEGER(1), False),
        ("history", "list_of_boolean", hist, True), ("history", "list_of_number", nums_list, False), ("history", "bool", True, False),
        ("counts", "set_of_integer", cnts, True), ("counts", "list_of_boolean", hist, False),
        ("names", "list_of_string", str_list, True), ("names", "none", None, True), ("names", "set_of_integer", cnts, False),
    ]
    for attr, case, value, _ in cases:
        try:
            setattr(s, attr, value)
            print("SET %s %s accept" % (attr, case))
        except BaseException:  # noqa
            print("SET %s %s refuse" % (attr, case))

# a defined type with a labelled domain rule followed by an unlabelled one; an ARRAY with one slot; an entity with both kinds of rule
from stepcode.AggregationDataTypes import ARRAY   # noqa
for v in (50.0, 150.0, -1.0):
    try:
        mod.percent(v)
        print("EXTRA percent(%s) ok" % v)
    except AssertionError:
        print("EXTRA percent(%s) raise" % v)
    except BaseException as e:  # noqa
        print("EXTRA percent(%s) error:%s" % (v, type(e).__name__))
print("EXTRA single_slot %s" % ("defined" if hasattr(mod, "single_slot") else "missing"))
for v in (3, 11, 5, -2):
    try:
        one = ARRAY(0, 0, INTEGER)
        one[0] = INTEGER(1)
        r_ = mod.ruled(INTEGER(v), one)
        names_ = sorted(n_ for n_ in dir(r_) if n_.startswith(("lab", "unnamed_wr")))
        out_ = []
        for n_ in names_:
            try:
                getattr(r_, n_)()
                out_.append(n_ + ":ok")
            except AssertionError:
                out_.append(n_ + ":raise")
            except BaseException as e:  # noqa
                out_.append(n_ + ":error:" + type(e).__name__)
        print("EXTRA ruled(%d) %s" % (v, ",".join(out_)))
    except BaseException as e:  # noqa
        print("EXTRA ruled(%d) error:%s" % (v, type(e).__name__))


# a select of a select of a select: what may be assigned to an attribute of that type
try:
    sr_ = mod.sup_r(REAL(1.0), STRING("y"))
    kw_ = mod.kw_user(INTEGER(3), INTEGER(2), STRING("n"))
    su_ = mod.sel_user(sr_, sr_)
    for (attr_, val_, tag_) in (("f", sr_, "sup_r"), ("f", kw_, "kw_user"), ("g", sr_, "sup_r"), ("g", kw_, "kw_user"), ("f", INTEGER(3), "integer")):
        try:
            setattr(su_, attr_, val_)
            print("EXTRA sel_user.%s:=%s accept" % (attr_, tag_))
        except TypeError:
            print("EXTRA sel_user.%s:=%s refuse" % (attr_, tag_))
        except BaseException as e:  # noqa
            print("EXTRA sel_user.%s:=%s error:%s" % (attr_, tag_, type(e).__name__))
except TypeError as e:
    print("EXTRA sel_user error:TypeError")
except BaseException as e:  # noqa
    print("EXTRA sel_user error:%s" % type(e).__name__)
