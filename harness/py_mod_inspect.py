#!/usr/bin/env python3
"""Import a module written by exp2python against /repo's bundled runtime package and print what
it defines, as JSON: for each class its bases and constructor parameters, for each other public
name a description of the type object.  usage: py_mod_inspect.py <dir> <module>"""
import inspect
import json
import os
import sys

repo = os.environ.get("VERIF_REPO", "/repo")
sys.path.insert(0, os.path.join(repo, "src", "exp2python", "python"))
sys.path.insert(0, sys.argv[1])
out = {"import_error": None, "classes": {}, "types": {}}
try:
    import importlib
    mod = importlib.import_module(sys.argv[2])
except BaseException as e:  # noqa
    out["import_error"] = "%s: %s" % (type(e).__name__, e)
    print(json.dumps(out))
    sys.exit(0)
from enum import Enum
from stepcode import SCLBase, ConstructedDataTypes, AggregationDataTypes, SimpleDataTypes
runtime_names = set()
runtime_objs = {}
import stepcode.Builtin
import stepcode.Rules
import stepcode.TypeChecker
for m in (SCLBase, ConstructedDataTypes, AggregationDataTypes, SimpleDataTypes, stepcode.Builtin, stepcode.Rules):
    runtime_names.update(dir(m))
    for n_ in dir(m):
        runtime_objs.setdefault(n_, []).append(getattr(m, n_, None))
runtime_names.update(["check_type", "sys", "schema_name", "schema_scope"])
simple = {getattr(SimpleDataTypes, n): n for n in ("INTEGER", "REAL", "STRING", "BOOLEAN", "LOGICAL", "NUMBER", "BINARY") if hasattr(SimpleDataTypes, n)}
for name, obj in vars(mod).items():
    # a name of the runtime package is skipped only when it still is the runtime's object (an entity may be called
    # like a runtime helper, e.g. raise -> class raise_)
    if name.startswith("_") or (name in runtime_names and (name not in runtime_objs or any(obj is o for o in runtime_objs[name]))):
        continue
    if inspect.isclass(obj) and issubclass(obj, SCLBase.BaseEntityClass):
        try:
            params = [p for p in inspect.signature(obj.__init__).parameters][1:]
        except (TypeError, ValueError) as e:
            params = ["<%s>" % e]
        out["classes"][name] = {"bases": [b.__name__ for b in obj.__bases__], "ctor": params,
                                "own_init": "__init__" in vars(obj)}
    elif inspect.isclass(obj) and issubclass(obj, Enum):
        out["types"][name] = {"kind": "enum", "items": [m.name for m in obj]}
    elif isinstance(obj, ConstructedDataTypes.SELECT):
        mem = []
        for t in obj._base_types:
            d = vars(t)
            mem.append(str(d.get("_typedef", d)))
        out["types"][name] = {"kind": "select", "members": mem}
    elif inspect.isclass(obj) and obj in simple:
        out["types"][name] = {"kind": "class", "bases": [simple[obj]], "alias": True}
    elif inspect.isclass(obj):
        base = [simple.get(b, b.__name__) for b in obj.__bases__]
        out["types"][name] = {"kind": "class", "bases": base}
    elif isinstance(obj, (AggregationDataTypes.LIST, AggregationDataTypes.SET, AggregationDataTypes.BAG, AggregationDataTypes.ARRAY)):
        d = vars(obj)
        out["types"][name] = {"kind": "aggr", "agg": type(obj).__name__, "lo": d.get("_bound_1"), "hi": d.get("_bound_2"),
                              "elem": str(d.get("_base_type"))}
    elif callable(obj):
        out["types"][name] = {"kind": "function"}
    else:
        out["types"][name] = {"kind": "other", "repr": repr(obj)[:80]}
print(json.dumps(out, default=str))
