// C02 harness: dump the run-time dictionary a generated schema library registers, and the
// attribute order of a freshly created instance of every instantiable entity.
//   ENT <name> abstract=<0/1> supers=a,b subs=c,d
//   ATTR <entity> <name> kind=<explicit|derived|inverse> optional=<0/1> type=<type name> base=<primitive> [aggr ...] [inv=<entity>.<attr>]
//   INST <entity> attrs=a,b,c        (attributes of a new instance, in Part 21 order; redefined ones marked *)
//   TYPE <name> prim=<primitive> ref=<referent type or -> [enum=a,b] [select=a,b] [aggr=<kind> b1=<n|rt> b2=<n|rt> auniq=<0/1> aopt=<0/1> elem=<type>]
#include <cstdio>
#include <cstring>
#include <string>
#include <iostream>
#include <sstream>
#include <fstream>
#define protected public
#define private public
#include "clstepcore/sdai.h"
#include "clstepcore/STEPattribute.h"
#include "clstepcore/ExpDict.h"
#include "clstepcore/Registry.h"
#include "clstepcore/complexSupport.h"
#include "schema.h"

static const char * prim( PrimitiveType t ) {
    switch( t ) {
        case sdaiINTEGER: return "INTEGER";
        case sdaiREAL: return "REAL";
        case sdaiBOOLEAN: return "BOOLEAN";
        case sdaiLOGICAL: return "LOGICAL";
        case sdaiSTRING: return "STRING";
        case sdaiBINARY: return "BINARY";
        case sdaiENUMERATION: return "ENUMERATION";
        case sdaiSELECT: return "SELECT";
        case sdaiINSTANCE: return "ENTITY";
        case sdaiAGGR: return "AGGREGATE";
        case sdaiNUMBER: return "NUMBER";
        case ARRAY_TYPE: return "ARRAY";
        case BAG_TYPE: return "BAG";
        case SET_TYPE: return "SET";
        case LIST_TYPE: return "LIST";
        case GENERIC_TYPE: return "GENERIC";
        case REFERENCE_TYPE: return "REFERENCE";
        case UNKNOWN_TYPE: return "UNKNOWN";
        default: return "OTHER";
    }
}

static std::string lower( const char * s ) {
    std::string r;
    for( ; s && *s; s++ ) {
        r += ( char )tolower( *s );
    }
    return r;
}

static void aggrInfo( const TypeDescriptor * td ) {
    const AggrTypeDescriptor * atd = dynamic_cast< const AggrTypeDescriptor * >( td );
    if( !atd ) {
        return;
    }
    AggrTypeDescriptor * a = const_cast< AggrTypeDescriptor * >( atd );
    printf( " aggr=%s", prim( td->Type() ) );
    if( a->Bound1Type() == bound_constant ) {
        printf( " b1=%ld", ( long )a->Bound1() );
    } else {
        printf( " b1=%s", a->Bound1Type() == bound_unset ? "unset" : a->Bound1Type() == bound_runtime ? "rt" : "expr" );
    }
    if( a->Bound2Type() == bound_constant ) {
        printf( " b2=%ld", ( long )a->Bound2() );
    } else {
        printf( " b2=%s", a->Bound2Type() == bound_unset ? "unset" : a->Bound2Type() == bound_runtime ? "rt" : "expr" );
    }
    ArrayTypeDescriptor * arr = dynamic_cast< ArrayTypeDescriptor * >( a );
    printf( " auniq=%d aopt=%d", a->UniqueElements().asInt() == LTrue ? 1 : 0, ( arr && arr->OptionalElements().asInt() == LTrue ) ? 1 : 0 );
    const TypeDescriptor * el = a->AggrDomainType();
    if( !el ) {
        el = td->ReferentType();
    }
    printf( " elem=%s", el ? ( el->Name() ? lower( el->Name() ).c_str() : "?" ) : "-" );
    if( el && dynamic_cast< const AggrTypeDescriptor * >( el ) ) {
        printf( " [" );
        aggrInfo( el );
        printf( " ]" );
    }
}

int main() {
    Registry registry( SchemaInit );
    registry.ResetEntities();
    const EntityDescriptor * ed;
    while( ( ed = registry.NextEntity() ) != 0 ) {
        printf( "ENT %s abstract=%d supers=", lower( ed->Name() ).c_str(), ed->AbstractEntity().asInt() == LTrue ? 1 : 0 );
        EntityDescItr sup( ed->Supertypes() );
        const EntityDescriptor * x;
        int n = 0;
        while( ( x = sup.NextEntityDesc() ) != 0 ) {
            printf( "%s%s", n++ ? "," : "", lower( x->Name() ).c_str() );
        }
        printf( " subs=" );
        EntityDescItr sub( ed->Subtypes() );
        n = 0;
        while( ( x = sub.NextEntityDesc() ) != 0 ) {
            printf( "%s%s", n++ ? "," : "", lower( x->Name() ).c_str() );
        }
        printf( "\n" );
        AttrDescItr adi( ed->ExplicitAttr() );
        const AttrDescriptor * ad;
        while( ( ad = adi.NextAttrDesc() ) != 0 ) {
            const char * kind = ad->AttrType() == AttrType_Explicit ? "explicit" : ad->AttrType() == AttrType_Deriving ? "derived" :
                                ad->AttrType() == AttrType_Inverse ? "inverse" : "redefining";
            const TypeDescriptor * dt = ad->DomainType();
            printf( "ATTR %s %s kind=%s optional=%d type=%s base=%s", lower( ed->Name() ).c_str(), lower( ad->Name() ).c_str(), kind,
                    ad->Optional().asInt() == LTrue ? 1 : 0, ( dt && dt->Name() ) ? lower( dt->Name() ).c_str() : "-", prim( ad->NonRefType() ) );
            if( dt ) {
                aggrInfo( dt );
            }
            printf( "\n" );
        }
        InverseAItr iai( &( ed->InverseAttr() ) );
        const Inverse_attribute * ia;
        while( ( ia = iai.NextInverse_attribute() ) != 0 ) {
            const TypeDescriptor * dt = ia->DomainType();
            printf( "ATTR %s %s kind=inverse optional=%d type=%s base=%s inv=%s.%s", lower( ed->Name() ).c_str(), lower( ia->Name() ).c_str(),
                    ia->Optional().asInt() == LTrue ? 1 : 0, ( dt && dt->Name() ) ? lower( dt->Name() ).c_str() : "-", prim( ia->NonRefType() ),
                    lower( ia->inverted_entity_id_() ).c_str(), lower( ia->inverted_attr_id_() ).c_str() );
            if( dt ) {
                aggrInfo( dt );
            }
            printf( "\n" );
        }
        if( ed->AbstractEntity().asInt() != LTrue ) {
            SDAI_Application_instance * se = registry.ObjCreate( ed->Name() );
            if( se && se != ENTITY_NULL ) {
                printf( "INST %s attrs=", lower( ed->Name() ).c_str() );
                int cnt = se->attributes.list_length();
                for( int k = 0; k < cnt; k++ ) {
                    STEPattribute * a = &se->attributes[k];
                    printf( "%s%s%s", k ? "," : "", lower( a->Name() ).c_str(), a->IsDerived() ? "*" : "" );
                }
                printf( "\n" );
            } else {
                printf( "INST %s none\n", lower( ed->Name() ).c_str() );
            }
        }
    }
    registry.ResetTypes();
    const TypeDescriptor * td;
    while( ( td = registry.NextType() ) != 0 ) {
        const TypeDescriptor * rt = td->ReferentType();
        printf( "TYPE %s prim=%s nonref=%s ref=%s", lower( td->Name() ).c_str(), prim( td->Type() ), prim( td->NonRefType() ),
                ( rt && rt->Name() ) ? lower( rt->Name() ).c_str() : "-" );
        const EnumTypeDescriptor * etd = dynamic_cast< const EnumTypeDescriptor * >( td );
        if( etd ) {
            SDAI_Enum * e = const_cast< EnumTypeDescriptor * >( etd )->CreateEnum();
            if( e ) {
                printf( " enum=" );
                for( int k = 0; k < e->no_elements(); k++ ) {
                    printf( "%s%s", k ? "," : "", lower( e->element_at( k ) ).c_str() );
                }
            }
        }
        const SelectTypeDescriptor * std_ = dynamic_cast< const SelectTypeDescriptor * >( td );
        if( std_ ) {
            printf( " select=" );
            TypeDescItr it( std_->GetElements() );
            const TypeDescriptor * m;
            int k = 0;
            while( ( m = it.NextTypeDesc() ) != 0 ) {
                printf( "%s%s", k++ ? "," : "", lower( m->Name() ).c_str() );
            }
        }
        aggrInfo( td );
        printf( "\n" );
    }
    // the structures generated for checking externally mapped instances: one list per supertype, with every entity it holds
    if( registry.CompCol() ) {
        for( ComplexList * cl = registry.CompCol()->clists; cl; cl = cl->next ) {
            printf( "CLIST %s", lower( cl->supertype() ).c_str() );
            for( EntNode * en = cl->list; en; en = en->next ) {
                printf( " %s", lower( en->Name() ).c_str() );
            }
            printf( "\n" );
        }
    }
    return 0;
}
