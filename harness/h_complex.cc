// C08 harness: for each input line "S name name ..." ask the schema library's ComplexCollect
// whether the combination is supported, the way STEPcomplex::Initialize does (sorted EntNode
// list, multSuprs from the registry); "C name ..." goes through the STEPcomplex constructor.
// Each query runs in a child process so that a crash is an observation:
//   R 1 | R 0 | CRASH <signal> | TIMEOUT
#include <cstdio>
#include <cstring>
#include <string>
#include <vector>
#include <sstream>
#include <iostream>
#include <unistd.h>
#include <fcntl.h>
#include <signal.h>
#include <sys/wait.h>
#include "clstepcore/sdai.h"
#include "clstepcore/Registry.h"
#include "clstepcore/complexSupport.h"
#include "clstepcore/STEPcomplex.h"
#include "schema.h"

static int query( Registry & reg, char mode, std::vector<std::string> & names ) {
    std::vector<const char *> nms;
    for( size_t i = 0; i < names.size(); i++ ) {
        nms.push_back( names[i].c_str() );
    }
    nms.push_back( 0 );
    if( mode == 'C' ) {
        STEPcomplex * sc = new STEPcomplex( &reg, &nms[0], 1, "" );
        return sc->Error().severity() >= SEVERITY_USERMSG ? 1 : 0;
    }
    EntNode * ents = new EntNode( &nms[0] );
    for( EntNode * e = ents; e; e = e->next ) {
        const EntityDescriptor * ed = reg.FindEntity( e->Name(), "" );
        if( !ed ) {
            return 2;
        }
        if( ed->Supertypes().EntryCount() > 1 ) {
            e->multSuprs( true );
        }
    }
    return reg.CompCol()->supports( ents ) ? 1 : 0;
}

int main() {
    Registry registry( SchemaInit );
    std::string line;
    while( std::getline( std::cin, line ) ) {
        std::istringstream is( line );
        std::string mode, w;
        std::vector<std::string> names;
        is >> mode;
        while( is >> w ) {
            names.push_back( w );
        }
        if( names.empty() ) {
            printf( "R 0\n" );
            fflush( stdout );
            continue;
        }
        fflush( stdout );
        pid_t pid = fork();
        if( pid == 0 ) {
            alarm( 10 );
            int devnull = open( "/dev/null", 1 );
            (void) devnull;
            fclose( stderr );
            int r = query( registry, mode[0], names );
            _exit( 40 + r );
        }
        int st = 0;
        waitpid( pid, &st, 0 );
        if( WIFEXITED( st ) && WEXITSTATUS( st ) >= 40 ) {
            printf( "R %d\n", WEXITSTATUS( st ) - 40 );
        } else if( WIFSIGNALED( st ) && WTERMSIG( st ) == SIGALRM ) {
            printf( "TIMEOUT\n" );
        } else if( WIFSIGNALED( st ) ) {
            printf( "CRASH %d\n", WTERMSIG( st ) );
        } else {
            printf( "CRASH exit%d\n", WEXITSTATUS( st ) );
        }
        fflush( stdout );
    }
    return 0;
}
