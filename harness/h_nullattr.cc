// C15 attribute-level harness: for every attribute of every instantiable entity of
// the schema library, read a missing value ("$,", ",", ")") in strict and lenient
// mode with STEPattribute::STEPread and print
//   ATTR <Entity> <attr> <kind> <nullable> <strict> <input> <severity> <value> <remaining>
#include <cstdio>
#include <cstring>
#include <string>
#include <sstream>
#include <iostream>
#include "clstepcore/sdai.h"
#include "clstepcore/STEPattribute.h"
#include "clstepcore/ExpDict.h"
#include "clstepcore/Registry.h"
#include "clstepcore/instmgr.h"
#include "schema.h"

static const char * kindName( BASE_TYPE t ) {
    switch( t ) {
        case sdaiINTEGER: return "KInteger";
        case sdaiREAL: return "KReal";
        case sdaiNUMBER: return "KNumber";
        case sdaiSTRING: return "KString";
        case sdaiBINARY: return "KBinary";
        case sdaiBOOLEAN: return "KBoolean";
        case sdaiLOGICAL: return "KLogical";
        case sdaiENUMERATION: return "KEnum";
        case sdaiINSTANCE: return "KEntity";
        case sdaiAGGR: case ARRAY_TYPE: case BAG_TYPE: case SET_TYPE: case LIST_TYPE: return "KAggregate";
        case sdaiSELECT: return "KSelect";
        default: return "KOther";
    }
}

int main() {
    Registry registry( SchemaInit );
    InstMgr im;
    const char * inputs[3] = { "$,", ",", ")" };
    registry.ResetEntities();
    const EntityDescriptor * ed;
    while( ( ed = registry.NextEntity() ) != 0 ) {
        for( int strict = 0; strict < 2; strict++ ) {
            for( int k = 0; k < 3; k++ ) {
                SDAI_Application_instance * se = registry.ObjCreate( ed->Name() );
                if( !se || se == ENTITY_NULL ) {
                    continue;
                }
                int n = se->attributes.list_length();
                for( int a = 0; a < n; a++ ) {
                    STEPattribute * attr = &se->attributes[a];
                    if( attr->aDesc->AttrType() == AttrType_Redefining || attr->IsDerived() ) {
                        continue;
                    }
                    std::istringstream in( inputs[k] );
                    attr->Error().ClearErrorMsg();
                    Severity s = attr->STEPread( in, &im, 0, 0, strict != 0 );
                    std::string v = attr->asStr();
                    std::string clean;
                    for( size_t i = 0; i < v.size(); i++ ) if( v[i] ) clean += v[i];
                    in.clear();
                    std::string rest;
                    char c;
                    while( in.get( c ) ) rest += c;
                    printf( "ATTR %s %s %s %d %d %s %d [%s] %d\n", ed->Name(), attr->Name(), kindName( attr->NonRefType() ),
                            attr->Nullable() ? 1 : 0, strict, k == 0 ? "dollar" : k == 1 ? "comma" : "paren",
                            ( int )s, clean.c_str(), ( int )rest.size() );
                }
                delete se;
            }
        }
    }
    return 0;
}
