// Correspondence harness for the Part 21 lexical layer (C09/C05):
// one request per line:  <kind> <hex of input bytes>
//   I  ReadInteger(val, in, &err, ",)")     R  ReadReal     N  ReadNumber
//   W  WriteReal(strtod(text))   (input = decimal text of the double)
//   A / Q  an INTEGER / REAL element of an aggregate (IntNode / RealNode): severity of the read, then what STEPwrite(string), STEPwrite(ostream), asStr give
//   L  SDAI_LOGICAL::ReadEnum   B  SDAI_BOOLEAN::ReadEnum   E  a three-item enumeration (AHEAD, BEHIND, A1)
//      (needDelims = 1); value printed: the index assigned (asInt) or - when null
//   T  SDAI_String::STEPread(in, &err): value printed = hex of the stored literal (or -)
//   Y  SDAI_Binary::STEPread(in, &err): value printed = the stored digits (or -); then the text STEPwrite gives for it
// answer: kind assigned value severity remaining eof fail   (one line)
#include <cstdio>
#include <cstring>
#include <cstdlib>
#include <string>
#include <sstream>
#include <iostream>
#define protected public
#include "clstepcore/sdai.h"
#include "clstepcore/read_func.h"
#include "clutils/errordesc.h"
#include "cldai/sdaiEnum.h"
#include "cldai/sdaiString.h"
#include "cldai/sdaiBinary.h"
#include "clstepcore/STEPaggrInt.h"
#include "clstepcore/STEPaggrReal.h"

class TestEnum : public SDAI_Enum {
    public:
        TestEnum() { v = 3; }
        int no_elements() const { return 3; }
        const char * Name() const { return "test_enum"; }
        const char * element_at( int n ) const {
            switch( n ) {
                case 0: return "AHEAD";
                case 1: return "BEHIND";
                case 2: return "A1";
                default: return "UNSET";
            }
        }
};

static std::string unhex( const std::string & h ) {
    std::string s;
    for( size_t i = 0; i + 1 < h.size(); i += 2 ) {
        s += ( char )strtol( h.substr( i, 2 ).c_str(), 0, 16 );
    }
    return s;
}

static void tail( std::istringstream & in, const char * kind, int assigned, const std::string & val, ErrorDescriptor & err ) {
    int eof = in.eof() ? 1 : 0, fail = in.fail() ? 1 : 0;
    in.clear();
    std::string restbuf;
    char c;
    while( in.get( c ) ) {
        restbuf += c;
    }
    printf( "%s %d %s %d %d %d %d\n", kind, assigned, val.c_str(), ( int )err.severity(), ( int )restbuf.size(), eof, fail );
}

int main() {
    std::string line;
    char buf[128];
    while( std::getline( std::cin, line ) ) {
        if( line.size() < 2 ) {
            continue;
        }
        char k = line[0];
        std::string data = unhex( line.substr( 2 ) );
        if( k == 'I' ) {
            std::istringstream in( data );
            ErrorDescriptor err;
            SDAI_Integer v = 777;
            int a = ReadInteger( v, in, &err, ",)" );
            sprintf( buf, "%ld", ( long )v );
            tail( in, "I", a, a ? buf : "-", err );
        } else if( k == 'R' || k == 'N' ) {
            std::istringstream in( data );
            ErrorDescriptor err;
            SDAI_Real v = 777.0;
            int a = ( k == 'R' ) ? ReadReal( v, in, &err, ",)" ) : ReadNumber( v, in, &err, ",)" );
            sprintf( buf, "%.17g", ( double )v );
            tail( in, k == 'R' ? "R" : "N", a, a ? buf : "-", err );
        } else if( k == 'L' || k == 'B' || k == 'E' ) {
            std::istringstream in( data );
            ErrorDescriptor err;
            SDAI_LOGICAL lv;
            SDAI_BOOLEAN bv;
            TestEnum ev;
            SDAI_Enum * e = ( k == 'L' ) ? ( SDAI_Enum * )&lv : ( k == 'B' ) ? ( SDAI_Enum * )&bv : ( SDAI_Enum * )&ev;
            e->ReadEnum( in, &err, 1, 1 );
            int a = e->is_null() ? 0 : 1;
            sprintf( buf, "%d", e->asInt() );
            char kk[2] = { k, 0 };
            // what the writer gives for the value just read (an extra field after the usual ones)
            std::string w;
            e->STEPwrite( w );
            std::string vv = a ? buf : "-";
            vv += " ";
            // tail() prints: kind assigned value severity remaining eof fail ; the written text is appended to the value field position 8
            {
                int eof = in.eof() ? 1 : 0, fail = in.fail() ? 1 : 0;
                in.clear();
                std::string restbuf;
                char c2;
                while( in.get( c2 ) ) {
                    restbuf += c2;
                }
                printf( "%s %d %s %d %d %d %d %s\n", kk, a, a ? buf : "-", ( int )err.severity(), ( int )restbuf.size(), eof, fail, w.empty() ? "-" : w.c_str() );
            }
        } else if( k == 'K' ) {
            // SkipInstance(): severity it returns and what is left of the stream
            std::istringstream in( data );
            std::string skipped;
            Severity sev = SkipInstance( in, skipped );
            ErrorDescriptor ret;
            ret.severity( sev );
            tail( in, "K", sev == SEVERITY_NULL ? 1 : 0, "-", ret );
        } else if( k == 'P' ) {
            // ReadTokenSeparator(): what is left of the stream after white space, comments and print control directives
            std::istringstream in( data );
            ReadTokenSeparator( in );
            ErrorDescriptor none;
            tail( in, "P", 1, "-", none );
        } else if( k == 'T' ) {
            std::istringstream in( data );
            ErrorDescriptor err;
            SDAI_String sv;
            Severity sev = sv.STEPread( in, &err );
            std::string hx;
            const char * t = sv.c_str();
            for( size_t i = 0; t && i < strlen( t ); i++ ) {
                char b[4];
                sprintf( b, "%02x", ( unsigned char )t[i] );
                hx += b;
            }
            // the severity printed is the one STEPread returns (what STEPattribute::STEPread acts on)
            ErrorDescriptor ret;
            ret.severity( sev );
            tail( in, "T", hx.empty() ? 0 : 1, hx.empty() ? "-" : hx, ret );
        } else if( k == 'Y' ) {
            std::istringstream in( data );
            ErrorDescriptor err;
            SDAI_Binary bv;
            bv.STEPread( in, &err );
            std::string v = bv.c_str() ? bv.c_str() : "";
            std::string w;
            bv.STEPwrite( w );
            int eof = in.eof() ? 1 : 0, fail = in.fail() ? 1 : 0;
            in.clear();
            std::string restbuf;
            char c;
            while( in.get( c ) ) {
                restbuf += c;
            }
            printf( "Y %d %s %d %d %d %d %s\n", v.empty() ? 0 : 1, v.empty() ? "-" : v.c_str(), ( int )err.severity(), ( int )restbuf.size(), eof, fail, w.empty() ? "-" : w.c_str() );
        } else if( k == 'A' ) {
            // an INTEGER as an element of an aggregate: IntNode reads the text; both of its writers and asStr print it
            std::istringstream in( data );
            ErrorDescriptor err;
            IntNode node;
            Severity sev = node.STEPread( in, &err );
            std::string w1, w2;
            node.STEPwrite( w1 );
            std::ostringstream os;
            node.STEPwrite( os );
            node.asStr( w2 );
            printf( "A %d %s %s %s\n", ( int )sev, w1.empty() ? "-" : w1.c_str(), os.str().empty() ? "-" : os.str().c_str(), w2.empty() ? "-" : w2.c_str() );
        } else if( k == 'Q' ) {
            // a REAL as an element of an aggregate
            std::istringstream in( data );
            ErrorDescriptor err;
            RealNode node;
            Severity sev = node.STEPread( in, &err );
            std::string w1, w2;
            node.STEPwrite( w1 );
            std::ostringstream os;
            node.STEPwrite( os );
            node.asStr( w2 );
            printf( "Q %d %s %s %s\n", ( int )sev, w1.empty() ? "-" : w1.c_str(), os.str().empty() ? "-" : os.str().c_str(), w2.empty() ? "-" : w2.c_str() );
        } else if( k == 'W' ) {
            double d = strtod( data.c_str(), 0 );
            char rbuf[64];
            sprintf( rbuf, "%.15G", d );
            std::string w = WriteReal( d );
            printf( "W %s %s\n", rbuf, w.c_str() );
        }
    }
    return 0;
}
