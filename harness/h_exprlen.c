/* h_exprlen: for every expression of a schema (WHERE rules of entities and types, DERIVE and CONSTANT
 * initialisers, aggregate bounds, and every sub-expression of these) print its shape and the number of
 * characters exppp's EXPRlength() -- that is EXPRstring() into the buffer sized by EXPRstring_bound() --
 * reports for it.  The shape names only what the model needs: the kind of node, the lengths of the
 * names, and for a literal or keyword leaf the length EXPRlength() reports for that leaf alone.
 *
 *   E <actual> <shape>
 *   shape := N<len> | B<len> | S<len>q<0|1> | U | Q<len>(shape shape) | F<len>(shape ...)
 *          | G(shape) | O<seplen>(shape [shape]) | A(r<0|1> shape ...) | L(shape ...)
 *
 * built from src/express/fedex.c + this file, linked with libexpress and libexppp */
#include <stdlib.h>
#include <stdio.h>
#include <string.h>
#include "express/express.h"
#include "exppp/exppp.h"

static long count = 0;

static void shape( Expression e ) {
    if( !e ) {
        printf( "U" );
        return;
    }
    switch( TYPEis( e->type ) ) {
        case integer_:
        case real_:
        case logical_:
        case boolean_:
        case self_:
            printf( "N%d", EXPRlength( e ) );
            break;
        case binary_:
            printf( "B%d", ( int )strlen( e->u.binary ) );
            break;
        case string_:
            printf( "S%dq%d", ( int )strlen( e->symbol.name ), TYPEis_encoded( e->type ) ? 1 : 0 );
            break;
        case entity_:
        case identifier_:
        case attribute_:
        case enumeration_:
            printf( "S%dq0", ( int )strlen( e->symbol.name ) );
            break;
        case query_:
            printf( "Q%d(", ( int )strlen( e->u.query->local->name->symbol.name ) );
            shape( e->u.query->aggregate );
            printf( " " );
            shape( e->u.query->expression );
            printf( ")" );
            break;
        case funcall_:
            printf( "F%d(", ( int )strlen( e->symbol.name ) );
            LISTdo( e->u.funcall.list, arg, Expression )
            printf( " " );
            shape( arg );
            LISTod
            printf( ")" );
            break;
        case op_:
            if( e->e.op_code == OP_NEGATE ) {
                printf( "G(" );
                shape( e->e.op1 );
                printf( ")" );
            } else {
                printf( "O%d(", ( e->e.op_code == OP_DOT || e->e.op_code == OP_GROUP ) ? 1 : 0 );
                shape( e->e.op1 );
                if( e->e.op2 ) {
                    printf( " " );
                    shape( e->e.op2 );
                }
                printf( ")" );
            }
            break;
        case aggregate_:
            printf( "A(" );
            LISTdo( e->u.list, arg, Expression )
            printf( " r%d ", arg->type->u.type->body->flags.repeat ? 1 : 0 );
            shape( arg );
            LISTod
            printf( ")" );
            break;
        case oneof_:
            printf( "L(" );
            LISTdo( e->u.list, arg, Expression )
            printf( " " );
            shape( arg );
            LISTod
            printf( ")" );
            break;
        default:
            if( e->symbol.name ) {
                printf( "S%dq0", ( int )strlen( e->symbol.name ) );
            } else {
                printf( "U" );
            }
    }
}

static void visit( Expression e ) {
    if( !e ) {
        return;
    }
    count++;
    printf( "E %d ", EXPRlength( e ) );
    shape( e );
    printf( "\n" );
    switch( TYPEis( e->type ) ) {
        case query_:
            visit( e->u.query->aggregate );
            visit( e->u.query->expression );
            break;
        case funcall_:
            LISTdo( e->u.funcall.list, arg, Expression )
            visit( arg );
            LISTod
            break;
        case op_:
            visit( e->e.op1 );
            visit( e->e.op2 );
            break;
        case aggregate_:
        case oneof_:
            LISTdo( e->u.list, arg, Expression )
            visit( arg );
            LISTod
            break;
        default:
            break;
    }
}

static void visit_type( Type t, int depth ) {
    if( !t || depth > 8 || !t->u.type || !t->u.type->body ) {
        return;
    }
    visit( t->u.type->body->lower );
    visit( t->u.type->body->upper );
    visit( t->u.type->body->precision );
    if( t->u.type->body->base ) {
        visit_type( t->u.type->body->base, depth + 1 );
    }
}

static void visit_wheres( Linked_List w ) {
    if( !w ) {
        return;
    }
    LISTdo( w, wh, Where )
    visit( wh->expr );
    LISTod
}

static void walk( Express model ) {
    DictionaryEntry de, de2;
    Schema s;
    Entity ent;
    Type t;
    Variable v;

    DICTdo_init( model->symbol_table, &de );
    while( 0 != ( s = ( Schema )DICTdo( &de ) ) ) {
        DICTdo_type_init( s->symbol_table, &de2, OBJ_ENTITY );
        while( 0 != ( ent = ( Entity )DICTdo( &de2 ) ) ) {
            visit_wheres( ent->where );
            LISTdo( ent->u.entity->attributes, a, Variable )
            visit( a->name );
            visit( a->initializer );
            visit_type( a->type, 0 );
            LISTod
            if( ent->u.entity->subtype_expression ) {
                visit( ent->u.entity->subtype_expression );
            }
        }
        DICTdo_type_init( s->symbol_table, &de2, OBJ_TYPE );
        while( 0 != ( t = ( Type )DICTdo( &de2 ) ) ) {
            visit_wheres( t->where );
            visit_type( t, 0 );
        }
        DICTdo_type_init( s->symbol_table, &de2, OBJ_VARIABLE );
        while( 0 != ( v = ( Variable )DICTdo( &de2 ) ) ) {
            visit( v->initializer );
            visit_type( v->type, 0 );
        }
    }
    printf( "DONE %ld\n", count );
}

void EXPRESSinit_init( void ) {
    EXPRESSbackend = walk;
}
