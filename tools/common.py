#!/usr/bin/env python3
"""Shared machinery of the /verif checks: implementation build cache, Coq build,
extraction, evidence files, known findings, violation reporting."""
import fcntl
import hashlib
import json
import os
import random
import re
import shutil
import subprocess
import sys
import time

VERIF = os.path.dirname(os.path.dirname(os.path.abspath(__file__)))
REPO = os.environ.get("VERIF_REPO", "/repo")
CACHE = os.environ.get("VERIF_CACHE", "/var/tmp/stepcode-verif")
COQ = os.path.join(VERIF, "coq")
OCAML = os.path.join(VERIF, "ocaml")
HARNESS = os.path.join(VERIF, "harness")
GUARD = "STEPCODE_VERIF"
NCPU = os.cpu_count() or 4

FORBIDDEN = re.compile(
    r"\b(Admitted|admit|Axiom|Axioms|Parameter|Parameters|Conjecture|Conjectures|"
    r"Unset\s+Guard\s+Checking|bypass_check|type-in-type|impredicative-set|"
    r"Unset\s+Positivity\s+Checking|Unset\s+Universe\s+Checking|Admit\s+Obligations)\b")


def log(*a):
    print(*a, file=sys.stderr, flush=True)


def _cpu_limiter(seconds):
    def f():
        import resource
        resource.setrlimit(resource.RLIMIT_CPU, (seconds, seconds + 5))
    return f


def sh(cmd, cwd=None, timeout=None, env=None, input=None, check=False, clean_env=False, cpu=None):
    """Run a command, return (rc, stdout, stderr) as text.  cpu = limit on processor seconds (termination checks
    use it so that a loaded machine does not turn into a false 'does not terminate'); rc 124 for either limit."""
    e = {} if clean_env else dict(os.environ)
    if env:
        e.update(env)
    try:
        p = subprocess.run(cmd, cwd=cwd, timeout=timeout, env=e, input=input,
                           stdout=subprocess.PIPE, stderr=subprocess.PIPE,
                           shell=isinstance(cmd, str), preexec_fn=_cpu_limiter(cpu) if cpu else None)
        out = p.stdout.decode("utf-8", "replace") if isinstance(p.stdout, bytes) else p.stdout
        err = p.stderr.decode("utf-8", "replace") if isinstance(p.stderr, bytes) else p.stderr
        rc = p.returncode
        if cpu and rc in (-24, -9):        # SIGXCPU (soft limit) / SIGKILL (hard limit)
            rc = 124
            err += "\nCPU LIMIT"
    except subprocess.TimeoutExpired as ex:
        out = (ex.stdout or b"").decode("utf-8", "replace")
        err = (ex.stderr or b"").decode("utf-8", "replace") + "\nTIMEOUT"
        rc = 124
    if check and rc != 0:
        raise RuntimeError("command failed (%s): %s\n%s\n%s" % (rc, cmd, out[-3000:], err[-3000:]))
    return rc, out, err


def shb(cmd, cwd=None, timeout=None, env=None, input=None):
    """Like sh but bytes in / bytes out."""
    e = dict(os.environ)
    if env:
        e.update(env)
    try:
        p = subprocess.run(cmd, cwd=cwd, timeout=timeout, env=e, input=input,
                           stdout=subprocess.PIPE, stderr=subprocess.PIPE,
                           shell=isinstance(cmd, str))
        return p.returncode, p.stdout, p.stderr
    except subprocess.TimeoutExpired as ex:
        return 124, ex.stdout or b"", (ex.stderr or b"") + b"\nTIMEOUT"


# --------------------------------------------------------------------------
# implementation build (from /repo's working tree, hooks on)
# --------------------------------------------------------------------------

TREE_DIRS = ["src", "include", "cmake", "CMakeLists.txt"]


def tree_hash():
    h = hashlib.sha256()
    files = []
    for d in TREE_DIRS:
        p = os.path.join(REPO, d)
        if os.path.isfile(p):
            files.append(p)
        else:
            for root, dirs, fs in os.walk(p):
                dirs.sort()
                for f in sorted(fs):
                    files.append(os.path.join(root, f))
    for f in files:
        try:
            with open(f, "rb") as fh:
                data = fh.read()
        except OSError:
            continue
        h.update(os.path.relpath(f, REPO).encode())
        h.update(b"\0")
        h.update(hashlib.sha256(data).digest())
    return h.hexdigest()[:16]


class Lock:
    def __init__(self, path):
        self.path = path

    def __enter__(self):
        os.makedirs(os.path.dirname(self.path), exist_ok=True)
        self.fh = open(self.path, "w")
        fcntl.flock(self.fh, fcntl.LOCK_EX)
        return self

    def __exit__(self, *a):
        fcntl.flock(self.fh, fcntl.LOCK_UN)
        self.fh.close()


CFG_FLAGS = {
    "dbg": "-g -O0",
    "opt": "-g -O1",
    "asan": "-g -O1 -fsanitize=address,undefined -fno-sanitize-recover=all -fno-omit-frame-pointer",
}


def build_impl(cfg="dbg"):
    """cmake+ninja build of the libraries and tools from /repo's working tree into a
    cache directory keyed by the tree hash.  Returns the build directory."""
    th = tree_hash()
    os.makedirs(CACHE, exist_ok=True)
    bdir = os.path.join(CACHE, "%s-%s" % (cfg, th))
    with Lock(os.path.join(CACHE, "lock-" + cfg)):
        # drop stale caches of this configuration: the three most recently used trees are kept (a check of a
        # scratch worktree, VERIF_REPO, may run next to a check of /repo)
        others = [d for d in os.listdir(CACHE) if d.startswith(cfg + "-") and d != os.path.basename(bdir)]
        others.sort(key=lambda d: os.path.getmtime(os.path.join(CACHE, d)), reverse=True)
        for d in others[2:]:
            # never a tree another check may still be working in: only what has not been entered for six hours
            if time.time() - os.path.getmtime(os.path.join(CACHE, d)) > 6 * 3600:
                shutil.rmtree(os.path.join(CACHE, d), ignore_errors=True)
        if os.path.exists(os.path.join(bdir, ".built")):
            os.utime(bdir, None)
            return bdir
        shutil.rmtree(bdir, ignore_errors=True)
        os.makedirs(bdir)
        flags = "-D%s -w %s" % (GUARD, CFG_FLAGS[cfg])
        t0 = time.time()
        rc, out, err = sh(["cmake", "-G", "Ninja", "-S", REPO, "-B", bdir,
                           "-DCMAKE_BUILD_TYPE=None", "-DSC_BUILD_SCHEMAS=",
                           "-DSC_ENABLE_TESTING=OFF",
                           "-DCMAKE_C_FLAGS=" + flags, "-DCMAKE_CXX_FLAGS=" + flags],
                          timeout=600)
        if rc != 0:
            raise BuildError("cmake configure failed:\n" + out[-2000:] + err[-2000:])
        rc, out, err = sh(["cmake", "--build", bdir, "-j", str(NCPU)], timeout=1800)
        if rc != 0:
            raise BuildError("implementation build failed:\n" + out[-4000:] + err[-2000:])
        open(os.path.join(bdir, ".built"), "w").write("%.1f\n" % (time.time() - t0))
    return bdir


class BuildError(Exception):
    pass


CORE_LIBS = ["stepeditor", "stepcore", "stepdai", "steputils"]


def build_harness(bdir, name, cfg="dbg", libs=None, extra_src=(), extra_flags=(), lang="c++"):
    """Compile /verif/harness/<name>.cc against the libraries in bdir."""
    src = os.path.join(HARNESS, name + (".cc" if lang == "c++" else ".c"))
    outdir = os.path.join(bdir, "verif-harness")
    os.makedirs(outdir, exist_ok=True)
    exe = os.path.join(outdir, name)
    stamp = exe + ".stamp"
    sig = hashlib.sha256(open(src, "rb").read() + repr((libs, extra_src, extra_flags)).encode()).hexdigest()
    for x in extra_src:
        sig += hashlib.sha256(open(x, "rb").read()).hexdigest()
    if os.path.exists(exe) and os.path.exists(stamp) and open(stamp).read() == sig:
        return exe
    libs = CORE_LIBS if libs is None else libs
    cc = "g++" if lang == "c++" else "gcc"
    std = "-std=c++11" if lang == "c++" else "-std=c11"
    cmd = [cc, std, "-w", "-D" + GUARD] + CFG_FLAGS[cfg].split() + \
          ["-I" + os.path.join(REPO, "include"), "-I" + os.path.join(bdir, "include"),
           "-I" + os.path.join(REPO, "src"), "-I" + HARNESS] + list(extra_flags) + \
          [src] + list(extra_src) + ["-L" + os.path.join(bdir, "lib"), "-Wl,--disable-new-dtags",
                                     "-Wl,-rpath," + os.path.join(bdir, "lib")] + \
          ["-l" + l for l in libs] + ["-o", exe]
    rc, out, err = sh(cmd, timeout=600)
    if rc != 0:
        raise BuildError("harness %s failed to compile:\n%s" % (name, (out + err)[-4000:]))
    open(stamp, "w").write(sig)
    return exe


# --------------------------------------------------------------------------
# Coq side
# --------------------------------------------------------------------------

def write_if_changed(path, content):
    try:
        if open(path).read() == content:
            return False
    except OSError:
        pass
    os.makedirs(os.path.dirname(path), exist_ok=True)
    with open(path, "w") as f:
        f.write(content)
    return True


def coq_files():
    out = []
    for root, dirs, fs in os.walk(COQ):
        for f in sorted(fs):
            if f.endswith(".v"):
                out.append(os.path.relpath(os.path.join(root, f), COQ))
    return sorted(out)


def coq_makefile():
    files = [f for f in coq_files() if f != "Extract.v"]
    proj = ("-Q . SC\n"
            "-arg -w -arg -notation-overridden,-deprecated-hint-without-locality,"
            "-deprecated-instance-without-locality,-deprecated-syntactic-definition\n"
            + "\n".join(files) + "\n")
    changed = write_if_changed(os.path.join(COQ, "_CoqProject"), proj)
    if changed or not os.path.exists(os.path.join(COQ, "Makefile")):
        sh(["coq_makefile", "-f", "_CoqProject", "-o", "Makefile"], cwd=COQ, check=True)


def forbidden_scan():
    bad = []
    for f in coq_files():
        txt = open(os.path.join(COQ, f)).read()
        # strip comments (non-nested is enough for our sources; nested handled by loop)
        prev = None
        while prev != txt:
            prev = txt
            txt = re.sub(r"\(\*[^*(]*(?:\*(?!\))[^*(]*|\((?!\*)[^*(]*)*\*\)", " ", txt)
        for m in FORBIDDEN.finditer(txt):
            bad.append("%s: %s" % (f, m.group(0)))
    return bad


CURRENT_TIER = ["quick"]      # set by Result(); coq_prove adds coqchk in the thorough tier


def coq_prove(pid, timeout=1500, clean=False):
    """(Re)build Properties_<pid>.vo and its cone.  Returns a dict:
       ok, theorems (names), n_theorems, assumptions (text), log, failed (list of files)."""
    with Lock(os.path.join(CACHE, "lock-coq")):
        coq_makefile()
        target = "Properties_%s.vo" % pid
        tfile = os.path.join(COQ, "Properties_%s.v" % pid)
        if clean:
            sh(["make", "clean"], cwd=COQ)
        # force a re-check of the property file itself
        for ext in (".vo", ".vos", ".vok", ".glob"):
            try:
                os.remove(os.path.join(COQ, "Properties_%s%s" % (pid, ext)))
            except OSError:
                pass
        t0 = time.time()
        rc, out, err = sh(["make", "-k", "-j", str(NCPU), target], cwd=COQ, timeout=timeout)
        txt = open(tfile).read()
        theorems = re.findall(r"^\s*(?:Theorem|Corollary)\s+([A-Za-z0-9_']+)", txt, re.M)
        ok = rc == 0 and os.path.exists(os.path.join(COQ, target))
        failed = re.findall(r"\[([A-Za-z0-9_/]+\.vo)\] Error", out + err)
        failed += re.findall(r'File "\./([A-Za-z0-9_/]+\.v)", line', out + err)
        # Print Assumptions output: blocks in stdout
        assum = []
        closed = out.count("Closed under the global context")
        if closed:
            assum.append("Closed under the global context (x%d)" % closed)
        for m in re.finditer(r"Axioms:\n((?:[ \t]*\S.*\n?)+)", out):
            assum.append("Axioms: " + " ".join(m.group(1).split()))
        chk = None
        if ok and CURRENT_TIER[0] == "thorough":
            # independent re-check of the compiled property file and everything it depends on
            rc2, o2, e2 = sh(["coqchk", "-o", "-silent", "-Q", ".", "SC", "SC.Properties_%s" % pid], cwd=COQ, timeout=1800)
            m = re.search(r"\* Axioms:\s*(.*?)\n\s*\n\s*\*", o2 + e2, re.S)
            axioms = " ".join(m.group(1).split()) if m else "?"
            chk = {"ok": rc2 == 0, "axioms": axioms}
            assum.append("coqchk -o SC.Properties_%s: %s; axioms: %s" % (pid, "ok" if rc2 == 0 else "FAILED", axioms))
            if rc2 != 0:
                ok = False
                failed.append("coqchk")
                out += "\ncoqchk:\n" + (o2 + e2)[-3000:]
        return {"ok": ok, "theorems": theorems, "n_theorems": len(theorems),
                "assumptions": assum, "log": (out + err)[-6000:], "failed": sorted(set(failed)),
                "wall_s": time.time() - t0, "forbidden": forbidden_scan(), "coqchk": chk}


def extract_and_build_drivers():
    """Re-extract the models and rebuild the OCaml drivers when any model .v or
    driver source changed."""
    with Lock(os.path.join(CACHE, "lock-ocaml")):
        h = hashlib.sha256()
        for f in coq_files():
            if f.startswith("Properties_") or f.endswith("_Proofs.v"):
                continue
            h.update(f.encode())
            h.update(open(os.path.join(COQ, f), "rb").read())
        for f in sorted(os.listdir(OCAML)):
            if f.endswith(".ml") or f.endswith(".sh"):
                h.update(open(os.path.join(OCAML, f), "rb").read())
        sig = h.hexdigest()
        stamp = os.path.join(OCAML, "bin", ".stamp")
        if os.path.exists(stamp) and open(stamp).read() == sig:
            return
        # model files must be compiled (.vo) before extraction
        coq_makefile()
        models = [f[:-2] + ".vo" for f in coq_files()
                  if not f.startswith("Properties_") and not f.endswith("_Proofs.v") and f != "Extract.v"]
        rc, out, err = sh(["make", "-j", str(NCPU)] + models, cwd=COQ, timeout=1500)
        if rc != 0:
            raise BuildError("model files do not compile:\n" + (out + err)[-4000:])
        rc, out, err = sh([os.path.join(OCAML, "build.sh")], timeout=900)
        if rc != 0:
            raise BuildError("extraction / driver build failed:\n" + (out + err)[-4000:])
        open(stamp, "w").write(sig)


def driver(name):
    return os.path.join(OCAML, "bin", name)


# --------------------------------------------------------------------------
# findings, replays, evidence
# --------------------------------------------------------------------------

def load_findings(pid):
    path = os.path.join(VERIF, "known_findings.jsonl")
    out = []
    if os.path.exists(path):
        for line in open(path):
            line = line.strip()
            if not line or line.startswith("#"):
                continue
            try:
                j = json.loads(line)
            except ValueError:
                sys.stderr.write("known_findings.jsonl: a line that is not JSON is ignored: %s...\n" % line[:60])
                continue
            if j.get("property") == pid and j.get("status") == "open":
                out.append(j)
    return out


class Result:
    """Collects what one check run saw; prints VIOLATION / KNOWN-FINDING lines."""

    def __init__(self, pid, tier, seed):
        self.pid, self.tier, self.seed = pid, tier, seed
        CURRENT_TIER[0] = tier
        self.t0 = time.time()
        self.violations = 0
        self.known = {}
        self.coverage = {}
        self.assumptions = []
        self.findings = load_findings(pid)
        self.replay_dir = os.path.join(VERIF, "replays", pid)

    def replay_path(self, payload):
        os.makedirs(self.replay_dir, exist_ok=True)
        blob = json.dumps(payload, sort_keys=True, indent=1, default=str)
        name = hashlib.sha256(blob.encode()).hexdigest()[:12] + ".json"
        path = os.path.join(self.replay_dir, name)
        with open(path, "w") as f:
            f.write(blob + "\n")
        return path

    def violation(self, what, payload, found_input=True, signature=None):
        """Report a violation unless it matches an open known finding
        (signature equality decided by the caller's classifier)."""
        if signature is not None:
            for f in self.findings:
                if f.get("signature") == signature:
                    if signature not in self.known:
                        self.known[signature] = 0
                        print("KNOWN-FINDING: property=%s %s" % (self.pid, f.get("what", signature)), flush=True)
                    self.known[signature] += 1
                    return False
        payload = dict(payload)
        payload.update({"property": self.pid, "what": what, "seed": self.seed, "tier": self.tier})
        path = self.replay_path(payload)
        self.violations += 1
        if self.violations <= 5:
            tail = "" if found_input else " no-failing-input-found"
            print("VIOLATION property=%s replay=%s%s" % (self.pid, path, tail), flush=True)
            log("  -> " + what)
        return True

    def finish(self, level="proof"):
        cov = dict(self.coverage)
        cov.setdefault("known_findings_hit", self.known)
        ev = {"property_id": self.pid, "tier": self.tier, "seed": self.seed, "level": level,
              "coverage": cov, "assumptions": self.assumptions,
              "wall_s": round(time.time() - self.t0, 2), "violations": self.violations}
        os.makedirs(os.path.join(VERIF, "evidence"), exist_ok=True)
        with open(os.path.join(VERIF, "evidence", self.pid + ".json"), "w") as f:
            json.dump(ev, f, indent=1, sort_keys=True, default=str)
            f.write("\n")
        return 1 if self.violations else 0


TRUSTED_BASE_COMMON = [
    "Coq 8.16.1 kernel (coqc); vm_compute used for finite sweeps and witnesses; native_compute not used",
    "no Axiom/Parameter/Admitted in /verif/coq (checked by grep on every run)",
    "hand-written Gallina model tied to the code only through the correspondence run of this check",
    "extraction with ExtrOcamlBasic only (bool, option, list, prod, unit, sumbool); no Extract Constant; "
    "OCaml 4.13.1 compiler and ocaml/conv.ml + driver trusted for the correspondence only",
    "harness under /verif/harness compiled against libraries built from /repo's working tree with -DSTEPCODE_VERIF",
]


def proof_coverage(res, pr, extra_trusted=()):
    """Fill the proof-level keys of the evidence from a coq_prove() result."""
    res.coverage["obligations"] = pr["n_theorems"]
    res.coverage["discharged"] = pr["n_theorems"] if pr["ok"] else 0
    res.coverage["theorems"] = pr["theorems"]
    res.coverage["checker_cmd"] = "make -C /verif/coq -k -j%d Properties_%s.vo (coqc 8.16.1, full .vo build)" % (NCPU, res.pid)
    if pr.get("coqchk"):
        res.coverage["checker_cmd"] += "; coqchk -o -silent -Q . SC SC.Properties_%s" % res.pid
    res.coverage["print_assumptions"] = pr["assumptions"]
    res.coverage["trusted_base"] = TRUSTED_BASE_COMMON + list(extra_trusted)
    res.coverage["coq_wall_s"] = round(pr["wall_s"], 1)


def rng(seed, stream):
    return random.Random("%s/%s" % (seed, stream))
