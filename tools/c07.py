#!/usr/bin/env python3
"""C07 -- pretty-printed EXPRESS is valid, equivalent to its source and stable.
Coq: Properties_C07.v over coq/ExpPP.v (the parenthesisation rule of pretty_expr.c: printing,
re-reading, stability).  Correspondence / oracle: schemas from a grammar-directed generator
(every expression operator, literal kind, statement kind, aggregate initialiser with
repetition, QUERY, interval, labelled and unlabelled rules, tail remarks) and shipped schemas
through exppp at several line lengths: the output must be accepted by the parser, contain the
same declarations token for token up to parentheses / white space / remarks / letter case, and
print to itself (up to line breaks) when printed again; the printed form of generated
expression trees is compared token by token with the extracted model."""
import glob
import os
import re
import shutil
import sys

sys.path.insert(0, os.path.dirname(os.path.abspath(__file__)))
from common import *  # noqa
import gen_express as G
from c17 import enrich
import translate

PID = "C07"

TOKRE = re.compile(r"""\(\*.*?\*\)|--[^\n]*|'(?:[^'\n]|'')*'|"[0-9A-Fa-f]*"|%[01]+|[0-9]+\.[0-9]*(?:[eE][-+]?[0-9]+)?|[0-9]+|[A-Za-z_][A-Za-z0-9_]*|<\*|<=|>=|<>|:=:|:<>:|:=|\*\*|\|\||.""", re.S)


def strip_remarks(text):
    """the text without its remarks: embedded remarks nest ((* a (* b *) c *)), a tail remark runs to the end of its line,
    neither starts inside a string literal or inside the other kind"""
    out, i, n = [], 0, len(text)
    while i < n:
        c = text[i]
        if c == "'":
            j = i + 1
            while j < n and text[j] != "\n":
                if text[j] == "'":
                    if text[j + 1:j + 2] == "'":
                        j += 2
                        continue
                    break
                j += 1
            out.append(text[i:j + 1])
            i = j + 1
        elif text.startswith("--", i):
            j = text.find("\n", i)
            i = n if j < 0 else j
        elif text.startswith("(*", i):
            depth, j = 1, i + 2
            while j < n and depth:
                if text.startswith("(*", j):
                    depth += 1
                    j += 2
                elif text.startswith("*)", j):
                    depth -= 1
                    j += 2
                else:
                    j += 1
            out.append(" ")
            i = j
        else:
            out.append(c)
            i += 1
    return "".join(out)


def tokens(text, keep_parens=False):
    out = []
    for t in TOKRE.findall(strip_remarks(text)):
        if t.isspace() or t.startswith("(*") or t.startswith("--"):
            continue
        if t in "()" and not keep_parens:
            continue
        if t.startswith("'"):
            out.append(t)
        elif re.match(r"^[0-9]+\.[0-9]*([eE][-+]?[0-9]+)?$", t):
            try:
                out.append(repr(float(t)))
            except ValueError:
                out.append(t.lower())
        else:
            out.append(t.lower())
    return out


def normalise(toks):
    """representation choices of the parser that the printer cannot undo: the default increment
    of REPEAT made explicit (BY 1), an interval {a < x < b} kept as (a < x) AND (x < b)"""
    out = []
    i = 0
    while i < len(toks):
        t = toks[i]
        if t == "by" and i + 2 < len(toks) and toks[i + 1] == "1" and toks[i + 2] in (";", "while", "until"):
            i += 2
            continue
        # "a , b , c : T" declares the same as "a : T ; b : T ; c : T"
        if re.match(r"^[a-z_][a-z0-9_]*$", t) and i + 1 < len(toks) and toks[i + 1] == "," and (not out or out[-1] in (";", "(", "local", "var") or out[-1] in END_KW or True):
            j = i
            names = []
            while j + 1 < len(toks) and re.match(r"^[a-z_][a-z0-9_]*$", toks[j]) and toks[j + 1] == ",":
                names.append(toks[j])
                j += 2
            if j + 1 < len(toks) and re.match(r"^[a-z_][a-z0-9_]*$", toks[j]) and toks[j + 1] == ":" and (not out or out[-1] in (";", "local", "var", "entity") or
                                                                                                     (out and out[-1] not in (",", "[", "of", "oneof", "for", "from", "use", "reference", "|"))):
                prev = out[-1] if out else ""
                if prev in (";", "local", "var", "(") or (len(out) >= 2 and out[-2] in ("function", "procedure", "entity")):
                    names.append(toks[j])
                    k2 = j + 2
                    depth = 0
                    while k2 < len(toks) and not (depth == 0 and toks[k2] in (";", ")")):
                        if toks[k2] in ("[", "{", "("):
                            depth += 1
                        elif toks[k2] in ("]", "}", ")"):
                            depth -= 1
                        k2 += 1
                    ty = toks[j + 2:k2]
                    for n_i, nm in enumerate(names):
                        # VAR a, b : T makes every name of the group a VAR parameter
                        out += (["var"] if n_i > 0 and prev == "var" else []) + [nm, ":"] + ty
                        if n_i < len(names) - 1:
                            out.append(";")
                    i = k2
                    continue
        if t == "{":
            j = toks.index("}", i)
            inner = toks[i + 1:j]
            rel = [k for k, x in enumerate(inner) if x in ("<", "<=")]
            if len(rel) >= 2:
                a, b = rel[0], rel[-1]
                mid = inner[a + 1:b]
                out += inner[:a] + [inner[a]] + mid + ["and"] + mid + [inner[b]] + inner[b + 1:]
                i = j + 1
                continue
        out.append(t)
        i += 1
    return out


END_KW = {"end_entity", "end_type", "end_function", "end_procedure", "end_rule", "end_constant", "end_schema"}


def declarations(text):
    """multiset of declarations (token tuples), schema headers and interface lines included"""
    toks = [t for t in normalise(tokens(text, True)) if t not in "()"]
    # long string literals are split at dots into 'a.' + 'b': join them again
    merged = []
    for t in toks:
        if t.startswith("'") and len(merged) >= 2 and merged[-1] == "+" and merged[-2].startswith("'"):
            merged.pop()
            merged[-1] = merged[-1][:-1] + t[1:]
        else:
            merged.append(t)
    toks = merged
    # the items of a CONSTANT block are printed in alphabetical order: compare them one by one
    out = []
    i = 0
    while i < len(toks):
        if toks[i] == "constant":
            j = toks.index("end_constant", i)
            item = []
            for t in toks[i + 1:j]:
                item.append(t)
                if t == ";":
                    out += ["constant"] + item[:-1] + [";", "end_constant", ";"]
                    item = []
            i = j + 2
            continue
        if toks[i] in ("use", "reference") and i + 2 < len(toks) and toks[i + 1] == "from" and ";" in toks[i:]:
            # the items of an interface list are printed in alphabetical order, which changes nothing: compare them sorted
            j = toks.index(";", i)
            items, item = [], []
            for t in toks[i + 3:j]:
                if t == ",":
                    items.append(item)
                    item = []
                else:
                    item.append(t)
            if item:
                items.append(item)
            items.sort()
            out += toks[i:i + 3]
            for k, it in enumerate(items):
                out += ([","] if k else []) + it
            out.append(";")
            i = j + 1
            continue
        out.append(toks[i])
        i += 1
    toks = out
    # declarations; a declaration nested in a FUNCTION / PROCEDURE / RULE is taken out of its
    # parent and compared on its own (exppp sorts them by name, which changes no declaration)
    OPEN = ("function", "procedure", "rule", "entity", "type", "constant")
    decls = []
    stack = []
    cur = []
    i = 0
    while i < len(toks):
        t = toks[i]
        if t in OPEN:
            if stack:
                parent = stack[-1]
                pname = (parent[3] if parent[0] == "nested-in" else parent[1]) if len(parent) > 3 or (parent[0] != "nested-in" and len(parent) > 1) else "?"
                stack.append(["nested-in", pname, t])
            else:
                if cur:
                    decls.append(tuple(cur))
                    cur = []
                stack.append([t])
        elif stack:
            stack[-1].append(t)
            if t == ";" and len(stack[-1]) > 1 and stack[-1][-2] in END_KW:
                decls.append(tuple(stack.pop()))
        else:
            cur.append(t)
            if t == ";" and cur[0] in ("schema", "use", "reference", "end_schema"):
                decls.append(tuple(cur))
                cur = []
        i += 1
    for rest in stack:
        decls.append(tuple(rest))
    if cur:
        decls.append(tuple(cur))
    # every declaration belongs to the schema it stands in (a file may hold several schemas, printed in another order)
    owned = []
    sch = "?"
    for d in decls:
        if d and d[0] == "schema" and len(d) > 1:
            sch = d[1]
        owned.append(("in", sch) + d)
    decls = owned
    return sorted(decls)


# ---------------------------------------------------------------- expression trees (for the model)
CHAIN = ["+", "*", "and", "or", "xor", "||", "="]
PLAIN = ["-", "/", "div", "mod", "**", "<", ">", "<=", ">=", "<>", ":=:", ":<>:", "in", "like"]


def gen_tree(r, depth, kind="num"):
    """kind num / bool; ('a', name) | ('b', op, l, r) | ('u', op, x)"""
    if depth <= 0 or r.random() < 0.25:
        return ("a", r.choice(["x", "y", "z", "1", "2", "7"]) if kind == "num" else r.choice(["p", "q", "TRUE", "FALSE"]))
    k = r.random()
    if kind == "num":
        if k < 0.55:
            return ("b", r.choice(["+", "*"]), gen_tree(r, depth - 1), gen_tree(r, depth - 1))
        if k < 0.9:
            return ("b", r.choice(["-", "/", "div", "mod", "**"]), gen_tree(r, depth - 1), gen_tree(r, depth - 1))
        return ("u", "-", gen_tree(r, depth - 1))
    if k < 0.45:
        return ("b", r.choice(["and", "or", "xor"]), gen_tree(r, depth - 1, "bool"), gen_tree(r, depth - 1, "bool"))
    if k < 0.8:
        return ("b", r.choice(["<", ">", "<=", ">=", "<>", "="]), gen_tree(r, depth - 1), gen_tree(r, depth - 1))
    return ("u", "not", gen_tree(r, depth - 1, "bool"))


def src_tree(t):
    if t[0] == "a":
        return t[1]
    if t[0] == "u":
        return "(%s (%s))" % (t[1].upper(), src_tree(t[2])) if t[1] == "not" else "(-(%s))" % src_tree(t[2])
    return "(%s %s %s)" % (src_tree(t[2]), t[1].upper(), src_tree(t[3]))


def model_tree(t, opid):
    if t[0] == "a":
        return "A%s" % t[1]
    if t[0] == "u":
        return "U%d(%s)" % (opid[("u", t[1])], model_tree(t[2], opid))
    return "B%d(%s;%s)" % (opid[t[1]], model_tree(t[2], opid), model_tree(t[3], opid))


# ---------------------------------------------------------------- rich schemas
def rich_schema(r, k, trees):
    name = "pp_%d" % k
    L = ["SCHEMA %s;" % name, "CONSTANT", "  c_int : INTEGER := 5;", "  c_real : REAL := 1.5E2;", "  c_str : STRING := 'it''s';",
         "  c_bin : BINARY := %1011;", "  c_log : LOGICAL := UNKNOWN;", "  c_r20 : REAL := 1.0E20;", "  c_r100 : REAL := 1.0E100;", "  c_rm10 : REAL := 2.5E-10;",
         "  c_r30 : REAL := 4.0E30;", "  c_rm7 : REAL := 1.0E-7;", "  c_r23 : REAL := 6.02E23;", "  c_r15 : REAL := 1.0E15;", "  c_rm5 : REAL := 9.99E-5;", "  c_rbig : REAL := 123456789012345.0;",
         "  c_rm101 : REAL := 7.0E-101;", "  c_r0 : REAL := 0.0;", "  c_r308 : REAL := 1.5E308;", "  c_agg : LIST [0:?] OF INTEGER := [0 : 3, 1, 2];",
         "  c_rep : LIST [0:?] OF INTEGER := [7 : 1, 1, 0, 1, 0 : 2];", "END_CONSTANT;", ""]
    L += ["TYPE small = INTEGER;", "WHERE", "  wr1 : {0 <= SELF < 100};", "  SELF <> 13;", "END_TYPE;  -- tail remark small", ""]
    L += ["TYPE colour = ENUMERATION OF (red, green, blue);", "END_TYPE;", ""]
    L += ["ENTITY base_e", "  ABSTRACT SUPERTYPE OF (ONEOF (left_e, right_e) ANDOR extra_e);", "  x : INTEGER;", "  y : INTEGER;", "  z : OPTIONAL INTEGER;",
          "  p : BOOLEAN;", "  q : BOOLEAN;", "  nm : STRING;", "  vals : LIST [0:?] OF INTEGER;", "DERIVE", "  s : INTEGER := x + y * 2;", "UNIQUE", "  ur1 : nm;", "  ur2 : x, y;", "WHERE"]
    for i, t in enumerate(trees):
        L.append("  wr_%d : %s;" % (i, src_tree(t) if t[0] != "a" or t[1] in ("p", "q", "TRUE", "FALSE") else "(%s >= 0)" % t[1]))
    L += ["  SIZEOF (QUERY (v <* vals | v > x)) >= 0;", "  wr_in : x IN vals;", "  wr_like : nm LIKE 'a*';", "  wr_idx : vals[1] + vals[2] > 0;",
          "  wr_exists : EXISTS (z) OR (NVL (z, 0) = 0);", "  wr_eqr : p = (q = TRUE);", "  wr_eql : (p = q) = TRUE;", "  wr_sub : x - (y - z) > 0;", "END_ENTITY;", ""]
    L += ["ENTITY left_e", "  SUBTYPE OF (base_e);", "  l : colour;", "WHERE", "  wl : SELF\\base_e.x > 0;", "END_ENTITY;", "",
          "ENTITY right_e", "  SUBTYPE OF (base_e);", "  rr : REAL;", "END_ENTITY;", "",
          "ENTITY extra_e", "  SUBTYPE OF (base_e);", "  other : base_e;", "INVERSE", "  back : SET [0:?] OF holder_e FOR item;", "END_ENTITY;", "",
          "ENTITY holder_e;", "  item : extra_e;", "END_ENTITY;", ""]
    L += ["FUNCTION f_all (a : INTEGER; b : LIST [0:?] OF INTEGER) : INTEGER;", "  LOCAL", "    i : INTEGER := 0;", "    acc : INTEGER;", "    t : LIST [0:?] OF INTEGER := [];", "  END_LOCAL;",
          "  acc := a ** 2;", "  IF (a > 0) AND (SIZEOF (b) > 0) THEN", "    acc := acc + b[1];", "  ELSE", "    acc := -acc;", "  END_IF;",
          "  CASE a OF", "    1 : acc := 1;", "    2, 3 : BEGIN", "      acc := 2;", "      acc := acc * 3;", "    END;", "    OTHERWISE : acc := acc;", "  END_CASE;",
          "  REPEAT i := 1 TO 10 BY 2;", "    acc := acc + i;", "    IF acc > 100 THEN", "      ESCAPE;", "    END_IF;", "  END_REPEAT;",
          "  REPEAT WHILE acc > 10;", "    acc := acc DIV 2;", "  END_REPEAT;", "  REPEAT UNTIL acc MOD 2 = 0;", "    acc := acc + 1;", "    SKIP;", "  END_REPEAT;",
          "  ALIAS bb FOR b;", "    acc := acc + SIZEOF (bb);", "  END_ALIAS;", "  INSERT (t, acc, 0);", "  t := [b[1] : a, 5 : a + 1, 6 : SIZEOF (b), 7 : 2];", "  RETURN (acc + ABS (a) + c_int);", "END_FUNCTION;", ""]
    L += ["PROCEDURE p_one (VAR n : INTEGER);", "  n := n + 1;", "END_PROCEDURE;", ""]
    L += ["RULE r_one FOR (base_e);", "  LOCAL", "    cnt : INTEGER := 0;", "  END_LOCAL;", "  cnt := SIZEOF (base_e);", "WHERE", "  wr1 : cnt >= 0;", "  cnt < 1000000;", "END_RULE;", ""]
    L += ["END_SCHEMA;"]
    return name, "\n".join(L) + "\n"


def _balanced(ts):
    d = 0
    for t in ts:
        if t == "(":
            d += 1
        elif t == ")":
            d -= 1
            if d < 0:
                return False
    return d == 0


def main(tier, seed):
    res = Result(PID, tier, seed)
    try:
        translate.run_all(PID)
    except translate.AnchorLost as e:
        res.violation("translator lost its anchor: %s" % e, {"theorem_or_correspondence": "tools/translate.py gen_pprule"}, found_input=False)
    pr = coq_prove(PID)
    proof_coverage(res, pr, ["coq/gen/PPRule.v regenerated from pretty_expr.c (which binary operators are printed without parentheses under the same operator)",
                             "layout (indentation, line breaking, long-string splitting), statements and declarations are not modelled: observed through re-parsing"])
    if pr["forbidden"]:
        res.violation("forbidden vernacular in coq/", {"forbidden": pr["forbidden"]}, found_input=False)
    try:
        bdir = build_impl("dbg")
        extract_and_build_drivers()
    except BuildError as e:
        res.violation("build failed: %s" % e, {"error": str(e)}, found_input=False)
        res.coverage.update({"evaluations": 0, "distinct_nontrivial": 0})
        return res.finish()
    drv = driver("drv_c07")
    exppp = os.path.join(bdir, "bin", "exppp")
    chk = os.path.join(bdir, "bin", "check-express")
    wroot = os.path.join(bdir, "verif-work", "c07-%d" % os.getpid())
    shutil.rmtree(wroot, ignore_errors=True)
    os.makedirs(wroot)
    evals = 0
    oracle_fail = 0
    disagreements = 0
    nontrivial = 0
    hist = {"generated": 0, "rich": 0, "shipped": 0, "line_lengths": 0, "expression_trees": 0, "generator_rejected": 0}
    samples = []
    opid = {}
    mtxt = open(os.path.join(COQ, "gen", "PPRule.v")).read()
    for m in re.finditer(r"\(\* op (\d+) = (\S+) \*\)", mtxt):
        opid[m.group(2).lower()] = int(m.group(1))
    opid[("u", "not")] = opid.get("not", 0)
    opid[("u", "-")] = opid.get("negate", 0)
    idtok = {}
    for m in re.finditer(r"\| (\d+) => \w+\s+\(\* op \d+ = (\S+) \*\)", mtxt):
        idtok[int(m.group(1))] = m.group(2).lower()
    idtok[opid["div"]] = "div"

    def save(name, text):
        os.makedirs(res.replay_dir, exist_ok=True)
        p = os.path.join(res.replay_dir, name)
        open(p, "w", encoding="latin-1").write(text)
        return p

    def pp(src_path, outdir, opts):
        os.makedirs(outdir, exist_ok=True)
        rc, so, se = sh([exppp] + opts + [src_path], cwd=outdir, timeout=300)
        outs = sorted(glob.glob(os.path.join(outdir, "*.exp")))
        return rc, outs, (so + se)

    def roundtrip(tag, text, lengths, cls, keep=False):
        """returns printed text at the default length (or None)"""
        nonlocal evals, oracle_fail, nontrivial
        d = os.path.join(wroot, tag)
        os.makedirs(d)
        srcp = os.path.join(d, "src.exp")
        open(srcp, "w", encoding="latin-1").write(text)
        rc0, o0, e0 = sh([chk, srcp], timeout=300)
        if rc0 != 0:
            hist["generator_rejected"] += 1
            if cls != "shipped":
                res.violation("the check's generator produced a schema the parser rejects: %s" % (o0 + e0)[-200:], {"input_file": save("c07-gen-%s.exp" % tag, text)}, found_input=False)
            return None
        first = None
        for ll in lengths:
            evals += 1
            hist["line_lengths"] += 1
            if isinstance(ll, tuple):          # option letters plus an optional length: ("tc", 40)
                opts = ["-" + c for c in ll[0]] + ([] if ll[1] is None else ["-l", str(ll[1])])
                ll = "%s%s" % ll
            else:
                opts = [] if ll is None else ["-l", str(ll)]
            what = None
            sig_split = None
            rc, outs, msg = pp(srcp, os.path.join(d, "o1_%s" % ll), opts)
            if rc != 0 or not outs:
                what = "exppp %s fails on an accepted schema (status %d): %s" % (" ".join(opts), rc, msg[-200:])
            else:
                printed = "".join(open(o, encoding="latin-1").read() for o in outs)
                if first is None:
                    first = printed
                cat = os.path.join(d, "cat_%s.exp" % ll)
                open(cat, "w", encoding="latin-1").write(printed)
                rc1, o1, e1 = sh([chk, cat], timeout=300)
                if rc1 != 0:
                    emsgs = [l for l in (o1 + e1).split("\n") if "ERROR" in l]
                    what = "the output of exppp %s is rejected by the parser: %s" % (" ".join(opts), (emsgs or [(o1 + e1).strip().split("\n")[0]])[0][-160:])
                    # a name imported under an alias (REFERENCE FROM s (x AS y)) printed with its original name
                    und = [re.search(r"undefined (?:type|entity|object) (\w+)", l) for l in emsgs]
                    if emsgs and all(m_ and re.search(r"\b%s\s+AS\s+\w+" % re.escape(m_.group(1)), text, re.I) for m_ in und):
                        sig_split = "renamed_import_printed_with_original_name"
                else:
                    da, db = declarations(text), declarations(printed)
                    # -t: the remark after END_xxx; names the thing that ends there - an identifier of the source, never a stray '(null)'
                    if "-t" in opts:
                        src_ids = set(w.lower() for w in re.findall(r"[A-Za-z_][A-Za-z0-9_]*", text))
                        for m_ in re.finditer(r"\bEND_\w+\s*;[ \t]*--[ \t]*(\S*)", printed):
                            if m_.group(1).lower() not in src_ids:
                                what = "exppp -t writes the tail remark '-- %s' after %s: no such name in the source" % (m_.group(1), m_.group(0).split(";")[0])
                                break
                    if what:
                        pass
                    elif da != db:
                        only_a = [x for x in da if x not in db]
                        only_b = [x for x in db if x not in da]
                        xa, xb = (only_a or [()])[0], (only_b or [()])[0]
                        i = next((i for i, (p_, q_) in enumerate(zip(xa, xb)) if p_ != q_), min(len(xa), len(xb)))
                        what = "exppp %s changes a declaration: source ...%s... printed ...%s..." % (" ".join(opts), " ".join(xa[max(0, i - 6):i + 5]), " ".join(xb[max(0, i - 6):i + 5]))
                    else:
                        rc2, outs2, msg2 = pp(cat, os.path.join(d, "o2_%s" % ll), opts)
                        if rc2 != 0 or not outs2:
                            what = "exppp %s fails on its own output (status %d)" % (" ".join(opts), rc2)
                        else:
                            again = "".join(open(o, encoding="latin-1").read() for o in outs2)
                            def merged(ts):
                                out_ = []
                                for t_ in ts:
                                    if t_ in "()":
                                        continue
                                    if t_.startswith("'") and len(out_) >= 2 and out_[-1] == "+" and out_[-2].startswith("'"):
                                        out_.pop()
                                        out_[-1] = out_[-1][:-1] + t_[1:]
                                    else:
                                        out_.append(t_)
                                return out_
                            if tokens(again, True) != tokens(printed, True) and merged(tokens(again, True)) == merged(tokens(printed, True)) and \
                                    any(t_.startswith("'") for t_ in tokens(printed, True)) and re.search(r"'\s*\+\s*'", printed + again):
                                sig_split = "split_string_reprinted_differently"
                            else:
                                sig_split = None
                            if tokens(again, True) != tokens(printed, True):
                                ta, tb = tokens(printed, True), tokens(again, True)
                                i = next((i for i, (p_, q_) in enumerate(zip(ta, tb)) if p_ != q_), min(len(ta), len(tb)))
                                what = "printing the output of exppp %s again changes it: ...%s... becomes ...%s..." % (" ".join(opts), " ".join(ta[max(0, i - 6):i + 5]), " ".join(tb[max(0, i - 6):i + 5]))
                            else:
                                nontrivial += 1
            if what:
                oracle_fail += 1
                res.violation(what, {"input_file": save("c07-%s.exp" % tag, text), "replay": "%s %s <file>" % (exppp, " ".join(opts))},
                              signature=(sig_split if ("again changes it" in what or sig_split == "renamed_import_printed_with_original_name") else None))
                if not (sig_split and ("again changes it" in what or sig_split == "renamed_import_printed_with_original_name")):
                    break
        if not keep:
            shutil.rmtree(d, ignore_errors=True)
        return first

    lengths = [None, 40, 200, ("t", None), ("c", 60), ("tc", 30)] if tier == "quick" else \
        [None, 10, 20, 40, 75, 132, 1000, 99999, ("t", None), ("c", None), ("tc", None), ("t", 10), ("c", 25), ("tc", 40), ("c", 75), ("tc", 99999)]
    ngen = 6 if tier == "quick" else 100
    for k in range(ngen):
        r = rng(seed, "c07/%d" % k)
        S = enrich(r, G.gen_schema(r, name="gpp_%d" % k))
        hist["generated"] += 1
        roundtrip("g%d" % k, G.render(S, tail_remarks=(k % 2 == 0), r=r), lengths, "generated")
    nrich = 4 if tier == "quick" else 60
    for k in range(nrich):
        r = rng(seed, "c07r/%d" % k)
        trees = []
        while len(trees) < 8:
            t = gen_tree(r, r.randint(1, 4), "bool")
            if re.search(r"\b[pqxyz]\b", src_tree(t)):      # a WHERE rule must mention an attribute
                trees.append(t)
        name, text = rich_schema(r, k, trees)
        hist["rich"] += 1
        printed = roundtrip("r%d" % k, text, lengths, "rich")
        if printed is None:
            continue
        # parentheses that are not redundant must survive
        for lab, want in (("wr_eqr", ["p", "=", "(", "q", "=", "true", ")"]),
                          ("wr_sub", ["(", "x", "-", "(", "y", "-", "z", ")", ")", ">", "0"])):
            m = re.search(r"\b%s\s*:(.*?);" % lab, printed, re.S)
            got = tokens(m.group(1), True) if m else []
            while len(got) >= 2 and got[0] == "(" and got[-1] == ")" and _balanced(got[1:-1]):
                got = got[1:-1]
            evals += 1
            if got != want:
                oracle_fail += 1
                res.violation("exppp prints rule %s as '%s': the grouping of the source '%s' is lost" % (lab, " ".join(got), " ".join(want)),
                              {"input_file": save("c07-rich-%d.exp" % k, text)})
        # model: printed form of each wr_<i> vs ExpPP.v
        for i, t in enumerate(trees):
            m = re.search(r"\bwr_%d\s*:(.*?);" % i, printed, re.S)
            if not m or t[0] == "a":
                continue
            got = [x for x in tokens(m.group(1), True)]
            rcm, mo, me = sh([drv], input=("W " + model_tree(t, opid) + "\n").encode(), timeout=60)
            want = [idtok.get(int(w[2:]), w) if re.match(r"^(op|un)\d+$", w) else w for w in mo.split()]
            hist["expression_trees"] += 1
            evals += 1
            if want != got:
                disagreements += 1
                res.violation("model ExpPP.v prints %s, exppp prints %s for the tree %s" % (" ".join(want), " ".join(got), src_tree(t)),
                              {"input_file": save("c07-rich-%d.exp" % k, text), "theorem_or_correspondence": "correspondence C07: coq/ExpPP.v vs pretty_expr.c"}, found_input=False)
            # the reader of ExpParse.v (no operator precedence) applied to what exppp really printed
            # must give the flattened source tree (Properties_C07 c07_text_determines_tree)
            rtoks = []
            for j, w in enumerate(got):
                if w in ("(", ")"):
                    rtoks.append(w)
                elif w in ("-", "not") and (j == 0 or got[j - 1] == "(" or got[j - 1] in opid) and (w == "not" or j == 0 or got[j - 1] != ")"):
                    rtoks.append("un%d" % opid[("u", w)])
                elif w in opid:
                    rtoks.append("op%d" % opid[w])
                else:
                    rtoks.append("a:" + w)
            rcm, mo2, me = sh([drv], input=("F %s\nR %s\n" % (model_tree(t, opid), " ".join(rtoks))).encode(), timeout=60)
            lines2 = mo2.split("\n")
            evals += 1
            hist["read_back_trees"] = hist.get("read_back_trees", 0) + 1
            if len(lines2) < 2 or lines2[0] != lines2[1]:
                disagreements += 1
                res.violation("reading exppp's text '%s' without operator precedence (ExpParse.v) gives %s, the flattened source tree is %s" %
                              (" ".join(got), lines2[1] if len(lines2) > 1 else "?", lines2[0] if lines2 else "?"),
                              {"input_file": save("c07-rich-%d.exp" % k, text), "theorem_or_correspondence": "correspondence C07: coq/ExpParse.v parse vs exppp output"}, found_input=False)
    # declarations: every form of type (widths, FIXED, precision, bounds, UNIQUE / OPTIONAL elements, nested aggregates, selects
    # of selects), entity header (AND / ANDOR nesting, ABSTRACT, several supertypes), redeclared and derived-redeclared
    # attributes, INVERSE with and without bounds, UNIQUE over several attributes, GENERIC / AGGREGATE parameters with labels,
    # grouped parameters, VAR, procedure calls, qualified targets, RETURN without value, a rule over two entities, USE /
    # REFERENCE with AS, two schemas in one file
    # the valid corpus of C04 (chained USE with AS, every REPEAT control combination, recursion through a SELECT, nested
    # functions, ALIAS / QUERY, redeclared attributes ...)
    for vp in sorted(glob.glob(os.path.join(VERIF, "corpus", "C04", "valid", "*.exp"))):
        vt = open(vp).read()
        if re.search(r"\bAS\s+\w+", vt):
            continue                      # aliased imports are an open finding (decl.exp shows it)
        if re.search(r"^-- known: ", vt, re.M):
            continue                      # a valid schema the parser rejects (open finding of C04): nothing to print
        hist["valid_corpus"] = hist.get("valid_corpus", 0) + 1
        roundtrip("vc_" + os.path.basename(vp)[:-4], vt, lengths[:3], "rich")
        # to standard output (-o --): every schema of the file, one after the other
        names_ = re.findall(r"(?im)^\s*SCHEMA\s+(\w+)\s*;", vt)
        if len(names_) >= 2:
            rco, oo, eo = sh([os.path.join(bdir, "bin", "exppp"), "-o", "--", vp], timeout=60, cwd=wroot)
            evals += 1
            hist["stdout_runs"] = hist.get("stdout_runs", 0) + 1
            missing_ = [n_ for n_ in names_ if not re.search(r"(?i)\bSCHEMA\s+%s\s*;" % n_, oo)]
            if rco != 0 or missing_:
                oracle_fail += 1
                res.violation("exppp -o -- on %s (schemas %s): status %d, schemas missing from the output: %s" % (os.path.basename(vp), names_, rco, missing_),
                              {"input_file": vp, "replay": "%s/bin/exppp -o -- %s" % (bdir, vp)})
    # INTEGER literals at and beyond the range of int (beyond: open finding integer_literal_beyond_int)
    for lit_ in ("2147483647", "2147483648", "99999999999"):
        fbig = os.path.join(wroot, "big_integer.exp")
        open(fbig, "w").write("SCHEMA big_integer;\nCONSTANT\n  big : INTEGER := %s;\nEND_CONSTANT;\nEND_SCHEMA;\n" % lit_)
        rcb_, ob_, eb_ = sh([os.path.join(bdir, "bin", "exppp"), "-o", "--", fbig], timeout=60, cwd=wroot)
        evals += 1
        hist["integer_literals"] = hist.get("integer_literals", 0) + 1
        mlit = re.search(r":=\s*(-?\s*-?\d+)", ob_)
        if rcb_ != 0 or not mlit or mlit.group(1).replace(" ", "") != lit_:
            oracle_fail += 1
            res.violation("the INTEGER literal %s is printed as %s (status %d)" % (lit_, mlit.group(1) if mlit else None, rcb_),
                          {"replay": "%s/bin/exppp -o -- <SCHEMA s; CONSTANT big : INTEGER := %s; END_CONSTANT; END_SCHEMA;>" % (bdir, lit_)},
                          signature="integer_literal_beyond_int" if int(lit_) > 2147483647 else None)
    dpath = os.path.join(VERIF, "corpus", "C07", "decl.exp")
    if os.path.exists(dpath):
        hist["declaration_schema"] = 1
        dtext = open(dpath).read()
        roundtrip("decl", dtext, lengths[:1], "rich")         # with an aliased import (open finding)
        roundtrip("decl_noalias", dtext.replace("helper_e AS hlp", "helper_e").replace("b1 : hlp;", "b1 : helper_e;"), lengths, "rich")
    # string literals with apostrophes, dots and long dot-free stretches at every line length
    STR_SCHEMA = ("SCHEMA strs;\nENTITY e;\n nm : STRING;\nWHERE\n"
                  " w1 : nm <> 'the owner''s name of this product''s category is not the owner''s own idea of a name';\n"
                  " w2 : 'STRS.E.SOME_RATHER_LONG_ATTRIBUTE_NAME.AND_ANOTHER.ONE''S' IN TYPEOF (SELF);\n"
                  " w3 : nm LIKE 'it''s';\nEND_ENTITY;\nEND_SCHEMA;\n")
    sweep = list(range(20, 135)) if tier == "quick" else list(range(10, 260))
    roundtrip("strs", STR_SCHEMA, sweep, "rich", keep=True)
    # the literals exppp printed for the three strings at every length must be ones ExpStr.v can print (cuts after
    # a dot only, never inside a pair of apostrophes) for that value: Properties_C07 c07_explained_literals_are_model_output
    STR_VALUES = {"w1": "the owner's name of this product's category is not the owner's own idea of a name",
                  "w2": "STRS.E.SOME_RATHER_LONG_ATTRIBUTE_NAME.AND_ANOTHER.ONE'S", "w3": "it's"}
    queries, qinfo = [], []
    for cat in sorted(glob.glob(os.path.join(wroot, "strs", "cat_*.exp"))):
        ptxt = open(cat, encoding="latin-1").read()
        for lab, val in STR_VALUES.items():
            m = re.search(r"\b%s\s*:(.*?);[ \t]*\n" % lab, ptxt, re.S)
            if not m:
                continue
            lits = [t_[1:-1] for t_ in tokens(m.group(1), True) if t_.startswith("'")]
            queries.append("S %s %s" % (val.encode("latin-1").hex() or "-", ",".join((x.encode("latin-1").hex() or "-") for x in lits)))
            qinfo.append((os.path.basename(cat), lab, lits))
    if queries:
        rcm, mo3, me = sh([drv], input=("\n".join(queries) + "\n").encode(), timeout=120)
        answers = mo3.split()
        hist["split_strings_explained"] = 0
        for (catn, lab, lits), ans in zip(qinfo, answers + ["?"] * len(qinfo)):
            evals += 1
            if ans == "OK":
                hist["split_strings_explained"] += 1
                if len(lits) > 1:
                    nontrivial += 1
            else:
                disagreements += 1
                # is it only the model that no longer describes the code, or does the text denote another value?
                denotes = all(re.match(r"^(?:[^']|'')*$", x) for x in lits) and "".join(x.replace("''", "'") for x in lits) == STR_VALUES[lab]
                res.violation("the literals exppp prints for rule %s in %s (%s) are not a splitting ExpStr.v allows for the value%s" %
                              (lab, catn, " + ".join("'%s'" % x for x in lits), "" if denotes else ": they do not denote the source string"),
                              {"input_file": save("c07-strs.exp", STR_SCHEMA), "theorem_or_correspondence": "correspondence C07: coq/ExpStr.v literals vs exppp breakLongStr"},
                              found_input=not denotes)
    shipped = ["test/unitary_schemas/function.exp", "test/unitary_schemas/entity_where_rule.exp", "data/pdm/pdm_schema_12.exp"] if tier == "quick" else \
        sorted(os.path.relpath(p, REPO) for p in glob.glob(os.path.join(REPO, "data", "*", "*.exp")) + glob.glob(os.path.join(REPO, "test", "unitary_schemas", "*.exp")))
    for rel in shipped:
        p = os.path.join(REPO, rel)
        if not os.path.exists(p) or "fail_" in rel:
            continue
        hist["shipped"] += 1
        roundtrip("s_" + re.sub(r"\W", "_", os.path.basename(rel)), open(p, encoding="latin-1").read(), [None] if tier == "quick" else [None, 40], "shipped")
    shutil.rmtree(wroot, ignore_errors=True)
    if not pr["ok"]:
        res.violation("Properties_C07.v no longer checks (%s)" % ", ".join(pr["failed"] or ["see log"]),
                      {"theorem_or_correspondence": "coq/Properties_C07.v", "log": pr["log"]}, found_input=False)
    res.coverage.update({
        "evaluations": evals,
        "distinct_nontrivial": nontrivial,
        "rule": "%d generated + %d rich schemas (all expression operators, literal kinds incl. binary / logical / real with exponent / aggregate with "
                "repetition, QUERY, interval, qualified attributes, every statement kind, labelled and unlabelled rules, tail remarks) at line lengths %s, "
                "and %d shipped schemas: exppp -> parser accepts -> same declarations token for token up to parentheses / case / remarks -> exppp "
                "again gives the same tokens; 8 random expression trees per rich schema compared with the model's token list; non-trivial = full "
                "round trip completed" % (ngen, nrich, lengths, len(shipped)),
        "samples": samples or ["(none)"],
        "histogram": hist,
        "traces_validated_against_impl": evals,
        "correspondence_disagreements": disagreements,
        "oracle_failures": oracle_fail,
        "unproved_clauses": ["validity and equivalence of declarations and statements (observed by re-parsing)", "layout at every wrap position (tested at the listed line lengths)"],
    })
    return res.finish()


if __name__ == "__main__":
    tier = os.environ.get("VERIF_TIER", "quick")
    if "--tier" in sys.argv:
        tier = sys.argv[sys.argv.index("--tier") + 1]
    sys.exit(main(tier, int(os.environ.get("VERIF_SEED", "1"))))
