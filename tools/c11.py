#!/usr/bin/env python3
"""C11 entry point: see tools/c10.py (shared lazy-loader machinery)."""
import os
import sys
sys.path.insert(0, os.path.dirname(os.path.abspath(__file__)))
import c10

if __name__ == "__main__":
    tier = os.environ.get("VERIF_TIER", "quick")
    if "--tier" in sys.argv:
        tier = sys.argv[sys.argv.index("--tier") + 1]
    sys.exit(c10.main(tier, int(os.environ.get("VERIF_SEED", "1")), "C11"))
