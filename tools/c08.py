#!/usr/bin/env python3
"""C08 -- complex instances are accepted exactly when supertype constraints allow them.
Coq: Properties_C08.v over coq/Complex.v.  Correspondence / oracle: generated inheritance
hierarchies (trees, diamonds, two roots sharing a subtype; every nesting of ONEOF/AND/ANDOR
over direct subtypes; implicit subtypes; ABSTRACT) packed several to a schema, generated to
C++ by exp2cxx, compiled, and queried through ComplexCollect::supports() for EVERY subset of
each hierarchy (each query in its own child process); results vs the extracted model and vs
an independent evaluation of the property's three clauses; sampled subsets are also read as
#n=(A()B()...) in several part orders through STEPfile."""
import itertools
import os
import shutil
import sys

sys.path.insert(0, os.path.dirname(os.path.abspath(__file__)))
from common import *  # noqa
from schemalib import schema_lib, schema_harness

PID = "C08"


# ---------------------------------------------------------------- hierarchies
class H:
    def __init__(self, prefix):
        self.prefix = prefix
        self.ents = []       # dict(name, supers, abstract, expr)   expr: None | ("L", name) | ("O"|"A"|"R", [expr])

    def subs(self, n):
        return [e["name"] for e in self.ents if n in e["supers"]]

    def ent(self, n):
        return [e for e in self.ents if e["name"] == n][0]


def gen_expr(r, names, depth=0):
    """expression over all of names, each once"""
    if len(names) == 1:
        return ("L", names[0])
    op = r.choice(["O", "A", "R"])
    if depth >= 2 or len(names) == 2 or r.random() < 0.5:
        return (op, [("L", n) for n in names])
    k = r.randint(1, len(names) - 1)
    left, right = names[:k], names[k:]
    parts = [gen_expr(r, left, depth + 1) if len(left) > 1 else ("L", left[0]),
             gen_expr(r, right, depth + 1) if len(right) > 1 else ("L", right[0])]
    return (op, parts)


def gen_hierarchy(r, prefix, shape=None):
    h = H(prefix)
    n = r.randint(2, 6)
    shape = shape or r.choice(["tree", "tree", "tree", "diamond", "tworoots"])
    nm = lambda i: "%se%d" % (prefix, i)
    if shape.startswith("flat"):
        # one supertype over 3 or 4 direct subtypes whose expression nests one operator directly inside another:
        # a OUTER (b INNER c [INNER d]) or (a INNER b) OUTER c [OUTER d]
        _, outer, inner, side = shape.split(":")
        m = r.choice([3, 3, 4])
        h.ents.append({"name": nm(0), "supers": [], "abstract": r.random() < 0.3, "expr": None})
        for i in range(1, m + 1):
            h.ents.append({"name": nm(i), "supers": [nm(0)], "abstract": False, "expr": None})
        subs = [nm(i) for i in range(1, m + 1)]
        r.shuffle(subs)
        if side == "right":
            h.ents[0]["expr"] = (outer, [("L", subs[0]), (inner, [("L", x) for x in subs[1:]])])
        else:
            h.ents[0]["expr"] = (outer, [(inner, [("L", x) for x in subs[:2]])] + [("L", x) for x in subs[2:]])
        return h
    if shape == "chainroots":
        # three roots and two subtypes with two supertypes each, the middle root shared: s01 < (r0, r1), s12 < (r1, r2)
        for i in range(3):
            h.ents.append({"name": nm(i), "supers": [], "abstract": False, "expr": None})
        h.ents.append({"name": nm(3), "supers": [nm(0), nm(1)], "abstract": False, "expr": None})
        h.ents.append({"name": nm(4), "supers": [nm(1), nm(2)], "abstract": False, "expr": None})
        if r.random() < 0.5:
            h.ents.append({"name": nm(5), "supers": [nm(r.choice([3, 4]))], "abstract": False, "expr": None})
        for e in h.ents:
            s_ = h.subs(e["name"])
            if s_ and r.random() < 0.5:
                e["expr"] = gen_expr(r, s_)
        h.shape = "chainroots"
        return h
    if shape == "tree":
        for i in range(n):
            h.ents.append({"name": nm(i), "supers": [] if i == 0 else [nm(r.randrange(0, i))], "abstract": False, "expr": None})
    elif shape == "diamond":
        n = max(n, 4)
        h.ents.append({"name": nm(0), "supers": [], "abstract": False, "expr": None})
        h.ents.append({"name": nm(1), "supers": [nm(0)], "abstract": False, "expr": None})
        h.ents.append({"name": nm(2), "supers": [nm(0)], "abstract": False, "expr": None})
        h.ents.append({"name": nm(3), "supers": [nm(1), nm(2)], "abstract": False, "expr": None})
        for i in range(4, n):
            h.ents.append({"name": nm(i), "supers": [nm(r.randrange(0, i))], "abstract": False, "expr": None})
    else:
        n = max(n, 3)
        h.ents.append({"name": nm(0), "supers": [], "abstract": False, "expr": None})
        h.ents.append({"name": nm(1), "supers": [], "abstract": False, "expr": None})
        h.ents.append({"name": nm(2), "supers": [nm(0), nm(1)], "abstract": False, "expr": None})
        for i in range(3, n):
            h.ents.append({"name": nm(i), "supers": [nm(r.randrange(0, i))], "abstract": False, "expr": None})
    for e in h.ents:
        s = h.subs(e["name"])
        if s:
            r.shuffle(s)
            k = r.choice([0, len(s), len(s), r.randint(0, len(s))])
            if k:
                e["expr"] = gen_expr(r, s[:k])
            e["abstract"] = r.random() < 0.3
    return h


def render_expr(x):
    if x[0] == "L":
        return x[1]
    if x[0] == "O":
        return "ONEOF (%s)" % ", ".join(render_expr(c) for c in x[1])
    return "(" + (" AND " if x[0] == "A" else " ANDOR ").join(render_expr(c) for c in x[1]) + ")"


def render(hs, name):
    out = ["SCHEMA %s;" % name, "ENTITY plain0;", "END_ENTITY;"]
    for h in hs:
        for e in h.ents:
            head = "ENTITY %s" % e["name"]
            if e["abstract"] or e["expr"]:
                head += " %sSUPERTYPE%s" % ("ABSTRACT " if e["abstract"] else "", (" OF (%s)" % render_expr(e["expr"])) if e["expr"] else "")
            if e["supers"]:
                head += " SUBTYPE OF (%s)" % ", ".join(e["supers"])
            out.append(head + ";")
            out.append("END_ENTITY;")
    out.append("END_SCHEMA;")
    return "\n".join(out) + "\n"


# ---------------------------------------------------------------- the property, evaluated independently
def ev_sets(x):
    """ISO 10303-11 annex B: the sets of names an expression evaluates to"""
    if x[0] == "L":
        return [frozenset([x[1]])]
    parts = [ev_sets(c) for c in x[1]]
    if x[0] == "O":
        return [s for p in parts for s in p]
    if x[0] == "A":
        res = [frozenset()]
        for p in parts:
            res = [a | b for a in res for b in p]
        return res
    res = []
    for mask in range(1, 1 << len(parts)):
        cur = [frozenset()]
        for i, p in enumerate(parts):
            if mask >> i & 1:
                cur = [a | b for a in cur for b in p]
        res.extend(cur)
    return res


def legal(h, S):
    return why_illegal(h, S) is None


def why_illegal(h, S):
    S = set(S)
    for n in sorted(S):
        e = h.ent(n)
        if not set(e["supers"]) <= S:
            return "member %s lacks its supertype %s" % (n, sorted(set(e["supers"]) - S)[0])
    for n in S:
        e = h.ent(n)
        subs = h.subs(n)
        D = frozenset(s for s in subs if s in S)
        if not D:
            if e["abstract"]:
                return "ABSTRACT member %s without any subtype" % n
            continue
        mentioned = []

        def lv(x):
            if x[0] == "L":
                mentioned.append(x[1])
            else:
                for c in x[1]:
                    lv(c)
        if e["expr"]:
            lv(e["expr"])
        imps = [s for s in subs if s not in mentioned]
        parts = ([e["expr"]] if e["expr"] else []) + [("L", s) for s in imps]
        cons = parts[0] if len(parts) == 1 and not imps else ("R", parts)
        if D not in ev_sets(cons):
            return "subtypes {%s} of %s violate its supertype expression" % (", ".join(sorted(D)), n)
    # one instance: the members are connected through sub/supertype links
    S2 = list(S)
    comp = {n: n for n in S2}

    def f(x):
        while comp[x] != x:
            x = comp[x]
        return x
    for n in S2:
        for s in h.ent(n)["supers"]:
            comp[f(n)] = f(s)
    return None if len({f(n) for n in S2}) == 1 else "the members are not connected by sub/supertype links"


def model_expr(x, ids):
    if x[0] == "L":
        return "L%d" % ids[x[1]]
    return "%s(%s)" % (x[0], ";".join(model_expr(c, ids) for c in x[1]))


def main(tier, seed):
    res = Result(PID, tier, seed)
    pr = coq_prove(PID)
    proof_coverage(res, pr, ["the runtime matcher (backtracking over OR choices, marks, viability) is modelled by the family of sets a tree generates, "
                             "not line by line: the correspondence run on every subset is what ties the two",
                             "exp2cxx's serialisation of the trees into compstructs.cc and their reconstruction at start-up are exercised, not modelled"])
    if pr["forbidden"]:
        res.violation("forbidden vernacular in coq/", {"forbidden": pr["forbidden"]}, found_input=False)
    try:
        CFG = os.environ.get("C08_CFG", "asan")
        bdir = build_impl(CFG)
        extract_and_build_drivers()
    except BuildError as e:
        res.violation("build failed: %s" % e, {"error": str(e)}, found_input=False)
        res.coverage.update({"evaluations": 0, "distinct_nontrivial": 0})
        return res.finish()
    drv = driver("drv_c08")
    nschemas = int(os.environ.get("C08_N", "3")) if tier == "quick" else 40
    per_schema = 12
    evals = 0
    oracle_fail = 0
    disagreements = 0
    crashes = 0
    nontrivial = 0
    hist = {"hierarchies": 0, "subsets": 0, "legal": 0, "illegal": 0, "tree": 0, "diamond": 0, "tworoots": 0, "with_oneof": 0, "abstract": 0, "file_reads": 0}
    samples = []
    wroot = os.path.join(bdir, "verif-work", "c08-%d" % os.getpid())
    os.makedirs(wroot, exist_ok=True)

    def save(name, text):
        os.makedirs(res.replay_dir, exist_ok=True)
        p = os.path.join(res.replay_dir, name)
        open(p, "w").write(text)
        return p

    for k in range(nschemas):
        r = rng(seed, "c08/%d" % k)
        hs = []
        for j in range(per_schema):
            shape = ["tree", "diamond", "tworoots"][j % 3] if j < 6 else None
            hs.append(gen_hierarchy(r, "h%d_" % j, shape))
        hs.append(gen_hierarchy(r, "c0_", "chainroots"))
        hs.append(gen_hierarchy(r, "c1_", "chainroots"))
        # every operator directly inside every operator, on either side
        for j2, (outer, inner) in enumerate(itertools.product("OAR", repeat=2)):
            hs.append(gen_hierarchy(r, "f%d_" % j2, "flat:%s:%s:%s" % (outer, inner, ["right", "left"][(j2 + k) % 2])))
        text = render(hs, "cx_%d_%d" % (seed, k))
        fexp = os.path.join(wroot, "cx_%d.exp" % k)
        open(fexp, "w").write(text)
        sl = schema_lib(bdir, fexp, cfg=CFG)
        if not sl["ok"]:
            oracle_fail += 1
            res.violation("exp2cxx output for a valid schema does not build: %s" % sl["log"][-300:], {"input_file": save("c08-%d-%d.exp" % (seed, k), text)})
            continue
        exe = schema_harness(bdir, sl, "h_complex", cfg=CFG)
        queries = []
        for hi, h in enumerate(hs):
            names = [e["name"] for e in h.ents]
            for n in range(1, len(names) + 1):
                for S in itertools.combinations(names, n):
                    queries.append((hi, S))
        # a few sets across hierarchies: never legal
        for _ in range(6):
            a, b = r.sample(range(per_schema), 2)
            queries.append((None, (hs[a].ents[0]["name"], hs[b].ents[0]["name"])))
        rc, out, err = sh([exe], input=("\n".join(("C " if len(q[1]) == 1 else "S ") + " ".join(q[1]) for q in queries) + "\n").encode(), timeout=1800, env={"ASAN_OPTIONS": "detect_leaks=0"})
        got = out.split("\n")
        # model, one driver process per hierarchy
        for hi, h in enumerate(hs):
            ids = {e["name"]: i + 1 for i, e in enumerate(h.ents)}
            gline = "G " + " ".join("%d:%s:%s:%s" % (ids[e["name"]], ",".join(str(ids[s]) for s in e["supers"]), "A" if e["abstract"] else "N",
                                                      model_expr(e["expr"], ids) if e["expr"] else "-") for e in h.ents)
            qs = [(qi, q) for qi, q in enumerate(queries) if q[0] == hi]
            rcm, mo, me = sh([drv], input=(gline + "\n" + "\n".join("Q " + " ".join(str(ids[n]) for n in q[1]) for _, q in qs) + "\n").encode(), timeout=600)
            ml = mo.split("\n")[1:]
            hist["hierarchies"] += 1
            shape = "tworoots" if len([e for e in h.ents if not e["supers"]]) > 1 else ("diamond" if any(len(e["supers"]) > 1 for e in h.ents) else "tree")
            hist[shape] += 1
            if "ONEOF" in render(hs[hi:hi + 1], "x"):
                hist["with_oneof"] += 1
            if any(e["abstract"] for e in h.ents):
                hist["abstract"] += 1
            n_legal = 0
            for j, (qi, q) in enumerate(qs):
                evals += 1
                hist["subsets"] += 1
                real = got[qi].strip() if qi < len(got) else "MISSING"
                want = legal(h, q[1])
                n_legal += want
                hist["legal" if want else "illegal"] += 1
                mm = ml[j].split() if j < len(ml) else ["?", "?"]
                hier_text = render([h], "one")
                if real.startswith("CRASH") or real == "TIMEOUT" or real == "MISSING":
                    crashes += 1
                    oracle_fail += 1
                    res.violation("supports(%s) does not return: %s (the combination is %s)" % (" ".join(q[1]), real, "legal" if want else "illegal"),
                                  {"input_file": save("c08-%d-%d-h%d.exp" % (seed, k, hi), hier_text), "set": list(q[1]),
                                   "replay": "build the schema, then: echo 'S %s' | h_complex" % " ".join(q[1])},
                                  signature=("matcher_crash" if not want else None))
                    continue
                realb = real == "R 1"
                if realb != want:
                    oracle_fail += 1
                    why = why_illegal(h, q[1])
                    res.violation("supports(%s) = %s, the supertype constraints make the combination %s%s" % (
                        " ".join(q[1]), realb, "legal" if want else "illegal", (" (%s)" % why) if why else ""),
                        {"input_file": save("c08-%d-%d-h%d.exp" % (seed, k, hi), hier_text), "set": list(q[1])},
                        signature=("missing_second_supertype_accepted" if realb and why and any(len(h.ent(n)["supers"]) > 1 for n in q[1]) else None))
                known_gap = (getattr(h, "shape", "") == "chainroots" and realb != want and realb and
                             any(len(h.ent(n)["supers"]) > 1 for n in q[1]) and mm[0] == ("1" if want else "0"))
                if known_gap:
                    # the open finding missing_second_supertype_accepted: the matcher accepts the set, the rule and the model refuse it.
                    # Complex.v follows the matcher for a member with two supertypes inside one hierarchy (c08_supports_iff_legal_refuted);
                    # across three roots (shape chainroots only) it says what the rule says, and is not asked to reproduce the matcher's answer
                    hist["model_sides_with_rule_on_known_finding"] = hist.get("model_sides_with_rule_on_known_finding", 0) + 1
                elif mm[0] != ("1" if realb else "0"):
                    disagreements += 1
                    if disagreements <= 5:
                        res.violation("model Complex.v supports = %s, runtime supports = %s on {%s}" % (mm[0], realb, " ".join(q[1])),
                                      {"input_file": save("c08-%d-%d-h%d.exp" % (seed, k, hi), hier_text), "set": list(q[1]),
                                       "theorem_or_correspondence": "correspondence C08: coq/Complex.v vs clstepcore matcher"}, found_input=False)
                    else:
                        res.violations += 1
                if mm[1] != ("1" if want else "0") and len(q[1]) >= 2 and shape == "tree":
                    disagreements += 1
                    res.violation("model Complex.v legal = %s, the check's evaluation of the property = %s on {%s}" % (mm[1], want, " ".join(q[1])),
                                  {"input_file": save("c08-%d-%d-h%d.exp" % (seed, k, hi), hier_text), "set": list(q[1]),
                                   "theorem_or_correspondence": "Complex.v legal vs tools/c08.py legal"}, found_input=False)
            if 0 < n_legal < len(qs):
                nontrivial += 1
            if len(samples) < 3 and n_legal:
                samples.append({"hierarchy": render([h], "s").replace("\n", " ")[:200], "subsets": len(qs), "legal": n_legal})
        # ---- through the reader: #n=(A()B()...) in three part orders, between two ordinary instances
        hfile = schema_harness(bdir, sl, "h_file", cfg=CFG)
        nfile = 8 if tier == "quick" else 30
        cand = [(qi, q) for qi, q in enumerate(queries) if q[0] is not None and (got[qi].strip() if qi < len(got) else "") in ("R 1", "R 0")]
        r.shuffle(cand)
        pos = [c for c in cand if got[c[0]].strip() == "R 1"][:nfile // 2]
        neg = [c for c in cand if got[c[0]].strip() == "R 0"][:nfile - len(pos)]
        for (qi, q) in pos + neg:
            h = hs[q[0]]
            plain = ["plain0"]
            outcomes = []
            orders = [list(q[1]), list(reversed(q[1]))]
            mid = list(q[1])
            r.shuffle(mid)
            orders.append(mid)
            for parts in orders:
                body = "#1=%s();\n#2=(%s);\n#3=%s();\n" % (plain[0].upper(), "".join("%s()" % n.upper() for n in parts), plain[0].upper())
                ftext = ("ISO-10303-21;\nHEADER;\nFILE_DESCRIPTION((''),'2;1');\nFILE_NAME('x','2020-01-01T00:00:00',(''),(''),'','','');\n"
                         "FILE_SCHEMA(('CX_%d_%d'));\nENDSEC;\nDATA;\n%sENDSEC;\nEND-ISO-10303-21;\n" % (seed, k, body))
                fp = os.path.join(wroot, "cx.p21")
                open(fp, "w").write(ftext)
                rcf, fo, fe = sh([hfile, "read", fp, "dump", "-"], timeout=120, env={"ASAN_OPTIONS": "detect_leaks=0"})
                evals += 1
                hist["file_reads"] += 1
                ids_seen = sorted(set(int(x) for x in __import__("re").findall(r"^INST \d+ #(\d+) ", fo, __import__("re").M)))
                outcomes.append((rcf, tuple(ids_seen)))
            supported = got[qi].strip() == "R 1"
            want_ids = (1, 2, 3) if supported else (1, 3)
            what = None
            if any(o[0] < 0 or o[0] > 100 for o in outcomes):
                what = "reading #2=(%s) kills the reader (status %s)" % (" ".join(q[1]), [o[0] for o in outcomes])
            elif len({o[1] for o in outcomes}) != 1:
                what = "the order of the parts changes the outcome for {%s}: instances read %s" % (" ".join(q[1]), [o[1] for o in outcomes])
            elif outcomes[0][1] != want_ids:
                what = "supports(%s) = %s but the reader leaves instances %s (expected %s: the complex instance %s, its neighbours kept)" % (
                    " ".join(q[1]), supported, outcomes[0][1], want_ids, "created" if supported else "refused")
            if what:
                oracle_fail += 1
                res.violation(what, {"input_file": save("c08-%d-%d-file%d.p21" % (seed, k, qi), ftext), "schema": save("c08-%d-%d.exp" % (seed, k), text)})
        for qi, q in enumerate(queries):
            if q[0] is None:
                evals += 1
                real = got[qi].strip() if qi < len(got) else "MISSING"
                if real != "R 0":
                    oracle_fail += 1
                    res.violation("supports(%s) = %s for entities of unrelated hierarchies" % (" ".join(q[1]), real),
                                  {"input_file": save("c08-%d-%d.exp" % (seed, k), text), "set": list(q[1])},
                                  signature=("matcher_crash" if real.startswith("CRASH") else None))
    shutil.rmtree(wroot, ignore_errors=True)
    if not pr["ok"]:
        res.violation("Properties_C08.v no longer checks (%s)" % ", ".join(pr["failed"] or ["see log"]),
                      {"theorem_or_correspondence": "coq/Properties_C08.v", "log": pr["log"]}, found_input=False)
    res.coverage.update({
        "evaluations": evals,
        "distinct_nontrivial": nontrivial,
        "rule": "%d schemas x %d hierarchies of 2-6 entities (trees, diamonds, two roots sharing a subtype; random nestings of ONEOF/AND/ANDOR "
                "over a random part of the direct subtypes, the rest implicit; ABSTRACT with probability 0.3) + 9 flat hierarchies (one supertype over 3-4 "
                "subtypes) with every operator nested directly inside every operator + 2 with three roots and two subtypes of two supertypes each; ALL non-empty subsets of every "
                "hierarchy + cross-hierarchy pairs through ComplexCollect::supports() (single entities through the STEPcomplex constructor), one child process per query; non-trivial = hierarchy "
                "with both legal and illegal subsets" % (nschemas, per_schema),
        "exhaustive": True,
        "samples": samples or ["(none)"],
        "histogram": hist,
        "traces_validated_against_impl": evals,
        "correspondence_disagreements": disagreements,
        "oracle_failures": oracle_fail,
        "crashes_observed": crashes,
        "unproved_clauses": ["supports = legal for arbitrary graphs (tested exhaustively on generated hierarchies; proved for the model only in the "
                             "statements of Properties_C08.v)"],
    })
    return res.finish()


if __name__ == "__main__":
    tier = os.environ.get("VERIF_TIER", "quick")
    if "--tier" in sys.argv:
        tier = sys.argv[sys.argv.index("--tier") + 1]
    sys.exit(main(tier, int(os.environ.get("VERIF_SEED", "1"))))
