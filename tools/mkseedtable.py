#!/usr/bin/env python3
"""Prints the table of DESIGN.md section 10.7 from /verif/seeded/<id>/change<i>/{meta.json, first.txt, result.txt, verify.txt}."""
import glob
import json
import os
import re

V = os.path.dirname(os.path.dirname(os.path.abspath(__file__)))
print("| change | what it does | first run of the check | after strengthening | build + suite with the change |")
print("|---|---|---|---|---|")
for d in sorted(glob.glob(os.path.join(V, "seeded", "C*", "change*"))):
    name = os.path.relpath(d, os.path.join(V, "seeded"))
    try:
        m = json.load(open(os.path.join(d, "meta.json")))
    except (OSError, ValueError):
        continue
    summ = " ".join(m.get("summary", "").split())
    if len(summ) > 170:
        summ = summ[:170] + "..."
    first = open(os.path.join(d, "first.txt")).read().strip() if os.path.exists(os.path.join(d, "first.txt")) else "?"
    last = "?"
    if os.path.exists(os.path.join(d, "result.txt")):
        lines = [l for l in open(os.path.join(d, "result.txt")).read().split("\n") if l.strip()]
        if lines:
            mm = re.search(r"\b(CAUGHT|MISSED|NEUTRAL)\b", lines[-1])
            last = mm.group(1) if mm else "?"
            if last == "NEUTRAL":
                last = "no longer a breaking change (a later fix: commit covers it)"
    suite = "not run"
    if name.startswith("C19/"):
        suite = "Python package only"
    if os.path.exists(os.path.join(d, "verify.txt")):
        lines = [l for l in open(os.path.join(d, "verify.txt")).read().split("\n") if l.strip()]
        if lines:
            mm = re.search(r"build=(\w+) ctest: (\d+)% tests passed, (\d+) tests failed out of (\d+) failed: (.*)$", lines[-1])
            if mm:
                failed = mm.group(5).split()
                known = [f for f in failed if f.startswith("read_write_cpp_sdai_ifc2x3_Bien-Zenker")]
                other = [f for f in failed if f not in known]
                suite = ("%d pass" % (int(mm.group(4)) - int(mm.group(3)))) + ("" if not other else ", FAILS: " + " ".join(other))
                if mm.group(1) != "ok":
                    suite = "build " + mm.group(1)
            else:
                suite = lines[-1][:60]
    print("| %s | %s | %s | %s | %s |" % (name, summ, first, last, suite))
