#!/usr/bin/env python3
"""C09 -- Part 21 literals are read to their value and written in conforming form.
Coq theorems (Properties_C09.v) over coq/P21Lex.v + exhaustive short-string
correspondence with the real ReadInteger/ReadReal/ReadNumber/WriteReal + an
independent recogniser of the ISO 10303-21 token grammar as oracle."""
import itertools
import os
import re
import shutil
import sys

sys.path.insert(0, os.path.dirname(os.path.abspath(__file__)))
from common import *  # noqa
import translate

PID = "C09"

ALPHA = {
    "I": list("019+-.E a$';"),
    "R": list("019+-.Ee a"),
    "N": list("019+-.Ee a"),
}
SUFFIX = [",7", " )", "", "\t , x", ")", ";#2=X(1,2)",
          # the comment contexts: a comment between the value and its delimiter is white space, whatever it holds
          "/*c*/,7", " /*,)*/ /***/\t)", "/**/", "/*,", "/ *,"]
# every interleaving of a value with the characters a comment is made of (exhaustive, up to the tier's length)
COMMENT_ALPHA = list("1/* ,x")

INT_RE = re.compile(r"^[+-]?[0-9]+$")
REAL_RE = re.compile(r"^[+-]?[0-9]+\.[0-9]*(E[+-]?[0-9]+)?$")
# deliberate leniencies of the reader: value evidently spelled, but flagged
REAL_LENIENT_RE = re.compile(r"^[+-]?[0-9]*\.?[0-9]*([eE][+-]?[0-9]+)?$")


def hexs(s):
    return s.encode("latin-1").hex()


WS = " \t\n\v\f\r"


def lex_after_value(data):
    """Independent reading of the text as ISO 10303-21 spells it: leading white space, the token, and - a comment
    being white space wherever it stands after the token, whatever it holds - the first delimiter (or the semicolon
    that ends the instance) outside every comment.  Returns (token text with each comment replaced by one blank,
    bytes left from that delimiter on or None when there is none, the delimiter, a comment is never closed)."""
    t = data.lstrip(WS)
    if t.startswith("/*"):
        return "", None, None, False       # a comment in front of the value: the caller's business (ReadTokenSeparator)
    out = []
    i = 0
    while i < len(t):
        if t.startswith("/*", i):
            j = t.find("*/", i + 2)
            if j < 0:
                return "".join(out).rstrip(WS), None, None, True
            out.append(" ")
            i = j + 2
            continue
        if t[i] in ",)\x00;":
            return "".join(out).rstrip(WS), len(t) - i, t[i], False
        out.append(t[i])
        i += 1
    return "".join(out).rstrip(WS), None, None, False


def token_of(data):
    """text between leading white space and the first delimiter / end"""
    tok, rem, _, _ = lex_after_value(data)
    return tok, rem


def stopped_at_semicolon(data):
    return lex_after_value(data)[2] == ";"


def oracle(kind, data, ans):
    """ans = (assigned, value_text, severity, remaining, eof, fail).  Returns None or message."""
    assigned, val, sev, remaining = ans[0], ans[1], ans[2], ans[3]
    tok, rem_expected = token_of(data)
    if rem_expected is not None and remaining != rem_expected:
        # the recovery after a token that is reported may stop early, at a delimiter character inside a comment that the
        # garbage runs into (what follows is then read as the next parameter of an instance already in error); it never
        # goes beyond the delimiter, and a value read without a message ends exactly at it
        early = (sev < 3 and "/*" in data and remaining > rem_expected and data[len(data) - remaining] in ",)\x00;")
        if not early:
            return "delimiter consumed or not reached: %d bytes left, expected %d" % (remaining, rem_expected)
    if tok == "":
        return None   # empty value: decided by the caller (null pre-check), not at this layer
    if stopped_at_semicolon(data):
        # the instance ends right after the value, without ',' or ')': never a clean read, whatever the value
        return None if sev < 3 else "value %r followed by ';' instead of a delimiter is read without an error" % tok
    if lex_after_value(data)[3]:
        # a comment after the value is never closed: whatever delimiter followed is inside it - never a clean read
        return None if sev < 3 else "value %r followed by a comment that is never closed is read without an error" % tok
    if kind == "I":
        if INT_RE.match(tok):
            z = int(tok)
            if -2 ** 63 <= z <= 2 ** 63 - 1:
                if not (assigned == 1 and int(val) == z and sev == 3):
                    return "conforming integer %r not read to its value (assigned=%d value=%s severity=%d)" % (tok, assigned, val, sev)
            elif sev >= 3:
                return "integer %r beyond 64 bits accepted without error (assigned=%d value=%s)" % (tok, assigned, val)
        else:
            if sev >= 3:
                return "non-integer token %r accepted without error (assigned=%d value=%s)" % (tok, assigned, val)
    else:
        conforming = REAL_RE.match(tok) if kind == "R" else (REAL_RE.match(tok) or INT_RE.match(tok))
        if conforming:
            try:
                f = float(tok)
            except ValueError:
                f = None
            if f is not None and f not in (float("inf"), float("-inf")):
                if not (assigned == 1 and float(val) == f and sev == 3):
                    return "conforming %s %r not read to its value (assigned=%d value=%s severity=%d)" % (
                        "real" if kind == "R" else "number", tok, assigned, val, sev)
            elif sev >= 3:
                return "real %r beyond the double range accepted without error" % tok
        else:
            if sev >= 3:
                # NUMBER deliberately accepts whatever operator>> accepts (lower-case e, no digits after '.')
                ok_lenient = False
                if kind == "N" and assigned == 1:
                    try:
                        ok_lenient = REAL_LENIENT_RE.match(tok) is not None and float(val) == float(tok)
                    except ValueError:
                        ok_lenient = False
                if not ok_lenient:
                    return "non-conforming token %r accepted without error (assigned=%d value=%s)" % (tok, assigned, val)
            elif assigned == 1:
                # flagged but assigned: the value must be the one it evidently spells
                try:
                    spelled = float(tok)
                    if float(val) != spelled:
                        return "flagged token %r assigned a different value %s" % (tok, val)
                except ValueError:
                    pass
    return None


def parse_ans(line):
    p = line.split()
    return (int(p[1]), p[2], int(p[3]), int(p[4]), int(p[5]), int(p[6])), (p[7:] if len(p) > 7 else [])


def same(kind, ia, ma):
    """model token text vs implementation %.17g value"""
    if ia[0] != ma[0] or ia[2:] != ma[2:]:
        return False
    if ia[0] == 0:
        return True
    if kind == "I":
        return int(ia[1]) == int(ma[1])
    return float(ia[1]) == float(ma[1])


def gen_cases(kind, maxlen):
    al = ALPHA[kind]
    for n in range(0, maxlen + 1):
        for tup in itertools.product(al, repeat=n):
            yield "".join(tup)


def run(exe, reqs):
    rc, out, err = sh([exe], input="\n".join(reqs).encode() + b"\n", timeout=1800)
    return rc, out.split("\n")


def writer_cases(r, tier):
    vals = []
    for e in range(-300, 301, 1 if tier == "thorough" else 7):
        for m in ("1", "9.99999999999999", "1.00000000000001", "1.5", "123456789012345", "1234567890123456",
                  "12345678901234567", "-2.5", "7"):
            vals.append("%se%d" % (m, e))
    for k in range(0, 63):
        for d in (-1, 0, 1):
            vals.append(str(2 ** k + d))
            vals.append(str(-(2 ** k) + d))
    for k in range(0, 19):
        for d in (-1, 0, 1):
            vals.append(str(10 ** k + d))
    for _ in range(300 if tier == "quick" else 5000):
        vals.append(repr(r.uniform(-1, 1) * 10 ** r.randint(-30, 30)))
    vals += ["0", "-0.0", "0.1", "1e15", "1e16", "123456.789", "5e-324", "1.7976931348623157e308"]
    return vals


W_RE = re.compile(r"^-?[0-9]+\.[0-9]*(E[+-]?[0-9]+)?$")


def main(tier, seed):
    res = Result(PID, tier, seed)
    try:
        translate.run_all(PID)
    except translate.AnchorLost as e:
        res.violation("translator lost its anchor: %s" % e, {"theorem_or_correspondence": "tools/translate.py", "error": str(e)}, found_input=False)
    pr = coq_prove(PID)
    proof_coverage(res, pr, ["libstdc++ istream/num_get (peek/get/putback/ws/operator>> for long and double) is modelled "
                             "in coq/P21Lex.v and validated only by the exhaustive correspondence of this check",
                             "glibc %.15G / strtod correct rounding (values compared through Python float())",
                             "tools/translate.py regenerates coq/gen/SevTable.v and coq/gen/Consts.v from the sources"])
    if pr["forbidden"]:
        res.violation("forbidden vernacular in coq/: %s" % pr["forbidden"], {"forbidden": pr["forbidden"]}, found_input=False)
    try:
        bdir = build_impl("dbg")
        exe = build_harness(bdir, "h_lex")
        extract_and_build_drivers()
    except BuildError as e:
        res.violation("build failed: %s" % e, {"error": str(e)}, found_input=False)
        res.coverage.update({"evaluations": 0, "distinct_nontrivial": 0})
        return res.finish()
    drv = driver("drv_c09")
    maxlen = 4 if tier == "quick" else 6
    total = 0
    nontrivial = set()
    disagreements = 0
    oracle_fail = 0
    kinds_hist = {}
    sev_hist = {}
    samples = []
    corpus = []
    cpath = os.path.join(VERIF, "corpus", PID, "cases.txt")
    if os.path.exists(cpath):
        for line in open(cpath):
            line = line.split("#")[0].rstrip("\n")
            if line.strip():
                k, _, text = line.partition(" ")
                corpus.append((k, text.encode().decode("unicode_escape")))
    for kind in ("I", "R", "N"):
        datas = [t for (k, t) in corpus if k == kind]
        for body in gen_cases(kind, maxlen):
            # (thorough tier: the longest bodies meet the comment contexts one length below, to keep the run in memory)
            for suf in (SUFFIX if tier == "quick" or len(body) < maxlen else SUFFIX[:6]):
                datas.append(body + suf)
        lead = {"I": "", "R": "2.", "N": ""}[kind]
        for n in range(0, maxlen + 3):
            for tup in itertools.product(COMMENT_ALPHA, repeat=n):
                datas.append(lead + "".join(tup))
                datas.append(lead + "".join(tup) + ",")
        datas += [lead + "1/*" + "c" * 5000 + "*/,", lead + "1 /* a */ /* b */\n/* c */ )", lead + "1/*/,", lead + "1/**/", lead + "1/***/,", lead + "1/* * / */,",
                  lead + "1/*;*/,", lead + "1/*;*/;", lead + "1/*\x00*/,", lead + "1*/,", lead + "1//**/,", lead + "1/**//,"]
        # long tokens around the historical 64-byte buffer and the 64-bit range
        for n in (18, 19, 20, 62, 63, 64, 65, 200):
            datas.append("9" * n + ",")
            datas.append("-" + "9" * n + ")")
            datas.append("1." + "0" * n + "E+0" + "1" * (n // 10) + ",")
            datas.append("0." + "0" * n + "1,")
        datas += ["9223372036854775807,", "9223372036854775808,", "-9223372036854775808,", "-9223372036854775809,",
                  "1.0E308,", "1.0E309,", "1.7976931348623157E308,", "1.7976931348623159E308,", "1.8E308)",
                  "4.9E-324,", "1.0E-400,", "1.E5,", "1.e5,", "+.5,", "0.5E+05 )", "1.0E5.0,", "1..0,"]
        reqs = ["%s %s" % (kind, hexs(d)) for d in datas]
        rc_i, io = run(exe, reqs)
        rc_m, mo = run(drv, reqs)
        if rc_i != 0:
            res.violation("h_lex crashed (rc=%d) on the %s stream" % (rc_i, kind), {"kind": kind, "rc": rc_i}, found_input=False)
        for k, d in enumerate(datas):
            total += 1
            if k >= len(io) or not io[k].strip():
                break
            ia, _ = parse_ans(io[k])
            ma, mextra = parse_ans(mo[k]) if k < len(mo) and mo[k].strip() else ((None,) * 6, [])
            kinds_hist[kind] = kinds_hist.get(kind, 0) + 1
            sev_hist[ia[2]] = sev_hist.get(ia[2], 0) + 1
            tok, _ = token_of(d)
            if tok and (ia[0] == 1 or ia[2] < 3):
                nontrivial.add((kind, d))
            msg = oracle(kind, d, ia)
            if msg:
                oracle_fail += 1
                res.violation("%s: %s" % ({"I": "ReadInteger", "R": "ReadReal", "N": "ReadNumber"}[kind], msg),
                              {"kind": kind, "input": d, "input_hex": hexs(d), "impl_answer": io[k],
                               "replay": "echo '%s %s' | %s" % (kind, hexs(d), exe)})
            elif ma[0] is None or not same(kind, ia, ma):
                disagreements += 1
                if disagreements <= 3:
                    res.violation("model P21Lex.v and implementation disagree (correspondence C09/%s)" % kind,
                                  {"kind": kind, "input": d, "input_hex": hexs(d), "impl": io[k],
                                   "model": mo[k] if k < len(mo) else None,
                                   "theorem_or_correspondence": "correspondence C09: coq/P21Lex.v vs read_func.cc/Str.cc"},
                                  found_input=False)
                else:
                    res.violations += 1
            if len(samples) < 6 and tok and k % 9973 == 17:
                samples.append({"kind": kind, "input": d, "impl": io[k]})
    # ---- ENUMERATION / BOOLEAN / LOGICAL tokens (sdaiEnum.cc ReadEnum vs coq/P21Enum.v)
    LEGAL = {"L": {"F": 0, "T": 1, "U": 3}, "B": {"F": 0, "T": 1}, "E": {"AHEAD": 0, "BEHIND": 1, "A1": 2}}
    alpha = [".", "T", "F", "U", "t", "X", "_", "1", " "]
    ebodies = [""]
    for n in range(1, (4 if tier == "quick" else 6)):
        for tup in itertools.product(alpha, repeat=n):
            ebodies.append("".join(tup))
    ebodies += [".UNSET.", ".unset.", ".TRUE.", ".FALSE.", ".UNKNOWN.", ".AHEAD.", ".ahead.", ".Behind.", ".A1.", ".a1.", ".A2.", ".AHEAD", "AHEAD.",
                "AHEAD", ".AHEAD.BEHIND.", ".A_1.", "._A.", ".1A.", ".T.F.", "..T..", ". T.", ".T .", "$", "*", "#1", "'T'", ".T" + "T" * 300 + "."]
    for kind in ("L", "B", "E"):
        datas = [b + suf for b in ebodies for suf in (",", ")", " ,", "")]
        reqs = ["%s %s" % (kind, hexs(d)) for d in datas]
        rc_i, io = run(exe, reqs)
        rc_m, mo = run(drv, reqs)
        if rc_i != 0:
            res.violation("h_lex crashed (rc=%d) on the %s stream" % (rc_i, kind), {"kind": kind, "rc": rc_i}, found_input=False)
        for k, d in enumerate(datas):
            total += 1
            if k >= len(io) or not io[k].strip():
                break
            ia, _ = parse_ans(io[k])
            kinds_hist[kind] = kinds_hist.get(kind, 0) + 1
            sev_hist[ia[2]] = sev_hist.get(ia[2], 0) + 1
            body = d.lstrip(" \t")
            m = re.match(r"^\.([A-Za-z_][A-Za-z0-9_]*)\.(.*)$", body, re.S)
            msg = None
            if m:
                word, after = m.group(1).upper(), m.group(2)
                if ia[3] != len(after):
                    msg = "after the token %r %d bytes are left, expected %d: the delimiter is consumed or not reached" % (d, ia[3], len(after))
                elif word in LEGAL[kind]:
                    nontrivial.add((kind, d))
                    if not (ia[0] == 1 and int(ia[1]) == LEGAL[kind][word] and ia[2] == 3):
                        msg = "legal token .%s. is not read to its value: assigned=%d value=%s severity=%d" % (word, ia[0], ia[1], ia[2])
                elif ia[2] >= 3 or ia[0] == 1:
                    msg = "token .%s. spells no item of the type, yet it is read without an error (assigned=%d value=%s severity=%d)" % (word, ia[0], ia[1], ia[2])
            else:
                # not a well-formed enumeration token: never a silent success
                if ia[2] >= 3 and body[:1] not in (",", ")", ""):
                    msg = "malformed token %r is read without an error (assigned=%d value=%s)" % (d, ia[0], ia[1])
            if msg:
                oracle_fail += 1
                res.violation("%s: %s" % ({"L": "LOGICAL", "B": "BOOLEAN", "E": "ENUMERATION"}[kind], msg),
                              {"kind": kind, "input": d, "impl": io[k], "replay": "echo '%s %s' | %s" % (kind, hexs(d), exe)})
            # the writer: the item's name between dots, in upper case; $ for no value
            wtxt = (io[k].split() + ["?"] * 8)[7]
            if msg is None and m and m.group(1).upper() in LEGAL[kind] and ia[0] == 1 and ia[2] == 3:
                if wtxt != ".%s." % m.group(1).upper():
                    oracle_fail += 1
                    res.violation("%s: the value read from %r is written as %s" % ({"L": "LOGICAL", "B": "BOOLEAN", "E": "ENUMERATION"}[kind], d, wtxt),
                                  {"kind": kind, "input": d, "impl": io[k], "replay": "echo '%s %s' | %s" % (kind, hexs(d), exe)})
            if k < len(mo) and io[k].split()[:7] != mo[k].split()[:7]:
                disagreements += 1
                if disagreements <= 5:
                    res.violation("model P21Enum.v and ReadEnum disagree on %r: impl %r model %r" % (d, io[k], mo[k] if k < len(mo) else None),
                                  {"kind": kind, "input": d, "theorem_or_correspondence": "correspondence C09: coq/P21Enum.v vs sdaiEnum.cc"},
                                  found_input=False)
                else:
                    res.violations += 1
    # ---- STRING tokens (Str.cc GetLiteralStr / sdaiString.cc STEPread vs coq/P21Str.v)
    # independent description of a well-formed literal: plain characters, '', \\, \S\<any character>, \X\hh,
    # \X2\(hhhh)+\X0\, \X4\(hhhhhhhh)+\X0\, \P<A-I>\
    WF = re.compile(r"^'(?:[^'\\]|''|\\\\|\\S\\.|\\X\\[0-9A-F]{2}|\\X2\\(?:[0-9A-F]{4})+\\X0\\|\\X4\\(?:[0-9A-F]{8})+\\X0\\|\\P[A-I]\\)*'", re.S)
    Q, BS = "'", "\\"
    salpha = [Q, BS, "S", "a", ","]
    sbodies = []
    for n in range(0, (6 if tier == "quick" else 8)):
        for tup in itertools.product(salpha, repeat=n):
            sbodies.append(Q + "".join(tup))
    PAGE = BS + "S" + BS
    sbodies += [Q + "a" + PAGE + Q + "b" + Q, Q + PAGE + Q + Q, Q + PAGE + Q + Q + Q, Q + BS + BS + "S" + BS + BS + Q,
                Q + "C:" + BS + BS + "DOCS" + BS + BS + Q, Q + BS + "X2" + BS + "00E9" + BS + "X0" + BS + Q, Q + BS + "X" + BS + "E9" + Q,
                Q + BS + "PA" + BS + "x" + Q, Q + BS + "X4" + BS + "0001F600" + BS + "X0" + BS + Q,
                Q + "it" + Q + Q + "s" + Q, Q + Q, Q + Q + Q + Q, Q + Q + Q, Q, Q + "a", Q + "a" + Q + Q, "abc", "$", "  " + Q + "x" + Q, "\t" + Q + "x y" + Q,
                Q + "z" * 5000 + Q, Q + "a\nb" + Q, Q + PAGE + BS + Q, Q + PAGE + "S" + Q, Q + "S" + BS + Q, Q + BS + "S" + Q, Q + "x" + PAGE + Q]
    sdatas = [b + suf for b in sbodies for suf in (",", ")", " ,1", "", Q, "," + Q + "y" + Q)]
    reqs = ["T %s" % hexs(d) for d in sdatas]
    rc_i, io = run(exe, reqs)
    rc_m, mo = run(drv, reqs)
    if rc_i != 0:
        res.violation("h_lex crashed (rc=%d) on the T stream" % rc_i, {"kind": "T", "rc": rc_i}, found_input=False)
    for k, d in enumerate(sdatas):
        total += 1
        if k >= len(io) or not io[k].strip():
            break
        ia, _ = parse_ans(io[k])
        kinds_hist["T"] = kinds_hist.get("T", 0) + 1
        sev_hist[ia[2]] = sev_hist.get(ia[2], 0) + 1
        body = d.lstrip(" \t\n")
        msg = None
        m = WF.match(body)
        if m and not body[m.end():].startswith(Q):
            lit = m.group(0)
            nontrivial.add(("T", d))
            if not (ia[0] == 1 and bytes.fromhex(ia[1]).decode("latin-1") == lit and ia[2] == 3 and ia[3] == len(body) - len(lit)):
                msg = "well-formed literal %r is not read to its extent: stored %r, severity %d, %d bytes left (expected %d)" % (
                    lit, bytes.fromhex(ia[1]).decode("latin-1") if ia[0] else None, ia[2], ia[3], len(body) - len(lit))
        elif body.startswith(Q) and re.match(r"^'(?:[^']|'')*$", body, re.S) and (PAGE + Q) not in body:
            # no closing quote at all (apostrophes only in pairs up to the end): never a silent success
            if ia[2] >= 3:
                msg = "unterminated literal %r is read without an error (stored %r)" % (d, ia[1])
        if msg:
            oracle_fail += 1
            res.violation("STRING: %s" % msg, {"kind": "T", "input": d, "input_hex": hexs(d), "impl": io[k], "replay": "echo 'T %s' | %s" % (hexs(d), exe)})
        mline = mo[k].split() if k < len(mo) else []
        if mline[:5] != io[k].split()[:5]:
            disagreements += 1
            if disagreements <= 5:
                res.violation("model P21Str.v and SDAI_String::STEPread disagree on %r: impl %r model %r" % (d, io[k], mo[k] if k < len(mo) else None),
                              {"kind": "T", "input": d, "input_hex": hexs(d), "theorem_or_correspondence": "correspondence C09: coq/P21Str.v vs Str.cc GetLiteralStr"},
                              found_input=False)
            else:
                res.violations += 1
    # ---- BINARY tokens (sdaiBinary.cc ReadBinary / STEPwrite vs coq/P21Bin.v)
    DQ = '"'
    balpha = [DQ, "0", "3", "4", "A", "a", "G", " "]
    bbodies = []
    for n in range(0, (5 if tier == "quick" else 7)):
        for tup in itertools.product(balpha, repeat=n):
            bbodies.append("".join(tup))
    bbodies += [DQ + "0" + DQ, DQ + "1F" + DQ, DQ + "23A" + DQ, DQ + "3" + "F" * 300 + DQ, DQ + DQ, DQ + "0", "0" + DQ, DQ + "0G" + DQ, "$", "'0'", DQ + "0" + DQ + DQ]
    bdatas = [b + suf for b in bbodies for suf in (",", ")", " ,1", "")]
    reqs = ["Y %s" % hexs(d) for d in bdatas]
    rc_i, io = run(exe, reqs)
    rc_m, mo = run(drv, reqs)
    if rc_i != 0:
        res.violation("h_lex crashed (rc=%d) on the Y stream" % rc_i, {"kind": "Y", "rc": rc_i}, found_input=False)
    WFB = re.compile(r'^"([0-3][0-9A-F]*)"')
    for k, d in enumerate(bdatas):
        total += 1
        if k >= len(io) or not io[k].strip():
            break
        p_ = io[k].split()
        if len(p_) < 8:
            continue
        assigned, val, sev, remaining, written = int(p_[1]), p_[2], int(p_[3]), int(p_[4]), p_[7]
        kinds_hist["Y"] = kinds_hist.get("Y", 0) + 1
        sev_hist[sev] = sev_hist.get(sev, 0) + 1
        body = d.lstrip(" \t\n")
        msg = None
        m = WFB.match(body)
        if m and not body[m.end():m.end() + 1] in (DQ,) and (body[m.end():].lstrip(" ")[:1] in (",", ")", "")):
            lit = m.group(0)
            nontrivial.add(("Y", d))
            if not (assigned == 1 and val == m.group(1) and sev == 3 and remaining == len(body) - len(lit)):
                msg = "well-formed binary %s is not read to its value: stored %s, severity %d, %d bytes left (expected %d)" % (lit, val, sev, remaining, len(body) - len(lit))
            elif written != lit:
                msg = "binary %s is written back as %s" % (lit, written)
        elif sev >= 3 and assigned == 1 and not re.match(r'^"[0-9A-F]+"$', written):
            # whatever was taken for a binary is written the way Part 21 spells one
            msg = "token %r is read without an error and written back as %s, which is no BINARY literal" % (d, written)
            m = None
        else:
            # anything read without an error must have been spelled: both quotes, hexadecimal digits between them, the value those digits
            if sev >= 3 and assigned == 1:
                mm = re.match(r'^"([0-9A-Fa-f]+)"', body)
                if not mm or mm.group(1).upper() != val:
                    msg = "token %r is read to the binary %s without an error although it does not spell it" % (d, val)
            # a token that is there (not $) and is no binary must not leave the attribute unset without an error
            if msg is None and sev >= 3 and assigned == 0 and body[:1] == DQ:
                msg = "token %r is not a binary (no digits) and is read without an error, leaving the attribute unset" % d
        if k < len(mo) and io[k].split()[:7] != mo[k].split()[:7]:
            disagreements += 1
            if disagreements <= 5:
                res.violation("model P21Bin.v and SDAI_Binary::STEPread disagree on %r: impl %r model %r" % (d, io[k], mo[k]),
                              {"kind": "Y", "input": d, "input_hex": hexs(d), "theorem_or_correspondence": "correspondence C09: coq/P21Bin.v vs sdaiBinary.cc ReadBinary"},
                              found_input=False)
            else:
                res.violations += 1
        if msg:
            oracle_fail += 1
            res.violation("BINARY: %s" % msg, {"kind": "Y", "input": d, "input_hex": hexs(d), "impl": io[k], "replay": "echo 'Y %s' | %s" % (hexs(d), exe)})
    # writer
    r = rng(seed, "c09w")
    wv = writer_cases(r, tier)
    rc_i, io = run(exe, ["W %s" % hexs(v) for v in wv])
    wreq = []
    for line in io:
        p = line.split()
        if len(p) == 3:
            wreq.append("W %s" % hexs(p[1]))
    rc_m, mo = run(drv, wreq)
    j = 0
    for k, v in enumerate(wv):
        if k >= len(io) or len(io[k].split()) != 3:
            continue
        total += 1
        _, rbuf, w = io[k].split()
        mw = mo[j].split()[1] if j < len(mo) and len(mo[j].split()) > 1 else None
        j += 1
        nontrivial.add(("W", v))
        kinds_hist["W"] = kinds_hist.get("W", 0) + 1
        x = float(v)
        if x in (float("inf"), float("-inf")) or x != x:
            continue
        bad = None
        if not W_RE.match(w):
            bad = "WriteReal(%s) = %r is not a Part 21 REAL token" % (v, w)
        elif float(w) != float("%.15G" % x):
            bad = "WriteReal(%s) = %r does not denote the value rounded to 15 digits" % (v, w)
        if bad:
            oracle_fail += 1
            res.violation(bad, {"value": v, "written": w, "replay": "echo 'W %s' | %s" % (hexs(v), exe)})
        elif mw != w:
            disagreements += 1
            res.violation("model write_real_text and WriteReal disagree", {"value": v, "impl": w, "model": mw,
                          "theorem_or_correspondence": "correspondence C09: write_real_text vs WriteReal"}, found_input=False)
    # elements of aggregates have writers of their own (IntNode / RealNode): every writer gives the value that was read
    ivals = sorted(set([str(x) for k_ in range(0, 63) for d_ in (-1, 0, 1) for x in (2 ** k_ + d_, -(2 ** k_) + d_)] +
                       [str(x) for k_ in range(0, 19) for d_ in (-1, 0, 1) for x in (10 ** k_ + d_, -(10 ** k_) + d_)] +
                       [str(r.randint(-2 ** 62, 2 ** 62)) for _ in range(100)]))
    rc_i, ao = run(exe, ["A %s" % hexs(v + ",") for v in ivals])
    for v, line in zip(ivals, ao):
        p_ = line.split()
        total += 1
        kinds_hist["A"] = kinds_hist.get("A", 0) + 1
        if int(v) == 9223372036854775807:
            continue          # the library's 'unset' value (open finding of C01)
        if len(p_) != 5 or p_[0] != "A" or int(p_[1]) != 3 or p_[2:] != [v, v, v]:
            oracle_fail += 1
            res.violation("the INTEGER %s as an element of an aggregate is read with severity %s and written as %s" % (v, p_[1] if len(p_) > 1 else "?", p_[2:]),
                          {"value": v, "answer": line, "replay": "echo 'A %s' | %s" % (hexs(v + ","), exe)})
    rvals = [w_ for w_ in sorted(set(io[k].split()[2] for k in range(len(wv)) if k < len(io) and len(io[k].split()) == 3)) if W_RE.match(w_)][:: (7 if tier == "quick" else 1)]
    rc_i, qo = run(exe, ["Q %s" % hexs(v + ",") for v in rvals])
    for v, line in zip(rvals, qo):
        p_ = line.split()
        total += 1
        kinds_hist["Q"] = kinds_hist.get("Q", 0) + 1
        ok_ = len(p_) == 5 and p_[0] == "Q" and int(p_[1]) == 3
        if ok_:
            try:
                ok_ = all(W_RE.match(x_) and float(x_) == float(v) for x_ in p_[2:])
            except ValueError:
                ok_ = False
        if not ok_ and abs(float(v)) != 1.17549435082229e-38 and float(v) not in (float("inf"), float("-inf")):
            # (DBL_MAX written with 15 digits is beyond DBL_MAX: non-finite values are outside the property's quantifier, as in the W stream)
            oracle_fail += 1
            res.violation("the REAL %s (as the writer prints it) as an element of an aggregate is read with severity %s and written as %s" % (v, p_[1] if len(p_) > 1 else "?", p_[2:]),
                          {"value": v, "answer": line, "replay": "echo 'Q %s' | %s" % (hexs(v + ","), exe)})
    # literals inside the typed parameter of a SELECT (SDAI_Select::STEPread hands them to the same readers): a well-formed one is
    # read clean, a malformed one is reported - through the reader of schemas/verif_all.exp (HOLDER.v : num_or_label)
    try:
        from schemalib import schema_lib, schema_harness
        sl_ = schema_lib(bdir, os.path.join(VERIF, "schemas", "verif_all.exp"))
        if not sl_["ok"]:
            raise BuildError("schema library does not build: " + sl_["log"][-300:])
        hfile_ = schema_harness(bdir, sl_, "h_file")
        tp_cases = [("LENGTH_MEASURE(2.5)", True), ("LENGTH_MEASURE(-1.E-3)", True), ("COUNT_MEASURE(12)", True), ("COUNT_MEASURE(-7)", True),
                    ("LABEL('x')", True), ("LABEL('')", True), ("RATIO_MEASURE(5)", True), ("RATIO_MEASURE(2.5)", True),
                    ("LENGTH_MEASURE(2)", False), ("LENGTH_MEASURE(.5)", False), ("LENGTH_MEASURE(1.5e3)", False), ("LENGTH_MEASURE(1.E999)", False),
                    ("LENGTH_MEASURE('x')", False), ("COUNT_MEASURE(12abc)", False), ("COUNT_MEASURE(7.5)", False), ("COUNT_MEASURE(1.)", False),
                    ("COUNT_MEASURE('1')", False), ("LABEL(12)", False), ("LABEL(x)", False), ("RATIO_MEASURE(.T.)", False), ("COUNT_MEASURE()", False),
                    ("LENGTH_MEASURE(1.0 2.0)", False),
                    # the comment contexts of a typed parameter
                    ("LENGTH_MEASURE(2.5/*c*/)", True), ("LENGTH_MEASURE(/*c*/2.5)", True), ("LENGTH_MEASURE(2.5)/*,*/", True),
                    ("/*c*/LENGTH_MEASURE(2.5)", True), ("COUNT_MEASURE(12 /*)*/ )", True), ("COUNT_MEASURE( /* ( */ 12)", True),
                    ("LABEL('x'/*c*/)", True), ("LABEL(/*'*/'x' /* ' */ )", True), ("RATIO_MEASURE(5/**/)/**/", True),
                    ("LENGTH_MEASURE/*c*/(2.5)", True),
                    ("LENGTH_MEASURE(2.5/*c)", False), ("LENGTH_MEASURE(2.5/*/)", False), ("COUNT_MEASURE(12/*c*/3)", False)]
        twd = os.path.join(bdir, "verif-work", "c09-typed-%d" % os.getpid())
        os.makedirs(twd, exist_ok=True)
        for lit_, good_ in tp_cases:
            for form_ in ("attr", "agg"):
                body_ = ("#1=POINT('p',0.,0.,$);\n#2=HOLDER(%s,#1,$);\n" % lit_) if form_ == "attr" else \
                        ("#1=POINT('p',0.,0.,$);\n#2=POLY((#1),(1.,2.,3.),('a'),(1),((1)),(.RED.),$,(LABEL('a'),%s),(),(.T.),());\n" % lit_)
                ftp = os.path.join(twd, "t.p21")
                open(ftp, "w").write("ISO-10303-21;\nHEADER;\nFILE_DESCRIPTION(('d'),'2;1');\nFILE_NAME('f','2020-01-01T00:00:00',('a'),('o'),'p','s','a');\n"
                                     "FILE_SCHEMA(('VERIF_ALL'));\nENDSEC;\nDATA;\n" + body_ + "ENDSEC;\nEND-ISO-10303-21;\n")
                rct, ot, et = sh([hfile_, "read", ftp, "dump", "-"], timeout=60)
                sevl_ = [l_ for l_ in ot.split("\n") if l_.startswith("SEV read")]
                fsev_ = int(sevl_[0].split()[3]) if sevl_ else None
                total += 1
                kinds_hist["typed"] = kinds_hist.get("typed", 0) + 1
                if fsev_ is None or (good_ and fsev_ < 3) or (not good_ and fsev_ >= 2):
                    oracle_fail += 1
                    res.violation("the typed parameter %s (%s) of a SELECT is read with file severity %s: %s" % (
                                  lit_, "in a list" if form_ == "agg" else "as the attribute", fsev_, "a well-formed literal is refused" if good_ else "a malformed literal is read without a message"),
                                  {"literal": lit_, "replay": "%s read <file with #2=HOLDER(%s,#1,$);> dump -" % (hfile_, lit_)})
        # the typed parameter of an ENUMERATION member (OPTS.otop : OPTIONAL top_sel, top_sel = SELECT (renamed_sel, color))
        for lit_, good_ in [("COLOR(.RED.)", True), ("COLOR(.green.)", True), ("COLOR()", False), ("COLOR( )", False), ("COLOR(.NOSUCH.)", False),
                            ("COLOR(.RED)", False), ("COLOR(1)", False), ("$", True)]:
            ftp = os.path.join(twd, "o.p21")
            open(ftp, "w").write("ISO-10303-21;\nHEADER;\nFILE_DESCRIPTION(('d'),'2;1');\nFILE_NAME('f','2020-01-01T00:00:00',('a'),('o'),'p','s','a');\n"
                                 "FILE_SCHEMA(('VERIF_ALL'));\nENDSEC;\nDATA;\n#2=OPTS($,$,$,$,$,$,$,$,$,%s);\nENDSEC;\nEND-ISO-10303-21;\n" % lit_)
            rct, ot, et = sh([hfile_, "read", ftp, "dump", "-"], timeout=60)
            sevl_ = [l_ for l_ in ot.split("\n") if l_.startswith("SEV read")]
            fsev_ = int(sevl_[0].split()[3]) if sevl_ else None
            total += 1
            kinds_hist["typed"] = kinds_hist.get("typed", 0) + 1
            if fsev_ is None or (good_ and fsev_ < 3) or (not good_ and fsev_ >= 2):
                oracle_fail += 1
                res.violation("the typed parameter %s of a SELECT with an ENUMERATION member is read with file severity %s: %s" % (
                              lit_, fsev_, "a well-formed literal is refused" if good_ else "a malformed literal is read without a message"),
                              {"literal": lit_, "replay": "%s read <file with #2=OPTS($,$,$,$,$,$,$,$,$,%s);> dump -" % (hfile_, lit_)})
        # entity references: a well-formed name of an existing instance is bound to exactly that instance; a name no instance has
        # (beyond 32 or 64 bits too: never folded onto an existing one), a signed, empty or alphanumeric name is reported
        ref_cases = [("#1", "#1"), ("#3", "#3"), ("#03", "#3"), ("#0001", "#1"), ("#99", None), ("#4294967297", None), ("#4294967299", None),
                     ("#8589934593", None), ("#18446744073709551617", None), ("#18446744073709551619", None), ("#-1", None), ("#1x", None),
                     ("#0", None), ("#", None), ("#x", None), ("#1.", None), ("#1.0", None)]
        for ref_, want_ in ref_cases:
            for form_ in ("attr", "agg"):
                body_ = "#1=POINT('p',0.,0.,$);\n#3=POINT('q',1.,0.,$);\n" + (
                    ("#2=HOLDER(LABEL('x'),%s,$);\n" % ref_) if form_ == "attr" else
                    ("#2=POLY((#1,%s),(1.,2.,3.),('a'),(1),((1)),(.RED.),$,(LABEL('a')),(),(.T.),());\n" % ref_))
                ftp = os.path.join(twd, "r.p21")
                open(ftp, "w").write("ISO-10303-21;\nHEADER;\nFILE_DESCRIPTION(('d'),'2;1');\nFILE_NAME('f','2020-01-01T00:00:00',('a'),('o'),'p','s','a');\n"
                                     "FILE_SCHEMA(('VERIF_ALL'));\nENDSEC;\nDATA;\n" + body_ + "ENDSEC;\nEND-ISO-10303-21;\n")
                rct, ot, et = sh([hfile_, "read", ftp, "dump", "-"], timeout=60)
                sevl_ = [l_ for l_ in ot.split("\n") if l_.startswith("SEV read")]
                fsev_ = int(sevl_[0].split()[3]) if sevl_ else None
                il_ = [l_ for l_ in ot.split("\n") if l_.startswith("INST ") and " #2 " in l_]
                mref_ = re.search(r"\| e=([#$\w]*)" if form_ == "attr" else r"\| pts=\(#1,([^)]*)\)", il_[0]) if il_ else None
                got_ = mref_.group(1) if mref_ else None
                total += 1
                kinds_hist["reference"] = kinds_hist.get("reference", 0) + 1
                bad_ = None
                if fsev_ is None:
                    bad_ = "the reader dies or prints no severity"
                elif want_ and (fsev_ < 3 or got_ != want_):
                    bad_ = "a well-formed reference to an existing instance is read with file severity %s as %s" % (fsev_, got_)
                elif not want_ and fsev_ >= 2:
                    bad_ = "no instance has that name, yet it is read without a message, as %s" % got_
                if bad_:
                    oracle_fail += 1
                    res.violation("the entity reference %s (%s): %s" % (ref_, "in a list" if form_ == "agg" else "as the attribute", bad_),
                                  {"literal": ref_, "replay": "%s read <file with #1, #3 = POINT and #2=HOLDER(LABEL('x'),%s,$);> dump -" % (hfile_, ref_)})
        # nothing between two delimiters of an aggregate - (a,,b), (a,), (,a) - is no element of any kind, not an unset one either
        pbase_ = "#1=POINT('p',0.,0.,$);\n#2=POLY(%(p)s,%(w)s,%(n)s,%(c)s,%(g)s,%(col)s,$,%(s)s,%(b)s,%(l)s,());\n"
        pdef_ = dict(p="(#1)", w="(1.,2.,3.)", n="('a')", c="(1)", g="((1))", col="(.RED.)", s="(LABEL('a'))", b="()", l="(.T.)")
        ecases_ = [({}, True)]
        for key_, a_, b_ in (("p", "#1", "#1"), ("w", "1.", "2."), ("n", "'a'", "'b'"), ("c", "1", "2"), ("col", ".RED.", ".GREEN."),
                             ("s", "LABEL('a')", "LABEL('b')"), ("b", '"0"', '"1"'), ("l", ".T.", ".F."), ("g", "(1)", "(2)")):
            for shape_ in ("(%s,,%s)", "(%s,)", "(,%s)", "(%s, ,%s)", "(%s,%s,)"):
                ecases_.append(({key_: shape_ % ((a_, b_)[:shape_.count("%s")])}, False))
            ecases_.append(({key_: "(%s,%s)" % (a_, b_)}, True))
        ecases_.append(({"g": "((1,,2))"}, False))
        # a comment is white space wherever it stands among the elements - before one, after one, holding delimiters -
        # and stands for no element
        for key_, a_, b_ in (("p", "#1", "#1"), ("w", "1.", "2."), ("n", "'a'", "'b'"), ("c", "1", "2"), ("col", ".RED.", ".GREEN."),
                             ("s", "LABEL('a')", "LABEL('b')"), ("b", '"0"', '"1"'), ("l", ".T.", ".F."), ("g", "(1)", "(2)")):
            for shape_ in ("(%s/*c*/,%s)", "(/*c*/%s,%s)", "(%s,/*,*/%s)", "(%s,%s/*)*/)", "( /* a */ /* b */ %s , %s /**/ )"):
                ecases_.append(({key_: shape_ % (a_, b_)}, True))
            ecases_.append(({key_: "(%s,/*c*/,%s)" % (a_, b_)}, False))
            ecases_.append(({key_: "(%s,%s,/*c*/)" % (a_, b_)}, False))
        ecases_ += [({"g": "((1/*)*/),(2))"}, True), ({"g": "((1),/*(*/(2))"}, True), ({"g": "((1/*c*/),/*c*/(2))"}, True)]
        for kw_, good_ in ecases_:
            vals_ = dict(pdef_)
            vals_.update(kw_)
            ftp = os.path.join(twd, "e.p21")
            open(ftp, "w").write("ISO-10303-21;\nHEADER;\nFILE_DESCRIPTION(('d'),'2;1');\nFILE_NAME('f','2020-01-01T00:00:00',('a'),('o'),'p','s','a');\n"
                                 "FILE_SCHEMA(('VERIF_ALL'));\nENDSEC;\nDATA;\n" + (pbase_ % vals_) + "ENDSEC;\nEND-ISO-10303-21;\n")
            rct, ot, et = sh([hfile_, "read", ftp, "dump", "-"], timeout=60)
            sevl_ = [l_ for l_ in ot.split("\n") if l_.startswith("SEV read")]
            fsev_ = int(sevl_[0].split()[3]) if sevl_ else None
            total += 1
            kinds_hist["aggregate_elements"] = kinds_hist.get("aggregate_elements", 0) + 1
            if fsev_ is None or (good_ and fsev_ < 3) or (not good_ and fsev_ >= 2):
                # open finding: the elements of a list of lists are kept as raw text by scanners that count parentheses and
                # apostrophes without knowing comments (SCLundefined::STEPread, PushPastImbedAggr)
                sig_ = None
                if good_ and fsev_ is not None and "g" in kw_ and re.search(r"/\*[^*]*[()'][^*]*\*/", kw_["g"]):
                    sig_ = "comment_with_parenthesis_in_nested_aggregate"
                if res.violation("the aggregate %s is read with file severity %s: %s" % (
                                 list(kw_.values())[:1] or "(all well-formed)", fsev_, "well-formed elements are refused" if good_ else "an element is missing, yet there is no message"),
                                 {"literal": str(kw_), "replay": "%s read <file with #2=POLY(...%s...)> dump -" % (hfile_, list(kw_.values())[:1])},
                                 signature=sig_):
                    oracle_fail += 1
        shutil.rmtree(twd, ignore_errors=True)
    except BuildError as e_:
        res.violation("build failed: %s" % e_, {"error": str(e_)}, found_input=False)
    # read back what the writer wrote
    rb = [io[k].split()[2] for k in range(len(wv)) if k < len(io) and len(io[k].split()) == 3]
    rc_i, ro = run(exe, ["R %s" % hexs(w + ",") for w in rb])
    for w, line in zip(rb, ro):
        if not line.strip():
            continue
        a, _ = parse_ans(line)
        total += 1
        if not (a[0] == 1 and a[2] == 3 and a[3] == 1 and float(a[1]) == float(w)):
            try:
                if float(w) in (float("inf"), float("-inf")):
                    continue
            except ValueError:
                continue   # INF./NAN.: non-finite values are outside the property's quantifier
            oracle_fail += 1
            res.violation("written real %r does not read back to its value: %s" % (w, line), {"written": w, "answer": line})
    if not pr["ok"]:
        res.violation("Properties_C09.v no longer checks (%s)" % ", ".join(pr["failed"] or ["see log"]),
                      {"theorem_or_correspondence": "coq/Properties_C09.v", "log": pr["log"]}, found_input=False)
    res.coverage.update({
        "evaluations": total,
        "distinct_nontrivial": len(nontrivial),
        "rule": "for each of ReadInteger/ReadReal/ReadNumber: corpus + ALL strings of length <= %d over the kind's alphabet "
                "%s, each followed by every suffix of %s (delimiter contexts: ',' / ')' / white space / comment), every string of "
                "length <= that + 2 over the alphabet 1/* ,x (a value among the characters comments are made of), + boundary tokens (64-bit range, double "
                "range, 18..200 digits); writer: exponent grid -300..300 x boundary mantissas, integers near 2^k and 10^k, "
                "random reals, each read back; ENUMERATION / BOOLEAN / LOGICAL words and STRING bodies (alphabet ' \\ S a ,) exhaustively up to the "
                "tier's length in every delimiter context; non-trivial = non-empty token that is assigned or flagged" % (
                    maxlen, {k: "".join(v) for k, v in ALPHA.items()}, SUFFIX),
        "exhaustive": True,
        "samples": samples or [{"note": "no sample drawn"}],
        "traces_validated_against_impl": total,
        "kind_histogram": kinds_hist,
        "severity_histogram": {str(k): v for k, v in sev_hist.items()},
        "correspondence_disagreements": disagreements,
        "oracle_failures": oracle_fail,
        "unproved_clauses": ["entity-reference tokens are not in the model (fixed cases through the schema reader only)",
                             "binary64 value of a decimal numeral (trusted: strtod)"],
    })
    res.assumptions = ["C locale", "delimiter list ',)' as passed by STEPattribute::STEPread"]
    return res.finish()


if __name__ == "__main__":
    tier = os.environ.get("VERIF_TIER", "quick")
    if "--tier" in sys.argv:
        tier = sys.argv[sys.argv.index("--tier") + 1]
    sys.exit(main(tier, int(os.environ.get("VERIF_SEED", "1"))))
