#!/usr/bin/env python3
"""C02 -- generated C++ dictionary and classes mirror the EXPRESS schema exactly.
Coq: Properties_C02.v (attribute order of an instance vs ISO 10303-21 order over any
inheritance graph).  Correspondence / oracle: generated schemas through exp2cxx, compiled; the
run-time dictionary dumped by harness/h_dict.cc (entities, supertypes, subtypes, abstractness,
explicit / derived / inverse attributes in order with name, optionality, type; defined types
with underlying type, enumeration items in order, select members, aggregate kind / bounds /
flags; attribute order of a fresh instance) compared with the schema; accessors of a
generated test program read back what the mutators stored."""
import os
import re
import shutil
import sys

sys.path.insert(0, os.path.dirname(os.path.abspath(__file__)))
from common import *  # noqa
from schemalib import schema_lib, schema_harness
import gen_express as G
from c17 import enrich
from c18 import p21_order

PID = "C02"
INF = 2147483647
SIMPLE = {"INTEGER", "REAL", "STRING", "BOOLEAN", "LOGICAL", "NUMBER", "BINARY"}


def type_root(S, name):
    """(base primitive, chain) of a defined type name"""
    t = [x for x in S.types if x["name"] == name]
    if not t:
        return None
    t = t[0]
    if t["kind"] == "simple":
        return t["base"]
    if t["kind"] == "enum":
        return "ENUMERATION"
    if t["kind"] == "select":
        return "SELECT"
    if t["kind"] == "aggr":
        return t["agg"]
    return type_root(S, t["target"])


def expect_attr_type(S, ty):
    """-> dict(type, base, aggr?) for an attribute type string"""
    m = re.match(r"^(LIST|SET|BAG|ARRAY) \[(\d+):(\?|\d+)\] OF (.+)$", ty)
    if m:
        el = m.group(4)
        return {"type": "-", "base": m.group(1), "aggr": m.group(1), "b1": int(m.group(2)), "b2": INF if m.group(3) == "?" else int(m.group(3)), "elem": el.lower()}
    if ty in SIMPLE:
        return {"type": ty.lower(), "base": ty}
    if any(e["name"] == ty for e in S.entities):
        return {"type": ty.lower(), "base": "ENTITY"}
    return {"type": ty.lower(), "base": type_root(S, ty)}


def parse_dump(txt):
    ents, order, types = {}, [], {}
    for line in txt.split("\n"):
        p = line.split()
        if not p:
            continue
        if p[0] == "ENT":
            kv = dict(x.split("=", 1) for x in p[2:])
            ents[p[1]] = {"abstract": kv["abstract"] == "1", "supers": [x for x in kv["supers"].split(",") if x], "subs": [x for x in kv["subs"].split(",") if x],
                          "attrs": [], "inst": None}
            order.append(p[1])
        elif p[0] == "ATTR":
            rest = line.split(" ", 3)[3]
            kv = dict(re.findall(r"(\w+)=(\S+)", rest.split(" [")[0]))
            kv["name"] = p[2]
            kv["nested"] = " [" in rest
            ents[p[1]]["attrs"].append(kv)
        elif p[0] == "INST":
            ents[p[1]]["inst"] = None if p[2] == "none" else [x for x in p[2].split("=", 1)[1].split(",") if x]
        elif p[0] == "TYPE":
            rest = line.split(" ", 2)[2]
            kv = dict(re.findall(r"(\w+)=(\S+)", rest.split(" [")[0]))
            types[p[1]] = kv
    return ents, order, types


def accessor_test(S):
    """C++ source exercising every explicit attribute of simple type of every instantiable entity"""
    out = ['#include "schema.h"', '#include <cstdio>', '#include <cstring>', '#include <string>', "int main() {", "  Registry registry( SchemaInit ); int bad = 0;"]
    n = 0
    for e in S.entities:
        if e["abstract"]:
            continue
        cls = "Sdai" + e["name"][0].upper() + e["name"][1:].lower()
        var = "x%d" % n
        body = []
        for a in e["attrs"]:
            an = a["name"].lower() + "_"
            ty = a["type"]
            root = ty if ty in SIMPLE else (type_root(S, ty) if not re.match(r"^(LIST|SET|BAG|ARRAY) ", ty) and not any(q["name"] == ty for q in S.entities) else None)
            if root == "INTEGER":
                body.append('  %s->%s( 41 + %d ); if( %s->%s() != 41 + %d ) { printf("ACCESSOR %s.%s\\n"); bad++; }' % (var, an, n, var, an, n, e["name"], a["name"]))
            elif root == "REAL" or root == "NUMBER":
                body.append('  %s->%s( 2.5 ); if( %s->%s() != 2.5 ) { printf("ACCESSOR %s.%s\\n"); bad++; }' % (var, an, var, an, e["name"], a["name"]))
            elif root == "STRING":
                body.append('  %s->%s( "it\'s %d" ); if( strcmp( %s->%s().c_str(), "it\'s %d" ) ) { printf("ACCESSOR %s.%s\\n"); bad++; }' % (var, an, n, var, an, n, e["name"], a["name"]))
            elif root == "BOOLEAN":
                body.append('  %s->%s( BTrue ); if( %s->%s() != BTrue ) { printf("ACCESSOR %s.%s\\n"); bad++; }' % (var, an, var, an, e["name"], a["name"]))
            elif root == "LOGICAL":
                body.append('  %s->%s( LUnknown ); if( %s->%s() != LUnknown ) { printf("ACCESSOR %s.%s\\n"); bad++; }' % (var, an, var, an, e["name"], a["name"]))
            elif root == "BINARY":
                body.append('  { SDAI_Binary b_( std::string( "0FF" ) ); %s->%s( b_ ); if( strcmp( %s->%s().c_str(), "0FF" ) ) { printf("ACCESSOR %s.%s\\n"); bad++; } }' % (var, an, var, an, e["name"], a["name"]))
            elif any(q["name"] == ty and not q["abstract"] for q in S.entities):
                tcls = "Sdai" + ty[0].upper() + ty[1:].lower()
                body.append('  { %s * r_ = new %s; %s->%s( r_ ); if( %s->%s() != r_ ) { printf("ACCESSOR %s.%s\\n"); bad++; } }' % (tcls, tcls, var, an, var, an, e["name"], a["name"]))
            else:
                td = next((t for t in S.types if t["name"] == ty and t["kind"] == "enum"), None)
                if td and td.get("items"):
                    tn = ty[0].upper() + ty[1:].lower()
                    item = "%s__%s" % (tn, td["items"][-1].lower())
                    body.append('  %s->%s( %s ); if( %s->%s() != %s ) { printf("ACCESSOR %s.%s\\n"); bad++; }' % (var, an, item, var, an, item, e["name"], a["name"]))
        # the same through the attribute list (what STEPwrite prints), for own and inherited attributes: the value a mutator
        # stores must be the value the instance writes.  "first" = reached through first supertypes only (C++ inheritance).
        def walk(en, first, acc, seen):
            ent = S.entity(en)
            for i_, s_ in enumerate(ent["supers"]):
                walk(s_, first and i_ == 0, acc, seen)
            if en not in seen:
                seen.add(en)
                for a_ in ent["attrs"]:
                    acc.append((en, a_, first))
        inh = []
        walk(e["name"], True, inh, set())
        names = [a_["name"].lower() for (_o, a_, _f) in inh]
        for k_, (owner, a, first) in enumerate(inh):
            if names.count(a["name"].lower()) > 1:
                continue            # the same name from two supertypes: which one an accessor means is another finding
            an = a["name"].lower() + "_"
            ty = a["type"]
            root = ty if ty in SIMPLE else (type_root(S, ty) if not re.match(r"^(LIST|SET|BAG|ARRAY) ", ty) and not any(q["name"] == ty for q in S.entities) else None)
            tag = "%s.%s.%s.%s" % (e["name"], owner, a["name"], "first" if first else "other")
            if root == "INTEGER":
                body.append('  %s->%s( 77 + %d ); if( attr_text( %s, "%s" ) != "%d" ) { printf("ACCLIST %s %%s\\n", attr_text( %s, "%s" ).c_str() ); bad++; }' % (
                    var, an, k_, var, a["name"].lower(), 77 + k_, tag, var, a["name"].lower()))
            elif root == "REAL":
                body.append('  %s->%s( 6.5 ); if( attr_text( %s, "%s" ) != "6.5" ) { printf("ACCLIST %s %%s\\n", attr_text( %s, "%s" ).c_str() ); bad++; }' % (
                    var, an, var, a["name"].lower(), tag, var, a["name"].lower()))
        if body:
            out.append("  %s * %s = new %s;" % (cls, var, cls))
            out += body
            n += 1
    out += ['  printf("ACCESSORS %d classes bad %d\\n", ' + str(n) + ", bad );", "  return bad ? 1 : 0;", "}"]
    helper = ['#include <strings.h>', '#include "clstepcore/STEPattribute.h"',
              'static std::string attr_text( SDAI_Application_instance * inst, const char * nm ) {',
              '  for( int k = 0; k < inst->attributes.list_length(); k++ ) {',
              '    STEPattribute & a = inst->attributes[k];',
              '    if( !strcasecmp( a.Name(), nm ) && a.aDesc->AttrType() != AttrType_Redefining ) { std::string s_; a.asStr( s_ ); return s_; }',
              '  }',
              '  return "<no such attribute>";',
              '}']
    i_main = out.index("int main() {")
    out = out[:i_main] + helper + out[i_main:]
    return "\n".join(out) + "\n", n


def clist_mismatch(dump, ents):
    """ents: [(name, [supertypes])]; returns a description of the first difference between the CLIST lines of the dump
    (harness/h_dict.cc: the ComplexList of each root supertype and the entities it holds) and the schema, or None"""
    subs = {}
    for n, sups in ents:
        for s_ in sups:
            subs.setdefault(s_, []).append(n)
    want = {}
    for n, sups in ents:
        if not sups and subs.get(n):
            seen, todo = set(), [n]
            while todo:
                x = todo.pop()
                if x not in seen:
                    seen.add(x)
                    todo += subs.get(x, [])
            want[n] = sorted(seen)
    got = {}
    for l in dump.split("\n"):
        p_ = l.split()
        if p_[:1] == ["CLIST"]:
            got[p_[1]] = sorted(set(p_[2:]))
    for n in sorted(want):
        if n not in got:
            return "no complex-instance structure is generated for supertype %s (subtypes %s)" % (n, want[n])
        if got[n] != want[n]:
            return "the complex-instance structure of supertype %s holds %s, its subtypes in the schema are %s" % (n, got[n], want[n])
    for n in sorted(got):
        if n not in want:
            return "a complex-instance structure is generated for %s, which is not a root supertype" % n
    return None


# schemas/c02_fixed.exp: what a fresh instance of each entity exposes (name* = derived: written as an asterisk)
FIXED_INST = {
    "base_q": "qn", "sub_q": "qn,extra", "base_p": "tag,load",
    "narrow_p": "tag,load,base_p.load,more", "narrow_last": "tag,load,own,base_p.load",
    "derive_p": "tag*,load", "both_p": "tag*,load,base_p.load,more",
    "dd_a": "x,y", "dd_b": "x,y,bb", "dd_c": "x*,y", "dd_d": "x*,y,bb", "dd_e": "x*,y,bb",
    "literal_number": "the_value", "int_literal": "the_value,literal_number.the_value", "arrays": "u,ou,o,nested,named,lu,plain,neg",
    "unbounded": "a,b,c", "vehicle": "wheels", "car": "wheels", "truck": "wheels", "electric": "wheels,volts", "duck": "wheels",
}
FIXED_ENTS = [("base_q", []), ("sub_q", ["base_q"]), ("base_p", []), ("narrow_p", ["base_p"]), ("narrow_last", ["base_p"]),
              ("derive_p", ["base_p"]), ("both_p", ["narrow_p"]), ("vehicle", []), ("car", ["vehicle"]), ("truck", ["vehicle"]),
              ("electric", ["vehicle"]), ("amphibian", ["vehicle"]), ("duck", ["amphibian"]), ("unbounded", []),
              ("literal_number", []), ("int_literal", ["literal_number"]), ("arrays", []),
              ("dd_a", []), ("dd_b", ["dd_a"]), ("dd_c", ["dd_a"]), ("dd_d", ["dd_b", "dd_c"]), ("dd_e", ["dd_c", "dd_b"])]
# bounds of aggregates declared without them, as harness/h_dict.cc prints them
FIXED_BOUNDS = {("unbounded", "a"): "aggr=LIST b1=unset b2=unset", ("unbounded", "c"): "aggr=BAG b1=unset b2=unset",
                ("unbounded", "b"): "aggr=LIST b1=0 b2=2147483647",
                # UNIQUE / OPTIONAL elements
                ("arrays", "u"): "aggr=ARRAY b1=1 b2=3 auniq=1 aopt=0 elem=integer", ("arrays", "ou"): "aggr=ARRAY b1=0 b2=2 auniq=1 aopt=1 elem=real",
                ("arrays", "o"): "aggr=ARRAY b1=0 b2=2 auniq=0 aopt=1 elem=real", ("arrays", "nested"): "aggr=ARRAY b1=1 b2=2 auniq=0 aopt=0",
                ("arrays", "named"): "aggr=ARRAY b1=1 b2=4 auniq=1 aopt=0 elem=base_q", ("arrays", "lu"): "aggr=LIST b1=0 b2=2147483647 auniq=1 aopt=0 elem=integer",
                ("arrays", "plain"): "aggr=ARRAY b1=1 b2=2 auniq=0 aopt=0 elem=integer", ("arrays", "neg"): "aggr=ARRAY b1=-2 b2=2 auniq=0 aopt=0 elem=real"}
FIXED_INNER = {("unbounded", "b"): "[ aggr=SET b1=unset b2=unset", ("arrays", "nested"): "[ aggr=ARRAY b1=1 b2=2 auniq=1 aopt=0 elem=integer ]"}
FIXED_TYPES = {"corner_array": "aggr=ARRAY b1=1 b2=4 auniq=1 aopt=0 elem=base_q", "around_zero": "aggr=ARRAY b1=-3 b2=-1 auniq=0 aopt=0 elem=integer"}
FIXED_KINDS = {("narrow_p", "base_p.load"): "redefining", ("narrow_last", "base_p.load"): "redefining",
               ("int_literal", "literal_number.the_value"): "redefining",
               ("derive_p", "base_p.tag"): "derived", ("both_p", "base_p.tag"): "derived"}


known_ = []


def fixed_schema_problems(bdir):
    """redeclared attributes and implicit subtypes (schemas/c02_fixed.exp): list of differences from the schema;
    known_: the differences of the open finding diamond_with_derived_redeclaration (dd_d, dd_e)"""
    out_ = []
    del known_[:]
    sl = schema_lib(bdir, os.path.join(VERIF, "schemas", "c02_fixed.exp"))
    if not sl["ok"]:
        return ["the code exp2cxx emits for schemas/c02_fixed.exp does not compile: %s" % sl["log"][-300:]]
    exe = schema_harness(bdir, sl, "h_dict")
    rc, out, err = sh([exe], timeout=120, env={"MALLOC_PERTURB_": "165"})
    if rc != 0:
        return ["h_dict dies on schemas/c02_fixed.exp (status %d)" % rc]
    for l in out.split("\n"):
        p_ = l.split()
        if p_[:1] == ["ATTR"] and len(p_) >= 3:
            for table in (FIXED_BOUNDS, FIXED_INNER):
                want = table.get((p_[1], p_[2]))
                if want and want not in l:
                    out_.append("c02_fixed: attribute %s.%s: the dictionary says '%s', the schema gives '%s'" % (p_[1], p_[2], " ".join(p_[6:])[:120], want))
    for l in out.split("\n"):
        p_ = l.split()
        if p_[:1] == ["TYPE"] and len(p_) >= 2 and p_[1] in FIXED_TYPES and FIXED_TYPES[p_[1]] not in l:
            out_.append("c02_fixed: type %s: the dictionary says '%s', the schema gives '%s'" % (p_[1], " ".join(p_[2:])[:120], FIXED_TYPES[p_[1]]))
    inst, kinds = {}, {}
    for l in out.split("\n"):
        p_ = l.split()
        if p_[:1] == ["INST"] and len(p_) >= 3:
            inst[p_[1]] = p_[2].split("=", 1)[1] if "=" in p_[2] else p_[2]
        elif p_[:1] == ["ATTR"] and len(p_) >= 4:
            kinds[(p_[1], p_[2])] = p_[3].split("=", 1)[1]
    for en, want in sorted(FIXED_INST.items()):
        if inst.get(en) != want:
            if en in ("dd_d", "dd_e"):
                known_.append("c02_fixed: a new %s exposes attributes [%s], the schema gives [%s]" % (en, inst.get(en), want))
                continue
            out_.append("c02_fixed: a new %s exposes attributes [%s], the schema gives [%s] (name* = derived, written as an asterisk; "
                        "base_p.x = the redeclaring attribute, not written)" % (en, inst.get(en), want))
    if "amphibian" in inst and inst["amphibian"] != "none":
        out_.append("c02_fixed: the ABSTRACT entity amphibian can be instantiated through the registry")
    for key, want in sorted(FIXED_KINDS.items()):
        if kinds.get(key) != want:
            out_.append("c02_fixed: attribute %s of %s is recorded as %s, the schema says %s" % (key[1], key[0], kinds.get(key), want))
    cm = clist_mismatch(out, FIXED_ENTS)
    if cm:
        out_.append("c02_fixed: " + cm)
    return out_


def main(tier, seed):
    res = Result(PID, tier, seed)
    pr = coq_prove(PID)
    proof_coverage(res, pr, ["the dictionary the generated SchemaInit() registers is observed through harness/h_dict.cc (clstepcore accessors trusted)",
                             "which attributes exp2cxx gives a class and in which order is modelled by hand (coq/CxxAttrs.v) and tied by this run"])
    if pr["forbidden"]:
        res.violation("forbidden vernacular in coq/", {"forbidden": pr["forbidden"]}, found_input=False)
    try:
        bdir = build_impl("dbg")
        extract_and_build_drivers()
    except BuildError as e:
        res.violation("build failed: %s" % e, {"error": str(e)}, found_input=False)
        res.coverage.update({"evaluations": 0, "distinct_nontrivial": 0})
        return res.finish()
    wroot = os.path.join(bdir, "verif-work", "c02-%d" % os.getpid())
    os.makedirs(wroot, exist_ok=True)
    nsch = 8 if tier == "quick" else 200
    evals = 0
    oracle_fail = 0
    nontrivial = 0
    hist = {"entities": 0, "attributes": 0, "derived": 0, "inverse": 0, "types": 0, "instances": 0, "accessor_classes": 0, "multi_super": 0}
    samples = []

    def save(name, text):
        os.makedirs(res.replay_dir, exist_ok=True)
        p = os.path.join(res.replay_dir, name)
        open(p, "w").write(text)
        return p

    for k in range(nsch):
        r = rng(seed, "c02/%d" % k)
        S = enrich(r, G.gen_schema(r, name="dict_%d_%d" % (seed, k), keywordish=(k % 3 == 1), n_ent=max(r.randint(4, 10), 6 if k % 4 == 3 else 0)))
        if k % 4 == 2 and len(S.entities) >= 4:
            a, b, c, d = [e["name"] for e in S.entities[:3]] + [S.entities[-1]["name"]]
            S.entity(a)["supers"] = []
            S.entity(b)["supers"] = [a]
            S.entity(c)["supers"] = [a]
            S.entity(d)["supers"] = [b, c]
            for e in S.entities:
                e["supexpr"] = None
                e["abstract"] = False
        if k % 4 == 3 and len(S.entities) >= 5:
            # three and four unrelated direct supertypes
            ns = [e["name"] for e in S.entities]
            for e in S.entities:
                e["supers"] = []
                e["supexpr"] = None
                e["abstract"] = False
            S.entity(ns[-1])["supers"] = ns[:3]
            # two unrelated supertypes declare an attribute of the same name (of different types)
            S.entity(ns[0])["attrs"].append({"name": "same_nm", "type": "INTEGER", "optional": False})
            S.entity(ns[2])["attrs"].insert(0, {"name": "same_nm", "type": "STRING", "optional": True})
            if len(ns) >= 6:
                S.entity(ns[-2])["supers"] = [ns[3], ns[1], ns[0], ns[2]]
        text = G.render(S)
        fexp = os.path.join(wroot, "dict_%d.exp" % k)
        open(fexp, "w").write(text)
        sl = schema_lib(bdir, fexp)
        evals += 1
        problems = []
        sigs = []

        def bad(msg, sig=None):
            problems.append(msg)
            sigs.append(sig)
        if not sl["ok"]:
            sigc = None
            # an attribute name that two entities declare, met by the accessors a SELECT class generates for its members
            clash = {a["name"].lower() for e in S.entities for a in e["attrs"]
                     if sum(1 for e2 in S.entities for a2 in e2["attrs"] if a2["name"].lower() == a["name"].lower()) > 1}
            named = set(re.findall(r"->(\w+?)_\(", sl["log"])) | set(re.findall(r"::_(\w+)", sl["log"]))
            if clash & {n.lower() for n in named} and any(t["kind"] == "select" for t in S.types):
                sigc = "select_over_clashing_attribute_names"
            bad("the code exp2cxx emits for a valid schema does not compile: %s" % sl["log"][-400:], sigc)
        else:
            exe = schema_harness(bdir, sl, "h_dict")
            # fresh heap memory is filled with a non-zero byte: a descriptor field the generated code never sets shows as garbage
            # instead of passing for "unset" by the luck of a zeroed page
            rc, out, err = sh([exe], timeout=120, env={"MALLOC_PERTURB_": "165"})
            if rc != 0:
                bad("h_dict dies (status %d): %s" % (rc, err[-200:]))
            ents, order, types = parse_dump(out)
            for e in S.entities:
                en = e["name"].lower()
                hist["entities"] += 1
                d = ents.get(en)
                if d is None:
                    bad("entity %s is not in the registry" % en)
                    continue
                if d["abstract"] != bool(e["abstract"]):
                    bad("entity %s: abstract=%s in the dictionary, %s in the schema" % (en, d["abstract"], e["abstract"]))
                if d["supers"] != [s.lower() for s in e["supers"]]:
                    bad("entity %s: supertypes %s, declared %s" % (en, d["supers"], e["supers"]))
                if len(e["supers"]) > 1:
                    hist["multi_super"] += 1
                subs = sorted(q["name"].lower() for q in S.entities if e["name"] in q["supers"])
                if sorted(d["subs"]) != subs:
                    bad("entity %s: subtypes %s, the schema has %s" % (en, sorted(d["subs"]), subs))
                want = []
                for a in e["attrs"]:
                    x = expect_attr_type(S, a["type"])
                    x.update({"name": a["name"].lower(), "kind": "explicit", "optional": "1" if a["optional"] else "0"})
                    want.append(x)
                for a in e["derived"]:
                    x = expect_attr_type(S, a["type"])
                    x.update({"name": a["name"].lower(), "kind": "derived", "optional": "0"})
                    want.append(x)
                    hist["derived"] += 1
                for a in e["inverse"]:
                    want.append({"name": a["name"].lower(), "kind": "inverse", "optional": "0", "type": "-", "base": "SET", "aggr": "SET", "b1": 0, "b2": INF,
                                 "inv": "%s.%s" % (a["entity"].lower(), a["attr"].lower())})
                    hist["inverse"] += 1
                got = d["attrs"]
                hist["attributes"] += len(want)
                if [g["name"] for g in got] != [w["name"] for w in want]:
                    bad("entity %s: attributes %s, declared order %s" % (en, [g["name"] for g in got], [w["name"] for w in want]))
                else:
                    for g, w in zip(got, want):
                        for key in ("kind", "optional", "type", "base", "aggr", "inv", "elem"):
                            if key in w and str(g.get(key)) != str(w[key]):
                                bad("attribute %s.%s: %s=%s in the dictionary, the schema says %s" % (en, w["name"], key, g.get(key), w[key]))
                        for key in ("b1", "b2"):
                            if key in w and str(g.get(key)) != str(w[key]):
                                bad("attribute %s.%s: aggregate bound %s=%s in the dictionary, the schema says %s" % (en, w["name"], key, g.get(key), w[key]))
                if not e["abstract"]:
                    hist["instances"] += 1
                    wi = [a.lower() for (_, a) in p21_order(S, e["name"])]
                    gi = [x.rstrip("*") for x in (d["inst"] or [])]
                    if d["inst"] is None:
                        bad("entity %s cannot be instantiated through the registry" % en)
                    elif gi != wi:
                        sig = None
                        if len(gi) != len(set(gi)) and [x for i, x in enumerate(gi) if x not in gi[:i]] == wi:
                            sig = "cxx_diamond_attrs_twice"
                        bad("a new %s exposes attributes %s, Part 21 order is %s" % (en, gi, wi), sig)
            # model: CxxAttrs.v cxx_order vs the attribute list of the fresh instances
            ids = {e["name"]: i + 1 for i, e in enumerate(S.entities)}
            rev = {v: k2 for k2, v in ids.items()}
            toks = []
            for e in S.entities:
                kinds = "E" * len(e["attrs"]) + "D" * len(e["derived"]) + "I" * len(e["inverse"])
                toks.append("%d:%s:%s" % (ids[e["name"]], ",".join(str(ids[s]) for s in e["supers"]), kinds or "-"))
            rcm, mo, me = sh([driver("drv_c18")], input=(" ".join(toks) + "\n").encode(), timeout=60)
            for part in mo.strip().split(" ; "):
                f = part.split("|")
                if len(f) < 5:
                    continue
                en = rev[int(f[0])]
                d = ents.get(en.lower())
                if d is None or d["inst"] is None:
                    continue
                mlist = []
                for x in f[4].split(","):
                    if x:
                        o, i = x.split(".")
                        mlist.append(S.entity(rev[int(o)])["attrs"][int(i)]["name"].lower())
                if mlist != [x.rstrip("*") for x in d["inst"]]:
                    res.violation("model CxxAttrs.v and the generated class disagree on the attribute order of %s: model %s, instance %s" % (en, mlist, d["inst"]),
                                  {"input_file": save("c02-%d-%d.exp" % (seed, k), text), "theorem_or_correspondence": "correspondence C02: coq/CxxAttrs.v vs ordered_attrs.cc"},
                                  found_input=False)
            extra = set(ents) - {e["name"].lower() for e in S.entities}
            if extra:
                bad("registry entities %s are not in the schema" % sorted(extra))
            # the structures generated for externally mapped instances: one list per root supertype, holding all its descendants
            # (listed in its SUPERTYPE OF expression or not)
            bad_cl = clist_mismatch(out, [(e["name"].lower(), [x.lower() for x in e["supers"]]) for e in S.entities])
            hist["clists"] = hist.get("clists", 0) + 1
            if bad_cl:
                bad(bad_cl)
            for t in S.types:
                tn = t["name"].lower()
                hist["types"] += 1
                d = types.get(tn)
                if d is None:
                    bad("defined type %s is not in the registry" % tn)
                    continue
                if t["kind"] == "simple":
                    if d.get("nonref") != t["base"] or d.get("ref") != t["base"].lower():
                        bad("type %s = %s: dictionary has %s" % (tn, t["base"], d))
                elif t["kind"] == "enum":
                    if d.get("enum", "").split(",") != [i.lower() for i in t["items"]]:
                        bad("enumeration %s: items %s in the dictionary, (%s) declared" % (tn, d.get("enum"), ", ".join(t["items"])))
                elif t["kind"] == "select":
                    if d.get("select", "").split(",") != [m.lower() for m in t["members"]]:
                        bad("select %s: members %s in the dictionary, (%s) declared" % (tn, d.get("select"), ", ".join(t["members"])))
                elif t["kind"] == "aggr":
                    hi = INF if t["hi"] is None else t["hi"]
                    el = t["elem"].lower()
                    nested = el.startswith(("set ", "list ", "bag ", "array "))
                    if d.get("aggr") != t["agg"] or str(d.get("b1")) != str(t["lo"]) or (isinstance(hi, int) and str(d.get("b2")) != str(hi)) or \
                            (not nested and d.get("elem") != el):
                        sig = None
                        if d.get("aggr") == t["agg"] and d.get("elem") == "-" and type_root(S, t["elem"]) in ("ENUMERATION", "SELECT"):
                            sig = "aggregate_element_type_unset"
                        bad("aggregate type %s = %s [%s:%s] OF %s: dictionary has %s" % (tn, t["agg"], t["lo"], t["hi"], t["elem"], d), sig)
                elif t["kind"] == "ref":
                    if d.get("ref") != t["target"].lower():
                        bad("type %s = %s: dictionary refers to %s" % (tn, t["target"], d.get("ref")),
                            "renamed_select_no_referent" if t.get("root") == "select" and d.get("ref") == "-" else None)
            extra_t = set(types) - {t["name"].lower() for t in S.types}
            if extra_t:
                bad("registry types %s are not in the schema" % sorted(extra_t))
            # accessors
            src, ncls = accessor_test(S)
            hist["accessor_classes"] += ncls
            asrc = os.path.join(sl["dir"], "h_accessors.cc")
            open(asrc, "w").write(src)
            try:
                from schemalib import CORE_LIBS, CFG_FLAGS
                aexe = os.path.join(sl["dir"], "h_accessors")
                cmd = ["g++", "-std=c++11", "-w"] + CFG_FLAGS["dbg"].split() + ["-I" + sl["dir"], "-I" + os.path.join(REPO, "include"), "-I" + os.path.join(bdir, "include")] + \
                      ["-I" + os.path.join(REPO, "src", x) for x in ("cldai", "cleditor", "clutils", "clstepcore")] + \
                      [asrc, "-L" + sl["dir"], "-lschema", "-L" + os.path.join(bdir, "lib")] + ["-l" + l for l in CORE_LIBS] + \
                      ["-Wl,--disable-new-dtags", "-Wl,-rpath," + sl["dir"], "-Wl,-rpath," + os.path.join(bdir, "lib"), "-o", aexe]
                rc, o, e2 = sh(cmd, timeout=600)
                if rc != 0:
                    bad("a program calling the generated accessors does not compile: %s" % (o + e2)[-300:])
                else:
                    rc, o, e2 = sh([aexe], timeout=60)
                    for line in o.split("\n"):
                        if line.startswith("ACCESSOR "):
                            bad("accessor of %s does not read back what its mutator stored" % line.split()[1])
                        elif line.startswith("ACCLIST "):
                            ent_, owner_, attr_, path_ = line.split()[1].split(".")
                            hist["acclist_" + path_] = hist.get("acclist_" + path_, 0)
                            bad("the mutator %s_() of a %s (attribute of %s) stores a value the instance does not write: its attribute list shows %s" % (
                                attr_.lower(), ent_, owner_, " ".join(line.split()[2:]) or "nothing"),
                                "second_supertype_accessors_shadow" if path_ == "other" else None)
                    if rc not in (0, 1):
                        bad("the accessor test program dies (status %d)" % rc)
            except Exception as ex:  # noqa
                bad("accessor test could not be run: %s" % ex)
            if any(len(e["supers"]) for e in S.entities):
                nontrivial += 1
            if len(samples) < 2:
                samples.append({"schema": S.name, "entities": len(S.entities), "types": len(S.types), "dictionary_entities": len(ents), "dictionary_types": len(types)})
        seen = set()
        for msg, sig in zip(problems, sigs):
            key = re.sub(r"[a-z_]+\d+[a-z_0-9]*", "N", msg)[:60]
            if key in seen:
                continue
            seen.add(key)
            oracle_fail += 1
            res.violation(msg, {"input_file": save("c02-%d-%d.exp" % (seed, k), text), "replay": "exp2cxx the schema, compile, run harness/h_dict.cc"}, signature=sig)
    # the fixed schema with the constructs the generator does not produce
    try:
        evals += 1
        for msg in fixed_schema_problems(bdir):
            oracle_fail += 1
            res.violation(msg, {"input_file": os.path.join(VERIF, "schemas", "c02_fixed.exp"), "replay": "exp2cxx schemas/c02_fixed.exp, compile, run harness/h_dict.cc"})
        for msg in known_:
            res.violation(msg, {"input_file": os.path.join(VERIF, "schemas", "c02_fixed.exp")}, signature="diamond_with_derived_redeclaration")
    except BuildError as e:
        res.violation("build failed: %s" % e, {"error": str(e)}, found_input=False)
    shutil.rmtree(wroot, ignore_errors=True)
    if not pr["ok"]:
        res.violation("Properties_C02.v no longer checks (%s)" % ", ".join(pr["failed"] or ["see log"]),
                      {"theorem_or_correspondence": "coq/Properties_C02.v", "log": pr["log"]}, found_input=False)
    res.coverage.update({
        "evaluations": evals,
        "distinct_nontrivial": nontrivial,
        "rule": "%d generated schemas (4-10 entities, chains / multiple supertypes / every 4th a diamond; explicit, optional, derived, inverse attributes of "
                "simple, defined, entity and aggregate types; simple, enumeration, select, aggregate, renamed, nested-aggregate defined types; every 3rd "
                "with C++/Python keyword-like identifiers) generated to C++, compiled, and their registry dumped and compared field by field with the "
                "schema; a generated program sets and reads back every INTEGER/REAL/STRING/BOOLEAN attribute; non-trivial = some entity has a supertype" % nsch,
        "samples": samples or ["(none)"],
        "histogram": hist,
        "traces_validated_against_impl": evals,
        "correspondence_disagreements": 0,
        "oracle_failures": oracle_fail,
        "unproved_clauses": ["the emitted C++ compiles (tested)", "dictionary contents equal the schema (tested field by field)"],
    })
    return res.finish()


if __name__ == "__main__":
    tier = os.environ.get("VERIF_TIER", "quick")
    if "--tier" in sys.argv:
        tier = sys.argv[sys.argv.index("--tier") + 1]
    sys.exit(main(tier, int(os.environ.get("VERIF_SEED", "1"))))
