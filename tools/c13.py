#!/usr/bin/env python3
"""C13 -- InstMgr consistency: Coq theorems (Properties_C13.v) + correspondence of
the extracted model with the real InstMgr + an independent list/dict oracle."""
import itertools
import os
import sys

sys.path.insert(0, os.path.dirname(os.path.abspath(__file__)))
from common import *  # noqa

PID = "C13"
MAXQ = 9

CREATE = ["c0:0", "c0:1", "c2:0", "c2:2", "c3:1"]


def applicable_ops(nobj, alive, reg):
    """ops worth trying in a state with nobj created objects (alive flags) and reg list"""
    ops = []
    if nobj < 3:
        ops += CREATE
    for h in range(nobj):
        if alive[h]:
            ops.append("a%d:%d" % (h, (h * 3) % 4))
    for i in range(len(reg)):
        ops.append("x%d" % i)
    for h in reg:
        ops.append("y%d" % h)
    if reg:
        ops.append("s0:1")
        ops.append("s%d:4" % (len(reg) - 1))
    ops += ["C", "D", "n"]
    return ops


def shadow(state, op):
    """tiny applicability tracker (not the oracle): returns new (nobj, alive, reg)"""
    nobj, alive, reg = state
    alive = list(alive)
    reg = list(reg)
    c = op[0]
    a = int(op[1:].split(":")[0]) if len(op) > 1 else 0
    if c == "c":
        nobj += 1
        alive.append(True)
    elif c == "a":
        if a < nobj and alive[a] and a not in reg:
            reg.append(a)
    elif c == "x":
        if a < len(reg):
            alive[reg[a]] = False
            del reg[a]
    elif c == "y":
        if a in reg:
            alive[a] = False
            reg.remove(a)
    elif c == "C":
        reg = []
    elif c == "D":
        for h in reg:
            alive[h] = False
        reg = []
    return (nobj, alive, reg)


def gen_exhaustive(maxlen):
    out = []

    def rec(prefix, state):
        if prefix:
            out.append(prefix)
        if len(prefix) >= maxlen:
            return
        for op in applicable_ops(*state):
            rec(prefix + [op], shadow(state, op))
    rec([], (0, [], []))
    # keep only maximal sequences and those that are not a prefix of another:
    # every prefix is checked step by step anyway, so keep the leaves
    leaves = [s for s in out if len(s) == maxlen]
    return leaves


def gen_random(r, n, lo, hi):
    seqs = []
    for _ in range(n):
        ln = r.randint(lo, hi)
        seq = []
        nobj = 0
        for _ in range(ln):
            k = r.random()
            if nobj == 0 or k < 0.22:
                seq.append("c%d:%d" % (r.choice([0, 0, 0, 1, 2, 3, 5, 7, r.randint(0, 9)]), r.randint(0, 2)))
                nobj += 1
            elif k < 0.55:
                seq.append("a%d:%d" % (r.randrange(nobj), r.randint(0, 4)))
            elif k < 0.68:
                seq.append("x%d" % r.randint(0, 6))
            elif k < 0.80:
                seq.append("y%d" % r.randrange(nobj))
            elif k < 0.90:
                seq.append("s%d:%d" % (r.randint(0, 6), r.randint(0, 4)))
            elif k < 0.93:
                seq.append("C")
            elif k < 0.95:
                seq.append("D")
            else:
                seq.append("n")
        seqs.append(seq)
    return seqs


def parse_dump(line):
    """'+ n=2 max=5 [h:id:st:idx ...] find ... kw ... byname ... ids ...' -> dict"""
    tag = line[0]
    head, rest = line[2:].split(" [", 1)
    n = int(head.split()[0][2:])
    mx = int(head.split()[1][4:])
    inner, rest = rest.split("]", 1)
    nodes = [tuple(int(x) for x in t.split(":")) for t in inner.split()] if inner.strip() else []
    toks = rest.split()
    sect = {}
    cur = None
    for t in toks:
        if t in ("find", "kw", "byname", "ids"):
            cur = t
            sect[cur] = []
        else:
            sect[cur].append(int(t))
    return {"tag": tag, "n": n, "max": mx, "nodes": nodes, **sect}


def oracle(seq, lines, owns=0):
    """Independent reference: a Python list + dict driven by the operations; returns
    None or a description of the first step at which the implementation's public
    queries disagree with the property statement."""
    names = []
    alive = []
    reg = []          # handles in insertion order
    state = {}
    seen_max = None   # max id seen since last emptied
    ids_prev = []
    li = 0
    for step, op in enumerate(seq):
        if li >= len(lines) or not lines[li].strip() or lines[li].startswith("CRASHED"):
            return "step %d (%s): implementation produced no output (crash)" % (step, op)
        if lines[li].startswith("CRASH"):
            return "step %d (%s): Delete(se) would dereference a null node" % (step, op)
        try:
            d = parse_dump(lines[li])
        except (ValueError, IndexError):
            return "step %d (%s): the harness' output breaks off (crash): %r" % (step, op, lines[li][:60])
        li += 1
        c = op[0]
        a = int(op[1:].split(":")[0]) if len(op) > 1 else 0
        b = int(op.split(":")[1]) if ":" in op else 0
        auto = None
        if c == "c":
            names.append(b)
            alive.append(True)
        elif c == "a":
            if a < len(alive) and alive[a]:
                if a not in reg:
                    reg.append(a)
                    state[a] = b
                    old = ids_prev[a] if a < len(ids_prev) else None
                    new = d["ids"][a] if a < len(d["ids"]) else None
                    in_use = [ids_prev[h] for h in reg if h != a and h < len(ids_prev)]
                    if old == 0 or old in in_use:
                        auto = new
                    elif new != old:
                        return "step %d (%s): explicit unused id %s was changed to %s" % (step, op, old, new)
        elif c == "x":
            if a < len(reg):
                alive[reg[a]] = False
                del reg[a]
        elif c == "y":
            if a in reg:
                alive[a] = False
                reg.remove(a)
        elif c == "s":
            if a < len(reg) and b != 4:
                state[reg[a]] = b
        elif c == "C":
            reg = []
            seen_max = None
        elif c == "D":
            for h in reg:
                alive[h] = False
            reg = []
            seen_max = None
        ids = d["ids"]
        where = "step %d (%s)" % (step, op)
        # liveness as reported
        for h in range(len(alive)):
            if (ids[h] != -9) != alive[h]:
                return "%s: instance %d liveness %s, expected %s" % (where, h, ids[h] != -9, alive[h])
        # count and order
        if d["n"] != len(reg):
            return "%s: InstanceCount()=%d but %d live instances are registered" % (where, d["n"], len(reg))
        got = [t[0] for t in d["nodes"]]
        if got != reg:
            return "%s: instance order %s, expected %s" % (where, got, reg)
        for i, t in enumerate(d["nodes"]):
            if t[3] != i:
                return "%s: instance at position %d reports index %d" % (where, i, t[3])
            if t[1] != ids[t[0]]:
                return "%s: node id mismatch" % where
            if t[2] != state[t[0]]:
                return "%s: state of instance %d is %d, expected %d" % (where, t[0], t[2], state[t[0]])
        # ids distinct, look-up exact
        live_ids = {}
        for h in reg:
            if ids[h] in live_ids:
                return "%s: live instances %d and %d both carry id %d" % (where, live_ids[ids[h]], h, ids[h])
            live_ids[ids[h]] = h
        for q, r_ in zip(range(-1, MAXQ + 1), d["find"]):
            exp = live_ids.get(q, -1)
            if r_ != exp:
                return "%s: FindFileId(%d) gives instance %d, expected %d" % (where, q, r_, exp)
        # max id
        for h in reg:
            if ids[h] > d["max"]:
                return "%s: MaxFileId()=%d below live id %d" % (where, d["max"], ids[h])
        # automatic ids are fresh
        if auto is not None:
            if seen_max is not None and auto <= seen_max:
                return "%s: automatic id %d not above %d seen earlier" % (where, auto, seen_max)
        for h in reg:
            seen_max = ids[h] if seen_max is None else max(seen_max, ids[h])
        # names
        for k in range(3):
            exp = sum(1 for h in reg if names[h] == k)
            if d["kw"][k] != exp:
                return "%s: EntityKeywordCount(name %d)=%d, expected %d" % (where, k, d["kw"][k], exp)
        pos = 0
        for k in range(3):
            for st in range(len(reg) + 1):
                exp = -1
                for h in reg[st:]:
                    if names[h] == k:
                        exp = h
                        break
                if d["byname"][pos] != exp:
                    return "%s: GetApplication_instance(name %d, start %d)=%d, expected %d" % (
                        where, k, st, d["byname"][pos], exp)
                pos += 1
        ids_prev = ids
    # destruction of the manager: an owning manager deletes the registered instances
    if li < len(lines) and lines[li].startswith("Z"):
        got = [int(x) for x in lines[li].split()[1:]]
        exp = [1 if (alive[h] and not (owns and h in reg)) else 0 for h in range(len(alive))]
        if got != exp:
            return "destructor: liveness after ~InstMgr %s, expected %s (owns=%d)" % (got, exp, owns)
    else:
        return "no output for ~InstMgr (crash)"
    return None


def run_side(exe, seqs, owns):
    """run a driver/harness on sequences; returns list of per-sequence line lists (None = crashed)"""
    results = [None] * len(seqs)
    start = 0
    while start < len(seqs):
        data = "".join("%d %s\n" % (owns, " ".join(s)) for s in seqs[start:])
        rc, out, err = sh([exe, str(MAXQ)], input=data.encode(), timeout=1200)
        cur = None
        buf = []
        done = 0
        for line in out.split("\n"):
            if line.startswith("SEQ "):
                cur = int(line[4:])
                buf = []
            elif line.startswith("END "):
                results[start + cur] = buf
                done = cur + 1
                cur = None
            elif cur is not None:
                buf.append(line)
        if cur is not None:
            results[start + cur] = buf + ["CRASHED rc=%s" % rc]
            done = cur + 1
        if done == 0:
            if rc != 0:
                results[start] = ["CRASHED rc=%s" % rc]
                done = 1
            else:
                break
        start += done
    return results


def shrink(seq, fails):
    """greedy one-op removal while the predicate keeps failing"""
    cur = list(seq)
    changed = True
    while changed and len(cur) > 1:
        changed = False
        for i in range(len(cur) - 1, -1, -1):
            cand = cur[:i] + cur[i + 1:]
            if cand and fails(cand):
                cur = cand
                changed = True
    return cur


def classify(msg):
    return None


def main(tier, seed):
    res = Result(PID, tier, seed)
    # 1. proofs
    pr = coq_prove(PID)
    proof_coverage(res, pr, ["std::map and GenNodeArray are modelled as an association list / list "
                             "(coq/GenNodeArray.v proves the array layer separately)"])
    if pr["forbidden"]:
        res.violation("forbidden vernacular in coq/: %s" % pr["forbidden"], {"forbidden": pr["forbidden"]}, found_input=False)
    proofs_ok = pr["ok"]
    # 2. implementation + model
    try:
        bdir = build_impl("dbg")
        exe = build_harness(bdir, "h_instmgr")
        extract_and_build_drivers()
    except BuildError as e:
        res.violation("build failed: %s" % e, {"error": str(e)}, found_input=False)
        res.coverage.update({"evaluations": 0, "distinct_nontrivial": 0})
        return res.finish()
    drv = driver("drv_c13")
    # 3. cases: corpus, exhaustive, random
    maxlen = 5 if tier == "quick" else 6
    seqs = []
    corpus = os.path.join(VERIF, "corpus", PID, "seqs.txt")
    if os.path.exists(corpus):
        for line in open(corpus):
            line = line.split("#")[0].strip()
            if line:
                seqs.append(line.split())
    ncorpus = len(seqs)
    ex = gen_exhaustive(maxlen)
    seqs += ex
    r = rng(seed, "c13")
    nrand = 400 if tier == "quick" else 20000
    rnd = gen_random(r, nrand, 20, 120 if tier == "quick" else 200)
    seqs += rnd
    disagreements = 0
    oracle_fail = 0
    nontrivial = set()
    samples = []
    opcount = {}
    for owns in (0, 1):
        impl = run_side(exe, seqs, owns)
        model = run_side(drv, seqs, owns)
        for k, seq in enumerate(seqs):
            il, ml = impl[k], model[k]
            for op in seq:
                opcount[op[0]] = opcount.get(op[0], 0) + 1
            if il is None:
                il = ["CRASHED (no output)"]
            msg = oracle(seq, il, owns)
            if msg is None and any(l.startswith("CRASHED") for l in il):
                msg = "implementation crashed: %s" % il[-1]
            if msg is not None:
                oracle_fail += 1

                def fails(cand, owns=owns):
                    out = run_side(exe, [cand], owns)[0] or ["CRASHED"]
                    return oracle(cand, out, owns) is not None or any(l.startswith("CRASHED") for l in out)
                small = shrink(seq, fails) if oracle_fail <= 3 else seq
                out = run_side(exe, [small], owns)[0]
                res.violation("InstMgr violates the property: " + (oracle(small, out or [], owns) or msg),
                              {"ops": " ".join(small), "owns": owns, "impl_output": out,
                               "replay": "echo '%d %s' | %s %d" % (owns, " ".join(small), exe, MAXQ)},
                              signature=classify(msg))
            elif il != ml:
                disagreements += 1
                first = next((i for i, (x, y) in enumerate(zip(il, ml or [])) if x != y), min(len(il), len(ml or [])))
                if disagreements <= 3:
                    res.violation("model InstMgr.v and implementation disagree (correspondence C13/instmgr) at op %d" % first,
                                  {"ops": " ".join(seq), "owns": owns, "first_diff_op": first,
                                   "impl": il[first] if first < len(il) else None,
                                   "model": (ml or [None])[first] if ml and first < len(ml) else None,
                                   "theorem_or_correspondence": "correspondence C13: coq/InstMgr.v vs src/clstepcore/instmgr.cc"},
                                  found_input=False)
                else:
                    res.violations += 1
            # non-trivial: reaches a state with >= 2 registered instances or a renumbering
            if any(l.startswith("+ n=") and not l.startswith("+ n=0") and not l.startswith("+ n=1 ") for l in il):
                nontrivial.add((owns, " ".join(seq)))
    if not proofs_ok:
        res.violation("Properties_C13.v no longer checks (%s)" % ", ".join(pr["failed"] or ["see log"]),
                      {"theorem_or_correspondence": "coq/Properties_C13.v", "log": pr["log"]},
                      found_input=False)
    samples = [" ".join(s) for s in (seqs[:2] + ex[len(ex) // 2:len(ex) // 2 + 2] + rnd[:1])]
    res.coverage.update({
        "evaluations": 2 * len(seqs),
        "distinct_nontrivial": len(nontrivial),
        "rule": "corpus (%d) + all operation sequences of length %d over the applicable-op alphabet (%d, "
                "pruned to ops that are applicable in the tracked state, 3 objects max) + %d random sequences "
                "of length 20..; each run with owning and non-owning manager; non-trivial = reaches a state with "
                ">= 2 registered instances" % (ncorpus, maxlen, len(ex), nrand),
        "exhaustive": False,
        "samples": samples,
        "traces_validated_against_impl": 2 * len(seqs),
        "op_histogram": opcount,
        "correspondence_disagreements": disagreements,
        "oracle_failures": oracle_fail,
        "unproved_clauses": [],
    })
    res.assumptions = ["ids stay below 2^31-1 (C++ int); model ids are unbounded Z - at INT_MAX NextFileId() stays there (no fresh name is left), which the model does not follow",
                       "operations respect the C++ preconditions (no use of destroyed instances; an index below the count)"]
    return res.finish()


if __name__ == "__main__":
    tier = os.environ.get("VERIF_TIER", "quick")
    if "--tier" in sys.argv:
        tier = sys.argv[sys.argv.index("--tier") + 1]
    seed = int(os.environ.get("VERIF_SEED", "1"))
    sys.exit(main(tier, seed))
