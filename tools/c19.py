#!/usr/bin/env python3
"""C19 -- Python aggregate types enforce EXPRESS aggregate semantics.
Coq: Properties_C19.v over coq/PyAggr.v.  Correspondence: exhaustive short and random
long operation sequences on /repo's AggregationDataTypes.py (harness/py_aggr_driver.py)
vs the extracted model; oracle: an independent list/multiset/set reference written from
ISO 10303-11 clause 8.2 (what EXPRESS allows)."""
import itertools
import os
import sys

sys.path.insert(0, os.path.dirname(os.path.abspath(__file__)))
from common import *  # noqa

PID = "C19"
VALS = ["0", "2", "s"]      # 0: a stored value that is falsy in Python
QUERIES = ["Qs", "Qh", "Ql", "QH", "QL", "Qu"]


def ctor_tokens():
    out = []
    bounds = [-1, 0, 1, 2, 3]
    for k in "ALBS":
        for b1 in bounds:
            for b2 in bounds + ["n"]:
                for u in ("0", "1") if k in "AL" else ("0",):
                    for o in ("0", "1") if k == "A" else ("0",):
                        out.append("N%s:%s:%s:%s:%s" % (k, b1, b2, u, o))
    return out


def nested_ctor_tokens():
    """aggregates whose elements are aggregates (of INTEGER) of kind E"""
    out = []
    for k in "ALBS":
        for e in "ALBS":
            for (b1, b2) in ((1, 3), (0, 2), (1, "n")):
                if k == "A" and b2 == "n":
                    b1, b2 = 2, 4
                for u in ("0", "1") if k in "AL" else ("0",):
                    out.append("N%s:%s:%s:%s:%s:%s" % (k, b1, b2, u, "1" if (k == "A" and e in "AB") else "0", e))
    return out


def model_tokens(seq):
    """the same sequence for the model and the reference: a wrong kind of aggregate (s) and the right kind with a wrong
    base type (t) are both 'a value of another type'"""
    out = [":".join(seq[0].split(":")[:5])]
    for t in seq[1:]:
        if t[0] == "S" and t.endswith(":t"):
            t = t[:-1] + "s"
        elif t == "At":
            t = "As"
        out.append(t)
    return out


def nested_op_tokens(k):
    if k in "AL":
        return ["S%d:%s" % (i, v) for i in range(0, 5) for v in VALS + ["t"]] + ["G%d" % i for i in range(0, 5)] + QUERIES
    return ["A" + v for v in VALS + ["3", "t"]] + QUERIES


def op_tokens(k):
    if k in "AL":
        ops = ["S%d:%s" % (i, v) for i in range(-1, 5) for v in VALS] + ["G%d" % i for i in range(-1, 5)]
    else:
        ops = ["A" + v for v in VALS + ["3"]]
    return ops + QUERIES


class Ref:
    """what EXPRESS allows (ISO 10303-11 8.2); results as the driver prints them"""

    def __init__(self, tok):
        k, b1, b2, u, o = tok[1:].split(":")
        self.k = k
        self.b1 = int(b1)
        self.b2 = None if b2 == "n" else int(b2)
        self.u = u == "1"
        self.o = o == "1"
        self.ok = True
        if k == "A":
            self.ok = self.b2 is not None and self.b1 <= self.b2
            self.items = {}          # index -> value
        else:
            self.ok = self.b1 >= 0 and (self.b2 is None or self.b1 <= self.b2)
            self.items = []

    def step(self, t):
        """returns 'ok:...' / 'raise' (any exception class)"""
        if self.k == "A":
            lo, hi = self.b1, self.b2
            if t[0] == "S":
                i, v = t[1:].split(":")
                i = int(i)
                if not (lo <= i <= hi) or v == "s":
                    return "raise"
                if self.u and any(j != i and w == v for j, w in self.items.items()):
                    return "raise"
                self.items[i] = v
                return "ok:None"
            if t[0] == "G":
                i = int(t[1:])
                if not (lo <= i <= hi):
                    return "raise"
                if i in self.items:
                    return "ok:int:" + self.items[i]
                return "ok:None" if self.o else "raise"
            return {"Qs": "ok:int:%d" % (hi - lo + 1), "Qh": "ok:int:%d" % hi, "Ql": "ok:int:%d" % lo,
                    "QH": "ok:int:%d" % hi, "QL": "ok:int:%d" % lo,
                    "Qu": ("ok:Unknown" if len(self.items) < hi - lo + 1 else
                           ("ok:True" if len(set(self.items.values())) == len(self.items) else "ok:False"))}[t]
        if self.k == "L":
            n = len(self.items)
            if t[0] == "S":
                i, v = t[1:].split(":")
                i = int(i)
                # replace an element, or append directly behind the last one
                if not (1 <= i <= n + 1) or v == "s":
                    return "raise"
                if i == n + 1 and self.b2 is not None and n + 1 > self.b2:
                    return "raise"
                if self.u and any(j != i - 1 and w == v for j, w in enumerate(self.items)):
                    return "raise"
                if i == n + 1:
                    self.items.append(v)
                else:
                    self.items[i - 1] = v
                return "ok:None"
            if t[0] == "G":
                i = int(t[1:])
                return "ok:int:" + self.items[i - 1] if 1 <= i <= n else "raise"
        else:
            n = len(self.items)
            if t[0] == "A":
                v = t[1:]
                if self.k == "S" and v in self.items:
                    return "ok:None"
                if v == "s" or (self.b2 is not None and n + 1 > self.b2):
                    return "raise"
                self.items.append(v)
                return "ok:None"
        n = len(self.items)
        return {"Qs": "ok:int:%d" % n, "Qh": "ok:int:%d" % n, "Ql": "ok:int:1",
                "QH": "ok:None" if self.b2 is None else "ok:int:%d" % self.b2, "QL": "ok:int:%d" % self.b1,
                "Qu": "ok:True" if len(set(self.items)) == n else "ok:False"}[t]


def norm(x):
    return "raise" if x.startswith("raise") else x


def classify(ctor, seq_toks, step_i, got, exp):
    """known-finding signatures for the LIST class (open findings)"""
    if ctor[1] == "L":
        return "list_indexing_from_bound_1" if seq_toks[step_i][0] in "SG" else "list_queries_on_presized_container"
    return None


def run_lines(cmd, lines, env=None):
    rc, out, err = sh(cmd, input=("\n".join(lines) + "\n").encode(), timeout=1800, env=env)
    return rc, out.split("\n"), err


def main(tier, seed):
    res = Result(PID, tier, seed)
    pr = coq_prove(PID)
    proof_coverage(res, pr, ["CPython list/set semantics and the INTEGER/STRING wrapper classes are modelled, not verified",
                             "base type is INTEGER in every sequence (values of another type are STRING)"])
    if pr["forbidden"]:
        res.violation("forbidden vernacular in coq/", {"forbidden": pr["forbidden"]}, found_input=False)
    try:
        extract_and_build_drivers()
    except BuildError as e:
        res.violation("build failed: %s" % e, {"error": str(e)}, found_input=False)
        res.coverage.update({"evaluations": 0, "distinct_nontrivial": 0})
        return res.finish()
    drv = driver("drv_c19")
    pyh = [sys.executable, os.path.join(HARNESS, "py_aggr_driver.py")]
    env = {"VERIF_REPO": REPO}
    depth = 2 if tier == "quick" else 3
    seqs = []
    cpath = os.path.join(VERIF, "corpus", PID, "seqs.txt")
    if os.path.exists(cpath):
        for line in open(cpath):
            line = line.split("#")[0].strip()
            if line:
                seqs.append(line.split())
    ctors = ctor_tokens()
    for c in ctors:
        ops = op_tokens(c[1])
        seqs.append([c] + QUERIES)
        for tup in itertools.product(ops, repeat=depth):
            seqs.append([c] + list(tup))
    r = rng(seed, "c19")
    nrand = 3000 if tier == "quick" else 60000
    for _ in range(nrand):
        c = r.choice(ctors)
        ops = op_tokens(c[1])
        seqs.append([c] + [r.choice(ops) for _ in range(r.randint(4, 40))])
    # aggregates of aggregates: every sequence of 2 operations, and random ones
    nctors = nested_ctor_tokens()
    n_flat = len(seqs)
    for c in nctors:
        ops = nested_op_tokens(c[1])
        for tup in itertools.product(ops, repeat=2):
            seqs.append([c] + list(tup))
    for _ in range(nrand // 3):
        c = r.choice(nctors)
        ops = nested_op_tokens(c[1])
        seqs.append([c] + [r.choice(ops) for _ in range(r.randint(4, 30))])
    lines = [" ".join(s) for s in seqs]
    rc_i, io, ierr = run_lines(pyh, lines, env)
    seqs = [model_tokens(s) for s in seqs]
    mlines = [" ".join(s) for s in seqs]
    rc_m, mo, merr = run_lines([drv], mlines)
    if rc_i != 0:
        res.violation("py_aggr_driver.py failed (status %d): %s" % (rc_i, ierr[-500:]), {}, found_input=False)
    evals = 0
    nontrivial = set()
    disagreements = 0
    oracle_fail = 0
    hist = {"A": 0, "L": 0, "B": 0, "S": 0, "accepted_ops": 0, "rejected_ops": 0, "nested_sequences": len(lines) - n_flat}
    samples = []
    for k, s in enumerate(seqs):
        if k >= len(io) or k >= len(mo):
            break
        evals += 1
        ir = io[k].split(" | ")
        mr = mo[k].split(" | ")
        hist[s[0][1]] += 1
        if len(ir) != len(s):
            res.violation("harness produced %d results for %d operations" % (len(ir), len(s)), {"ops": lines[k]}, found_input=False)
            continue
        ref = Ref(s[0])
        exp0 = "ok:None" if ref.ok else "raise"
        what = None
        if norm(ir[0]) != exp0:
            what = (0, ir[0], exp0)
        elif ref.ok:
            if any(x.startswith("ok") for x in ir[1:]):
                nontrivial.add(lines[k])
            for j in range(1, len(s)):
                e = ref.step(s[j])
                hist["accepted_ops" if e.startswith("ok") else "rejected_ops"] += 1
                if norm(ir[j]) != e:
                    what = (j, ir[j], e)
                    break
        if what:
            j, got, e = what
            oracle_fail += 1
            res.violation("%s after %s: operation %d (%s) gives %s, EXPRESS semantics give %s" % (
                s[0], " ".join(s[1:j]), j, s[j], got, e),
                {"ops": lines[k], "replay": "echo '%s' | VERIF_REPO=%s python3 %s" % (" ".join(s[:j + 1]), REPO, pyh[1])},
                signature=classify(s[0], s, j, got, e))
        if ir != mr:
            disagreements += 1
            if disagreements <= 3:
                first = next((i for i, (x, y) in enumerate(zip(ir, mr)) if x != y), 0)
                res.violation("model PyAggr.v and AggregationDataTypes.py disagree at operation %d (%s): impl %s model %s" % (
                    first, s[first] if first < len(s) else "?", ir[first] if first < len(ir) else None, mr[first] if first < len(mr) else None),
                    {"ops": lines[k], "theorem_or_correspondence": "correspondence C19: coq/PyAggr.v vs AggregationDataTypes.py"},
                    found_input=False)
            else:
                res.violations += 1
        if len(samples) < 4 and k % 4999 == 7:
            samples.append({"ops": lines[k], "results": io[k]})
    if not pr["ok"]:
        res.violation("Properties_C19.v no longer checks (%s)" % ", ".join(pr["failed"] or ["see log"]),
                      {"theorem_or_correspondence": "coq/Properties_C19.v", "log": pr["log"]}, found_input=False)
    res.coverage.update({
        "evaluations": evals,
        "distinct_nontrivial": len(nontrivial),
        "rule": "every constructor (4 classes x bounds from {-1,0,1,2,3}^2 plus unbounded upper x UNIQUE/OPTIONAL flags) followed by "
                "ALL operation sequences of length %d over {set/get at indices -1..4 with two INTEGER values and a STRING, add of 3 "
                "values + a STRING, six queries}, plus %d random sequences of length 4..40; the same for aggregates whose elements "
                "are aggregates of INTEGER (16 pairs of kinds: the values are inner aggregates of the declared kind, of another kind, and "
                "of the declared kind OF STRING; all sequences of 2 operations and random ones); non-trivial = at least one accepted "
                "operation after construction" % (depth, nrand),
        "exhaustive": True,
        "samples": samples or ["(none)"],
        "histogram": hist,
        "traces_validated_against_impl": evals,
        "correspondence_disagreements": disagreements,
        "oracle_failures": oracle_fail,
        "unproved_clauses": ["LIST: refuted (c19_list_refuted); no positive theorem", "base types other than INTEGER and aggregates of INTEGER"],
    })
    res.assumptions = ["remove is not offered by the Python classes (BAG/SET only have add)"]
    return res.finish()


if __name__ == "__main__":
    tier = os.environ.get("VERIF_TIER", "quick")
    if "--tier" in sys.argv:
        tier = sys.argv[sys.argv.index("--tier") + 1]
    sys.exit(main(tier, int(os.environ.get("VERIF_SEED", "1"))))
