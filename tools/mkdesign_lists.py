#!/usr/bin/env python3
"""Rewrites the generated lists of DESIGN.md section 10: 10.4 (fix: commits of /repo, oldest first), 10.5 (open
findings from known_findings.jsonl) and the table of 10.7 (tools/mkseedtable.py)."""
import json
import os
import re
import subprocess

V = os.path.dirname(os.path.dirname(os.path.abspath(__file__)))
REPO = os.environ.get("VERIF_REPO", "/repo")
p = os.path.join(V, "DESIGN.md")
s = open(p).read()

log = subprocess.run(["git", "-C", REPO, "log", "--reverse", "--format=%h %s", "--abbrev=8"], capture_output=True, text=True).stdout
fixes = [l for l in log.split("\n") if re.match(r"^[0-9a-f]{8} fix:", l)]
reverted = {"849f2f95"}
lines = "".join("* `%s` %s\n" % (l[:8], l[9:]) for l in fixes if l[:8] not in reverted)
a = s.index("* `", s.index("### 10.4 "))
b = s.index("One repair was reverted")
s = s[:a] + lines + "\n" + s[b:]

opens = []
for l in open(os.path.join(V, "known_findings.jsonl")):
    l = l.strip()
    if not l or l.startswith("#"):
        continue
    d = json.loads(l)
    if d.get("status") == "open":
        opens.append("* **%s** `%s`: %s\n" % (d["property"], d.get("signature", "-"), " ".join(d.get("what", "").split())))
a = s.index("* **", s.index("### 10.5 "))
b = s.index("### 10.6 ")
s = s[:a] + "".join(opens) + "\n" + s[b:]

tab = subprocess.run(["python3", os.path.join(V, "tools", "mkseedtable.py")], capture_output=True, text=True).stdout
a = s.index("| change | what it does | first run of the check |")
b = s.index("What the misses taught:")
s = s[:a] + tab + "\n" + s[b:]
open(p, "w").write(s)
print("%d fixes, %d open findings, %d seeded changes" % (len(fixes) - len(reverted & {l[:8] for l in fixes}), len(opens), tab.count("\n") - 2))
