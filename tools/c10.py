#!/usr/bin/env python3
"""C10 -- the lazy loader sees the same file as the eager reader, and
C11 -- inverse attributes resolved on load contain exactly the real referrers.
(./check C11 runs this module with pid C11.)
Coq: Properties_C10.v / Properties_C11.v over coq/Lazy.v.  Correspondence: generated
populations (reference cycles, complex instances, strings and comments containing
'#', '(' and ';') through the lazy loader (h_lazy: index, forward/reverse tables,
dependency sets, loads in several orders, inverse attributes) and the eager reader
(h_file), vs the extracted model and vs an oracle computed from the population."""
import os
import shutil
import sys

sys.path.insert(0, os.path.dirname(os.path.abspath(__file__)))
from common import *  # noqa
from schemalib import schema_lib, schema_harness
import p21tok
import popgen
import translate
from c14 import refs_of


def inst_refs(inst):
    return [r for (_, ps) in inst["parts"] for p in ps for r in refs_of(p)]


def closure(fwd, x):
    seen = set()
    stack = list(fwd.get(x, []))
    while stack:
        y = stack.pop()
        if y not in seen:
            seen.add(y)
            stack += fwd.get(y, [])
    return seen


def parse_lazy(txt):
    out = {"count": None, "idx": {}, "fwd": {}, "rev": {}, "deps": {}, "load": [], "inv": {}, "invi": {}}
    for l in txt.split("\n"):
        p = l.split()
        if not p:
            continue
        if p[0] == "COUNT":
            out["count"] = int(p[1])
        elif p[0] == "IDX":
            out["idx"][int(p[1])] = (p[2], int(p[3]))
        elif p[0] in ("FWD", "REV"):
            out[p[0].lower()][int(p[1])] = [int(x) for x in p[2:]]
        elif p[0] == "DEPS":
            out["deps"][int(p[1])] = sorted(int(x) for x in p[2:])
        elif p[0] == "LOAD":
            out["load"].append((int(p[1]), l.split(" ", 2)[2] if len(p) > 2 else ""))
            out["inv"][int(p[1])] = {}        # the INV lines that follow are those of this load (the last load of an instance counts)
            out["invi"][int(p[1])] = []
        elif p[0] == "INV":
            # an attribute printed twice (two map entries for one inverse attribute) keeps everything that was printed
            out["inv"].setdefault(int(p[1]), {}).setdefault(p[2].lower(), []).extend(int(x) for x in p[3:])
        elif p[0] == "INVI":
            # the copy of an inherited inverse attribute that another part of an instance in external mapping holds
            out["invi"].setdefault(int(p[1]), []).append((p[2].lower(), p[3].lower(), [int(x) for x in p[4:]]))
    return out


def model_scan(drv, data):
    """coq/P21Scan.v scan_section on the text after DATA; -> (instances [(id, kw, refs)], abort, endsec) or None"""
    m_ = re.search(rb"\bDATA\s*;", data)
    if not m_:
        return None
    body = data[m_.end():]
    rc, mo, me = sh([drv], input=("S " + body.hex() + "\n").encode(), timeout=120)
    insts, end = [], None
    for l in mo.split("\n"):
        p = l.split()
        if p[:1] == ["I"]:
            insts.append((int(p[1]), p[2], [int(x) for x in p[3:]]))
        elif p[:1] == ["END"]:
            end = dict(x.split("=") for x in p[1:])
    if end is None:
        return None
    return insts, end["abort"] == "1", end["endsec"] == "1"


def scan_disagreement(ms, rc, lz):
    """compares the model's scan with what h_lazy printed; returns a description or None"""
    insts, ab, endsec = ms
    died = rc < 0 or lz["count"] is None
    if died:
        # a loader that dies on a damaged file is outside C10 (conforming files) and C05 (the eager reader); when the
        # model does not predict the abort the case is only counted (histogram: loader_died_unpredicted)
        return None if ab else "DIED"
    if ab:
        return "model predicts abort(), the loader finished with status %d" % rc
    mids = [i[0] for i in insts]
    if sorted(set(mids)) != sorted(lz["idx"]):
        return "model finds instances %s, the loader indexes %s" % (mids[:30], sorted(lz["idx"])[:30])
    for iid in set(mids):
        n = mids.count(iid)
        if lz["idx"][iid][1] != n:
            return "model finds #%d %d time(s), the loader %d" % (iid, n, lz["idx"][iid][1])
    for iid, kw, refs in insts:
        if mids.count(iid) > 1:
            continue
        ikw = lz["idx"][iid][0]
        if ikw != "?" and kw != ikw:       # "?": section not registered, no keyword to ask for
            return "keyword of #%d: model %s, loader %s" % (iid, kw, ikw)
        if refs != lz["fwd"].get(iid, []):
            return "references of #%d: model %s, loader %s" % (iid, refs, lz["fwd"].get(iid, []))
    return None


def mutate_bytes(r, data):
    """one byte-level fault in the data section: what a damaged or hand-edited file looks like"""
    m_ = re.search(rb"\bDATA\s*;", data)
    k = m_.end() if m_ else 4
    me_ = list(re.finditer(rb"\bENDSEC\s*;", data))
    e = me_[-1].start() if me_ else -1
    if e <= k + 2:
        return data, "none"
    pos = r.randrange(k, e)
    kind = r.choice(["delete", "insert", "truncate", "replace", "delete_run"])
    ch = r.choice([b"'", b"(", b")", b"#", b"=", b"/", b";", b"*", b"/*", b"*/", b" ", b"0", b"A", b"a", b"$", b",", b"\\", b"!", b"-", b"_", b"\n"])
    if kind == "delete":
        return data[:pos] + data[pos + 1:], "delete@%d" % (pos - k)
    if kind == "delete_run":
        return data[:pos] + data[pos + r.choice([2, 3, 8]):], "delete_run@%d" % (pos - k)
    if kind == "insert":
        return data[:pos] + ch + data[pos:], "insert %r@%d" % (ch, pos - k)
    if kind == "replace":
        return data[:pos] + ch + data[pos + 1:], "replace %r@%d" % (ch, pos - k)
    return data[:pos], "truncate@%d" % (pos - k)


def is_select(t):
    return isinstance(t, tuple) and t[0] == "select"


def refs_through(S, y, E, attr):
    """the instances y mentions through attribute attr of entity E (directly or as aggregate elements, bare or inside a
    SELECT); None when y is not of type E.  An instance in external mapping is of type E when E is one of its parts."""
    if y["complex"]:
        for (pe, vals) in y["parts"]:
            if pe == E:
                names = [a[0] for a in S.ENTITIES[E][1]]
                return refs_of(vals[names.index(attr)])
        return None
    ent = y["parts"][0][0]
    if not S.isa(ent, E):
        return None
    # the attribute of that name which E declares or inherits (ent may have another one of the same name from elsewhere)
    idx = [j for j, a in enumerate(S.all_attrs(ent)) if a[1] == attr and S.isa(E, a[0])]
    return refs_of(y["parts"][0][1][idx[0]])


def _i(i, kw, toks, params):
    return {"id": i, "complex": False, "toks": [kw, "("] + toks + [")"], "parts": [(kw, params)]}


# populations of schemas/verif_inv.exp that every C11 run starts with: inverses inherited from a second supertype and from
# a grandparent; a referrer in external mapping; an inverted attribute of a SELECT type (the last two: open findings)
C11_FIXED = [
    [_i(1, "TAGGED_PART", ["'p'", ",", "'t'", ",", "1"], [("str", "p"), ("str", "t"), ("int", 1)]),
     _i(2, "TAG_USE", ["#1", ",", "'u'"], [("ref", 1), ("str", "u")]),
     _i(3, "ASSEMBLY", ["'a'", ",", "(", "#1", ",", "#4", ")", ",", "#4", ",", "$"],
        [("str", "a"), ("list", [("ref", 1), ("ref", 4)]), ("ref", 4), ("null",)]),
     _i(4, "VERY_SPECIAL_PART", ["'v'", ",", "1", ",", "2"], [("str", "v"), ("int", 1), ("int", 2)]),
     _i(5, "CERTIFICATE", ["#4", ",", "$"], [("ref", 4), ("null",)]),
     _i(6, "DOCUMENTATION", ["#4", ",", "'d'"], [("ref", 4), ("str", "d")])],
    [_i(1, "PART", ["'p'"], [("str", "p")]),
     _i(2, "ASSEMBLY", ["'a'", ",", "(", "#1", ")", ",", "$", ",", "$"], [("str", "a"), ("list", [("ref", 1)]), ("null",), ("null",)]),
     {"id": 3, "complex": True,
      "toks": ["(", "ASSEMBLY", "(", "'c'", ",", "(", "#1", ")", ",", "#1", ",", "$", ")", "SUB_ASSEMBLY", "(", "2", ")", ")"],
      "parts": [("ASSEMBLY", [("str", "c"), ("list", [("ref", 1)]), ("ref", 1), ("null",)]), ("SUB_ASSEMBLY", [("int", 2)])]}],
    [_i(1, "TASK", ["'a'", ",", "(", "#1", ",", "#2", ")", ",", "#1"], [("str", "a"), ("list", [("ref", 1), ("ref", 2)]), ("ref", 1)]),
     _i(2, "TASK", ["'b'", ",", "(", ")", ",", "$"], [("str", "b"), ("list", []), ("null",)]),
     _i(3, "CRATE", ["'c'", ",", "(", "#4", ",", "#4", ")"], [("str", "c"), ("list", [("ref", 4), ("ref", 4)])]),
     _i(4, "PART", ["'p'"], [("str", "p")]),
     _i(5, "TASK", ["'c'", ",", "(", "#5", ")", ",", "#2"], [("str", "c"), ("list", [("ref", 5)]), ("ref", 2)]),
     _i(6, "SUB_HOLDER", ["'h'", ",", "#4", ",", "1"], [("str", "h"), ("ref", 4), ("int", 1)]),
     _i(7, "HOLDER", ["'g'", ",", "#4"], [("str", "g"), ("ref", 4)])],
    [_i(1, "PART", ["'p'"], [("str", "p")]),
     _i(2, "LABEL", ["#1", ",", "'l'"], [("ref", 1), ("str", "l")]),
     _i(3, "DOCUMENTATION", ["#1", ",", "'t'"], [("ref", 1), ("str", "t")])],
]


def main(tier, seed, pid):
    res = Result(pid, tier, seed)
    try:
        translate.run_all(pid)
    except translate.AnchorLost as e:
        res.violation("translator lost its anchor: %s" % e, {"theorem_or_correspondence": "tools/translate.py"}, found_input=False)
    pr = coq_prove(pid)
    proof_coverage(res, pr, ["Judy arrays are modelled as association lists / vectors",
                             "the section scanner (readInstanceNumber / getDelimitedKeyword / seekInstanceEnd / nextInstance) is "
                             "modelled in coq/P21Scan.v: proved for well-formed sections in any layout, compared with the loader on "
                             "every generated file and on byte-damaged copies; stream offsets (loc.begin) are not modelled",
                             "loadInstance (second pass of the lazy loader) is covered by the correspondence with the eager "
                             "reader, not by theorems"])
    if pr["forbidden"]:
        res.violation("forbidden vernacular in coq/", {"forbidden": pr["forbidden"]}, found_input=False)
    try:
        bdir = build_impl("dbg")
        tools = {}
        for S in ([popgen.VERIF_ALL] if pid == "C10" else [popgen.VERIF_INV, popgen.VERIF_ALL]):
            sl = schema_lib(bdir, os.path.join(VERIF, "schemas", S.name.lower() + ".exp"))
            if not sl["ok"]:
                raise BuildError("schema library %s does not build:\n%s" % (S.name, sl["log"]))
            tools[S.name] = (schema_harness(bdir, sl, "h_file"), schema_harness(bdir, sl, "h_lazy", extra_libs=["steplazyfile"]))
        extract_and_build_drivers()
    except BuildError as e:
        res.violation("build failed: %s" % e, {"error": str(e)}, found_input=False)
        res.coverage.update({"evaluations": 0, "distinct_nontrivial": 0})
        return res.finish()
    drv = driver("drv_lazy")
    wdir = os.path.join(bdir, "verif-work", "%s-%d" % (pid.lower(), os.getpid()))
    os.makedirs(wdir, exist_ok=True)
    n = 160 if tier == "quick" else 4000
    evals = 0
    nontrivial = 0
    oracle_fail = 0
    disagreements = 0
    hist = {"files": 0, "with_cycle": 0, "with_complex": 0, "loads": 0, "inverse_checked": 0, "inverse_nonempty": 0}
    samples = []

    def report(what, data, extra=None, found=True):
        os.makedirs(res.replay_dir, exist_ok=True)
        path = os.path.join(res.replay_dir, "%s-%d-%d.p21" % (pid.lower(), seed, evals))
        open(path, "wb").write(data)
        payload = {"input_file": path, "replay": "%s %s <load order>" % (hlazy, path)}
        payload.update(extra or {})
        res.violation(what, payload, found_input=found)

    if pid == "C11":
        # which inverse attributes an instance has entries for: coq/SuperIter.v (init_iattrs) vs InitIAttrs / superInvAttrIter,
        # for every entity of both schemas; the oracle is the schema: own attributes and those of every entity above
        for S in (popgen.VERIF_INV, popgen.VERIF_ALL):
            sl_ = schema_lib(bdir, os.path.join(VERIF, "schemas", S.name.lower() + ".exp"))
            hsup = schema_harness(bdir, sl_, "h_supinv")
            rcs, outs, errs = sh([hsup], timeout=60)
            got = {}
            for l_ in outs.split("\n"):
                if l_.startswith("ENT "):
                    nm, _, rest_ = l_[4:].partition(" :")
                    got[nm.strip().upper()] = [x.upper() for x in rest_.split()]
            enames = sorted(S.ENTITIES)
            eid = {e_: j + 1 for j, e_ in enumerate(enames)}
            aid, anames = {}, {}
            for e_ in enames:
                for (iname, _E, _a, _g) in S.INVERSES.get(e_, []):
                    aid[(e_, iname)] = len(aid) + 1
                    anames[aid[(e_, iname)]] = "%s.%s" % (e_, iname.upper())
            sups_ = " ".join("%d:%s" % (eid[e_], ",".join(str(eid[s_]) for s_ in S.ENTITIES[e_][0])) for e_ in enames)
            invs_ = " ".join("%d:%s" % (eid[e_], ",".join(str(aid[(e_, i_[0])]) for i_ in S.INVERSES.get(e_, []))) for e_ in enames)
            for e_ in enames:
                evals += 1
                hist["entries_compared"] = hist.get("entries_compared", 0) + 1
                rcm_, mo_, _me = sh([drv], input=("E %d ; %s ; %s\n" % (eid[e_], sups_, invs_)).encode(), timeout=60)
                model = [anames[int(x)] for x in mo_.split()[1:]] if mo_.startswith("ENT") and "FUEL" not in mo_ else None
                impl = got.get(e_)
                want = set(anames[aid[(x_, i_[0])]] for x_ in [e_] + S.supertypes(e_) for i_ in S.INVERSES.get(x_, []))
                if impl is None or set(impl) != want:
                    oracle_fail += 1
                    res.violation("an instance of %s gets entries for the inverse attributes %s; it declares or inherits %s" % (e_, impl, sorted(want)),
                                  {"replay": hsup, "schema": S.name})
                if model != impl:
                    disagreements += 1
                    res.violation("model SuperIter.v and InitIAttrs / superInvAttrIter disagree on %s: model %s, implementation %s" % (e_, model, impl),
                                  {"replay": hsup, "schema": S.name,
                                   "theorem_or_correspondence": "correspondence C11: coq/SuperIter.v init_iattrs vs superInvAttrIter.h"}, found_input=False)
    if pid == "C10":
        # a chain of references 100, 300 and 2000 instances long, loaded from its head (the loader follows a reference by
        # loading the instance it names, one stack frame set per link: open finding deep_reference_chain_overflows_stack)
        hl_ = tools[popgen.VERIF_ALL.name][1]
        for nchain in (100, 300, 2000):
            fch = os.path.join(wdir, "chain.p21")
            open(fch, "w").write("ISO-10303-21;\nHEADER;\nFILE_DESCRIPTION(('d'),'2;1');\nFILE_NAME('f','t',('a'),('o'),'p','s','a');\nFILE_SCHEMA(('VERIF_ALL'));\nENDSEC;\nDATA;\n" +
                                 "".join("#%d=NODE('n',%s,());\n" % (i_, ("#%d" % (i_ + 1)) if i_ < nchain else "$") for i_ in range(1, nchain + 1)) + "ENDSEC;\nEND-ISO-10303-21;\n")
            rcc, outc, errc = shb([hl_, fch, "1"], timeout=120)
            evals += 1
            hist["chain_%d" % nchain] = rcc
            lzc = parse_lazy(outc.decode("latin-1"))
            if rcc != 0 or [x_ for x_, _s in lzc["load"]] != [1]:
                res.violation("loading the head of a chain of %d references: the lazy loader ends with status %d" % (nchain, rcc),
                              {"replay": "%s <file with #i=NODE('n',#i+1,()); for i = 1..%d> 1" % (hl_, nchain)},
                              signature="deep_reference_chain_overflows_stack" if nchain >= 400 else None)
    fixed = C11_FIXED if pid == "C11" else []
    for k in range(-len(fixed), n):
        r = rng(seed, "%s/%d" % (pid, k))
        S = popgen.VERIF_ALL if (pid == "C10" or (k >= 0 and k % 3 == 2)) else popgen.VERIF_INV
        hfile, hlazy = tools[S.name]
        g = popgen.Gen(r, fancy=(k % 2 == 1), schema=S)
        if k < 0:
            insts = [dict(i) for i in fixed[k + len(fixed)]]
            hist["fixed_populations"] = hist.get("fixed_populations", 0) + 1
        else:
            insts = g.population(r.choice([5, 8, 12, 20]))
        if S is popgen.VERIF_INV and k >= 0:
            # a single-valued inverse admits one referrer: keep at most one DOCUMENTATION per part
            seen_parts = set()
            kept = []
            for i in insts:
                if not i["complex"] and i["parts"][0][0] == "DOCUMENTATION":
                    tgt = i["parts"][0][1][0][1]
                    if tgt in seen_parts:
                        continue
                    seen_parts.add(tgt)
                kept.append(i)
            insts = kept
        if pid == "C10" and k % 5 == 4:
            # chains and cycles of NODE instances whose references step down, up or to and fro in id
            m = r.choice([4, 5, 7])
            nid = list(range(1, m + 1))
            shape = r.choice(["down", "up", "zigzag", "cycle"])
            if shape == "down":
                seq = nid[::-1]
            elif shape == "up":
                seq = nid
            else:
                seq = nid[:]
                r.shuffle(seq)
            insts = []
            for pos, i in enumerate(seq):
                nxt = seq[pos + 1] if pos + 1 < len(seq) else (seq[0] if shape == "cycle" else None)
                others = [x for x in seq[pos + 2:pos + 3]]
                toks = ["NODE", "(", "'n%d'" % i, ",", ("#%d" % nxt) if nxt else "$", ",", "("]
                for j, o in enumerate(others):
                    toks += ([","] if j else []) + ["#%d" % o]
                toks += [")", ")"]
                insts.append({"id": i, "complex": False, "toks": toks,
                              "parts": [("NODE", [("str", "n%d" % i), ("ref", nxt) if nxt else ("null",), ("list", [("ref", o) for o in others])])]})
            insts.sort(key=lambda x: x["id"])
            hist["chains"] = hist.get("chains", 0) + 1
        data, order = g.render(insts)
        fin = os.path.join(wdir, "in.p21")
        open(fin, "wb").write(data)
        ids = [i["id"] for i in order]
        byid = {i["id"]: i for i in order}
        fwd = {i["id"]: inst_refs(i) for i in order}
        hist["files"] += 1
        if any(i in closure(fwd, i) for i in ids):
            hist["with_cycle"] += 1
        if any(i["complex"] for i in order):
            hist["with_complex"] += 1
        evals += 1
        nontrivial += 1
        # ---- index, tables, dependencies
        rc, out, err = shb([hlazy, fin, "none"], timeout=60)
        lz = parse_lazy(out.decode("latin-1"))
        if rc != 0 or lz["count"] is None:
            oracle_fail += 1
            report("lazy loader died while indexing (status %d)" % rc, data)
            continue
        if pid == "C10":
            what = None
            if lz["count"] != len(ids) or sorted(lz["idx"]) != sorted(ids):
                what = "index lists %d instances %s, file has %s" % (lz["count"], sorted(lz["idx"]), sorted(ids))
            else:
                for i in order:
                    kw = "(complex)" if i["complex"] else i["parts"][0][0]
                    if lz["idx"][i["id"]][0].upper() != kw.upper():
                        what = "index keyword of #%d is %s, file says %s" % (i["id"], lz["idx"][i["id"]][0], kw)
                        break
            if what is None:
                for i in ids:
                    if sorted(lz["fwd"].get(i, [])) != sorted(fwd[i]):
                        what = "forward references of #%d: %s, instance mentions %s" % (i, lz["fwd"].get(i, []), fwd[i])
                        break
            if what is None:
                for x in ids:
                    exp = sorted(y for y in ids for r_ in fwd[y] if r_ == x)
                    if sorted(lz["rev"].get(x, [])) != exp:
                        what = "reverse table of #%d: %s, transpose of the forward table is %s" % (x, lz["rev"].get(x, []), exp)
                        break
            if what is None:
                for x in ids:
                    exp = sorted(closure(fwd, x))
                    if lz["deps"].get(x, []) != exp:
                        what = "dependencies of #%d: %s, transitive closure is %s" % (x, lz["deps"].get(x), exp)
                        break
            if what:
                oracle_fail += 1
                report(what, data)
                continue
            # model of the scan itself (coq/P21Scan.v): every instance, its keyword and the names it mentions
            ms = model_scan(drv, data)
            hist["scan_compared"] = hist.get("scan_compared", 0) + 1
            bad = "the model could not be run" if ms is None else scan_disagreement(ms, rc, lz)
            if bad is None and not ms[2]:
                bad = "the model does not see ENDSEC; where the instances end"
            if bad:
                disagreements += 1
                report("model P21Scan.v and the lazy loader's scan disagree: " + bad, data,
                       {"theorem_or_correspondence": "correspondence C10: coq/P21Scan.v scan_section vs sectionReader / lazyP21DataSectionReader"}, found=False)
            # the same on damaged files: one byte-level fault each, model and loader must find the same instances (or both give up)
            for mi in range(3 if tier == "quick" else 12):
                mdata, mdesc = mutate_bytes(r, data)
                fmut = os.path.join(wdir, "mut.p21")
                open(fmut, "wb").write(mdata)
                rcm, outm, errm = shb([hlazy, fmut, "none"], timeout=60)
                lzm = parse_lazy(outm.decode("latin-1"))
                msm = model_scan(drv, mdata)
                evals += 1
                hist["scan_mutated"] = hist.get("scan_mutated", 0) + 1
                hist["mut_" + mdesc.split("@")[0].split(" ")[0]] = hist.get("mut_" + mdesc.split("@")[0].split(" ")[0], 0) + 1
                bad = "the model could not be run" if msm is None else scan_disagreement(msm, rcm, lzm)
                if msm is not None and (msm[1] or rcm < 0):
                    hist["scan_abort"] = hist.get("scan_abort", 0) + 1
                if bad == "DIED":
                    hist["loader_died_unpredicted"] = hist.get("loader_died_unpredicted", 0) + 1
                    bad = None
                if bad:
                    disagreements += 1
                    os.makedirs(res.replay_dir, exist_ok=True)
                    path = os.path.join(res.replay_dir, "%s-%d-%d-mut%d.p21" % (pid.lower(), seed, evals, mi))
                    open(path, "wb").write(mdata)
                    res.violation("model P21Scan.v and the lazy loader's scan disagree on a damaged file (%s): %s" % (mdesc, bad),
                                  {"input_file": path, "replay": "%s %s none" % (hlazy, path),
                                   "theorem_or_correspondence": "correspondence C10: coq/P21Scan.v scan_section vs sectionReader (damaged input)"}, found_input=False)
            # model
            req = "B " + " ".join("%d:%s" % (i, ",".join(str(x) for x in fwd[i])) for i in ids)
            rc2, mo, me = sh([drv], input=(req + "\n").encode(), timeout=60)
            mz = parse_lazy(mo)
            bad = None
            for i in ids:
                if mz["fwd"].get(i, []) != lz["fwd"].get(i, []):
                    bad = "FWD %d: model %s impl %s" % (i, mz["fwd"].get(i), lz["fwd"].get(i))
                if mz["rev"].get(i, []) != lz["rev"].get(i, []):
                    bad = "REV %d: model %s impl %s" % (i, mz["rev"].get(i), lz["rev"].get(i))
                if mz["deps"].get(i, []) != lz["deps"].get(i, []):
                    bad = "DEPS %d: model %s impl %s" % (i, mz["deps"].get(i), lz["deps"].get(i))
            if bad:
                disagreements += 1
                report("model Lazy.v and lazyInstMgr disagree: " + bad, data,
                       {"theorem_or_correspondence": "correspondence C10: coq/Lazy.v vs lazyInstMgr tables"}, found=False)
        # ---- loads in several orders, vs the eager reader
        eager_out = os.path.join(wdir, "eager.p21")
        if os.path.exists(eager_out):
            os.remove(eager_out)
        rc, out, err = shb([hfile, "read", fin, "write", eager_out], timeout=60)
        try:
            eager = {i["id"]: p21tok.norm_inst(i) for i in p21tok.parse_file(open(eager_out, "rb").read())["data"]}
        except (OSError, p21tok.P21Error) as e:
            res.violation("GENERATOR BUG or eager reader failure: %s" % e, {}, found_input=False)
            continue
        orders = [ids, list(reversed(ids))]
        for _ in range(1 if tier == "quick" else 3):
            o = ids + ids
            r.shuffle(o)
            orders.append(o)
        for o in orders:
            evals += 1
            hist["loads"] += len(o)
            rc, out, err = shb([hlazy, fin, ",".join(str(x) for x in o)], timeout=90)
            lz2 = parse_lazy(out.decode("latin-1"))
            what = None
            if rc != 0 and k < 0 and any(not i["complex"] and i["parts"][0][0] == "LABEL" for i in order):
                # the fixed population with an inverted attribute of a SELECT type: an assertion (debug build), a null
                # pointer or an empty inverse attribute, depending on the build
                res.violation("lazy loader died (status %d) on the population with LABEL" % rc, {}, signature="select_typed_inverted_attribute")
                break
            elif rc != 0:
                what = "lazy loader died (status %d) loading in order %s" % (rc, o[:12])
            elif [x for x, _ in lz2["load"]] != o:
                what = "loads answered %s, requested %s" % ([x for x, _ in lz2["load"]][:12], o[:12])
            elif pid == "C10":
                for x, ser in lz2["load"]:
                    if ser == "FAILED":
                        what = "instance #%d could not be loaded" % x
                        break
                    try:
                        toks = p21tok.tokenize(ser.encode("latin-1"))
                        pi = p21tok.Parser(toks).instance()
                        got = p21tok.norm_inst(pi)
                    except (p21tok.P21Error, IndexError) as e:
                        what = "serialisation of lazily loaded #%d does not parse: %s" % (x, e)
                        break
                    exp = eager[x]
                    if got["complex"]:
                        got["parts"] = sorted(got["parts"])
                        exp = dict(exp)
                        exp["parts"] = sorted(exp["parts"])
                    if got != exp:
                        what = "lazily loaded #%d serialises as %s, eagerly read as %s" % (x, got["parts"], exp["parts"])
                        break
            else:
                # C11: inverse attributes of every loaded instance
                for x in set(o):
                    inst = byid[x]
                    decls = []
                    # (an instance in external mapping has the inverse attributes of each of its parts)
                    for ent in [pe for (pe, _v) in inst["parts"]]:
                        for e_ in [ent] + S.supertypes(ent):
                            for d_ in S.INVERSES.get(e_, []):
                                if (e_,) + tuple(d_) not in decls:      # an ancestor reached along two paths declares its inverses once
                                    decls.append((e_,) + tuple(d_))
                    if inst["complex"] and decls:
                        hist["inverse_of_complex_instance"] = hist.get("inverse_of_complex_instance", 0) + 1
                    for (part_, key_, ids_) in lz2["invi"].get(x, []):
                        if sorted(ids_) != sorted(lz2["inv"].get(x, {}).get(key_, [])):
                            what = "#%d in external mapping: its part %s holds %s for the inherited %s, the declaring part %s" % (
                                x, part_, ids_, key_, lz2["inv"].get(x, {}).get(key_))
                    if what:
                        break
                    enames = sorted(S.ENTITIES)
                    tid = {e_: j + 1 for j, e_ in enumerate(enames)}
                    isa_pairs = " ".join("%d:%d" % (tid[a], tid[b]) for a in enames for b in enames if S.isa(a, b))
                    for (owner_, iname, E, attr, _agg) in decls:
                        hist["inverse_checked"] += 1
                        exp = sorted(y["id"] for y in order if x in (refs_through(S, y, E, attr) or []))
                        exp_simple = sorted(y["id"] for y in order if not y["complex"] and x in (refs_through(S, y, E, attr) or []))
                        sel_typed = is_select([a for a in S.all_attrs(E) if a[1] == attr][0][2])
                        if exp:
                            hist["inverse_nonempty"] += 1
                        if len(exp) > 1:
                            hist["inverse_multi"] = hist.get("inverse_multi", 0) + 1
                        if exp != exp_simple:
                            hist["inverse_with_complex_referrer"] = hist.get("inverse_with_complex_referrer", 0) + 1
                        got = lz2["inv"].get(x, {}).get("%s.%s" % (owner_.lower(), iname))
                        if got is None:
                            got = []
                        if sorted(got) != exp:
                            msg = "#%d.%s holds %s after loading in order %s..., real referrers through %s.%s are %s" % (
                                x, iname, got, o[:8], E, attr, exp)
                            # the two open findings, each recognised by exactly what it loses
                            if sel_typed and not got:
                                res.violation(msg, {}, signature="select_typed_inverted_attribute")
                            elif not sel_typed and sorted(got) == exp_simple:
                                res.violation(msg, {}, signature="complex_referrer_not_candidate")
                            else:
                                what = msg
                                break
                        # model
                        pops = []
                        for y in order:
                            if y["complex"]:
                                continue
                            e2 = y["parts"][0][0]
                            attrs = []
                            for j, a in enumerate(S.all_attrs(e2)):
                                if is_select(a[2]):
                                    continue      # lazyRefs does not look into a SELECT (open finding select_typed_inverted_attribute)
                                rs = refs_of(y["parts"][0][1][j])
                                if rs:
                                    # the inverted attribute of E, declared by E or inherited by it, is attribute 999 of E
                                    inverted_ = a[1] == attr and S.isa(E, a[0]) and S.isa(e2, E)
                                    attrs.append("%d.%d=%s" % (tid[E] if inverted_ else tid[a[0]], 999 if inverted_ else j + 1,
                                                               ",".join(str(z) for z in rs)))
                            pops.append("%d:%d:%s" % (y["id"], tid[e2], "/".join(attrs)))
                        req = "V %d %d 999 ; %s ; %s" % (x, tid[E], isa_pairs, " ".join(pops))
                        rc3, mo, me = sh([drv], input=(req + "\n").encode(), timeout=60)
                        mres = sorted(int(z) for z in mo.split()[1:]) if mo.startswith("INV") else None
                        if mres != sorted(got):
                            disagreements += 1
                            report("model resolve_inverse and lazyRefs disagree on #%d.%s: model %s impl %s" % (x, iname, mres, got),
                                   data, {"theorem_or_correspondence": "correspondence C11: coq/Lazy.v resolve_inverse vs lazyRefs.h"}, found=False)
                    if what:
                        break
            if what:
                oracle_fail += 1
                report(what, data, {"load_order": o})
                break
        if len(samples) < 2:
            samples.append({"ids": ids[:10], "fwd": {str(i): fwd[i] for i in ids[:6]}})
    shutil.rmtree(wdir, ignore_errors=True)
    if not pr["ok"]:
        res.violation("Properties_%s.v no longer checks (%s)" % (pid, ", ".join(pr["failed"] or ["see log"])),
                      {"theorem_or_correspondence": "coq/Properties_%s.v" % pid, "log": pr["log"]}, found_input=False)
    res.coverage.update({
        "evaluations": evals,
        "distinct_nontrivial": nontrivial,
        "rule": "%d generated populations of schemas/verif_all.exp (NODE instances give self references and cycles, "
                "OWNER/ITEM give inverse attributes, complex instances, strings containing '#', '(' , ';', comments in half "
                "of the files); index/tables/dependencies once, then loads in ascending, descending and random orders with "
                "repetitions, each compared with the eager reader (C10) or with the referrers computed from the population "
                "(C11); C10 also runs coq/P21Scan.v (extracted) on the text of every file and of 3 (quick) / 12 (thorough) "
                "byte-damaged copies (delete, insert, replace, truncate) and compares instances, keywords, reference lists "
                "and abort with the loader; non-trivial = every population (>= 5 instances)" % n,
        "samples": samples or ["(none)"],
        "histogram": hist,
        "traces_validated_against_impl": evals,
        "correspondence_disagreements": disagreements,
        "oracle_failures": oracle_fail,
        "unproved_clauses": (["index = eager reader's ids/keywords, and load-order independence of the serialisation (tested)"]
                             if pid == "C10" else
                             ["that lazyRefs implements resolve_inverse is validated on schemas/verif_inv.exp (several inverses on one "
                              "entity, inherited from a parent, a grandparent and a second supertype, aggregate and single-valued) and "
                              "verif_all.exp only; referrers in external mapping and inverted attributes of a SELECT type are open findings"]),
    })
    res.assumptions = ["schema under test: schemas/verif_all.exp"]
    return res.finish()


if __name__ == "__main__":
    tier = os.environ.get("VERIF_TIER", "quick")
    if "--tier" in sys.argv:
        tier = sys.argv[sys.argv.index("--tier") + 1]
    pid = os.environ.get("VERIF_PID", "C10")
    sys.exit(main(tier, int(os.environ.get("VERIF_SEED", "1")), pid))
