#!/usr/bin/env python3
"""C06 -- EXPRESS tools are memory-safe and terminate on any input.
Coq: Properties_C06.v over coq/ExpSafe.v + gen/ExpBuffers.v (scope stack and tail-remark buffer,
constants and guards regenerated from expparse.y, generated/expparse.c, lexact.c).
Correspondence / oracle: the four tools built with AddressSanitizer + UndefinedBehaviorSanitizer
on generated valid schemas, token-level and byte-level mutants, pathological lexical shapes at
the boundaries the model names (nesting 17..21 and 100, remarks of 254..257 and 10^4 characters,
literals of 10^5 characters, 1000 parentheses, NULs, non-ASCII, missing final newline) and
shipped schemas: no sanitizer report, no signal, bounded time, exit status 0 or small positive
with a diagnostic; the nesting depth at which the tools stop vs the model."""
import glob
import json
import os
import re
import shutil
import sys
from concurrent.futures import ThreadPoolExecutor

sys.path.insert(0, os.path.dirname(os.path.abspath(__file__)))
from common import *  # noqa
import gen_express as G
import translate
from c17 import enrich

PID = "C06"
TOOLS = ["check-express", "exppp", "exp2cxx", "exp2python"]
BASE = "SCHEMA s;\nENTITY e;\n a : INTEGER;\nEND_ENTITY;\n%s\nEND_SCHEMA;\n"


def nest_funcs(n):
    s = ""
    for i in range(n):
        s += "FUNCTION f%d (x : INTEGER) : INTEGER;\n" % i
    for i in reversed(range(n)):
        s += "RETURN (x);\nEND_FUNCTION;\n"
    return s


def nest_query(n):
    q = "q0"
    for i in range(n):
        q = "SIZEOF(QUERY(q%d <* [1,2] | %s > 0))" % (i, q if i else "q0")
    return "RULE r FOR (e);\nWHERE w1 : %s >= 0;\nEND_RULE;" % q


TIER = ["quick"]


def shapes():
    out = []
    for n in (200, 254, 255, 256, 257, 300, 10000):
        out.append(("tail_remark_%d" % n, "SCHEMA s;\nENTITY e;\n a : INTEGER; -- " + "x" * n + "\nEND_ENTITY;\nEND_SCHEMA;\n", None))
        out.append(("remark_line_%d" % n, "SCHEMA s;\n-- " + "r" * n + "\nENTITY e;\n a : INTEGER;\nEND_ENTITY;\nEND_SCHEMA;\n", None))
    out.append(("embedded_remark_10k", "SCHEMA s; (* " + "y" * 10000 + " *)\nENTITY e;\n a : INTEGER;\nEND_ENTITY;\nEND_SCHEMA;\n", None))
    out.append(("nested_remarks_100", "SCHEMA s; " + "(* " * 100 + " *)" * 100 + "\nENTITY e;\n a : INTEGER;\nEND_ENTITY;\nEND_SCHEMA;\n", None))
    for n in (5, 17, 18, 19, 20, 21, 100):
        out.append(("nested_func_%d" % n, BASE % nest_funcs(n), ("func", n)))
    for n in (5, 16, 17, 18, 19, 30):
        out.append(("nested_query_%d" % n, BASE % nest_query(n), ("query", n)))
    out.append(("parens_1000", BASE % ("CONSTANT c : INTEGER := " + "(" * 1000 + "1" + ")" * 1000 + ";\nEND_CONSTANT;"), None))
    out.append(("long_string_100k", BASE % ("CONSTANT c : STRING := '" + "z" * 100000 + "';\nEND_CONSTANT;"), None))
    out.append(("long_binary_10k", BASE % ("CONSTANT c : BINARY := %" + "01" * 5000 + ";\nEND_CONSTANT;"), None))
    out.append(("long_ident_200", "SCHEMA s;\nENTITY " + "e" * 200 + ";\nEND_ENTITY;\nEND_SCHEMA;\n", None))
    out.append(("long_int_1000", BASE % ("CONSTANT c : INTEGER := " + "9" * 1000 + ";\nEND_CONSTANT;"), None))
    out.append(("long_real_1000", BASE % ("CONSTANT c : REAL := 1." + "0" * 1000 + "E" + "9" * 50 + ";\nEND_CONSTANT;"), None))
    out.append(("nul_bytes", "SCHEMA s;\nENTITY e;\n a\0 : INTEGER;\nEND_ENTITY;\nEND_SCHEMA;\n", None))
    out.append(("no_newline", "SCHEMA s;\nENTITY e;\n a : INTEGER;\nEND_ENTITY;\nEND_SCHEMA;", None))
    out.append(("nonascii", "SCHEMA s;\nENTITY e;\n \xe9\xff a : INTEGER;\nEND_ENTITY;\nEND_SCHEMA;\n", None))
    out.append(("many_errors", "SCHEMA s;\n" + "".join("ENTITY x%d; a : nosuchtype%d; END_ENTITY;\n" % (i, i) for i in range(300)) + "END_SCHEMA;\n", None))
    # names of the wrong kind where an expression or a variable is expected: the name of a defined type of every class,
    # of an entity, a function, a rule, the schema
    for nm in ("t_bag", "t_list", "t_str", "t_int", "t_real", "t_bool", "t_enum", "t_sel", "t_arr", "t_bin", "ent", "fun", "s"):
        out.append(("name_misused_%s" % nm,
                    "SCHEMA s;\nTYPE t_bag = BAG [1:?] OF STRING;\nEND_TYPE;\nTYPE t_list = LIST OF INTEGER;\nEND_TYPE;\nTYPE t_str = STRING;\nEND_TYPE;\n"
                    "TYPE t_int = INTEGER;\nEND_TYPE;\nTYPE t_real = REAL;\nEND_TYPE;\nTYPE t_bool = BOOLEAN;\nEND_TYPE;\nTYPE t_enum = ENUMERATION OF (aa, bb);\nEND_TYPE;\n"
                    "TYPE t_arr = ARRAY [1:2] OF REAL;\nEND_TYPE;\nTYPE t_bin = BINARY;\nEND_TYPE;\n"
                    "ENTITY ent;\n a : INTEGER;\nEND_ENTITY;\nTYPE t_sel = SELECT (ent, t_int);\nEND_TYPE;\n"
                    "FUNCTION fun (x : INTEGER) : INTEGER;\n LOCAL\n  y : INTEGER;\n END_LOCAL;\n %s := x + 1;\n y := %s + x;\n IF %s > 2 THEN\n  y := 1;\n END_IF;\n RETURN (y);\nEND_FUNCTION;\n"
                    "ENTITY e2;\n b : INTEGER;\nWHERE\n w1 : b > %s;\nEND_ENTITY;\nEND_SCHEMA;\n" % (nm, nm, nm, nm), None))
    # many diagnostics, long quoted names: buffered (-B) and with every warning class
    many = "SCHEMA s;\n" + "".join("ENTITY x%d; a : nosuchtype%d; END_ENTITY;\n" % (i, i) for i in range(130)) + "END_SCHEMA;\n"
    longn = "SCHEMA s;\n" + "".join("ENTITY y%d; a : %s%d; END_ENTITY;\n" % (i, "n" * 1500, i) for i in range(6)) + "END_SCHEMA;\n"
    for pre in ("optB_", "optw_"):
        out.append((pre + "many_errors", many, None))
        out.append((pre + "long_names_in_errors", longn, None))
        out.append((pre + "valid", BASE % "CONSTANT c : INTEGER := 1;\nEND_CONSTANT;", None))
    # literals that end with the line or the file
    for nm, tail in (("encoded_unterminated_line", "CONSTANT c : STRING := \"0000004A;\nEND_CONSTANT;"), ("binary_unterminated", "CONSTANT c : BINARY := %;\nEND_CONSTANT;"),
                     ("encoded_empty", "CONSTANT c : STRING := \"\";\nEND_CONSTANT;"), ("encoded_odd", "CONSTANT c : STRING := \"0000004\";\nEND_CONSTANT;")):
        out.append((nm, BASE % tail, None))
    out.append(("quote_at_eof", "SCHEMA s;\nENTITY e;\n a : INTEGER;\nEND_ENTITY;\nEND_SCHEMA;\n\"", None))
    out.append(("apostrophe_at_eof", "SCHEMA s;\nENTITY e;\n a : INTEGER;\nEND_ENTITY;\nEND_SCHEMA;\n'", None))
    out.append(("percent_at_eof", "SCHEMA s;\nENTITY e;\n a : INTEGER;\nEND_ENTITY;\nEND_SCHEMA;\n%", None))
    out.append(("remark_open_at_eof", "SCHEMA s;\nENTITY e;\n a : INTEGER;\nEND_ENTITY;\nEND_SCHEMA;\n(*", None))
    # identifiers around the sizes of the generators' name buffers (open finding from the smallest one up)
    for n in (100, 239, 240, 241, 300, 1000, 5000):
        out.append(("long_ident_%d" % n, "SCHEMA s;\nENTITY " + "e" * n + ";\n a : INTEGER;\nEND_ENTITY;\nTYPE " + "t" * n + " = INTEGER;\nEND_TYPE;\nEND_SCHEMA;\n",
                    ("long_ident", n)))
    # built-in functions with too few / too many arguments
    for fn in ("NVL", "ABS", "SIZEOF", "EXISTS", "TYPEOF", "USEDIN", "ROLESOF", "VALUE", "FORMAT", "LENGTH", "ODD", "HIBOUND", "LOBOUND", "BLENGTH", "VALUE_IN", "VALUE_UNIQUE"):
        for args in ("", "a", "a, a, a, a"):
            out.append(("builtin_args_%s_%d" % (fn.lower(), len(args)), "SCHEMA s;\nENTITY e;\n a : OPTIONAL INTEGER;\nWHERE\n w : EXISTS (%s (%s));\nEND_ENTITY;\nEND_SCHEMA;\n" % (fn, args), None))
    # INCLUDE: a missing file, nine files one after the other, nine files nested
    out.append(("incl_missing", "SCHEMA s;\nINCLUDE 'nosuchfile.exp';\nEND_SCHEMA;\n", None))
    out.append(("incl_sequence", "SCHEMA s;\n" + "".join("INCLUDE 'inc%d.exp';\n" % j for j in range(1, 10)) + "END_SCHEMA;\n", None))
    out.append(("incl_nested", "SCHEMA s;\nINCLUDE 'inc1.exp';\nEND_SCHEMA;\n", None))
    # shapes whose cost or size grows with the input: layered selects, stacked diamonds, long enumerations / selects,
    # long escaped initializers, a type based on a type of another schema (sizes above the open findings only in the thorough tier)
    def sel_dag(n):
        t = "SCHEMA s;\n"
        for i in range(n):
            t += "TYPE l%02da = SELECT (l%02da, l%02db);\nEND_TYPE;\nTYPE l%02db = SELECT (l%02da, l%02db);\nEND_TYPE;\n" % (i, i + 1, i + 1, i, i + 1, i + 1)
        t += "TYPE l%02da = SELECT (e1);\nEND_TYPE;\nTYPE l%02db = SELECT (e2);\nEND_TYPE;\n" % (n, n)
        return t + "ENTITY e1; END_ENTITY;\nENTITY e2; END_ENTITY;\nENTITY top; x : l00a; END_ENTITY;\nEND_SCHEMA;\n"

    def diamonds(n):
        t = "SCHEMA d;\nENTITY top; t0 : INTEGER; END_ENTITY;\n"
        prev = "top"
        for i in range(n):
            t += "ENTITY l%02d SUBTYPE OF (%s); END_ENTITY;\nENTITY r%02d SUBTYPE OF (%s); END_ENTITY;\nENTITY j%02d SUBTYPE OF (l%02d, r%02d); END_ENTITY;\n" % (i, prev, i, prev, i, i, i)
            prev = "j%02d" % i
        return t + "ENTITY bottom SUBTYPE OF (%s); newattr : INTEGER; END_ENTITY;\nEND_SCHEMA;\n" % prev

    def bigenum(n):
        return "SCHEMA s;\nTYPE e = ENUMERATION OF (%s);\nEND_TYPE;\nENTITY a; x : e; END_ENTITY;\nEND_SCHEMA;\n" % ",".join("item_number_%04d" % i for i in range(n))
    for n in ((3, 8) if TIER[0] == "quick" else (3, 8, 14, 40)):
        out.append(("select_dag_%d" % n, sel_dag(n), ("growth", "exponential_select_walk") if n >= 14 else ("valid", 0)))
    for n in ((2, 6) if TIER[0] == "quick" else (2, 6, 12, 30)):
        out.append(("diamonds_%d" % n, diamonds(n), ("growth", "exponential_supertype_walk") if n >= 12 else ("valid", 0)))
    for n in (50, 200, 600, 3000):
        out.append(("enum_items_%d" % n, bigenum(n), ("growth", "type_description_buffer") if n >= 300 else ("valid", 0)))
    for n in (100, 9000, 40000):
        out.append(("derive_backslashes_%d" % n, "SCHEMA d;\nENTITY e;\n a : STRING;\nDERIVE\n b : STRING := '%s';\nEND_ENTITY;\nEND_SCHEMA;\n" % ("\\" * n), None))
    out.append(("type_on_foreign_type", "SCHEMA aa;\nREFERENCE FROM bb (t);\nTYPE u = t;\nEND_TYPE;\nENTITY e;\n x : u;\nEND_ENTITY;\nEND_SCHEMA;\nSCHEMA bb;\nTYPE t = INTEGER;\nEND_TYPE;\nEND_SCHEMA;\n", ("valid", 0)))
    # valid schemas that declare no entity or type (exp2cxx then opens fewer files)
    out.append(("schema_nothing", "SCHEMA nothing;\nEND_SCHEMA;\n", ("valid", 0)))
    out.append(("schema_only_function", "SCHEMA onlyfun;\nFUNCTION f (x : INTEGER) : INTEGER;\n RETURN (x);\nEND_FUNCTION;\nEND_SCHEMA;\n", ("valid", 0)))
    out.append(("schema_only_constant", "SCHEMA onlyconst;\nCONSTANT\n c : INTEGER := 1;\nEND_CONSTANT;\nEND_SCHEMA;\n", ("valid", 0)))
    out.append(("empty", "", None))
    out.append(("only_keyword", "SCHEMA", None))
    out.append(("unterminated_string", BASE % "CONSTANT c : STRING := 'abc;\nEND_CONSTANT;", None))
    out.append(("unterminated_remark", "SCHEMA s; (* never closed\nENTITY e; END_ENTITY;\nEND_SCHEMA;\n", None))
    out.append(("deep_aggregate_type", BASE % ("TYPE t = " + "LIST [0:?] OF " * 200 + "INTEGER;\nEND_TYPE;"), None))
    out.append(("deep_supertype_expr", "SCHEMA s;\nENTITY a SUPERTYPE OF (" + "(" * 200 + "b" + ")" * 200 + ");\nEND_ENTITY;\nENTITY b SUBTYPE OF (a);\nEND_ENTITY;\nEND_SCHEMA;\n", None))
    for n in (200, 250, 255, 256, 300, 5000):
        out.append(("use_long_schema_%d" % n, "SCHEMA s;\nUSE FROM " + "u" * n + ";\nENTITY e;\n a : INTEGER;\nEND_ENTITY;\nEND_SCHEMA;\n", None))
        out.append(("reference_long_schema_%d" % n, "SCHEMA s;\nREFERENCE FROM " + "r" * n + " (x);\nENTITY e;\n a : INTEGER;\nEND_ENTITY;\nEND_SCHEMA;\n", None))
    for n in (2000, 40000):
        out.append(("big_where_%d" % n, "SCHEMA s;\nENTITY e;\n a : INTEGER;\nWHERE\n w1 : SIZEOF([" + ", ".join(["1"] * n) + "]) > a;\nEND_ENTITY;\nEND_SCHEMA;\n", None))
        out.append(("big_derive_%d" % n, "SCHEMA s;\nENTITY e;\n a : INTEGER;\nDERIVE\n d : INTEGER := " + " + ".join(["a"] * n) + ";\nEND_ENTITY;\nEND_SCHEMA;\n", None))
    out.append(("func_ref_without_args", BASE % "FUNCTION f (x : INTEGER) : INTEGER;\nRETURN (x);\nEND_FUNCTION;\nRULE r FOR (e);\nWHERE wr1 : f > 0;\nEND_RULE;", None))
    out.append(("proc_call_without_args", BASE % "PROCEDURE p (x : INTEGER);\nEND_PROCEDURE;\nFUNCTION g : INTEGER;\np;\nRETURN (1);\nEND_FUNCTION;", None))
    # runs of white space around the scanner's buffer size (512), between any two tokens and at the end of the file
    for n in (100, 510, 511, 512, 513, 600, 1100, 5000):
        for ch, cn in ((" ", "blanks"), ("\t", "tabs"), ("\n", "newlines")):
            if cn != "blanks" and n not in (512, 600, 5000):
                continue
            w = ch * n
            out.append(("%s_%d_after_semicolon" % (cn, n), "SCHEMA s;" + w + "\nENTITY e;\n a : INTEGER;\nEND_ENTITY;\nEND_SCHEMA;\n", ("valid", 0)))
            out.append(("%s_%d_inside_declaration" % (cn, n), "SCHEMA s;\nENTITY e;\n a :" + w + "INTEGER" + w + ";\nEND_ENTITY;\nEND_SCHEMA;\n", ("valid", 0)))
            out.append(("%s_%d_before_remark" % (cn, n), "SCHEMA s;" + w + "-- tail\nENTITY e;" + w + "(* r *)\n a : INTEGER;\nEND_ENTITY;\nEND_SCHEMA;\n", ("valid", 0)))
            out.append(("%s_%d_at_end" % (cn, n), "SCHEMA s;\nENTITY e;\n a : INTEGER;\nEND_ENTITY;\nEND_SCHEMA;" + w, ("valid", 0)))
    # long names in every place a name is declared (beyond the generators' name buffers: the open finding for exp2cxx / exp2python)
    for n in (300, 999, 1000, 1101, 5000):
        nm = "n" * n
        for place, text in (
            ("local_variable", "FUNCTION f (x : INTEGER) : INTEGER;\n LOCAL\n  %s : INTEGER := 0;\n  k : INTEGER := 1;\n END_LOCAL;\n RETURN (x + k);\nEND_FUNCTION;" % nm),
            ("attribute", "ENTITY e2;\n %s : INTEGER;\n b : OPTIONAL REAL;\nEND_ENTITY;" % nm),
            ("where_label", "ENTITY e2;\n b : INTEGER;\nWHERE\n %s : b > 0;\n w2 : b < 9;\nEND_ENTITY;" % nm),
            ("parameter", "FUNCTION f (%s : INTEGER; y : REAL) : INTEGER;\n RETURN (%s);\nEND_FUNCTION;" % (nm, nm)),
            ("function", "FUNCTION %s (x : INTEGER) : INTEGER;\n RETURN (x);\nEND_FUNCTION;" % nm),
            ("constant", "CONSTANT\n %s : INTEGER := 1;\n c2 : REAL := 2.0;\nEND_CONSTANT;" % nm),
            ("enumeration_item", "TYPE t = ENUMERATION OF (%s, other);\nEND_TYPE;" % nm),
            ("rule", "RULE %s FOR (e);\nWHERE\n w : TRUE;\nEND_RULE;" % nm),
        ):
            out.append(("long_name_%d_%s" % (n, place), BASE % text, ("long_ident", n)))
    # expressions longer than two fixed buffers: a CASE label (exppp measured it in char buffer[10000]; repaired) and an
    # aggregate bound (exp2python prints it into 100000 bytes with strcat: open finding); below the buffers both are fine
    for n in (2000, 12000):
        out.append(("case_label_string_%d" % n, "SCHEMA s;\nFUNCTION f (x : STRING) : INTEGER;\n CASE x OF\n  '%s' : RETURN (1);\n  OTHERWISE : RETURN (2);\n END_CASE;\nEND_FUNCTION;\nENTITY e;\n a : INTEGER;\nEND_ENTITY;\nEND_SCHEMA;\n" % ("a" * n),
                    ("valid", 0)))
    for n in (2000, 60000):
        out.append(("bound_expression_%d" % n, "SCHEMA s;\nFUNCTION f (a : STRING; b : STRING) : INTEGER;\n RETURN (1);\nEND_FUNCTION;\nENTITY x;\n l : LIST [0:f('%s', '%s')] OF INTEGER;\nEND_ENTITY;\nEND_SCHEMA;\n" % ("a" * n, "b" * n),
                    ("growth", "exp2python_expression_buffer") if n > 40000 else ("valid", 0)))
    # nesting that moves exppp's continuation indent beyond any fixed line buffer; a schema name longer than a file name can be
    for n in (50, 240, 260, 300, 1200):
        out.append(("oneof_nested_%d" % n, "SCHEMA s;\nENTITY a SUPERTYPE OF (" + "ONEOF (" * n + "b" + ")" * n + ");\nEND_ENTITY;\nENTITY b SUBTYPE OF (a);\nEND_ENTITY;\nEND_SCHEMA;\n", None))
    for n in (200, 990, 996, 1000, 2000, 20000):
        out.append(("long_schema_name_%d" % n, "SCHEMA " + "s" * n + ";\nENTITY e;\n a : INTEGER;\nEND_ENTITY;\nEND_SCHEMA;\n", ("long_ident", n)))
    # known finding probe: identifiers longer than the BUFSIZ name buffers
    out.append(("long_ident_10k", "SCHEMA s;\nENTITY " + "e" * 10000 + ";\nEND_ENTITY;\nEND_SCHEMA;\n", ("long_ident", 10000)))
    return out


TOK = re.compile(r"\s+|[A-Za-z_][A-Za-z0-9_]*|[0-9]+(?:\.[0-9]*)?(?:[eE][+-]?[0-9]+)?|'(?:[^'\n]|'')*'|<=|>=|<>|:=|\*\*|<\*|\|\||:<>:|:=:|.", re.S)


def token_mutants(r, text, n):
    toks = TOK.findall(text)
    idx = [i for i, t in enumerate(toks) if not t.isspace()]
    out = []
    for _ in range(n):
        t = list(toks)
        k = r.choice(idx)
        op = r.choice(["del", "dup", "swap", "kw", "del2"])
        if op == "del":
            t[k] = ""
        elif op == "del2":
            j = r.choice(idx)
            for q in range(min(k, j), min(max(k, j), min(k, j) + 12) + 1):
                t[q] = ""
        elif op == "dup":
            t[k] = t[k] + " " + t[k]
        elif op == "swap":
            j = r.choice(idx)
            t[k], t[j] = t[j], t[k]
        else:
            t[k] = r.choice(["END_ENTITY", "SELF", "ONEOF", "(", ")", ";", "QUERY", "?", "[", "SUBTYPE", "OF", "END_SCHEMA", ":=", "\\", "|"])
        out.append(("token_" + op, "".join(t)))
    return out


def byte_mutants(r, text, n):
    b = bytearray(text.encode("latin-1", "replace"))
    out = []
    for _ in range(n):
        c = bytearray(b)
        op = r.choice(["flip", "ins", "del", "trunc", "zero"])
        k = r.randrange(len(c)) if c else 0
        if op == "flip":
            c[k] = r.randrange(256)
        elif op == "ins":
            c[k:k] = bytes(r.randrange(256) for _ in range(r.randint(1, 4)))
        elif op == "del":
            del c[k:k + r.randint(1, 20)]
        elif op == "trunc":
            del c[k:]
        else:
            c[k] = 0
        out.append(("byte_" + op, c.decode("latin-1")))
    return out


def main(tier, seed):
    TIER[0] = tier
    res = Result(PID, tier, seed)
    try:
        translate.run_all(PID)
    except translate.AnchorLost as e:
        res.violation("translator lost its anchor: %s" % e, {"theorem_or_correspondence": "tools/translate.py gen_expbuffers"}, found_input=False)
    pr = coq_prove(PID)
    proof_coverage(res, pr, ["coq/gen/ExpBuffers.v regenerated from expparse.y, generated/expparse.c and lexact.c (pattern-matching translator)",
                             "the theorems cover the two fixed-size tables named by the property; every other access is covered only by the "
                             "sanitizer runs (ASan+UBSan, gcc 12) of this check -- memory safety of C is not something the model can carry"])
    if pr["forbidden"]:
        res.violation("forbidden vernacular in coq/", {"forbidden": pr["forbidden"]}, found_input=False)
    try:
        bdir = build_impl("asan")
    except BuildError as e:
        res.violation("build failed: %s" % e, {"error": str(e)}, found_input=False)
        res.coverage.update({"evaluations": 0, "distinct_nontrivial": 0})
        return res.finish()
    wroot = os.path.join(bdir, "verif-work", "c06-%d" % os.getpid())
    shutil.rmtree(wroot, ignore_errors=True)
    os.makedirs(wroot)
    cases = []    # (class, name, text, expect)
    for (name, text, exp) in shapes():
        cases.append(("shape", name, text, exp))
    nsch = int(os.environ.get("C06_N", "6")) if tier == "quick" else 300
    nmut = 5 if tier == "quick" else 12
    for k in range(nsch):
        r = rng(seed, "c06/%d" % k)
        S = enrich(r, G.gen_schema(r, name="ms_%d" % k, keywordish=(k % 3 == 0)))
        text = G.render(S, tail_remarks=(k % 2 == 0), r=r)
        cases.append(("valid", "gen_%d" % k, text, ("valid", 0)))
        for (op, t) in token_mutants(r, text, nmut):
            cases.append((op, "gen_%d_%s_%d" % (k, op, len(cases)), t, None))
        for (op, t) in byte_mutants(r, text, nmut):
            cases.append((op, "gen_%d_%s_%d" % (k, op, len(cases)), t, None))
    shipped = ["data/pdm/pdm_schema_12.exp", "test/unitary_schemas/inverse_attr.exp", "test/unitary_schemas/select_data_type.exp"]
    if tier != "quick":
        pass
        shipped = sorted(glob.glob(os.path.join(REPO, "data", "*", "*.exp"))) + sorted(glob.glob(os.path.join(REPO, "test", "unitary_schemas", "*.exp")))
        shipped = [os.path.relpath(p, REPO) for p in shipped]
    r = rng(seed, "c06/ship")
    for rel in shipped:
        pth = os.path.join(REPO, rel)
        if not os.path.exists(pth):
            continue
        text = open(pth, encoding="latin-1").read()
        valid = "fail_" not in rel and "broken" not in rel
        cases.append(("shipped", os.path.basename(rel), text, ("valid", 0) if valid else None))
        if len(text) < 400000:
            for (op, t) in token_mutants(r, text, 2) + byte_mutants(r, text, 2):
                cases.append(("shipped_" + op, "%s_%s_%d" % (os.path.basename(rel), op, len(cases)), t, None))
    # the corpora of C04 (valid schemas, faulty schemas) and of C07 under the sanitizers
    for pth in sorted(glob.glob(os.path.join(VERIF, "corpus", "C04", "valid", "*.exp"))):
        tv_ = open(pth).read()
        # "-- known:" marks a valid schema the parser rejects (open finding of C04): only the clean run is judged here
        cases.append(("corpus_valid", "cv_" + os.path.basename(pth)[:-4], tv_, None if re.search(r"^-- known: ", tv_, re.M) else ("valid", 0)))
    for pth in sorted(glob.glob(os.path.join(VERIF, "corpus", "C04", "diag", "*.exp"))):
        cases.append(("corpus_faulty", "cf_" + os.path.basename(pth)[:-4], open(pth).read(), None))
    jobs = []
    for ci, (cls, name, text, exp) in enumerate(cases):
        for tool in TOOLS:
            if cls.startswith("shipped") and tool == "exp2python" and tier == "quick":
                continue
            jobs.append((ci, tool))

    def run_job(job):
        ci, tool = job
        cls, name, text, exp = cases[ci]
        wd = os.path.join(wroot, "j%d_%s" % (ci, tool))
        os.makedirs(wd)
        f = os.path.join(wd, "in.exp")
        open(f, "w", encoding="latin-1").write(text)
        limit = 120 if cls.startswith("shipped") else 60
        # a case named optB_* is run with -B (diagnostics buffered and sorted), optw_* with every warning class on
        opts = ["-B"] if name.startswith("optB_") else (["-w", "all"] if name.startswith("optw_") else [])
        if name.startswith("incl_"):
            for j in range(1, 10):
                open(os.path.join(wd, "inc%d.exp" % j), "w").write("INCLUDE 'inc%d.exp';\n" % (j + 1) if name == "incl_nested" else "ENTITY inc%d_e;\n a : INTEGER;\nEND_ENTITY;\n" % j)
        rc, so, se = sh([os.path.join(bdir, "bin", tool)] + opts + [f], cwd=wd, timeout=limit * 10, cpu=limit,
                        env={"ASAN_OPTIONS": "detect_leaks=0:abort_on_error=0:exitcode=99", "UBSAN_OPTIONS": "print_stacktrace=1:halt_on_error=1:exitcode=98"})
        shutil.rmtree(wd, ignore_errors=True)
        return ci, tool, rc, (so + se)

    with ThreadPoolExecutor(max_workers=14) as ex:
        results = list(ex.map(run_job, jobs))
    evals = 0
    oracle_fail = 0
    disagreements = 0
    nontrivial = 0
    hist = {}
    accepted = 0
    rejected = 0
    samples = []
    depth_stop = {}

    def save(name, text):
        os.makedirs(res.replay_dir, exist_ok=True)
        p = os.path.join(res.replay_dir, name)
        open(p, "w", encoding="latin-1").write(text)
        return p
    # model: at which nesting depth do the tools stop
    mtxt = open(os.path.join(COQ, "gen", "ExpBuffers.v")).read()
    maxd = int(re.search(r"MAX_SCOPE_DEPTH : Z := (\d+)", mtxt).group(1))
    margin = int(re.search(r"guard_margin : Z := (\d+)", mtxt).group(1))
    for (ci, tool, rc, txt) in results:
        cls, name, text, exp = cases[ci]
        evals += 1
        hist[cls] = hist.get(cls, 0) + 1
        what = None
        sig = None
        san = re.search(r"ERROR: AddressSanitizer: ([\w-]+)|runtime error: ([^\n]{0,80})", txt)
        frame = re.search(r"#\d+ 0x[0-9a-f]+ in (\w+) (" + re.escape(REPO) + r"/[^\s:]+:\d+)", txt)
        if san:
            what = "%s: sanitizer report on %s: %s%s" % (tool, name, san.group(1) or san.group(2), (" in %s %s" % (frame.group(1), frame.group(2))) if frame else "")
        elif rc == 124:
            what = "%s does not terminate within the time limit on %s" % (tool, name)
        elif rc < 0 or rc > 90:
            what = "%s dies on %s (status %d)" % (tool, name, rc)
        elif rc != 0 and not txt.strip():
            what = "%s exits with status %d on %s without any diagnostic" % (tool, rc, name)
        elif exp and exp[0] == "valid" and rc != 0:
            what = "%s rejects the valid schema %s (status %d): %s" % (tool, name, rc, txt.strip()[-150:])
        if exp and exp[0] == "long_ident" and what and tool in ("exp2cxx", "exp2python"):
            # the open finding is about the generators' name buffers; the checker and the pretty printer must cope
            sig = "identifier_longer_than_name_buffers"
        if exp and exp[0] == "growth" and what:
            sig = exp[1]
        if rc == 0:
            accepted += 1
        else:
            rejected += 1
        if exp and exp[0] in ("func", "query") and not what:
            depth_stop.setdefault((exp[0], tool), {})[exp[1]] = (rc, "nested more than" in txt)
        if cls not in ("shape", "valid", "shipped") and rc != 0 and not what:
            nontrivial += 1
        if what:
            oracle_fail += 1
            p = save("c06-%s.exp" % re.sub(r"\W", "_", name)[:60], text)
            res.violation(what, {"input_file": p, "replay": "%s/bin/%s %s" % (bdir, tool, p)}, signature=sig)
        elif len(samples) < 4 and rc != 0 and cls.startswith(("token", "byte")):
            samples.append({"case": name, "tool": tool, "status": rc, "diagnostic": txt.strip().split("\n")[-2:][0][-100:] if txt.strip() else ""})
    # scope-stack model vs tools: function scopes: index 0 = file, 1 = schema, then one per function
    for (kind, tool), obs in sorted(depth_stop.items()):
        if kind != "func":
            continue
        for d, (rc, msg) in sorted(obs.items()):
            model_stops = (1 + d) > (maxd - margin)      # pointer would have to reach 1 + d
            if model_stops != (rc != 0 and msg):
                disagreements += 1
                res.violation("%s with functions nested %d deep: status %d, 'nested more than' %s; the model (MAX_SCOPE_DEPTH %d, margin %d) %s" % (
                    tool, d, rc, "printed" if msg else "not printed", maxd, margin, "stops" if model_stops else "goes on"),
                    {"theorem_or_correspondence": "correspondence C06: coq/ExpSafe.v vs expparse PUSH_SCOPE"}, found_input=False)
    # ---- exppp's expression buffer: coq/ExprBuf.v (extracted) against EXPRlength() on every expression of the valid schemas ----
    elen = {"schemas": 0, "expressions": 0, "composite": 0, "longest": 0, "kinds": {}}
    try:
        hexe = build_harness(bdir, "h_exprlen", cfg="asan", libs=["exppp", "express"], lang="c",
                             extra_src=[os.path.join(REPO, "src", "express", "fedex.c")],
                             extra_flags=["-std=gnu11", "-I" + os.path.join(REPO, "src", "express"), "-I" + os.path.join(REPO, "include", "exppp")])
        extract_and_build_drivers()
    except BuildError as e:
        hexe = None
        res.violation("the expression-length harness does not build: %s" % str(e)[-300:],
                      {"theorem_or_correspondence": "correspondence C06: coq/ExprBuf.v vs exppp EXPRlength", "error": str(e)[-2000:]}, found_input=False)
    if hexe:
        texts = [("exprlen_stress", open(os.path.join(VERIF, "schemas", "c06_exprlen.exp")).read())]
        texts += [(name, text) for (cls, name, text, exp) in cases if exp == ("valid", 0) and len(text) < 3000000]

        def run_len(item):
            name, text = item
            wd = os.path.join(wroot, "len_%s" % re.sub(r"\W", "_", name)[:60])
            os.makedirs(wd, exist_ok=True)
            f = os.path.join(wd, "in.exp")
            open(f, "w", encoding="latin-1").write(text)
            rc, so, se = sh([hexe, f], cwd=wd, timeout=600, cpu=120,
                            env={"ASAN_OPTIONS": "detect_leaks=0:abort_on_error=0:exitcode=99", "UBSAN_OPTIONS": "print_stacktrace=1:halt_on_error=1:exitcode=98"})
            shutil.rmtree(wd, ignore_errors=True)
            return name, text, rc, so, se
        with ThreadPoolExecutor(max_workers=14) as ex:
            lens = list(ex.map(run_len, texts))
        drv = os.path.join(VERIF, "ocaml", "bin", "drv_elen")
        for (name, text, rc, so, se) in lens:
            san = re.search(r"ERROR: AddressSanitizer: ([\w-]+)|runtime error: ([^\n]{0,80})", se + so)
            frame = re.search(r"#\d+ 0x[0-9a-f]+ in (\w+) (" + re.escape(REPO) + r"/[^\s:]+:\d+)", se + so)
            if san:
                pth = save("c06-exprlen-%s.exp" % re.sub(r"\W", "_", name)[:50], text)
                oracle_fail += 1
                res.violation("EXPRlength() on an expression of %s: sanitizer report %s%s" % (name, san.group(1) or san.group(2),
                              (" in %s %s" % (frame.group(1), frame.group(2))) if frame else ""),
                              {"input_file": pth, "replay": "%s %s" % (hexe, pth)})
                continue
            if rc != 0 or "DONE" not in so:
                if "Errors in input" in se + so or rc in (1, 2):
                    continue      # a schema the front end rejects has no expressions to measure (judged above)
                pth = save("c06-exprlen-%s.exp" % re.sub(r"\W", "_", name)[:50], text)
                oracle_fail += 1
                res.violation("the expression-length harness dies on %s (status %d)" % (name, rc), {"input_file": pth, "replay": "%s %s" % (hexe, pth)})
                continue
            lines = [l for l in so.split("\n") if l.startswith("E ")]
            rc2, mo, me = sh([drv], input=("\n".join(lines) + "\n").encode(), timeout=600)
            mlines = [l for l in mo.split("\n") if l.startswith("E ")]
            elen["schemas"] += 1
            if rc2 != 0 or len(mlines) != len(lines):
                disagreements += 1
                res.violation("drv_elen could not evaluate the model on the expressions of %s: %s" % (name, (me or mo)[-200:]),
                              {"theorem_or_correspondence": "correspondence C06: coq/ExprBuf.v vs exppp EXPRlength"}, found_input=False)
                continue
            for (hl, ml) in zip(lines, mlines):
                w = ml.split()
                shape_ = hl.split(" ", 2)[2]
                elen["expressions"] += 1
                k = shape_[:1]
                elen["kinds"][k] = elen["kinds"].get(k, 0) + 1
                if k not in "NSBU":
                    elen["composite"] += 1
                if len(w) != 7 or w[2] == "?":
                    disagreements += 1
                    res.violation("shape not understood by the model: %s (%s)" % (shape_[:120], name),
                                  {"theorem_or_correspondence": "correspondence C06: coq/ExprBuf.v vs exppp EXPRlength"}, found_input=False)
                    break
                actual, written, bound, wf, bsize, stored = [int(x) for x in w[1:]]
                elen["longest"] = max(elen["longest"], actual)
                if actual + 1 > bsize:
                    pth = save("c06-exprlen-%s.exp" % re.sub(r"\W", "_", name)[:50], text)
                    oracle_fail += 1
                    res.violation("EXPRlength() stores %d bytes for the expression %s of %s in a buffer of %d" % (actual + 1, shape_[:120], name, bsize),
                                  {"input_file": pth, "replay": "%s %s" % (hexe, pth), "expression": shape_})
                    break
                if actual != written or wf != 1 or stored > bsize:
                    disagreements += 1
                    pth = save("c06-exprlen-%s.exp" % re.sub(r"\W", "_", name)[:50], text)
                    res.violation("EXPRstring() writes %d characters for the expression %s of %s, the model %d (literal lengths within the formats: %s; "
                                  "model: %d bytes stored, buffer of %d)" % (actual, shape_[:120], name, written, "yes" if wf else "no", stored, bsize),
                                  {"theorem_or_correspondence": "correspondence C06: coq/ExprBuf.v vs exppp EXPRlength", "input_file": pth,
                                   "replay": "%s %s | %s" % (hexe, pth, drv)}, found_input=False)
                    break
        evals += elen["expressions"]
    shutil.rmtree(wroot, ignore_errors=True)
    if not pr["ok"]:
        res.violation("Properties_C06.v no longer checks (%s)" % ", ".join(pr["failed"] or ["see log"]),
                      {"theorem_or_correspondence": "coq/Properties_C06.v", "log": pr["log"]}, found_input=False)
    res.coverage.update({
        "evaluations": evals,
        "distinct_nontrivial": nontrivial,
        "rule": "%d inputs x 4 tools (ASan+UBSan build): %d pathological shapes; %d generated valid schemas each with %d token-level "
                "(delete / delete-range / duplicate / swap / keyword) and %d byte-level (flip / insert / delete / truncate / NUL) mutants; %d shipped "
                "schemas with mutants; non-trivial = mutant rejected with a diagnostic" % (len(cases), len(shapes()), nsch, nmut, nmut, len(shipped)),
        "samples": samples or ["(none)"],
        "histogram": hist,
        "accepted_runs": accepted,
        "rejected_runs": rejected,
        "traces_validated_against_impl": evals,
        "correspondence_disagreements": disagreements,
        "expression_buffer": "coq/ExprBuf.v (extracted) against exppp's EXPRlength() under ASan: %d expressions (%d composite; by kind %s) of %d valid schemas, "
                             "longest text %d characters; compared: characters written = model, literal lengths within their formats, bytes stored <= buffer" % (
                                 elen["expressions"], elen["composite"], json.dumps(elen["kinds"], sort_keys=True), elen["schemas"], elen["longest"]),
        "oracle_failures": oracle_fail,
        "unproved_clauses": ["memory safety outside the scope stack and the tail-remark buffer (sanitizer runs only)", "termination (time limit only)"],
    })
    res.assumptions = ["gcc 12 -fsanitize=address,undefined -fno-sanitize-recover=all; leak detection off"]
    return res.finish(level="partial") if False else res.finish()


if __name__ == "__main__":
    tier = os.environ.get("VERIF_TIER", "quick")
    if "--tier" in sys.argv:
        tier = sys.argv[sys.argv.index("--tier") + 1]
    sys.exit(main(tier, int(os.environ.get("VERIF_SEED", "1"))))
