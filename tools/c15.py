#!/usr/bin/env python3
"""C15 -- strict and lenient handling of missing required attributes.
Coq: Properties_C15.v over coq/gen/NullTable.v (regenerated from STEPattribute::STEPread)
and coq/FileSev.v.  Correspondence: (1) every attribute of every entity of
schemas/verif_all.exp read from "$," "," ")" in both modes vs the model table;
(2) generated populations with one attribute replaced by `$`, x strict on/off, through
h_file and the real p21read: hooked per-instance severity, file severity, exit status
and written value vs model and vs the documented behaviour."""
import os
import shutil
import sys

sys.path.insert(0, os.path.dirname(os.path.abspath(__file__)))
from common import *  # noqa
from schemalib import schema_lib, schema_harness, p21read_exe
import p21tok
import popgen
import translate

PID = "C15"

KIND = {popgen.INT: "KInteger", popgen.REAL: "KReal", popgen.NUMBER: "KNumber", popgen.STR: "KString",
        popgen.BIN: "KBinary", popgen.BOOL: "KBoolean", popgen.LOGICAL: "KLogical"}


def kind_of(t):
    if isinstance(t, str):
        return KIND[t]
    return {"enum": "KEnum", "ref": "KEntity", "agg": "KAggregate", "select": "KSelect"}[t[0]]


def documented(strict, optional, kind):
    """the property statement: (accepted?, substituted written token or None)"""
    if optional:
        return True, "$"
    if strict:
        return False, None
    sub = {"KInteger": "0", "KReal": "0.", "KNumber": "0.", "KString": "''"}.get(kind)
    return (sub is not None), sub


def run_model(reqs):
    rc, out, err = sh([driver("drv_fsev")], input=("\n".join(reqs) + "\n").encode(), timeout=300)
    return out.split("\n")


def top_level_split(toks):
    """indices of the top-level parameters of a record token list KW ( ... )"""
    depth = 0
    start = None
    spans = []
    for i, t in enumerate(toks):
        if t == "(":
            depth += 1
            if depth == 1:
                start = i + 1
        elif t == ")":
            depth -= 1
            if depth == 0:
                spans.append((start, i))
        elif t == "," and depth == 1:
            spans.append((start, i))
            start = i + 1
    return spans


def main(tier, seed):
    res = Result(PID, tier, seed)
    try:
        translate.run_all(PID)
    except translate.AnchorLost as e:
        res.violation("translator lost its anchor: %s" % e, {"theorem_or_correspondence": "tools/translate.py gen_nulltable"}, found_input=False)
    pr = coq_prove(PID)
    proof_coverage(res, pr, ["coq/gen/NullTable.v is regenerated from STEPattribute::STEPread / STEPfile::ReadInstance / "
                             "p21read.cc by tools/translate.py (regular expressions; fails loudly when the shape changes)",
                             "per-instance severities are observed through the guarded VERIF-INST hook"])
    if pr["forbidden"]:
        res.violation("forbidden vernacular in coq/", {"forbidden": pr["forbidden"]}, found_input=False)
    try:
        bdir = build_impl("dbg")
        sl = schema_lib(bdir, os.path.join(VERIF, "schemas", "verif_all.exp"))
        if not sl["ok"]:
            raise BuildError("schema library does not build:\n" + sl["log"])
        hfile = schema_harness(bdir, sl, "h_file")
        hnull = schema_harness(bdir, sl, "h_nullattr")
        p21read = p21read_exe(bdir, sl)
        extract_and_build_drivers()
    except BuildError as e:
        res.violation("build failed: %s" % e, {"error": str(e)}, found_input=False)
        res.coverage.update({"evaluations": 0, "distinct_nontrivial": 0})
        return res.finish()
    evals = 0
    disagreements = 0
    oracle_fail = 0
    nontrivial = set()
    samples = []
    # ---- (1) attribute-level table
    rc, out, err = sh([hnull], timeout=300)
    rows = [l.split(" ", 9) for l in out.split("\n") if l.startswith("ATTR ")]
    reqs = ["T %s %s %s" % (r[5], r[4], r[3]) for r in rows]
    mo = run_model(reqs)
    fill_text = {"FNone": None, "FInt0": "0", "FReal0": "0.", "FEmptyStr": "''"}
    for r, m in zip(rows, mo):
        evals += 1
        _, ent, attr, kind, nullable, strict, inp, sev, rest = r[:9]
        val = r[8][r[8].find("[") + 1:r[8].rfind("]")] if "[" in r[8] else ""
        remaining = r[9] if len(r) > 9 else ""
        full = " ".join(r)
        val = full[full.find("[") + 1:full.rfind("]")]
        remaining = full[full.rfind("]") + 1:].strip()
        sev = int(r[7])
        mp = m.split()
        nontrivial.add(("T", kind, nullable, strict, inp))
        ok_doc, sub = documented(strict == "1", nullable == "1", kind)
        exp_sev = 3 if nullable == "1" else (2 if ok_doc else 1)
        delim_left = (remaining == "1")
        if sev != exp_sev or not delim_left or (sub not in (None, "$") and ok_doc and not value_matches(val, sub)):
            oracle_fail += 1
            res.violation("missing value for %s.%s (%s, optional=%s, strict=%s, input %s): severity %d value [%s] "
                          "remaining %s; documented: severity %d%s" % (ent, attr, kind, nullable, strict, inp, sev, val,
                                                                         remaining, exp_sev, (" value " + sub) if sub else ""),
                          {"entity": ent, "attribute": attr, "row": full, "replay": hnull})
        elif len(mp) < 3 or int(mp[1]) != sev or (fill_text.get(mp[2]) and not value_matches(val, fill_text[mp[2]])):
            disagreements += 1
            res.violation("model null_precheck and STEPattribute::STEPread disagree on %s.%s" % (ent, attr),
                          {"row": full, "model": m, "theorem_or_correspondence": "correspondence C15: gen/NullTable.v vs STEPattribute::STEPread"},
                          found_input=False)
        if len(samples) < 3 and kind in ("KInteger", "KEnum", "KString") and inp == "dollar":
            samples.append(full)
    # ---- (2) file level
    wdir = os.path.join(bdir, "verif-work", "c15-%d" % os.getpid())
    os.makedirs(wdir, exist_ok=True)
    nfiles = 40 if tier == "quick" else 1000
    pos_hist = {"own": 0, "inherited": 0, "complex_part": 0}
    for k in range(nfiles):
        r = rng(seed, "c15/%d" % k)
        g = popgen.Gen(r, fancy=False)
        insts = g.population(r.choice([4, 6, 8]))
        for idx, inst in enumerate(insts):
            # every top-level attribute position of this instance (all parts)
            if inst["complex"]:
                # parts: "(" KW ( ... ) KW ( ... ) ")"
                part_spans = []
                toks = inst["toks"]
                i = 1
                for (kw, ps) in inst["parts"]:
                    j = i
                    depth = 0
                    while True:
                        if toks[j] == "(":
                            depth += 1
                        elif toks[j] == ")":
                            depth -= 1
                            if depth == 0:
                                break
                        j += 1
                    sub_toks = toks[i:j + 1]
                    for (a, b) in top_level_split(sub_toks):
                        part_spans.append((kw, i + a, i + b))
                    i = j + 1
                attr_infos = []
                for kw, ps in inst["parts"]:
                    for (n, t, o, d) in popgen.ENTITIES[kw][1]:
                        attr_infos.append((kw, n, t, o, "complex_part"))
                spans = [(a, b) for (_, a, b) in part_spans]
            else:
                ent = inst["parts"][0][0]
                spans = top_level_split(inst["toks"])
                attr_infos = [(owner, n, t, o, "own" if owner == ent else "inherited")
                              for (owner, n, t, o, d) in popgen.all_attrs(ent)]
            if len(spans) != len(attr_infos):
                continue
            choices = list(range(len(spans)))
            if tier == "quick":
                r.shuffle(choices)
                choices = choices[:2]
            for ai in choices:
                owner, aname, atype, optional, where = attr_infos[ai]
                ent0 = inst["parts"][0][0]
                if (ent0, aname) in popgen.DERIVED_IN or any((kw_, aname) in popgen.DERIVED_IN for kw_, _ in inst["parts"]):
                    continue      # derived (by the entity itself or by another part of the complex instance): no value to be missing
                a, b = spans[ai]
                if inst["toks"][a:b] == ["$"]:
                    continue
                mutated = dict(inst)
                mutated["toks"] = inst["toks"][:a] + ["$"] + inst["toks"][b:]
                # the mutated instance must not be referenced with a type the reference needs (it keeps its type)
                others = insts[:idx] + [mutated] + insts[idx + 1:]
                data, order = g.render(others, shuffle=False)
                for strict in (False, True):
                    evals += 1
                    pos_hist[where] += 1
                    kind = kind_of(atype)
                    nontrivial.add(("F", kind, optional, strict, where))
                    fin = os.path.join(wdir, "in.p21")
                    fout = os.path.join(wdir, "out.p21")
                    open(fin, "wb").write(data)
                    if os.path.exists(fout):
                        os.remove(fout)
                    rc, out, err = shb([hfile] + (["strict"] if strict else []) + ["read", fin, "write", fout], timeout=60)
                    txt = out.decode("latin-1")
                    sevl = [l for l in txt.split("\n") if l.startswith("SEV read")]
                    hooks = [l.split() for l in err.decode("latin-1").split("\n") if l.startswith("VERIF-INST ") or l.startswith("VERIF-CINST ")]
                    rc2, out2, err2 = shb([p21read] + (["-s"] if strict else []) + [fin, os.path.join(wdir, "p.out")], timeout=60, cwd=wdir)
                    accepted_doc, sub = documented(strict, optional, kind)
                    file_sev = int(sevl[0].split()[3]) if sevl else None
                    what = "%s.%s (%s, %s, optional=%s) replaced by $ in #%d, strict=%s" % (
                        owner, aname, kind, where, optional, inst["id"], strict)
                    bad = None
                    if file_sev is None:
                        bad = "reader died (status %d)" % rc
                    elif accepted_doc and (rc2 != 0 or file_sev < 2):
                        bad = "should be accepted but p21read exits %d, file severity %d" % (rc2, file_sev)
                    elif not accepted_doc and (rc2 == 0 or file_sev >= 2):
                        bad = "should be rejected but p21read exits %d, file severity %d" % (rc2, file_sev)
                    elif accepted_doc and sub is not None:
                        # written value of the affected attribute
                        try:
                            pw = p21tok.parse_file(open(fout, "rb").read())
                            wi = [i for i in pw["data"] if i["id"] == inst["id"]][0]
                            flat = []
                            if inst["complex"]:
                                # written parts are in the writer's order; locate by part keyword
                                pi = [x[0] for x in popgen.ENTITIES[owner][1]].index(aname)
                                part = [ps for (kw, ps) in wi["parts"] if kw == owner][0]
                                got = part[pi]
                            else:
                                got = wi["parts"][0][1][ai]
                            exp = {"$": ("null",), "0": ("int", 0), "0.": ("real", "0."), "''": ("str", "")}[sub]
                            if p21tok.norm_param(got) != p21tok.norm_param(exp):
                                bad = "accepted, but the written value is %s, documented %s" % (got, sub)
                        except (p21tok.P21Error, OSError, IndexError, ValueError) as e:
                            bad = "accepted, but the written file cannot be checked: %s" % e
                    if bad:
                        oracle_fail += 1
                        path = os.path.join(res.replay_dir, "c15-%d-%d-%d-%d.p21" % (seed, k, inst["id"], ai))
                        os.makedirs(res.replay_dir, exist_ok=True)
                        open(path, "wb").write(data)
                        res.violation("%s: %s" % (what, bad), {"input_file": path, "strict": strict,
                                      "replay": "%s %s %s /tmp/out.p21" % (p21read, "-s" if strict else "", path)},
                                      signature=("complex_part_errors_dropped" if where == "complex_part" and not optional else None))
                        continue
                    # correspondence with the model: hooked instance severities -> file severity / exit
                    order_ids = [i["id"] for i in order]
                    hs = {}
                    for h in hooks:
                        hs[int(h[1])] = ("S" if h[0] == "VERIF-INST" else "C") + h[2]
                    os_ = [hs.get(i, "N") for i in order_ids]
                    m = run_model(["F 3 1 " + " ".join(os_)])[0].split()
                    if len(m) < 4 or int(m[2]) != file_sev or int(m[3]) != (1 if rc2 != 0 else 0):
                        disagreements += 1
                        res.violation("model append_file and STEPfile disagree (%s)" % what,
                                      {"outcomes": os_, "model": m, "impl_file_sev": file_sev, "p21read_exit": rc2,
                                       "theorem_or_correspondence": "correspondence C15/C03: coq/FileSev.v vs STEPfile.cc"},
                                      found_input=False)
                    # model of the mutated instance's severity from the table
                    exp_attr = int(run_model(["T %d %d %s" % (1 if strict else 0, 1 if optional else 0, kind)])[0].split()[1])
                    got_inst = hs.get(inst["id"])
                    if got_inst is not None and int(got_inst[1:]) != min(3, exp_attr):
                        disagreements += 1
                        res.violation("model instance severity and hooked severity disagree (%s): hook %s model %d" % (what, got_inst, exp_attr),
                                      {"theorem_or_correspondence": "correspondence C15: null_precheck/inst_sev vs SDAI_Application_instance::STEPread"},
                                      found_input=False)
    shutil.rmtree(wdir, ignore_errors=True)
    if not pr["ok"]:
        res.violation("Properties_C15.v no longer checks (%s)" % ", ".join(pr["failed"] or ["see log"]),
                      {"theorem_or_correspondence": "coq/Properties_C15.v", "log": pr["log"]}, found_input=False)
    res.coverage.update({
        "evaluations": evals,
        "distinct_nontrivial": len(nontrivial),
        "rule": "(1) every attribute of every instantiable entity of schemas/verif_all.exp x {'$,' ',' ')'} x {lenient, strict} "
                "through STEPattribute::STEPread; (2) %d generated populations, attributes replaced by `$` (all positions "
                "in thorough, 2 per instance in quick; own, inherited, inside complex parts) x {lenient, strict} through "
                "h_file and the real p21read; non-trivial = distinct (kind, optional, strict, position class)" % nfiles,
        "samples": samples or ["(none)"],
        "traces_validated_against_impl": evals,
        "position_histogram": pos_hist,
        "correspondence_disagreements": disagreements,
        "oracle_failures": oracle_fail,
        "exhaustive": False,
        "unproved_clauses": ["that SDAI_Application_instance::STEPread folds attribute severities as inst_sev does is "
                             "validated through the hook, not proved about the C++"],
    })
    res.assumptions = ["schema under test: schemas/verif_all.exp"]
    return res.finish()


def value_matches(val, sub):
    v = val.strip()
    if sub == "0":
        return v in ("0",)
    if sub == "0.":
        return v in ("0", "0.", "0.0")
    if sub == "''":
        return v == "''"
    return True


if __name__ == "__main__":
    tier = os.environ.get("VERIF_TIER", "quick")
    if "--tier" in sys.argv:
        tier = sys.argv[sys.argv.index("--tier") + 1]
    sys.exit(main(tier, int(os.environ.get("VERIF_SEED", "1"))))
