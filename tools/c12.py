#!/usr/bin/env python3
"""C12 -- generators and the pretty printer are deterministic functions of their input.
Coq: Properties_C12.v over coq/GenBound.v + gen/BoundRule.v (which union member
AGGRprint_bound reads, regenerated from the source) and coq/Hash.v + gen/HashConsts.v
(the dictionary whose iteration order decides every emission order).  Correspondence /
oracle: (i) every tool run on the same schema under different cwd / path spelling /
environment size / locale / ASLR setting / run order: byte comparison of the output trees;
(ii) schemas with a bound of every expression kind: printed form vs the model;
(iii) the order in which the scanner lists entities and types vs Hash.v's dict_order, incl.
schemas large enough to make the table grow."""
import filecmp
import os
import re
import shutil
import sys

sys.path.insert(0, os.path.dirname(os.path.abspath(__file__)))
from common import *  # noqa
from schemalib import scanner_exe
import gen_express as G
import translate
from c17 import enrich, parse_cmakelists

PID = "C12"

BOUND_SCHEMA = """SCHEMA bnd;
CONSTANT
  maxn : INTEGER := 5;
END_CONSTANT;
FUNCTION fb (x : INTEGER) : INTEGER;
  RETURN (x + 1);
END_FUNCTION;
TYPE l_ident = LIST [1:maxn] OF INTEGER; END_TYPE;
TYPE l_op = LIST [1:2*3] OF INTEGER; END_TYPE;
TYPE l_inf = LIST [0:?] OF INTEGER; END_TYPE;
TYPE l_fun = ARRAY [1:fb(2)] OF INTEGER; END_TYPE;
TYPE l_sum = LIST [1:maxn+1] OF INTEGER; END_TYPE;
TYPE l_neg = ARRAY [-1:4] OF INTEGER; END_TYPE;
TYPE l_lit = SET [2:17] OF INTEGER; END_TYPE;
ENTITY e;
  n : INTEGER;
  a_attr : LIST [1:n] OF REAL;
  a_const : LIST [1:maxn] OF REAL;
  a_op : SET [0:2*maxn] OF STRING;
  a_lit : BAG [3:9] OF STRING;
END_ENTITY;
ENTITY grid;
  axis_count : INTEGER;
END_ENTITY;
ENTITY sampled_grid
  SUBTYPE OF (grid);
  vals : ARRAY [1:SELF\\grid.axis_count] OF REAL;
END_ENTITY;
END_SCHEMA;
"""


def multi_use_schema(r, k):
    """several library schemas and one schema that USEs / REFERENCEs selected items of each"""
    nlib = r.randint(3, 6)
    out = []
    uses = []
    for i in range(nlib):
        items = []
        body = []
        for j in range(r.randint(2, 4)):
            if r.random() < 0.4:
                n = "lt_%d_%d" % (i, j)
                body.append("  TYPE %s = %s;\n  END_TYPE;" % (n, r.choice(["REAL", "INTEGER", "STRING"])))
            else:
                n = "le_%d_%d" % (i, j)
                body.append("  ENTITY %s;\n    a%d : INTEGER;\n  END_ENTITY;" % (n, j))
            items.append(n)
        out.append("SCHEMA lib_%d_%d;\n%s\nEND_SCHEMA;\n" % (k, i, "\n".join(body)))
        r.shuffle(items)
        cut = r.randint(1, len(items))
        uses.append("  USE FROM lib_%d_%d (%s);" % (k, i, ", ".join(items[:cut])))
        if items[cut:]:
            uses.append("  REFERENCE FROM lib_%d_%d (%s);" % (k, i, ", ".join(items[cut:])))
    r.shuffle(uses)
    out.append("SCHEMA main_%d;\n%s\n  ENTITY product;\n    id : STRING;\n  END_ENTITY;\nEND_SCHEMA;\n" % (k, "\n".join(uses)))
    return "\n".join(out)

# (declaration, bound number) -> (model type letter, literal value or None, source text)
BOUND_EXPECT = {
    ("l_ident", 1): ("I", 1, "1"), ("l_ident", 2): ("D", None, "maxn"),
    ("l_op", 2): ("X", None, "2*3"), ("l_inf", 1): ("I", 0, "0"), ("l_inf", 2): ("I", 2147483647, "?"),
    ("l_fun", 2): ("F", None, "fb(2)"), ("l_sum", 2): ("X", None, "maxn+1"),
    ("l_neg", 1): ("M", -1, "-1"), ("l_neg", 2): ("I", 4, "4"),       # M: a negative literal (the negation of a literal)
    ("l_lit", 1): ("I", 2, "2"), ("l_lit", 2): ("I", 17, "17"),
}


def tree(d):
    out = {}
    for root, _, fs in os.walk(d):
        for f in fs:
            p = os.path.join(root, f)
            out[os.path.relpath(p, d)] = open(p, "rb").read()
    return out


def main(tier, seed):
    res = Result(PID, tier, seed)
    try:
        translate.run_all(PID)
    except translate.AnchorLost as e:
        res.violation("translator lost its anchor: %s" % e, {"theorem_or_correspondence": "tools/translate.py gen_boundrule / gen_hashconsts"}, found_input=False)
    pr = coq_prove(PID)
    proof_coverage(res, pr, ["coq/gen/BoundRule.v, gen/HashConsts.v regenerated from classes_type.c AGGRprint_bound(), hash.h and shape anchors in hash.c",
                             "MOD(h, maxp) modelled as h mod maxp (maxp is a power of two)",
                             "the theorems cover the bound printer and the dictionary; that no other code path lets an address, "
                             "path, time or environment value reach an output file is established by the differential runs only"])
    if pr["forbidden"]:
        res.violation("forbidden vernacular in coq/", {"forbidden": pr["forbidden"]}, found_input=False)
    try:
        bdir = build_impl("dbg")
        scanner = scanner_exe(bdir)
        extract_and_build_drivers()
    except BuildError as e:
        res.violation("build failed: %s" % e, {"error": str(e)}, found_input=False)
        res.coverage.update({"evaluations": 0, "distinct_nontrivial": 0})
        return res.finish()
    drv = driver("drv_c12")
    wroot = os.path.join(bdir, "verif-work", "c12-%d" % os.getpid())
    shutil.rmtree(wroot, ignore_errors=True)
    os.makedirs(wroot)
    evals = 0
    oracle_fail = 0
    disagreements = 0
    nontrivial = 0
    hist = {"tool_runs": 0, "schemas": 0, "bound_forms": 0, "order_checks": 0, "order_checks_with_growth": 0}
    samples = []
    tools = {"exp2cxx": [os.path.join(bdir, "bin", "exp2cxx")], "exp2python": [os.path.join(bdir, "bin", "exp2python")],
             "exppp": [os.path.join(bdir, "bin", "exppp")], "schema_scanner": [scanner]}
    have_setarch = shutil.which("setarch") is not None

    def save(name, text):
        os.makedirs(res.replay_dir, exist_ok=True)
        p = os.path.join(res.replay_dir, name)
        open(p, "w").write(text)
        return p

    def variants(sdir, fexp):
        """(label, cwd, argv path, env, prefix)"""
        big = {"PATH": "/usr/bin:/bin", "VERIF_PADDING": "x" * 6000, "LC_ALL": "C.utf8", "LANG": "C.utf8", "LC_CTYPE": "C.utf8", "TZ": "Pacific/Kiritimati"}
        small = {"PATH": "/usr/bin:/bin", "LC_ALL": "C"}
        v = [("a", os.path.join(sdir, "out_a"), fexp, small, []),
             ("b", os.path.join(sdir, "deep", "er", "out_b"), os.path.relpath(fexp, os.path.join(sdir, "deep", "er", "out_b")), big,
              (["setarch", os.uname().machine, "-R"] if have_setarch else [])),
             ("c", os.path.join(sdir, "out_c"), "./" + os.path.relpath(fexp, os.path.join(sdir, "out_c")), small, [])]
        return v

    def det_check(tag, text, which):
        nonlocal evals, oracle_fail, nontrivial
        sdir = os.path.join(wroot, tag)
        os.makedirs(sdir)
        fexp = os.path.join(sdir, "schema.exp")
        open(fexp, "w", encoding="utf-8").write(text)
        for tname in which:
            outs = []
            for (lab, cwd, argp, env, prefix) in variants(sdir, fexp):
                cwd = cwd + "_" + tname
                os.makedirs(cwd)
                argp2 = argp if os.path.isabs(argp) else os.path.relpath(fexp, cwd) if not argp.startswith("./") else "./" + os.path.relpath(fexp, cwd)
                rc, so, se = sh(prefix + tools[tname] + [argp2], cwd=cwd, env=env, timeout=900, clean_env=True)
                hist["tool_runs"] += 1
                t = tree(cwd)
                if tname == "schema_scanner":
                    # the path argument is echoed into SCHEMA_TARGETS(...) and the directory is printed: both name the input, not its content
                    t = {k: re.sub(rb'SCHEMA_TARGETS\("[^"]*"', b'SCHEMA_TARGETS("<input>"', v) for k, v in t.items()}
                    so = "\n".join(os.path.basename(l) for l in so.split())
                else:
                    so = so.replace(argp2, "<input>")
                se = se.replace(argp2, "<input>")
                outs.append((lab, rc, t, so, re.sub(r"VERIF-\S+[^\n]*\n", "", se)))
                if lab == "a":
                    # once more in the same directory, on top of the files of the first run: the same files again
                    rc2, so2, se2 = sh(prefix + tools[tname] + [argp2], cwd=cwd, env=env, timeout=900, clean_env=True)
                    hist["tool_runs"] += 1
                    t2 = tree(cwd)
                    if tname == "schema_scanner":
                        t2 = {k: re.sub(rb'SCHEMA_TARGETS\("[^"]*"', b'SCHEMA_TARGETS("<input>"', v) for k, v in t2.items()}
                    if rc2 != rc or t2 != t:
                        oracle_fail += 1
                        p = save("c12-%s.exp" % tag, text)
                        dk = sorted(set(t) ^ set(t2)) or [k for k in t if t[k] != t2.get(k)]
                        res.violation("%s: a second run in the directory of the first changes the output (status %d then %d; files that differ: %s)" % (tname, rc, rc2, dk[:4]),
                                      {"input_file": p, "replay": "run %s twice in one directory on %s and compare the directory after each run" % (tname, p)})
            evals += 1
            base = outs[0]
            if base[1] == 0 and base[2]:
                nontrivial += 1
            for o in outs[1:]:
                what = None
                if o[1] != base[1]:
                    what = "%s: exit status %d under variant %s, %d under variant a" % (tname, o[1], o[0], base[1])
                elif set(o[2]) != set(base[2]):
                    what = "%s: different file sets under variant %s: %s" % (tname, o[0], sorted(set(o[2]) ^ set(base[2]))[:4])
                else:
                    diff = [k for k in base[2] if base[2][k] != o[2][k]]
                    if diff:
                        k0 = diff[0]
                        la, lb = base[2][k0].split(b"\n"), o[2][k0].split(b"\n")
                        first = next((i for i, (x, y) in enumerate(zip(la, lb)) if x != y), 0)
                        what = "%s: %s differs between two runs on the same schema (variant a vs %s), first at line %d: %r vs %r" % (
                            tname, k0, o[0], first + 1, la[first][:80] if first < len(la) else b"", lb[first][:80] if first < len(lb) else b"")
                    elif o[3] != base[3] or o[4] != base[4]:
                        what = "%s: messages differ between runs (variant a vs %s): %r vs %r" % (tname, o[0], (base[3] + base[4])[-120:], (o[3] + o[4])[-120:])
                if what:
                    oracle_fail += 1
                    p = save("c12-%s.exp" % tag, text)
                    res.violation(what, {"input_file": p, "replay": "run %s twice on %s (second time: setarch -R, other cwd) and diff -r" % (tname, p)})
                    break
        shutil.rmtree(sdir, ignore_errors=True)

    # ---- (i) differential runs
    nsch = 6 if tier == "quick" else 300
    for k in range(nsch):
        r = rng(seed, "c12/%d" % k)
        S = enrich(r, G.gen_schema(r, name="det_%d" % k, keywordish=(k % 3 == 0)))
        # give some aggregates non-literal bounds
        if S.consts:
            for t in S.types:
                if t["kind"] == "aggr" and t["agg"] != "ARRAY" and r.random() < 0.6:
                    t["hi"] = r.choice([S.consts[0][0], "%s + 1" % S.consts[0][0], "2 * 2"])
        text = G.render(S)
        hist["schemas"] += 1
        det_check("g%d" % k, text, ["exp2cxx", "exp2python", "exppp", "schema_scanner"])
    det_check("bounds", BOUND_SCHEMA, ["exp2cxx", "exp2python", "exppp", "schema_scanner"])
    # small schemas whose defined types are enumerations / selects and renamings of them only (no buffer of an earlier
    # declaration to fall back on: anything printed from memory that was never filled shows from run to run)
    det_check("renamed_enum", "SCHEMA renum;\nTYPE colour = ENUMERATION OF (red, green, blue);\nEND_TYPE;\nTYPE paint = colour;\nEND_TYPE;\n"
              "TYPE coat = paint;\nEND_TYPE;\nENTITY wall;\n  finish : paint;\n  second : coat;\nEND_ENTITY;\nEND_SCHEMA;\n", ["exp2cxx", "exp2python", "exppp", "schema_scanner"])
    det_check("renamed_select", "SCHEMA rensel;\nENTITY a;\nEND_ENTITY;\nENTITY b;\nEND_ENTITY;\nTYPE ab = SELECT (a, b);\nEND_TYPE;\nTYPE ab2 = ab;\nEND_TYPE;\n"
              "ENTITY holder;\n  x : ab2;\n  y : ab;\nEND_ENTITY;\nEND_SCHEMA;\n", ["exp2cxx", "exp2python", "exppp", "schema_scanner"])
    # the same small schemas under valgrind: output computed from memory that was never written is not a function of
    # the schema text, whether or not two runs of this build happen to agree
    def uninit_check(tag, text, which):
        nonlocal evals, oracle_fail
        vdir = os.path.join(wroot, "vg_" + tag)
        os.makedirs(vdir)
        fexp = os.path.join(vdir, "schema.exp")
        open(fexp, "w", encoding="utf-8").write(text)
        for tname in which:
            cwd = os.path.join(vdir, tname)
            os.makedirs(cwd)
            rcv, sov, sev = sh(["valgrind", "-q", "--error-exitcode=97", "--undef-value-errors=yes"] + tools[tname] + [fexp], cwd=cwd, timeout=600)
            evals += 1
            hist["valgrind_runs"] = hist.get("valgrind_runs", 0) + 1
            if rcv == 97 or "ninitialised" in sev:
                oracle_fail += 1
                pth_ = save("c12-uninit-%s.exp" % tag, text)
                first_ = [l_ for l_ in sev.split("\n") if "ninitialised" in l_ or " at 0x" in l_ or " by 0x" in l_][:4]
                res.violation("%s on %s computes its output from memory that was never written (valgrind): %s" % (tname, tag, " | ".join(x_.strip()[:110] for x_ in first_)),
                              {"input_file": pth_, "replay": "valgrind -q %s %s" % (" ".join(tools[tname]), pth_)})
    if shutil.which("valgrind"):
        for tag_, txt_ in (("renamed_enum", "SCHEMA renum;\nTYPE colour = ENUMERATION OF (red, green, blue);\nEND_TYPE;\nTYPE paint = colour;\nEND_TYPE;\nENTITY wall;\n  finish : paint;\nEND_ENTITY;\nEND_SCHEMA;\n"),
                           ("bounds", BOUND_SCHEMA)):
            uninit_check(tag_, txt_, ["exp2cxx", "exp2python", "exppp"])
    # a constant and a function imported from another schema (they have no descriptor to rename)
    det_check("imported_constant", "SCHEMA s_one;\nREFERENCE FROM s_two (limit_value, twice);\nENTITY widget;\n  w : INTEGER;\nWHERE\n  wr1 : w < limit_value;\n  wr2 : twice (w) > 0;\nEND_ENTITY;\nEND_SCHEMA;\n\n"
              "SCHEMA s_two;\nCONSTANT\n  limit_value : INTEGER := 10;\nEND_CONSTANT;\nFUNCTION twice (x : INTEGER) : INTEGER;\n  RETURN (2 * x);\nEND_FUNCTION;\nENTITY gadget;\n  g : REAL;\nEND_ENTITY;\nEND_SCHEMA;\n",
              ["exp2cxx", "exp2python", "exppp", "schema_scanner"])
    det_check("only_enum", "SCHEMA onlyenum;\nTYPE colour = ENUMERATION OF (red, green);\nEND_TYPE;\nENTITY wall;\n  finish : colour;\nEND_ENTITY;\nEND_SCHEMA;\n",
              ["exp2cxx", "exp2python", "exppp", "schema_scanner"])
    # text that is not ASCII inside string literals, on lines near the wrapping limit (variant b runs in a UTF-8 locale)
    UTF8_SCHEMA = ("SCHEMA utf8_text;\nCONSTANT\n  names : LIST OF STRING := [" + ", ".join("'%s'" % w for w in
                   ["Z\u00fcrich", "Krak\u00f3w", "Besan\u00e7on", "M\u00e1laga", "\u00c5rhus", "\u0141\u00f3d\u017a", "Gy\u0151r", "\u0160kofja Loka", "\u00c7anakkale",
                    "Reykjav\u00edk", "Troms\u00f8", "Plze\u0148", "Coimbr\u00e3", "\u00d6sterreich", "T\u00fcrkiye"] * 2) + "];\n"
                   "  greeting : STRING := 'Gr\u00fc\u00df Gott';\nEND_CONSTANT;\nENTITY city;\n  name : STRING;\n  country : STRING;\nWHERE\n"
                   "  w1 : (name <> 'D\u00fcsseldorf') OR (country = '\u00d6sterreich') OR (country = 'Rom\u00e2nia') OR (country = 'Espa\u00f1a') OR (country = 'T\u00fcrkiye') OR (country = 'C\u00f4te');\n"
                   "  w2 : NOT (name IN ['S\u00e3o Paulo', 'Besan\u00e7on', 'Z\u00fcrich', 'Krak\u00f3w', 'M\u00e1laga', '\u00c5rhus', '\u0141\u00f3d\u017a', 'Gy\u0151r', '\u0160kofja Loka', '\u00c7anakkale', 'Troms\u00f8']);\n"
                   "END_ENTITY;\nFUNCTION describe (c : city) : STRING;\n  RETURN ('Citt\u00e0: ' + c.name + ' \u2014 pa\u00eds/Land/zem\u011b: ' + c.country + ' \u2014 Gr\u00f6\u00dfe unbekannt, poblaci\u00f3n desconocida, po\u010det obyvatel nezn\u00e1m\u00fd');\nEND_FUNCTION;\nEND_SCHEMA;\n")
    det_check("utf8", UTF8_SCHEMA, ["exppp", "exp2cxx", "exp2python"])
    for k in range(3 if tier == "quick" else 40):
        hist["schemas"] += 1
        det_check("multi%d" % k, multi_use_schema(rng(seed, "c12m/%d" % k), k), ["exp2cxx", "exppp", "schema_scanner", "exp2python"])
    shipped = ["data/pdm/pdm_schema_12.exp"] if tier == "quick" else \
              ["data/pdm/pdm_schema_12.exp", "data/ap203/ap203.exp", "data/ifc2x3/IFC2X3_TC1.exp", "data/ap227/ap227.exp", "data/ap242/242_n8324_mim_lf.exp"]
    for rel in shipped:
        pth = os.path.join(REPO, rel)
        if os.path.exists(pth):
            hist["schemas"] += 1
            det_check("ship_" + os.path.basename(rel).split(".")[0], open(pth, errors="replace").read(),
                      ["exp2cxx", "exppp", "schema_scanner"] + (["exp2python"] if tier != "quick" else []))
    # ---- (ii) bound forms vs the model
    sdir = os.path.join(wroot, "bf")
    os.makedirs(sdir)
    open(os.path.join(sdir, "b.exp"), "w").write(BOUND_SCHEMA)
    rc, so, se = sh(tools["exp2cxx"] + ["b.exp"], cwd=sdir, timeout=300)
    init = ""
    for root, _, fs in os.walk(sdir):
        for f in fs:
            if f.endswith(".cc"):
                init += open(os.path.join(root, f), errors="replace").read()
    for (decl, nr), (ty, val, srctext) in sorted(BOUND_EXPECT.items()):
        m = re.search(r"bnd::t_%s->SetBound%d(FromExpressFuncall)?\(\s*(.*?)\s*\);" % (decl, nr), init)
        evals += 1
        hist["bound_forms"] += 1
        if not m:
            oracle_fail += 1
            res.violation("no SetBound%d for type %s in the generated code" % (nr, decl), {"input_file": save("c12-bounds.exp", BOUND_SCHEMA)})
            continue
        got = ("T", m.group(2).strip('"')) if m.group(1) else ("N", m.group(2))
        rcm, mo, me = sh([drv], input=("B %s %s %s 424242\n" % (ty, val if val is not None else 0, got[1].replace(" ", "") if got[0] == "T" else srctext)).encode(), timeout=30)
        mform = mo.split()[0] if mo.split() else "?"
        # oracle: a number must be the literal's value; text must be the source expression
        if got[0] == "N" and (val is None or int(got[1]) != val):
            oracle_fail += 1
            res.violation("bound %d of %s (%s) is printed as the number %s: not a function of the schema text" % (nr, decl, srctext, got[1]),
                          {"input_file": save("c12-bounds.exp", BOUND_SCHEMA)})
        elif got[0] == "T" and got[1].replace(" ", "") != srctext:
            oracle_fail += 1
            res.violation("bound %d of %s is printed as %r, the schema says %s" % (nr, decl, got[1], srctext), {"input_file": save("c12-bounds.exp", BOUND_SCHEMA)})
        if mform != got[0]:
            disagreements += 1
            res.violation("model GenBound.v print_bound chooses form %s for a bound of type %s, exp2cxx printed %s" % (mform, ty, got),
                          {"theorem_or_correspondence": "correspondence C12: coq/GenBound.v vs classes_type.c AGGRprint_bound"}, found_input=False)
    shutil.rmtree(sdir, ignore_errors=True)
    # ---- (iii) dictionary order vs Hash.v
    norder = 12 if tier == "quick" else 200
    for k in range(norder + 2):
        r = rng(seed, "c12o/%d" % k)
        if k < norder:
            S = enrich(r, G.gen_schema(r, name="ord_%d" % k, n_ent=r.randint(5, 40), n_types=r.randint(3, 25)))
            text = G.render(S)
            names = [c[0] for c in S.consts] + [t["name"] for t in S.types] + [e["name"] for e in S.entities] + \
                    [f["name"] for f in S.functions] + [ru["name"] for ru in S.rules]
            ents = [e["name"] for e in S.entities]
        else:
            # large enough for the table to split buckets (KeyCount / (SegmentCount*256) > 5)
            n = 1700 + 900 * (k - norder)
            ents = ["ent_%d_%s" % (i, "abcdefgh"[i % 8] * (i % 5)) for i in range(n)]
            text = "SCHEMA big;\n" + "".join("ENTITY %s;\nEND_ENTITY;\n" % e for e in ents) + "END_SCHEMA;\n"
            names = list(ents)
            hist["order_checks_with_growth"] += 1
        sdir = os.path.join(wroot, "o%d" % k)
        os.makedirs(sdir)
        fexp = os.path.join(sdir, "schema.exp")
        open(fexp, "w").write(text)
        rc, so, se = sh([scanner, fexp], cwd=sdir, timeout=300)
        evals += 1
        hist["order_checks"] += 1
        if rc != 0:
            oracle_fail += 1
            res.violation("schema_scanner fails (status %d) on a valid schema: %s" % (rc, se[-200:]), {"input_file": save("c12-order-%d.exp" % k, text)})
            continue
        lists, short, cnt, tfile, tname = parse_cmakelists(os.path.join(so.split()[0], "CMakeLists.txt"))
        got = [re.sub(r"^entity/Sdai|\.h$", "", f).lower() for f in lists["entity_hdrs"][0]]
        rcm, mo, me = sh([drv], input=("O " + " ".join(n.lower() for n in names) + "\n").encode(), timeout=600)
        eset = {e.lower() for e in ents}
        model = [n for n in mo.split() if n in eset]
        if model != got:
            disagreements += 1
            first = next((i for i, (x, y) in enumerate(zip(model, got)) if x != y), min(len(model), len(got)))
            res.violation("model Hash.v dict_order and the scanner's entity order differ at position %d (%d entities): model %s tool %s" % (
                first, len(got), model[first:first + 3], got[first:first + 3]),
                {"input_file": save("c12-order-%d.exp" % k, text), "theorem_or_correspondence": "correspondence C12: coq/Hash.v vs src/express/hash.c"},
                found_input=False)
        elif len(samples) < 2:
            samples.append({"entities": len(got), "first_in_dict_order": got[:4]})
        shutil.rmtree(sdir, ignore_errors=True)
    shutil.rmtree(wroot, ignore_errors=True)
    if not pr["ok"]:
        res.violation("Properties_C12.v no longer checks (%s)" % ", ".join(pr["failed"] or ["see log"]),
                      {"theorem_or_correspondence": "coq/Properties_C12.v", "log": pr["log"]}, found_input=False)
    res.coverage.update({
        "evaluations": evals,
        "distinct_nontrivial": nontrivial,
        "rule": "%d generated schemas (incl. constant / arithmetic aggregate bounds) + the bound-kinds schema + %d shipped schema(s), each through "
                "exp2cxx, exp2python, exppp, schema_scanner under 3 variants (cwd, absolute/relative/./ path, 6 kB environment, tr_TR locale, "
                "ASLR off via setarch -R, run order) with byte comparison of output trees and messages; 11 bounds of every expression kind vs "
                "GenBound.v; %d generated schemas + 2 schemas of 1700/2600 entities: scanner entity order vs Hash.v dict_order; "
                "non-trivial = tool succeeded and wrote files" % (nsch, len(shipped), norder),
        "samples": samples or ["(none)"],
        "histogram": hist,
        "traces_validated_against_impl": evals,
        "correspondence_disagreements": disagreements,
        "oracle_failures": oracle_fail,
        "unproved_clauses": ["absence of other address/time/path flows into outputs (differential runs only)",
                             "SCOPEget_entities_superclass_order, exppp SCOPEadd_inorder sorting (tested through the runs)"],
    })
    res.assumptions = ["setarch -R available: %s" % have_setarch, "the scanner echoes its path argument into SCHEMA_TARGETS(...): normalised"]
    return res.finish()


if __name__ == "__main__":
    tier = os.environ.get("VERIF_TIER", "quick")
    if "--tier" in sys.argv:
        tier = sys.argv[sys.argv.index("--tier") + 1]
    sys.exit(main(tier, int(os.environ.get("VERIF_SEED", "1"))))
