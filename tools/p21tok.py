#!/usr/bin/env python3
"""Independent ISO 10303-21 tokenizer/parser used by the property oracles.
It knows nothing of STEPcode or of any schema.  parse_file(bytes) ->
  {"header": [inst...], "data": [inst...]}   inst = {"id": n|None, "state": letter|None,
  "parts": [(KEYWORD, [param...])...], "complex": bool}
param = ("int", n) | ("real", text) | ("str", raw) | ("bin", hex) | ("enum", NAME) |
        ("ref", n) | ("typed", KW, param) | ("list", [param...]) | ("null",) | ("star",)"""
import re
from decimal import Decimal, Context, ROUND_HALF_EVEN


class P21Error(Exception):
    pass


TOKEN_RE = re.compile(rb"""
    (?P<ws>[ \t\r\n\f\v]+)
  | (?P<comment>/\*.*?\*/)
  | (?P<str>'(?:\\S\\.|[^']|'')*')
  | (?P<bin>"[0-9A-Fa-f]*")
  | (?P<enum>\.[A-Za-z_][A-Za-z0-9_]*\.)
  | (?P<ref>\#[0-9]+)
  | (?P<real>[+-]?[0-9]+\.[0-9]*(?:[Ee][+-]?[0-9]+)?)
  | (?P<int>[+-]?[0-9]+)
  | (?P<kw>!?[A-Za-z_][A-Za-z0-9_\-]*)
  | (?P<punct>[()=;,$*&])
""", re.S | re.X)


def tokenize(data):
    pos = 0
    toks = []
    n = len(data)
    while pos < n:
        m = TOKEN_RE.match(data, pos)
        if not m:
            raise P21Error("bad byte at offset %d: %r" % (pos, data[pos:pos + 20]))
        kind = m.lastgroup
        if kind not in ("ws", "comment"):
            toks.append((kind, m.group(kind).decode("latin-1"), pos))
        pos = m.end()
    return toks


class Parser:
    def __init__(self, toks):
        self.t = toks
        self.i = 0

    def peek(self):
        return self.t[self.i] if self.i < len(self.t) else ("eof", "", -1)

    def next(self):
        tok = self.peek()
        self.i += 1
        return tok

    def expect(self, kind, val=None):
        k, v, p = self.next()
        if k != kind or (val is not None and v != val):
            raise P21Error("expected %s %r, got %s %r at %d" % (kind, val, k, v, p))
        return v

    def param(self):
        k, v, p = self.next()
        if k == "punct" and v == "$":
            return ("null",)
        if k == "punct" and v == "*":
            return ("star",)
        if k == "int":
            return ("int", int(v))
        if k == "real":
            return ("real", v)
        if k == "str":
            return ("str", v[1:-1])
        if k == "bin":
            return ("bin", v[1:-1].upper())
        if k == "enum":
            return ("enum", v[1:-1].upper())
        if k == "ref":
            return ("ref", int(v[1:]))
        if k == "kw":
            self.expect("punct", "(")
            inner = self.param()
            self.expect("punct", ")")
            return ("typed", v.upper(), inner)
        if k == "punct" and v == "(":
            return ("list", self.params_until_close())
        raise P21Error("unexpected token %s %r at %d" % (k, v, p))

    def params_until_close(self):
        out = []
        if self.peek()[0] == "punct" and self.peek()[1] == ")":
            self.next()
            return out
        while True:
            out.append(self.param())
            k, v, p = self.next()
            if k == "punct" and v == ")":
                return out
            if not (k == "punct" and v == ","):
                raise P21Error("expected , or ) at %d, got %r" % (p, v))

    def record(self):
        kw = self.expect("kw").upper()
        self.expect("punct", "(")
        return (kw, self.params_until_close())

    def instance(self, with_id=True):
        inst = {"id": None, "state": None, "parts": [], "complex": False}
        if with_id:
            k, v, p = self.peek()
            if k == "kw" and v in ("C", "I", "N", "D") and self.t[self.i + 1][0] == "ref":
                inst["state"] = v
                self.next()
            inst["id"] = int(self.expect("ref")[1:])
            self.expect("punct", "=")
        k, v, p = self.peek()
        if k == "punct" and v == "(":
            self.next()
            inst["complex"] = True
            while not (self.peek()[0] == "punct" and self.peek()[1] == ")"):
                inst["parts"].append(self.record())
            self.next()
        else:
            inst["parts"].append(self.record())
        self.expect("punct", ";")
        return inst


def parse_file(data):
    data = data.replace(b"\r", b"")
    toks = tokenize(data)
    p = Parser(toks)
    first = p.expect("kw")
    if first.upper() not in ("ISO-10303-21", "STEP_WORKING_SESSION"):
        raise P21Error("missing ISO-10303-21; got %r" % first)
    p.expect("punct", ";")
    out = {"header": [], "data": [], "kind": first.upper()}
    if p.expect("kw").upper() != "HEADER":
        raise P21Error("missing HEADER")
    p.expect("punct", ";")
    while not (p.peek()[0] == "kw" and p.peek()[1].upper() == "ENDSEC"):
        out["header"].append(p.instance(with_id=False))
    p.next()
    p.expect("punct", ";")
    while p.peek()[0] == "kw" and p.peek()[1].upper() == "DATA":
        p.next()
        p.expect("punct", ";")
        while not (p.peek()[0] == "kw" and p.peek()[1].upper() == "ENDSEC"):
            out["data"].append(p.instance())
        p.next()
        p.expect("punct", ";")
    end = p.expect("kw").upper()
    if end not in ("END-ISO-10303-21", "END-STEP_WORKING_SESSION"):
        raise P21Error("missing END-ISO-10303-21, got %r" % end)
    p.expect("punct", ";")
    if p.peek()[0] != "eof":
        raise P21Error("trailing tokens after END-ISO-10303-21")
    return out


CTX15 = Context(prec=15, rounding=ROUND_HALF_EVEN)


def real15(text):
    """15-significant-digit decimal normal form of a REAL token (via the nearest double,
    which is what a conforming processor stores)"""
    f = float(text)
    d = CTX15.create_decimal(repr(f)) if f == f and f not in (float("inf"), float("-inf")) else Decimal(0)
    d = d.normalize(CTX15)
    return str(d) if d != 0 else "0"


def norm_param(p):
    k = p[0]
    if k == "real":
        return ("real", real15(p[1]))
    if k == "typed":
        return ("typed", p[1], norm_param(p[2]))
    if k == "list":
        return ("list", [norm_param(x) for x in p[1]])
    return p


def norm_inst(inst, shift=0):
    return {"id": inst["id"], "complex": inst["complex"],
            "parts": [(kw, [norm_param(x) for x in ps]) for kw, ps in inst["parts"]]}
