#!/usr/bin/env python3
"""C20 -- diagnostics name the construct that is actually wrong; -i/-w change one class only.
Coq: Properties_C20.v over coq/ExpErr.v + coq/gen/ErrTable.v.  Correspondence / oracle:
(i) lexical and semantic single-fault mutants of generated schemas through check-express:
file attribution, code, and the quoted identifier / character / byte; (ii) a schema that
raises warnings of four classes (and a variant with an error) under every combination and
order of -w / -i options: printed diagnostics and verdict vs the extracted model."""
import itertools
import os
import re
import shutil
import sys

sys.path.insert(0, os.path.dirname(os.path.abspath(__file__)))
from common import *  # noqa
import gen_express as G
import translate
from c04 import run_tool, DIAG

PID = "C20"

WARN_SCHEMA = """SCHEMA w;
CONSTANT
  tiny : REAL := 1.0E-320;
END_CONSTANT;
TYPE la = LIST [0:?] OF INTEGER;
END_TYPE;
TYPE sa = SET [0:?] OF INTEGER;
END_TYPE;
TYPE mix = SELECT (la, sa);
END_TYPE;
ENTITY a;
  n : INTEGER;
  bits : BINARY;
  m : mix;
WHERE
  wr1 : bits[1] = bits[1];
  wr2 : m[1] > 0;
END_ENTITY;
ENTITY b
  SUBTYPE OF (a);
  SELF\\a.n : INTEGER;
UNIQUE
  ur1 : SELF\\a.n;
END_ENTITY;
%s
END_SCHEMA;
"""
CLASSES = ["limits", "unnecessary_qualifiers", "unsupported", "indexing", "downcast"]


def class_ids():
    ids = {}
    for line in open(os.path.join(COQ, "gen", "ErrTable.v")):
        m = re.match(r"Definition CLASS_(\w+) : Z := (\d+)\.", line)
        if m:
            ids[m.group(1)] = int(m.group(2))
    return ids


def main(tier, seed):
    res = Result(PID, tier, seed)
    try:
        translate.run_all(PID)
    except translate.AnchorLost as e:
        res.violation("translator lost its anchor: %s" % e, {"theorem_or_correspondence": "tools/translate.py gen_errtable"}, found_input=False)
    pr = coq_prove(PID)
    proof_coverage(res, pr, ["coq/gen/ErrTable.v regenerated from error.c / error.h / fedex.c",
                             "that the lexer/resolver pass the offending token to the report functions is tested, not proved"])
    if pr["forbidden"]:
        res.violation("forbidden vernacular in coq/", {"forbidden": pr["forbidden"]}, found_input=False)
    try:
        bdir = build_impl("dbg")
        extract_and_build_drivers()
    except BuildError as e:
        res.violation("build failed: %s" % e, {"error": str(e)}, found_input=False)
        res.coverage.update({"evaluations": 0, "distinct_nontrivial": 0})
        return res.finish()
    drv = driver("drv_exp")
    wdir = os.path.join(bdir, "verif-work", "c20-%d" % os.getpid())
    os.makedirs(wdir, exist_ok=True)
    evals = 0
    oracle_fail = 0
    disagreements = 0
    nontrivial = set()
    hist = {}
    samples = []

    def save(name, text):
        os.makedirs(res.replay_dir, exist_ok=True)
        p = os.path.join(res.replay_dir, name)
        open(p, "w", encoding="latin-1").write(text)
        return p

    # ---- (i) quoted arguments
    nsch = 25 if tier == "quick" else 800
    # the catalogue of faulty schemas (corpus/C04/diag): "-- expect: PE0xx" and "-- quoted: <name the diagnostic must quote>"
    import glob
    catalogue = []
    for pth in sorted(glob.glob(os.path.join(VERIF, "corpus", "C04", "diag", "*.exp"))):
        t_ = open(pth).read()
        me = re.search(r"^-- expect:([^\n]*)$", t_, re.M)
        mq = re.search(r"^-- quoted: (\S+)$", t_, re.M)
        if re.search(r"^-- known: ", t_, re.M):
            continue        # an open finding of C04: the unchanged tools accept this faulty schema, there is no diagnostic to judge
        if me and mq:
            catalogue.append(("catalogue", "corpus/C04/diag/" + os.path.basename(pth), t_, {"quoted": mq.group(1), "codes_any": [int(c[2:]) for c in me.group(1).split()]}))
    base_lines = {}
    for k in range(nsch):
        r = rng(seed, "c20/%d" % k)
        S = G.gen_schema(r, name="gq_%d" % k)
        cases = [(c, d, t, e) for (c, d, t, e) in G.mutants(r, S) if "quoted" in e] + G.lexical_mutants(r, S)
        if k == 0:
            cases += catalogue
        # the same faults with the offending name as the last token of its line and the next token several lines further down:
        # the diagnostic belongs to the line of the name, not to the line of whatever the parser looks at when it reduces
        spread = []
        for (cls, desc, text, expect) in cases:
            q = expect.get("quoted", "")
            if "undefined" in cls and re.match(r"^\w+$", q) and len(re.findall(r"\b%s\b" % re.escape(q), text)) == 1 and "line" not in expect:
                m_ = re.search(r"\b%s\b" % re.escape(q), text)
                t2 = text[:m_.end()] + "\n\n(* a remark *)\n\n\n" + text[m_.end():]
                e2 = dict(expect)
                e2["same_line_as"] = desc       # nothing before the name moved: the diagnostic names the same line as without the blank lines
                spread.append((cls + "_name_ends_line", desc + " [name last on its line]", t2, e2))
        cases += spread
        for (cls, desc, text, expect) in cases:
            fexp = os.path.join(wdir, "q.exp")
            open(fexp, "w", encoding="latin-1").write(text)
            rc, diags, files, txt = run_tool(bdir, "check-express", fexp, wdir)
            evals += 1
            hist[cls] = hist.get(cls, 0) + 1
            nontrivial.add((cls, desc))
            what = None
            errs = [d for d in diags if d[0] == "ERROR"]
            if rc < 0 or rc > 100:
                what = "check-express died (status %d)" % rc
            elif not errs:
                what = "no ERROR diagnostic for %s" % desc
            else:
                q = expect["quoted"]
                hit = [d for d in errs if q in d[3]]
                if "codes_any" in expect:
                    hit = [d for d in hit if d[1] in expect["codes_any"]]
                if "code" in expect:
                    hit = [d for d in hit if d[1] == expect["code"]]
                if not hit:
                    what = "no diagnostic quotes %r (%s); printed: %s" % (q, desc, [d[3] for d in errs][:3])
                else:
                    for d in errs:
                        if not d[3].startswith(fexp + ":") and not d[3].startswith("../q.exp:") and not d[3].startswith("q.exp:"):
                            if re.match(r"^\S+:\d+: ", d[3]):
                                what = "diagnostic attributed to another file: %s" % d[3]
                    if what is None and "only_codes" in expect and sorted({d[1] for d in errs}) != sorted(expect["only_codes"]):
                        what = "%s: diagnostics %s printed, only PE%03d applies: %s" % (desc, sorted({d[1] for d in errs}), expect["code"], [d[3][-90:] for d in errs][:3])
                    if what is None and "line" in expect and not any(abs(d[2] - expect["line"]) <= 1 for d in hit):
                        what = "diagnostic for %s attributed to line %s, the token is on line %d" % (desc, [d[2] for d in hit], expect["line"])
                    if what is None:
                        base_lines[desc] = sorted(d[2] for d in hit)
                        if "same_line_as" in expect and expect["same_line_as"] in base_lines and base_lines[expect["same_line_as"]] != base_lines[desc]:
                            what = "the diagnostic that quotes %r names line %s; with nothing but blank lines and a remark added after the name it names line %s (%s)" % (
                                q, base_lines[expect["same_line_as"]], base_lines[desc], desc)
                            hist["same_line_checked"] = hist.get("same_line_checked", 0)
                        elif "same_line_as" in expect:
                            hist["same_line_checked"] = hist.get("same_line_checked", 0) + 1
            # a redeclaration also names the line of the first declaration: the distance between the two lines it
            # prints must be the distance between the two declarations (whatever the tool counts lines from)
            if what is None and errs and cls == "duplicate_declaration":
                q = expect["quoted"]
                tl = text.split("\n")
                decl = [i for i, l in enumerate(tl) if re.match(r"^\s*(?:TYPE|ENTITY|FUNCTION|PROCEDURE|RULE)\s+%s\b" % re.escape(q), l, re.I)]
                if len(decl) != 2:
                    decl = [i for i, l in enumerate(tl) if re.match(r"^\s*%s\s*:" % re.escape(q), l, re.I)]
                for d in errs:
                    m = re.search(r"Redeclaration of (\S+?)\.\s+Previous declaration was on line (\d+)", d[3])
                    if m and m.group(1).lower() == q.lower() and len(decl) == 2:
                        hist["previous_line_checked"] = hist.get("previous_line_checked", 0) + 1
                        if d[2] - int(m.group(2)) != decl[1] - decl[0]:
                            what = "%s: the diagnostic on line %d says the previous declaration is on line %s: the declarations are %d lines apart, not %d" % (
                                desc, d[2], m.group(2), decl[1] - decl[0], d[2] - int(m.group(2)))
            if what:
                oracle_fail += 1
                p = save("c20-%d-%d-%s.exp" % (seed, k, cls), text)
                res.violation(what, {"input_file": p, "expect": expect, "replay": "%s/bin/check-express %s" % (bdir, p)},
                              signature=("unrecognized_char_ignored" if cls == "unrecognized_character" and not errs else None))
            elif len(samples) < 4 and cls in ("illegal_character", "bad_identifier", "undefined_type", "non_ascii"):
                samples.append({"class": cls, "diag": [d[3] for d in errs if expect["quoted"] in d[3]][0][-90:]})
    # ---- several files: a schema found through EXPRESS_PATH; its diagnostics name its own file, whatever was looked up after it
    mdir = os.path.join(wdir, "multi")
    os.makedirs(os.path.join(mdir, "lib"), exist_ok=True)
    open(os.path.join(mdir, "lib", "alpha_s.exp"), "w").write(
        "SCHEMA alpha_s;\n\nENTITY a_one;\n  p : INTEGER;\nEND_ENTITY;\n\nENTITY a_two;\n  q : no_such_alpha_type;\nEND_ENTITY;\n\nEND_SCHEMA;\n")
    open(os.path.join(mdir, "lib", "beta_s.exp"), "w").write(
        "SCHEMA beta_s;\n\nENTITY b_one;\n  p : INTEGER;\nEND_ENTITY;\n\n\n\nENTITY b_two;\n  q : no_such_beta_type;\nEND_ENTITY;\n\nEND_SCHEMA;\n")
    mains = {
        "main_two.exp": ("SCHEMA main_two;\nUSE FROM alpha_s;\nUSE FROM beta_s;\nENTITY m; x : a_one; y : b_one; END_ENTITY;\nEND_SCHEMA;\n",
                         [("no_such_alpha_type", "alpha_s.exp", 8), ("no_such_beta_type", "beta_s.exp", 10)]),
        "main_missing.exp": ("SCHEMA main_missing;\nUSE FROM alpha_s;\nUSE FROM gamma_s;\nENTITY m; x : a_one; END_ENTITY;\nEND_SCHEMA;\n",
                             [("no_such_alpha_type", "alpha_s.exp", 8)]),
    }
    for mname, (mtext, wants) in sorted(mains.items()):
        mp = os.path.join(mdir, mname)
        open(mp, "w").write(mtext)
        rc, diags, files, txt = run_tool(bdir, "check-express", mp, wdir, extra_env={"EXPRESS_PATH": os.path.join(mdir, "lib")})
        evals += 1
        hist["multi_file"] = hist.get("multi_file", 0) + 1
        for (q, fname, line) in wants:
            hit = [d for d in diags if d[0] == "ERROR" and q in d[3]]
            what = None
            if not hit:
                what = "%s: no diagnostic quotes %s; printed: %s" % (mname, q, [d[3][-100:] for d in diags][:3])
            elif not any(re.search(r"(?:^|/)%s:\d+: " % re.escape(fname), d[3]) for d in hit):
                what = "%s: the diagnostic that quotes %s is attributed to another file than lib/%s: %s" % (mname, q, fname, hit[0][3][-140:])
            elif not any(abs(d[2] - line) <= 1 for d in hit):
                what = "%s: the diagnostic that quotes %s says line %s; the name is on line %d of lib/%s" % (mname, q, [d[2] for d in hit], line, fname)
            if what:
                oracle_fail += 1
                res.violation(what, {"input_file": mp, "replay": "EXPRESS_PATH=%s check-express %s" % (os.path.join(mdir, "lib"), mp)})
    # ---- a warning that quotes a number: the number is the one in the input, not a rounding of it to something else
    wp = os.path.join(wdir, "small_real.exp")
    open(wp, "w").write("SCHEMA small_real;\nENTITY e;\n  r : REAL;\nWHERE\n  wr1 : r > 1.0e-45;\n  wr2 : r < 2.5E-39;\nEND_ENTITY;\nEND_SCHEMA;\n")
    rc, diags, files, txt = run_tool(bdir, "check-express", wp, wdir, opts=("-w", "limits"))
    evals += 1
    quoted = [float(x) for x in re.findall(r"fabs\(([^)]*)\)", txt) if re.match(r"^[0-9.eE+-]+$", x)]
    for want in (1.0e-45, 2.5e-39):
        hist["quoted_number"] = hist.get("quoted_number", 0) + 1
        if not any(q_ != 0 and abs(q_ - want) <= 1e-3 * want for q_ in quoted):
            oracle_fail += 1
            res.violation("the warning about the literal %g quotes %s" % (want, re.findall(r"fabs\([^)]*\)", txt)[:3] or "no number at all"),
                          {"input_file": wp, "replay": "check-express -w limits %s" % wp})
    # ---- every call site passes as many arguments as the message of the diagnostic has conversions (static scan of /repo)
    def split_args(txt):
        out_, d_, cur_ = [], 0, ""
        for ch in txt:
            if ch in "([{":
                d_ += 1
            if ch in ")]}":
                d_ -= 1
            if ch == "," and d_ == 0:
                out_.append(cur_.strip())
                cur_ = ""
            else:
                cur_ += ch
        if cur_.strip():
            out_.append(cur_.strip())
        return out_
    etxt = open(os.path.join(REPO, "src", "express", "error.c"), errors="replace").read()
    nconv = {}
    for m_ in re.finditer(r'\[(\w+)\]\s*=\s*\{\s*SEVERITY_\w+\s*,\s*((?:"(?:[^"\\]|\\.)*"\s*)+)', etxt):
        fmt_ = "".join(re.findall(r'"((?:[^"\\]|\\.)*)"', m_.group(2)))
        nconv[m_.group(1)] = len(re.findall(r"%(?!%)[-0-9.*l]*[sdcuxfg]", fmt_))
    import glob as _glob
    srcs = sorted(set(_glob.glob(os.path.join(REPO, "src", "express", "*.c")) + _glob.glob(os.path.join(REPO, "src", "express", "*.y")) +
                      _glob.glob(os.path.join(REPO, "src", "exp*", "*.c")) + _glob.glob(os.path.join(REPO, "src", "exp*", "*.cc")) +
                      _glob.glob(os.path.join(REPO, "src", "exp2python", "src", "*.c"))))
    hist["diagnostic_call_sites"] = 0
    for fsrc in srcs:
        t_ = re.sub(r"/\*.*?\*/", " ", open(fsrc, errors="replace").read(), flags=re.S)
        for m_ in re.finditer(r"\b(ERRORreport(?:_with_symbol|_with_line)?)\s*\(", t_):
            i_, d_ = m_.end(), 1
            j_ = i_
            while d_ and j_ < len(t_):
                d_ += {"(": 1, ")": -1}.get(t_[j_], 0)
                j_ += 1
            a_ = split_args(t_[i_:j_ - 1])
            if not a_ or a_[0] not in nconv:
                continue
            given = len(a_) - {"ERRORreport": 1, "ERRORreport_with_symbol": 2, "ERRORreport_with_line": 2}[m_.group(1)]
            hist["diagnostic_call_sites"] += 1
            evals += 1
            if given < nconv[a_[0]]:          # an argument too many is ignored by printf; one too few is read from nowhere
                oracle_fail += 1
                res.violation("%s:%d raises %s with %d argument(s), its message has %d conversion(s): formatting it reads a missing or mistyped argument" %
                              (os.path.relpath(fsrc, REPO), t_.count("\n", 0, m_.start()) + 1, a_[0], given, nconv[a_[0]]),
                              {"theorem_or_correspondence": "static scan of diagnostic call sites against src/express/error.c"}, found_input=False)
    # ---- (ii) warning switches
    ids = class_ids()
    for variant, extra in (("warnings_only", ""), ("with_error", "ENTITY z;\n  bad : nosuch_type_xyz;\nEND_ENTITY;")):
        text = WARN_SCHEMA % extra
        fexp = os.path.join(wdir, "w.exp")
        open(fexp, "w").write(text)
        all_opts = []
        for c in CLASSES:
            all_opts += ["-w", c]
        rc_all, d_all, _, _ = run_tool(bdir, "check-express", fexp, wdir, all_opts)
        configs = []
        for n in range(0, len(CLASSES) + 1):
            for sub in itertools.combinations(CLASSES, n):
                configs.append([("w", c) for c in sub])
        for a, b in itertools.permutations(CLASSES[:4], 2):
            configs.append([("w", a), ("i", a)])
            configs.append([("w", a), ("w", b), ("i", a)])
            configs.append([("i", a), ("w", a)])
        if tier == "quick":
            configs = configs[:40] + configs[-24:]
        base_rc = None
        for cfg in configs:
            opts = []
            for (f, c) in cfg:
                opts += ["-" + f, c]
            rc, diags, files, txt = run_tool(bdir, "check-express", fexp, wdir, opts)
            evals += 1
            nontrivial.add((variant, tuple(cfg)))
            hist["warning_config"] = hist.get("warning_config", 0) + 1
            # oracle: a class is shown iff its last option is -w; other lines and the verdict unchanged
            last = {}
            for (f, c) in cfg:
                last[c] = f
            on = set(ids[c] for c, f in last.items() if f == "w")
            exp = sorted((d[1], d[2]) for d in d_all if d[0] == "ERROR" or
                         any(on_c for on_c in on if class_of(d[1]) == on_c))
            got = sorted((d[1], d[2]) for d in diags)
            if base_rc is None:
                base_rc = rc
            what = None
            if rc < 0 or rc > 100:
                what = "check-express died (status %d) with options %s" % (rc, opts)
            elif got != exp:
                what = "options %s print %s, expected %s" % (opts, got, exp)
            elif rc != base_rc:
                what = "options %s change the exit status from %d to %d" % (opts, base_rc, rc)
            if what:
                oracle_fail += 1
                p = save("c20-warn-%s.exp" % variant, text)
                res.violation(what, {"input_file": p, "replay": "%s/bin/check-express %s %s" % (bdir, " ".join(opts), p)})
                continue
            # model
            mopts = " ".join("%s%d" % (f, ids[c]) for (f, c) in cfg)
            evs = " ".join("%d:%d" % (d[1], d[2]) for d in d_all)
            rc2, mo, me = sh([drv], input=("M %s ; %s ; ; \n" % (mopts, evs)).encode(), timeout=60)
            mp = mo.split()
            mprinted = sorted((int(x.split(":")[1]), int(x.split(":")[2])) for x in mp[4:]) if len(mp) >= 4 else None
            if mprinted != got or (int(mp[1]) != 0) != (rc != 0):
                disagreements += 1
                res.violation("model main()/process_options and check-express disagree under %s: model %s tool %s" % (opts, mprinted, got),
                              {"theorem_or_correspondence": "correspondence C20: coq/ExpErr.v process_options vs fedex.c/error.c"}, found_input=False)
    # ---- the line of a diagnostic, for faults whose line is known by construction: padded with k blank lines before the schema
    lcases = [("unterminated_string", "SCHEMA u1;\nENTITY a;\n  x : INTEGER;\nDERIVE\n  s : STRING := 'abc\n  ;\nEND_ENTITY;\nEND_SCHEMA;\n", 29, 5),
              ("unterminated_encoded_string", "SCHEMA u2;\nCONSTANT\n  c : STRING := \"0000004A\n  ;\nEND_CONSTANT;\nEND_SCHEMA;\n", 29, 3),
              ("undefined_type", "SCHEMA u3;\nENTITY a;\n  x : INTEGER;\n  y : nosuchtype;\nEND_ENTITY;\nEND_SCHEMA;\n", None, 4),
              ("illegal_character", "SCHEMA u4;\nENTITY a;\n  x : INTEGER;\n\n\n  $\nEND_ENTITY;\nEND_SCHEMA;\n", 33, 6),
              ("underscore_identifier", "SCHEMA u5;\nENTITY a;\n  _x : INTEGER;\nEND_ENTITY;\nEND_SCHEMA;\n", 32, 3)]
    for (lname, ltext, lcode, lline) in lcases:
        for pad in (0, 1, 7):
            fl = os.path.join(wdir, "line.exp")
            open(fl, "w", encoding="latin-1").write("\n" * pad + ltext)
            rcl, ol, el = sh([os.path.join(bdir, "bin", "check-express"), fl], timeout=60, cwd=wdir)
            evals += 1
            hist["line_cases"] = hist.get("line_cases", 0) + 1
            found = [(int(m_.group(1)), int(m_.group(2))) for m_ in re.finditer(r"line\.exp:(\d+): --ERROR PE(\d+)", ol + el)]
            hits = [ln for (ln, cd) in found if lcode is None or cd == lcode]
            if not hits or hits[0] != lline + pad:
                oracle_fail += 1
                pth_ = save("c20-line-%s-%d.exp" % (lname, pad), "\n" * pad + ltext)
                res.violation("%s on line %d is reported on line %s (%s)" % (lname, lline + pad, hits[:1] or "none", found[:3]),
                              {"input_file": pth_, "replay": "%s/bin/check-express %s" % (bdir, pth_)})
    # ---- an encoded string literal left open at the end of its line: everything said about it is said for that line, and the
    # digits judged (and counted) are its own - the end of the line is not one of them
    ecases = [("unterminated_encoded_8_digits", '"0000004A', [(3, 29, None)]),
              ("unterminated_encoded_bad_digit", '"0000004g', [(3, 29, None), (3, 30, "(g)")]),
              ("unterminated_encoded_7_digits", '"0000004', [(3, 29, None), (3, 31, "(7)")]),
              ("terminated_encoded_9_digits", '"0000004A1"', [(3, 31, "(9)")]),
              ("terminated_encoded_bad_digit", '"000000zA"', [(3, 30, "(z)")])]
    for (ename, elit, ewant) in ecases:
        for pad in (0, 4):
            fl = os.path.join(wdir, "line.exp")
            etext = "\n" * pad + "SCHEMA u6;\nCONSTANT\n  c : STRING := %s\n  ;\nEND_CONSTANT;\nEND_SCHEMA;\n" % elit
            open(fl, "w", encoding="latin-1").write(etext)
            rcl, ol, el = sh([os.path.join(bdir, "bin", "check-express"), fl], timeout=60, cwd=wdir)
            evals += 1
            hist["line_cases"] = hist.get("line_cases", 0) + 1
            found = [(int(m_.group(1)), int(m_.group(2)), m_.group(3)) for m_ in re.finditer(r"line\.exp:(\d+): --ERROR PE(\d+): ([^\n]*)", ol + el)]
            found = [f_ for f_ in found if f_[1] in (29, 30, 31)]
            ok_ = len(found) == len(ewant) and all(f_[0] == w_[0] + pad and f_[1] == w_[1] and (w_[2] is None or w_[2] in f_[2]) for f_, w_ in zip(found, ewant))
            if not ok_:
                oracle_fail += 1
                pth_ = save("c20-line-%s-%d.exp" % (ename, pad), etext)
                res.violation("%s on line %d: expected %s, reported %s" % (ename, 3 + pad, [("line %d" % (w_[0] + pad), "PE%03d" % w_[1], w_[2]) for w_ in ewant], found),
                              {"input_file": pth_, "replay": "%s/bin/check-express %s" % (bdir, pth_)})
    # ---- warnings that quote a name: the name is the one from the input (each with its class switched on)
    wcases = [("indexing_mixed_select", ["-w", "indexing"], "SCHEMA w1;\nTYPE l1 = LIST OF INTEGER;\nEND_TYPE;\nTYPE sel_of_both = SELECT (l1, a);\nEND_TYPE;\nENTITY a;\n  p : INTEGER;\nEND_ENTITY;\n"
               "FUNCTION g(x : sel_of_both) : INTEGER;\n  RETURN (x[1]);\nEND_FUNCTION;\nEND_SCHEMA;\n", 10, "sel_of_both", 10),
              ("small_real", ["-w", "limits"], "SCHEMA w2;\nCONSTANT\n  c : REAL := 1.5e-45;\nEND_CONSTANT;\nEND_SCHEMA;\n", 25, "1.5e-45", 3)]
    for (wname, wopts, wtext, wcode, wquote, wline) in wcases:
        fl = os.path.join(wdir, "warn.exp")
        open(fl, "w", encoding="latin-1").write(wtext)
        rcl, ol, el = sh([os.path.join(bdir, "bin", "check-express")] + wopts + [fl], timeout=60, cwd=wdir)
        evals += 1
        hist["warning_quotes"] = hist.get("warning_quotes", 0) + 1
        found = [(int(m_.group(1)), int(m_.group(2)), m_.group(3)) for m_ in re.finditer(r"warn\.exp:(\d+): WARNING PW(\d+): ([^\n]*)", ol + el)]
        hits = [f_ for f_ in found if f_[1] == wcode]
        if rcl != 0 or not hits or wquote not in hits[0][2] or hits[0][0] != wline:
            oracle_fail += 1
            pth_ = save("c20-warning-%s.exp" % wname, wtext)
            res.violation("%s: expected the warning PW%03d on line %d quoting %r (status 0); status %d, printed %s" % (wname, wcode, wline, wquote, rcl, found[:3] or (ol + el)[-200:]),
                          {"input_file": pth_, "replay": "%s/bin/check-express %s %s" % (bdir, " ".join(wopts), pth_)})
    # ---- buffered output (-B): the diagnostics of a faulty schema are the same, each once, as without -B - also when a fatal
    # one (a syntax error) makes the buffer be flushed before the end
    bcases = [("syntax_error_after_lexical_ones", "SCHEMA b1;\nENTITY a;\n  x : INTEGER;\n  $\nEND_ENTITY;\nENTITY b;\n  _y : INTEGER;\n  z  INTEGER;\nEND_ENTITY;\nEND_SCHEMA;\n"),
              ("syntax_error_alone", "SCHEMA b2;\nENTITY a;\n  x  INTEGER;\nEND_ENTITY;\nEND_SCHEMA;\n"),
              ("three_undefined_types", "SCHEMA b3;\nENTITY a;\n  x : nosuch1;\n  y : nosuch2;\n  z : nosuch3;\nEND_ENTITY;\nEND_SCHEMA;\n"),
              ("two_syntax_errors_in_two_schemas", "SCHEMA b4;\nENTITY a;\n  x  INTEGER;\nEND_ENTITY;\nEND_SCHEMA;\nSCHEMA b5;\nENTITY c;\n  _q : INTEGER;\n  y  REAL;\nEND_ENTITY;\nEND_SCHEMA;\n")]
    for (_c, d_, t_, _e) in catalogue[:12 if tier == "quick" else len(catalogue)]:
        bcases.append((os.path.basename(d_), t_))
    # correct schemas that raise warnings only: a few, and more than the buffer holds (100)
    for nw in (3, 99, 100, 101, 120, 250):
        bcases.append(("warnings_only_%d" % nw, "SCHEMA bw;\nCONSTANT\n" + "".join("  c%d : REAL := 1.0e-45;\n" % j for j in range(nw)) + "END_CONSTANT;\nENTITY e;\n  a : INTEGER;\nEND_ENTITY;\nEND_SCHEMA;\n"))
    # names longer than a message is assumed to be (ERROR_MAX_STRLEN): twenty to forty undefined types of 150 .. 900 characters
    for nl_ in (150, 230, 400, 900):
        for cnt_ in (20, 40):
            bcases.append(("long_names_%d_x%d" % (nl_, cnt_), "SCHEMA bl;\nENTITY a;\n" + "".join("  x%d : %s%d;\n" % (j, "n" * nl_, j) for j in range(cnt_)) + "END_ENTITY;\nEND_SCHEMA;\n"))
    bcases.append(("one_name_longer_than_the_buffer", "SCHEMA bl;\nENTITY a;\n  x : INTEGER;\n  y : %s;\n  z : nosuch;\nEND_ENTITY;\nEND_SCHEMA;\n" % ("m" * 5000)))
    for (bname, btext) in bcases:
        fb = os.path.join(wdir, "buffered.exp")
        open(fb, "w", encoding="latin-1").write(btext)
        outs = {}
        full_ = {}
        seq_ = {}
        wopt = ["-w", "limits"] if bname.startswith("warnings_only") else []
        for opt in ([], ["-B"]):
            rcb, ob, eb = sh([os.path.join(bdir, "bin", "check-express")] + opt + wopt + [fb], timeout=60, cwd=wdir)
            outs[bool(opt)] = (rcb, sorted(re.findall(r"(ERROR|WARNING) P[EW](\d+)", ob + eb)))
            full_[bool(opt)] = sorted(l_ for l_ in (ob + eb).split("\n") if re.search(r"(ERROR|WARNING) P[EW]\d+", l_))
            seq_[bool(opt)] = [(m_.group(1), int(m_.group(2)), m_.group(3)) for m_ in re.finditer(r"^(.*?):(\d+): ((?:--ERROR PE|WARNING PW)\d+: .*)$", eb, re.M)]
        evals += 1
        hist["buffered_compared"] = hist.get("buffered_compared", 0) + 1
        # the message buffer model (coq/ErrBuf.v, extracted): from the diagnostics in the order they are raised (the unbuffered
        # run) it says in which batches -B prints them, each batch sorted by line: the order of the lines must be that one
        if seq_[False] and outs[True] == outs[False] and full_[True] == full_[False]:
            req_ = "B " + " ".join("%d:%d:%d:%d" % (len(fn_), len(str(ln_)), len(tx_.split(": ", 1)[1]), ln_) for (fn_, ln_, tx_) in seq_[False])
            rcm_, mo_, me_ = sh([drv], input=(req_ + "\n").encode(), timeout=60)
            hist["buffer_model_compared"] = hist.get("buffer_model_compared", 0) + 1
            mparts_ = mo_.strip().split(" ; ") if mo_.startswith("B ") else None
            morder_ = [int(x_) for x_ in mparts_[0].split()[1:]] if mparts_ else None
            if morder_ != [ln_ for (_f, ln_, _t) in seq_[True]] or (mparts_ and "!" in mparts_[-1]):
                disagreements += 1
                pth_ = save("c20-buffered-%s.exp" % re.sub(r"\W", "_", bname)[:50], btext)
                res.violation("-B prints the diagnostics of %s in the line order %s..., the message-buffer model (batches of what fits, each sorted) says %s... (%s)" % (
                    bname, [ln_ for (_f, ln_, _t) in seq_[True]][:12], (morder_ or [])[:12], (mparts_ or ["?"])[-1][:80]),
                    {"theorem_or_correspondence": "correspondence C20: coq/ErrBuf.v vs error.c (message buffer of -B)", "input_file": pth_,
                     "replay": "%s/bin/check-express -B %s" % (bdir, pth_)}, found_input=False)
        if outs[True] == outs[False] and full_[True] != full_[False]:
            # the same diagnostics, but not the same text: a message cut short or run into the next one
            oracle_fail += 1
            pth_ = save("c20-buffered-%s.exp" % re.sub(r"\W", "_", bname)[:50], btext)
            dl_ = [l_ for l_ in full_[True] if l_ not in full_[False]]
            res.violation("with -B the diagnostics of %s read differently: %d lines against %d, e.g. %r" % (bname, len(full_[True]), len(full_[False]), (dl_[:1] or [""])[0][-160:]),
                          {"input_file": pth_, "replay": "%s/bin/check-express -B %s" % (bdir, pth_)})
        if outs[True] != outs[False]:
            oracle_fail += 1
            pth_ = save("c20-buffered-%s.exp" % re.sub(r"\W", "_", bname)[:50], btext)
            res.violation("with -B the diagnostics of %s are %s (status %d), without it %s (status %d)" % (
                bname, ["PE" + c for _k, c in outs[True][1]], outs[True][0], ["PE" + c for _k, c in outs[False][1]], outs[False][0]),
                {"input_file": pth_, "replay": "%s/bin/check-express -B %s" % (bdir, pth_)})
    if not pr["ok"] and re.search(r"ErrBuf", " ".join(pr["failed"]) + pr["log"]):
        # the message-buffer theorem broke: look for a schema whose -B output is not its unbuffered output, over name lengths
        # that move every message across the end of the buffer
        found_ = False
        for nl_ in list(range(20, 420, 1)):
            btext = "SCHEMA bs;\nENTITY a;\n" + "".join("  x%d : %s%d;\n" % (j, "n" * nl_, j) for j in range(60)) + "END_ENTITY;\nEND_SCHEMA;\n"
            fb = os.path.join(wdir, "buffered.exp")
            open(fb, "w", encoding="latin-1").write(btext)
            t_ = {}
            for opt in ([], ["-B"]):
                rcb, ob, eb = sh([os.path.join(bdir, "bin", "check-express")] + opt + [fb], timeout=60, cwd=wdir)
                t_[bool(opt)] = (rcb, sorted(l_ for l_ in (ob + eb).split("\n") if l_.strip()))
            evals += 1
            if t_[True] != t_[False]:
                pth_ = save("c20-buffered-search-%d.exp" % nl_, btext)
                dl_ = [l_ for l_ in t_[True][1] if l_ not in t_[False][1]]
                res.violation("with -B the output for 60 undefined types named with %d characters differs from the unbuffered output (status %d / %d), e.g. %r" % (
                    nl_, t_[True][0], t_[False][0], (dl_[:1] or [""])[0][-120:]), {"input_file": pth_, "replay": "%s/bin/check-express -B %s" % (bdir, pth_)})
                found_ = True
                break
        hist["buffer_search"] = "a failing input was %sfound" % ("" if found_ else "not ")
    shutil.rmtree(wdir, ignore_errors=True)
    if not pr["ok"]:
        res.violation("Properties_C20.v no longer checks (%s)" % ", ".join(pr["failed"] or ["see log"]),
                      {"theorem_or_correspondence": "coq/Properties_C20.v", "log": pr["log"]}, found_input=False)
    res.coverage.update({
        "evaluations": evals,
        "distinct_nontrivial": len(nontrivial),
        "rule": "%d generated schemas x mutants whose diagnostic quotes a token (undefined/duplicate names, bad INVERSE, "
                "illegal characters @~`&!?, leading-underscore identifiers, non-ASCII bytes) through check-express; a schema "
                "raising warnings of 4 classes, with and without an error, under all subsets of -w plus -w/-i orderings; "
                "non-trivial = distinct (class, case) / option list" % nsch,
        "samples": samples or ["(none)"],
        "histogram": hist,
        "traces_validated_against_impl": evals,
        "correspondence_disagreements": disagreements,
        "oracle_failures": oracle_fail,
        "unproved_clauses": ["quoted text = offending token (tested on mutants)", "buffered mode (-B): same diagnostics as unbuffered (tested on faulty schemas; order not compared)"],
    })
    res.assumptions = ["unbuffered diagnostics (default)"]
    return res.finish()


_CLS = {}


def class_of(code):
    if not _CLS:
        for line in open(os.path.join(COQ, "gen", "ErrTable.v")):
            m = re.search(r"e_class := (\d+); e_nargs := \d+ \|\}\s+\(\* (\d+) ", line)
            if m:
                _CLS[int(m.group(2))] = int(m.group(1))
    return _CLS.get(code, 0)


if __name__ == "__main__":
    tier = os.environ.get("VERIF_TIER", "quick")
    if "--tier" in sys.argv:
        tier = sys.argv[sys.argv.index("--tier") + 1]
    sys.exit(main(tier, int(os.environ.get("VERIF_SEED", "1"))))
