#!/bin/bash
# usage: tools/seedverify.sh <seeded dir>...   -- in the scratch worktree /var/tmp/wt-verify: apply, build, run the suite, undo.
W=/var/tmp/wt-verify
for dir in "$@"; do
  cd $W || exit 2
  git checkout -q -- . 
  if ! git apply "$dir/patch.diff"; then echo "$(date -u +%FT%TZ) patch does not apply" >> "$dir/verify.txt"; continue; fi
  if grep -q "schema_scanner" "$dir/patch.diff"; then (cd _build && cmake . > /dev/null 2>&1); fi
  if nice -n 10 cmake --build _build -j8 > /tmp/seedverify-build.log 2>&1; then b=ok; else b=FAILED; fi
  nice -n 10 ctest --test-dir _build -j8 --timeout 900 > /tmp/seedverify-ctest.log 2>&1
  summary=$(grep "tests passed" /tmp/seedverify-ctest.log)
  failed=$(grep -E "^\s+[0-9]+ - " /tmp/seedverify-ctest.log | awk '{print $3}' | tr '\n' ' ')
  echo "$(date -u +%FT%TZ) build=$b ctest: $summary failed: $failed" >> "$dir/verify.txt"
  git checkout -q -- .
done
cd $W && nice -n 10 cmake --build _build -j8 > /dev/null 2>&1
echo "$(date -u +%FT%TZ) batch done: $*" >> /var/tmp/seedverify.done
