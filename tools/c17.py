#!/usr/bin/env python3
"""C17 -- the build-time scanner predicts exactly the files the C++ generator writes.
Coq: Properties_C17.v over coq/GenFiles.v + coq/gen/ScannerRule.v (both programs' rules are
regenerated from the sources on every run).  Correspondence / oracle: generated schemas with
every kind of defined type (renamed enumerations/selects, chains of renames, aggregates of
defined types, types that generate no code, keyword-like names) through the scanner (built
from /repo's sources the way its CMakeLists does) and exp2cxx: the file lists in the emitted
CMakeLists.txt vs the directory listing vs the extracted model."""
import os
import re
import shutil
import sys

sys.path.insert(0, os.path.dirname(os.path.abspath(__file__)))
from common import *  # noqa
from schemalib import scanner_exe
import gen_express as G
import translate

PID = "C17"
AGG = {"LIST": "list", "SET": "set", "BAG": "bag", "ARRAY": "array"}
BASE = {"INTEGER": "integer", "REAL": "real", "STRING": "string", "BOOLEAN": "boolean", "LOGICAL": "logical",
        "NUMBER": "number", "BINARY": "binary"}


def kind_ids():
    txt = open(os.path.join(COQ, "gen", "ScannerRule.v")).read()
    m = re.search(r"Definition kind_id.*?match k with (.*?) end\.", txt, re.S)
    return {a: int(b) for a, b in re.findall(r"\| k_(\w+) => (\d+)", m.group(1))}


def enrich(r, S):
    """add defined types of every shape on top of gen_express's schema"""
    names = {t["name"] for t in S.types}
    cnt = [0]

    def fresh(p):
        cnt[0] += 1
        n = "%s_%d" % (p, cnt[0])
        while n in names:
            cnt[0] += 1
            n = "%s_%d" % (p, cnt[0])
        names.add(n)
        return n
    enums = [t for t in S.types if t["kind"] == "enum"]
    sels = [t for t in S.types if t["kind"] == "select"]
    simples = [t for t in S.types if t["kind"] == "simple"]
    aggrs = [t for t in S.types if t["kind"] == "aggr"]
    if not enums:
        t = {"name": fresh("xen"), "kind": "enum", "items": [fresh("xi"), fresh("xi")]}
        S.types.append(t)
        enums.append(t)
    if not sels and S.entities:
        t = {"name": fresh("xsel"), "kind": "select", "members": [S.entities[0]["name"]]}
        S.types.append(t)
        sels.append(t)
    extra = []
    for _ in range(r.randint(2, 7)):
        k = r.random()
        if k < 0.2 and enums:
            extra.append({"name": fresh(r.choice(["ren_en", "En", "z"])), "kind": "ref", "target": r.choice(enums + [e for e in extra if e.get("root") == "enum"])["name"], "root": "enum"})
        elif k < 0.4 and sels:
            extra.append({"name": fresh(r.choice(["ren_sel", "q"])), "kind": "ref", "target": r.choice(sels + [e for e in extra if e.get("root") == "select"])["name"], "root": "select"})
        elif k < 0.5 and simples:
            extra.append({"name": fresh("ren_s"), "kind": "ref", "target": r.choice(simples)["name"], "root": "simple:" + r.choice(simples)["base"]})
            extra[-1]["root"] = "simple:" + [t for t in simples if t["name"] == extra[-1]["target"]][0]["base"]
        elif k < 0.6 and aggrs:
            tg = r.choice(aggrs)
            extra.append({"name": fresh("ren_ag"), "kind": "ref", "target": tg["name"], "root": "aggr:" + tg["agg"]})
        elif k < 0.75:
            elem = r.choice(enums + sels + simples)["name"]
            extra.append({"name": fresh("ag_of"), "kind": "aggr", "agg": r.choice(["LIST", "SET", "BAG"]), "lo": 0, "hi": None, "elem": elem})
        elif k < 0.85:
            extra.append({"name": fresh("agag"), "kind": "aggr", "agg": "LIST", "lo": 1, "hi": 3, "elem": "SET [0:?] OF " + r.choice(list(BASE)[:4])})
        elif k < 0.93 and sels:
            extra.append({"name": fresh("sel_of_sel"), "kind": "select", "members": [r.choice(sels)["name"], r.choice(enums)["name"]]})
        else:
            # an enumeration x and (sometimes) a type whose name is the enumeration's class name stem
            extra.append({"name": fresh("en"), "kind": "enum", "items": [fresh("yi")]})
    S.types.extend(extra)
    return S


def decls(S, ids):
    out = []
    for e in S.entities:
        out.append("E %s" % e["name"].lower())
    for t in S.types:
        head = 0
        if t["kind"] == "simple":
            k = BASE[t["base"]]
        elif t["kind"] == "enum":
            k = "enumeration"
        elif t["kind"] == "select":
            k = "select"
        elif t["kind"] == "aggr":
            k = AGG[t["agg"]]
        else:
            head = 1
            root = t["root"]
            k = {"enum": "enumeration", "select": "select"}.get(root) or \
                (BASE[root.split(":")[1]] if root.startswith("simple:") else AGG[root.split(":")[1]])
        out.append("T %s %d %d 1" % (t["name"].lower(), ids[k], head))
    return out


def parse_cmakelists(path):
    txt = open(path).read()
    lists = {}
    for m in re.finditer(r"set\(\s*(\w+?)_(entity_hdrs|type_hdrs|misc_hdrs|entity_impls|type_impls|misc_impls)\b(.*?)\)", txt, re.S):
        lists.setdefault(m.group(2), []).append(m.group(3).split())
    short = re.search(r"PROJECT\((\w+)\)", txt).group(1)
    cnt = int(re.search(r"_file_count (\d+)\)", txt).group(1))
    target = re.search(r'SCHEMA_TARGETS\("([^"]*)" "([^"]*)"', txt)
    return lists, short, cnt, target.group(1), target.group(2)


def main(tier, seed):
    res = Result(PID, tier, seed)
    try:
        translate.run_all(PID)
    except translate.AnchorLost as e:
        res.violation("translator lost its anchor: %s" % e, {"theorem_or_correspondence": "tools/translate.py gen_scannerrule"}, found_input=False)
    pr = coq_prove(PID)
    proof_coverage(res, pr, ["coq/gen/ScannerRule.v regenerated from schemaScanner.cc, classes_wrapper.cc, classes_type.c, selects.c, "
                             "genCxxFilenames.c, class_strings.[ch], type.h by tools/translate.py (pattern-matching translator, trusted)",
                             "which body kind / head a declaration gets from the parser+resolver is tested, not proved"])
    if pr["forbidden"]:
        res.violation("forbidden vernacular in coq/", {"forbidden": pr["forbidden"]}, found_input=False)
    try:
        bdir = build_impl("dbg")
        scanner = scanner_exe(bdir)
        extract_and_build_drivers()
    except BuildError as e:
        res.violation("build failed: %s" % e, {"error": str(e)}, found_input=False)
        res.coverage.update({"evaluations": 0, "distinct_nontrivial": 0})
        return res.finish()
    drv = driver("drv_c17")
    ids = kind_ids()
    wroot = os.path.join(bdir, "verif-work", "c17-%d" % os.getpid())
    shutil.rmtree(wroot, ignore_errors=True)
    os.makedirs(wroot)
    nsch = 120 if tier == "quick" else 3000
    evals = 0
    oracle_fail = 0
    disagreements = 0
    nontrivial = 0
    hist = {"types_listed": 0, "types_not_listed": 0, "entities": 0, "renamed_enum": 0, "renamed_select": 0, "multi_schema": 0}
    samples = []

    def save(name, text):
        os.makedirs(res.replay_dir, exist_ok=True)
        p = os.path.join(res.replay_dir, name)
        open(p, "w").write(text)
        return p

    def run_pair(tag, text, fname="schema.exp"):
        """returns (scanner dirs {schema: (lists, short, count)}, generator files set, rc_s, rc_g)"""
        wd = os.path.join(wroot, tag)
        os.makedirs(os.path.join(wd, "scan"))
        os.makedirs(os.path.join(wd, "gen"))
        fexp = os.path.join(wd, fname)
        open(fexp, "w").write(text)
        rc_s, so, se = sh([scanner, fexp], cwd=os.path.join(wd, "scan"), timeout=120)
        rc_g, go, ge = sh([os.path.join(bdir, "bin", "exp2cxx"), fexp], cwd=os.path.join(wd, "gen"), timeout=300)
        scanned = {}
        if rc_s == 0:
            for d in so.split():
                cm = os.path.join(d, "CMakeLists.txt")
                if os.path.exists(cm):
                    lists, short, cnt, tfile, tname = parse_cmakelists(cm)
                    scanned[tname] = (lists, short, cnt, os.path.basename(d), tfile)
        gfiles = set()
        for root, _, fs in os.walk(os.path.join(wd, "gen")):
            for f in fs:
                gfiles.add(os.path.relpath(os.path.join(root, f), os.path.join(wd, "gen")))
        return scanned, gfiles, rc_s, rc_g, fexp, (se + ge)[-600:]

    for k in range(nsch):
        r = rng(seed, "c17/%d" % k)
        S = G.gen_schema(r, name=r.choice(["gs_%d" % k, "Mixed_Case_%d" % k, "a%d" % k]), keywordish=(k % 4 == 0))
        S = enrich(r, S)
        shape = "full"
        if k % 10 == 3:
            # defined types but no entity
            shape = "types_only"
            S.entities = []
            keep = [t for t in S.types if t["kind"] in ("simple", "enum")]
            kn = {t["name"] for t in keep}
            keep += [t for t in S.types if t["kind"] == "aggr" and (t["elem"] in kn or t["elem"].split(" ")[0] in ("SET", "LIST", "BAG", "ARRAY") or t["elem"] in BASE)]
            kn = {t["name"] for t in keep}
            keep += [t for t in S.types if t["kind"] == "ref" and t["target"] in kn and t not in keep]
            S.types = keep
            S.rules, S.functions, S.consts = [], [], []          # they may name the entities that are gone
        elif k % 10 == 7:
            # neither entities nor types
            shape = "empty"
            S.entities = []
            S.types = []
            S.rules, S.consts = [], []
            S.functions = [f_ for f_ in S.functions if k % 20 == 7 and not re.search(r"\b(e|t|en|ag|sel)\d+\b", str(f_))]   # now and then a function that names nothing of the schema
        elif k % 10 == 5 and S.entities:
            # a name so long that it fills a column of the scanner's file lists on its own
            shape = "long_name"
            old_n = S.entities[0]["name"]
            new_n = (old_n + "_" + "long_entity_name_" * 6)[:r.choice([82, 83, 84, 90, 96, 97, 110])]
            text = re.sub(r"\b%s\b" % re.escape(old_n), new_n, G.render(S))
            S.entities[0]["name"] = new_n          # (after rendering: only the names are used below)
        hist["shape_" + shape] = hist.get("shape_" + shape, 0) + 1
        if shape != "long_name":
            text = G.render(S)
        scanned, gfiles, rc_s, rc_g, fexp, errtxt = run_pair("s%d" % k, text)
        evals += 1
        what = None
        sname = S.name.lower()
        if rc_s != 0 or rc_g != 0:
            what = "a valid schema is not processed: scanner status %d, exp2cxx status %d: %s" % (rc_s, rc_g, errtxt[-300:])
        elif sname not in scanned:
            what = "the scanner wrote no CMakeLists.txt for schema %s (wrote %s)" % (sname, sorted(scanned))
        else:
            lists, short, cnt, dname, tfile = scanned[sname]
            listed_unity = set()
            listed_plain = set()
            for key, variants in lists.items():
                if key in ("entity_impls", "type_impls"):
                    for v in variants:
                        (listed_unity if len(v) == 1 and "_unity_" in v[0] else listed_plain).update(v)
                else:
                    for v in variants:
                        listed_plain.update(v)
            listed = listed_plain | listed_unity
            aux = {f for f in gfiles if re.match(r"Sdai\w+_unity_(entities|types)\.h$", f)}
            missing = sorted(listed - gfiles)
            unlisted = sorted(gfiles - listed - aux)
            ndecl = sum(len(v) for key, vs in lists.items() if key in ("entity_hdrs", "type_hdrs") for v in vs)
            if missing:
                what = "the scanner lists files exp2cxx does not create: %s" % missing[:4]
            elif unlisted:
                what = "exp2cxx creates files the scanner does not list (left out of the library): %s" % unlisted[:4]
            elif dname != short:
                what = "directory %s and library name %s differ" % (dname, short)
            elif cnt != ndecl * 2 + 10:
                what = "file count %d announced, %d entity/type declarations listed" % (cnt, ndecl)
            # model
            line = "%s ; %s" % (sname, " ; ".join(decls(S, ids)))
            rc, mo, me = sh([drv], input=(line + "\n").encode(), timeout=60)
            mm = re.match(r"SCAN (.*) \| GEN (.*)$", mo.strip())
            if not mm:
                res.violation("drv_c17 failed: %s" % (mo + me)[-300:], {}, found_input=False)
            else:
                mscan, mgen = set(mm.group(1).split()), set(mm.group(2).split())
                if mscan != listed or mgen != gfiles:
                    disagreements += 1
                    p = save("c17-%d-%d.exp" % (seed, k), text)
                    res.violation("model GenFiles.v and the tools disagree: scanner-only %s model-only %s ; generator-only %s model-only %s" % (
                        sorted(listed - mscan)[:3], sorted(mscan - listed)[:3], sorted(gfiles - mgen)[:3], sorted(mgen - gfiles)[:3]),
                        {"input_file": p, "theorem_or_correspondence": "correspondence C17: coq/GenFiles.v vs schema_scanner/exp2cxx"},
                        found_input=False)
            nt = sum(1 for f in listed if f.startswith("type/")) // 2
            hist["types_listed"] += nt
            hist["types_not_listed"] += len(S.types) - nt
            hist["entities"] += len(S.entities)
            hist["renamed_enum"] += sum(1 for t in S.types if t.get("root") == "enum")
            hist["renamed_select"] += sum(1 for t in S.types if t.get("root") == "select")
            if nt and len(S.types) - nt:
                nontrivial += 1
            if len(samples) < 3:
                samples.append({"schema": sname, "listed": len(listed), "created": len(gfiles), "types": len(S.types), "type_files": nt * 2})
        if what:
            oracle_fail += 1
            p = save("c17-%d-%d.exp" % (seed, k), text)
            res.violation(what, {"input_file": p, "replay": "cd $(mktemp -d) && %s %s ; %s/bin/exp2cxx %s ; ls -R" % (scanner, p, bdir, p)})
        shutil.rmtree(os.path.join(wroot, "s%d" % k), ignore_errors=True)
    # ---- the front end refuses the declarations on which the two rules differ (wf_kinds)
    for desc, body in (("entity as underlying type", "ENTITY e; END_ENTITY;\nTYPE t = e;\nEND_TYPE;"),
                       ("GENERIC as underlying type", "TYPE t = GENERIC;\nEND_TYPE;"),
                       ("AGGREGATE as underlying type", "TYPE t = AGGREGATE OF INTEGER;\nEND_TYPE;")):
        text = "SCHEMA wf;\n%s\nEND_SCHEMA;\n" % body
        scanned, gfiles, rc_s, rc_g, fexp, errtxt = run_pair("wf%d" % evals, text)
        evals += 1
        if rc_s == 0 or rc_g == 0:
            p = save("c17-wf-%d.exp" % evals, text)
            res.violation("%s is accepted (scanner %d, exp2cxx %d): the scanner's and the generator's rules differ there "
                          "(rules_differ_outside)" % (desc, rc_s, rc_g), {"input_file": p})
    # ---- two schemas in one file
    nmulti = 8 if tier == "quick" else 100
    for k in range(nmulti):
        r = rng(seed, "c17m/%d" % k)
        A = enrich(r, G.gen_schema(r, name="ma_%d" % k, n_ent=3, n_types=3))
        B = enrich(r, G.gen_schema(r, name="mb_%d" % k, n_ent=3, n_types=3))
        # disjoint names: prefix B's identifiers
        tb = re.sub(r"\b(e|t|en|ag|ts|it|a|d|inv|sel|f|r|c|wr|ur|xen|xi|xsel|ren_en|En|z|ren_sel|q|ren_s|ren_ag|ag_of|agag|sel_of_sel|yi)(_?\d+)\b", r"b\1\2", G.render(B))
        text = G.render(A) + "\n" + tb
        scanned, gfiles, rc_s, rc_g, fexp, errtxt = run_pair("m%d" % k, text, fname=["schema.exp", "m.exp", "mb_%d.exp" % k, "ma_%d.exp" % k][k % 4])
        evals += 1
        hist["multi_schema"] += 1
        what = None
        if rc_s != 0 or rc_g != 0:
            what = "two valid schemas in one file: scanner status %d, exp2cxx status %d: %s" % (rc_s, rc_g, errtxt[-300:])
        else:
            listed = set()
            for sn, (lists, short, cnt, dname, tfile) in scanned.items():
                for key, variants in lists.items():
                    for v in variants:
                        listed.update(v)
            aux = {f for f in gfiles if re.match(r"Sdai\w+_unity_(entities|types)\.h$", f)}
            if len(scanned) != 2:
                what = "two schemas, %d CMakeLists.txt" % len(scanned)
            elif listed - gfiles:
                what = "multi-schema: listed but not created: %s" % sorted(listed - gfiles)[:4]
            elif gfiles - listed - aux:
                what = "multi-schema: created but listed for neither schema: %s" % sorted(gfiles - listed - aux)[:4]
            elif len({v[1] for v in scanned.values()}) != 2:
                what = "multi-schema: both schemas get the library name %s" % sorted({v[1] for v in scanned.values()})
        if what:
            oracle_fail += 1
            p = save("c17-multi-%d-%d.exp" % (seed, k), text)
            res.violation(what, {"input_file": p}, signature=("multi_schema_same_short_name" if "library name" in what else None))
        shutil.rmtree(os.path.join(wroot, "m%d" % k), ignore_errors=True)
    # ---- a schema that needs several passes (a subtype of / an attribute typed by an object of a schema that is processed later):
    # exp2cxx writes Sdai<SCHEMA>_1/_2 files, the scanner lists the unsuffixed ones (open finding)
    import glob as _glob
    for cpath in sorted(_glob.glob(os.path.join(VERIF, "corpus", "C17", "*.exp"))):
        cname = os.path.basename(cpath)
        text = open(cpath).read()
        scanned, gfiles, rc_s, rc_g, fexp, errtxt = run_pair("corpus_" + cname[:-4], text, fname=cname)
        evals += 1
        hist["corpus_files"] = hist.get("corpus_files", 0) + 1
        listed = set()
        for sn, (lists, short, cnt, dname, tfile) in scanned.items():
            for key, variants in lists.items():
                for v in variants:
                    listed.update(v)
        aux = {f for f in gfiles if re.match(r"Sdai\w+_unity_(entities|types)\.h$", f)}
        if rc_s != 0 or rc_g != 0:
            oracle_fail += 1
            res.violation("corpus/C17/%s: scanner status %d, exp2cxx status %d" % (cname, rc_s, rc_g), {"input_file": cpath})
        elif (listed - gfiles) or (gfiles - listed - aux):
            oracle_fail += 1
            res.violation("corpus/C17/%s (schemas that use each other's objects): listed but not created %s, created but not listed %s" % (
                cname, sorted(listed - gfiles)[:4], sorted(gfiles - listed - aux)[:4]), {"input_file": cpath},
                signature="multi_pass_schema_suffixed_files" if cname == "two_schemas_cross_use.exp" else None)
    shutil.rmtree(wroot, ignore_errors=True)
    if not pr["ok"]:
        res.violation("Properties_C17.v no longer checks (%s)" % ", ".join(pr["failed"] or ["see log"]),
                      {"theorem_or_correspondence": "coq/Properties_C17.v", "log": pr["log"]}, found_input=False)
    res.coverage.update({
        "evaluations": evals,
        "distinct_nontrivial": nontrivial,
        "rule": "%d generated single-schema files (entities, simple/enumeration/select/aggregate types, renamed enumerations and "
                "selects incl. chains, renamed simple/aggregate types, aggregates of defined types, nested aggregates, selects of "
                "selects, keyword-like and mixed-case names) + 3 declarations outside wf_kinds + %d two-schema files; "
                "non-trivial = some type listed and some type not listed" % (nsch, nmulti),
        "samples": samples or ["(none)"],
        "histogram": hist,
        "traces_validated_against_impl": evals,
        "correspondence_disagreements": disagreements,
        "oracle_failures": oracle_fail,
        "unproved_clauses": ["parser/resolver assign the body kind and head the model is given (tested)",
                             "multi-schema files with mutual USE (suffix _1,_2 files) not modelled"],
    })
    res.assumptions = ["identifiers shorter than MAX_LEN=240", "case-sensitive file system"]
    return res.finish()


if __name__ == "__main__":
    tier = os.environ.get("VERIF_TIER", "quick")
    if "--tier" in sys.argv:
        tier = sys.argv[sys.argv.index("--tier") + 1]
    sys.exit(main(tier, int(os.environ.get("VERIF_SEED", "1"))))
