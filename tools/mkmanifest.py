#!/usr/bin/env python3
"""Regenerates /verif/MANIFEST.json from the table below and validates it against
/root/.vp/MANIFEST.schema.json when jsonschema is importable."""
import json
import os
import sys

VERIF = os.path.dirname(os.path.dirname(os.path.abspath(__file__)))

# id -> (technique, level text, level note, design ref)
CLAIMED = {
    "C13": ("Rocq/Coq proof of an invariant + refinement over all operation sequences; extracted-model vs "
            "InstMgr correspondence; independent list/dict oracle",
            "Coq theorems (coq/Properties_C13.v, axiom-free) prove for EVERY operation sequence of the model "
            "coq/InstMgr.v: unique node per instance, arrayIndex = position, id map = exactly the live ids, "
            "look-up exact, automatic ids fresh and above maxid, maxid bounds, no null-node dereference. The "
            "model is tied to src/clstepcore/instmgr.cc by running the extracted model and the real InstMgr on "
            "all pruned op sequences of length 5 (quick) / 6 (thorough) plus long random sequences and comparing "
            "every public query after every operation; an independent Python reference evaluates the property "
            "statement on the implementation's answers.",
            "Trusted: Coq kernel, ExtrOcamlBasic extraction + OCaml driver, harness/h_instmgr.cc, the generators; "
            "std::map/GenNodeArray modelled as association list/list; ids below 2^31.",
            "DESIGN.md C13"),
}

CLAIMED["C06"] = (
    "Rocq/Coq bound theorems for the two fixed-size tables the property names (parser scope stack, tail-remark "
    "buffer) with constants and guards regenerated from the sources; ASan+UBSan campaign of the four tools on valid, "
    "token-mutated, byte-mutated, pathological and shipped inputs",
    "tools/translate.py regenerates coq/gen/ExpBuffers.v from expparse.y, generated/expparse.c (which must agree) and "
    "lexact.c: MAX_SCOPE_DEPTH, whether PUSH_SCOPE / PUSH_SCOPE_DUMMY are preceded by the depth guard and its margin, "
    "the remark buffer size and how the two copies into it are bounded. coq/Properties_C06.v proves (axiom-free): for "
    "every sequence of scope openings and closings, of any length and nesting, the stack pointer stays below "
    "MAX_SCOPE_DEPTH (the guard stops the tool first); both remark copies stay inside the buffer for a remark of any "
    "length. With the guard or the bounded copy removed the regenerated constants make the proofs fail. Memory safety "
    "of the rest of the C code is not something a Gallina model can carry: the check runs check-express, exppp, "
    "exp2cxx and exp2python built with AddressSanitizer and UndefinedBehaviorSanitizer on generated valid schemas, "
    "token-level and byte-level mutants, pathological shapes at the boundaries the model names (nesting 17..21 and "
    "100; remarks of 254..257 and 10^4 characters; literals of 10^5 characters; 1000 parentheses; NULs; non-ASCII; "
    "missing final newline; unterminated strings and remarks) and shipped schemas with mutants, and requires: no "
    "sanitizer report, no signal, termination within the limit, status 0 or small positive with a diagnostic, valid "
    "schemas accepted; the depth at which the tools stop is compared with the model.",
    "Partial: proofs cover two tables; everything else is sanitizer testing. Termination is a time limit. Open "
    "finding: identifiers longer than the BUFSIZ name buffers.",
    "DESIGN.md C06")
CLAIMED["C08"] = (
    "Rocq/Coq theorems that acceptance is a function of the set of part names (order and repetition irrelevant) for "
    "every schema graph, with a refutation witness for 'supported iff legal'; exhaustive correspondence: every subset "
    "of every generated hierarchy through ComplexCollect::supports() vs the extracted model and an independent "
    "evaluation of the property's clauses; sampled subsets through the reader in three part orders",
    "coq/Complex.v models exp2cxx's construction of the AND/OR/ANDOR tree of a supertype (expressbuild.cc: supertype "
    "expression, implicit subtypes ANDOR-ed, a subtype that is itself a supertype nested, OR-ed with itself when not "
    "abstract), the family of name sets a tree generates (what the runtime matcher computes), ComplexCollect::"
    "supports() incl. the combination of root lists for members with several supertypes and hitMultNodes(), and the "
    "declarative rule of the property (closure under supertypes, each member's expression over the subtypes present "
    "by ISO 10303-11 annex B evaluated sets, ABSTRACT). Properties_C08.v proves (axiom-free) for every graph: "
    "supports and the rule depend only on the set of names (any permutation, any repetition); and refutes 'supported "
    "iff legal' with a witness (an entity with two supertypes inside one hierarchy) that replays on the code: open "
    "finding. The matcher's backtracking mechanics are not modelled line by line; instead the check compares "
    "supports() with the model on ALL subsets (size >= 2) of every generated hierarchy (trees, diamonds, two roots "
    "sharing a subtype; random ONEOF/AND/ANDOR nestings; implicit subtypes; ABSTRACT), each query in its own child "
    "process so that a crash is an observation, and reads sampled subsets as #n=(A()B()..) in three part orders "
    "between two ordinary instances (same outcome in every order; neighbours kept).",
    "Partial: no theorem equates supports with the rule (it is false); the agreement of model and runtime is "
    "exhaustive testing on generated graphs of up to 6 entities per hierarchy. compstructs.cc serialisation is "
    "exercised, not modelled.",
    "DESIGN.md C08")
CLAIMED["C09"] = (
    "Rocq/Coq theorems over a model of the numeric readers/writer and std::istream; exhaustive short-string "
    "correspondence with ReadInteger/ReadReal/ReadNumber/WriteReal; ISO 10303-21 grammar oracle",
    "Coq theorems (coq/Properties_C09.v, axiom-free) over coq/P21Lex.v for ALL byte strings: an unconvertible numeric "
    "token is never left unset silently (INTEGER/REAL/NUMBER), the following delimiter is never consumed by any of "
    "the three readers, every conforming in-range INTEGER token reads to its value, assigned integers fit 64 bits, "
    "WriteReal always yields a decimal point and only inserts '.E'. The model (incl. the libstdc++ istream/num_get "
    "lexical behaviour) is validated on ALL strings up to length 4 (quick) / 6 (thorough) over each kind's alphabet in "
    "5 delimiter contexts plus boundary tokens; an independent recogniser of the Part 21 grammar judges the "
    "implementation's answers; writer checked on an exponent grid and read back.",
    "Trusted: Coq kernel, extraction, harness/h_lex.cc, libstdc++/glibc number conversion (values compared via Python "
    "float), tools/translate.py. STRING/BINARY/ENUM/LOGICAL/entity-reference tokens are not yet in the Coq model "
    "(partial: numeric kinds + writer proved; the rest is covered by the C01/C03 correspondence).",
    "DESIGN.md C09")

CLAIMED["C01"] = (
    "Rocq/Coq round-trip theorems for the Part 21 parameter syntax, integer and string literals; generated "
    "populations through the real reader/writer judged by an independent Part 21 parser",
    "Coq theorems (coq/Properties_C01.v, axiom-free): for every value (any nesting of aggregates and typed SELECT "
    "values, `$`, `*`) the reader's parameter grammar inverts the writer's layout, writing is idempotent through a "
    "read, every 64-bit INTEGER is written as a numeral ReadInteger reads back, a STRING with doubled quotes is "
    "scanned back byte for byte by the GetLiteralStr model. The whole-file reader/writer is NOT modelled: it is "
    "exercised on generated conforming populations of schemas/verif_all.exp (all kinds, selects, nested aggregates, "
    "multiple inheritance, complex instances, forward refs, random layouts) read-written-reread-rewritten and judged "
    "by an independent parser (ids, order, types, every value, header, byte idempotence).",
    "Proof level applies to the syntax core only; the file level is differential testing (partial). Trusted: "
    "tools/p21tok.py, tools/popgen.py, harness/h_file.cc, one fixed schema in the quick tier. Open findings: "
    "comments in four positions (known_findings.jsonl).",
    "DESIGN.md C01")

CLAIMED["C03"] = (
    "Rocq/Coq theorems on the severity bookkeeping (instance -> file -> exit status) for any population; "
    "single-fault injection through the real reader and p21read with confinement check",
    "Coq theorems (coq/Properties_C03.v, axiom-free) over coq/FileSev.v, whose switches COMPLEX_APPENDS and "
    "P21READ_FAIL_AT are regenerated from STEPfile.cc / p21read.cc on every run: for ANY list of per-instance outcomes, "
    "one instance that pass 1 could not create or that was read with severity INCOMPLETE or worse makes the file "
    "severity worse than a user message and the reference tool exit non-zero; attribute errors are never lost in the "
    "instance severity; a clean population is reported clean. The model is tied to STEPfile.cc by feeding it the "
    "per-instance severities observed through the guarded VERIF-INST hook and comparing file severity and p21read's "
    "exit status. That each listed fault class is detected at the attribute level, and confinement, are checked by "
    "fault injection (16 classes) on generated populations, not by theorems.",
    "Partial: bookkeeping proved; attribute-level detection and confinement are tests. Trusted: hook lines, "
    "tools/popgen.py fault injector, harness/h_file.cc, one fixed schema.",
    "DESIGN.md C03")
CLAIMED["C15"] = (
    "Rocq/Coq finite-table theorem over the null pre-check regenerated from the source + verdict theorems; "
    "attribute-level and file-level correspondence in strict and lenient mode",
    "coq/gen/NullTable.v (which kinds get which lenient filler, the five severities, whether complex records pass "
    "their error on, p21read's threshold) is regenerated from STEPattribute.cc / STEPfile.cc / p21read.cc on every "
    "run; coq/Properties_C15.v proves (axiom-free) that it equals the documented table over the whole finite domain "
    "strict x optional x 11 kinds, that any population of clean/USERMSG instances is accepted (exit 0) and any "
    "INCOMPLETE instance rejects the file, and the instance severity of a single substitution. Tied to the code by "
    "reading '$,' ',' ')' into every attribute of every entity of schemas/verif_all.exp in both modes, and by "
    "populations with one attribute replaced by `$` (own, inherited, inside complex parts) through h_file and the real "
    "p21read (exit status, file severity, written value, hooked instance severity).",
    "Trusted: tools/translate.py regular expressions, hook lines, harnesses, one fixed schema.",
    "DESIGN.md C15")

CLAIMED["C14"] = (
    "Rocq/Coq theorems on the id offset and on population-level append (ids, references, look-up) with the "
    "offset constants regenerated from the source; read+append histories vs the extracted model",
    "coq/Properties_C14.v (axiom-free) over coq/Append.v: the offset computed from the regenerated constants of "
    "SetFileIdIncrement is a multiple of 1000 strictly above the maximum id; for arbitrary populations the earlier "
    "instances are kept, every appended instance has id and all references (at any nesting depth) shifted by that one "
    "offset, ids never collide, and a shifted reference resolves to the appended counterpart, never to an earlier "
    "instance. Tied to the code by sweeping incr against the C++ formula and by ReadExchangeFile + 1-2 "
    "AppendExchangeFile on generated populations with overlapping id ranges (references in aggregates, selects, "
    "complex parts), comparing ids and reference lists of the session with the extracted model and with an oracle "
    "written from the statement.",
    "That each C++ read path passes addFileId on is covered by the correspondence only (partial). Trusted: "
    "translator, harness/h_file.cc, tools/p21tok.py, one fixed schema; ids below 2^31.",
    "DESIGN.md C14")
CLAIMED["C16"] = (
    "Rocq/Coq theorems on state letters (regenerated) and on save/load at population level incl. deletion "
    "and fixed point; three save/load cycles through WriteWorkingFile/ReadWorkingFile vs the extracted model",
    "coq/gen/WsLetters.v (letters, EntityWfState, WriteWorkingData's switch, the reader's letter test) is regenerated "
    "from the sources; coq/Properties_C16.v proves (axiom-free): letters are a bijection accepted by the reader and "
    "never 'E'; for any session, load(save s) is exactly the non-deleted instances with their states and values "
    "(references to deleted instances unset); the second generation is a fixed point, so saving again reproduces the "
    "file. Tied to the code by generated (also partially filled, strict-mode) populations x random state assignments "
    "x save/load/save/load/save, comparing letters, restored states, ids and references with the extracted model and "
    "with an oracle from the statement (values as in the exchange round trip, byte identity of generations 2 and 3).",
    "'saving again reproduces the file' holds from the second generation on when instances were deleted (stated in "
    "Properties_C16.v and DESIGN.md). Trusted: translator, harness, p21tok, one fixed schema.",
    "DESIGN.md C16")

CLAIMED["C10"] = (
    "Rocq/Coq theorems on the lazy index tables (transpose, exactness) and on the dependency worklist "
    "(termination, = transitive closure); lazy vs eager correspondence in several load orders",
    "coq/Properties_C10.v (axiom-free) over coq/Lazy.v: for every instance list with unique ids and arbitrary "
    "reference lists (cycles, self references, multiplicities) the reverse table built by addLazyInstance is the exact "
    "multiset transpose of the forward table, the forward table holds exactly each instance's references, and the "
    "worklist of instanceDependencies terminates with the fuel it is given and returns exactly the reflexive-free "
    "transitive closure. Tied to the code by comparing the extracted model with lazyInstMgr's tables and dependency "
    "sets on generated populations; index (ids, keywords) and the serialisation of every instance loaded in ascending, "
    "descending and random orders with repetitions are compared with the eager reader (testing).",
    "Section scanner and loadInstance are not modelled (partial). Trusted: Judy arrays as association lists, "
    "harness/h_lazy.cc (reads protected members), p21tok, one schema.",
    "DESIGN.md C10")
CLAIMED["C11"] = (
    "Rocq/Coq theorem: the inverse resolution returns exactly the referrers (no miss, no extra, no duplicate) "
    "for any population and subtype relation; lazyRefs vs model and vs referrers computed from the population",
    "coq/Properties_C11.v (axiom-free): resolve_inverse (candidates = distinct reverse-table entries, narrowed by type "
    "E-or-subtype and by attribute a of E really referring to x) yields, for any population with unique ids, any "
    "subtype relation and any inverse declaration, exactly the instances y of type <= E whose a refers to x, each "
    "once; instances mentioning x only through other attributes are excluded. Tied to lazyRefs.h by generated "
    "populations of schemas/verif_inv.exp (three inverses on one entity incl. two onto the same entity, inherited "
    "inverses, aggregate and single-valued, referrers of a subtype, mentions through other attributes) and "
    "verif_all.exp, every instance loaded in several orders, inverse contents vs extracted model and vs oracle.",
    "That lazyRefs implements resolve_inverse is established by the correspondence only. Trusted: harness, generator.",
    "DESIGN.md C11")

CLAIMED["C04"] = (
    "Rocq/Coq theorems on the verdict/exit-status logic and the subtype-cycle search (sound and complete for every "
    "finite subtype graph); generated valid schemas + single-fault mutants through check-express and exp2cxx vs the "
    "extracted model and an independent oracle",
    "coq/ExpErr.v models error.c's enable/severity table (regenerated from error.c/error.h/fedex.c into "
    "coq/gen/ErrTable.v on every run), option processing, the error counter, fedex.c's main pass sequence (parse, "
    "resolve, back end gated on the error count) and resolve.c's ENTITY_check_subsuper_cyclicity loop. "
    "coq/Properties_C04.v proves (axiom-free): the exit status is nonzero iff an enabled ERROR-severity report was "
    "raised in any pass; the back end runs iff no error was counted before it; check-express and a generator given "
    "the same reports reach the same front-end verdict; the cycle search reports a cycle iff the subtype graph has "
    "one through the entity (both directions, any finite graph). The check generates valid schemas (accept "
    "expected, output files expected) and mutants with exactly one fault of each class (syntax, undefined "
    "type/entity/attribute, subtype cycle, select cycle, duplicate declaration...) and requires reject + no "
    "generated sources, both tools agreeing, and the model's verdict from the printed reports; subtype graphs of "
    "n=3,4 entities are enumerated exhaustively against the model's search (VERIF-SUBTYPES hook).",
    "Trusted: translator for the table, gen_express.py oracle, the lemon grammar itself (syntax acceptance is tested "
    "on mutants, not proved). The parser and the resolver's per-construct rules are modelled only through the "
    "reports they raise.",
    "DESIGN.md C04")
CLAIMED["C20"] = (
    "Rocq/Coq theorems on option locality (-w/-i change exactly one class; errors can never be disabled; verdict "
    "independent of warning switches); mutants whose diagnostic must quote the offending token and all -w/-i "
    "option subsets/orders through check-express vs the extracted model",
    "coq/Properties_C20.v proves (axiom-free) over coq/ExpErr.v + the regenerated table: processing a -w/-i option "
    "for one class changes the enabled flag of exactly the diagnostics of that class and no other; no option "
    "sequence disables an ERROR-severity diagnostic; the verdict is the same under every option sequence. The check "
    "runs generated schemas with one fault whose diagnostic carries an argument (undefined type/entity/attribute/"
    "function/schema, duplicate declaration, bad INVERSE, illegal character, leading-underscore identifier) and "
    "requires the quoted text to be the offending token, the file and line to be the token's; a schema raising "
    "warnings of several classes is run under every subset of -w and -w/-i orderings and the printed set and exit "
    "status are compared with the oracle (last option per class wins) and with the model.",
    "That the scanner/resolver hand the offending token to the report call is tested on mutants, not proved. "
    "Buffered (-B) ordering not modelled. Open finding: characters the scanner does not list are silently white space.",
    "DESIGN.md C20")
CLAIMED["C12"] = (
    "Rocq/Coq non-interference theorem for the aggregate-bound printer (regenerated branch structure of "
    "AGGRprint_bound) and total-correctness theorems for the dictionary whose iteration order fixes every emission "
    "order; differential runs of all four tools under varied cwd/path/env/locale/ASLR with byte comparison; "
    "dictionary order vs the extracted model",
    "coq/GenBound.v models what exp2cxx writes for an aggregate bound with an explicit [world] parameter standing for "
    "everything that is not schema text (the bytes under the union member u.integer); gen/BoundRule.v is regenerated "
    "from AGGRprint_bound()'s if/else chain on every run. Properties_C12.v proves (axiom-free) print_bound w e = "
    "print_bound w' e for all worlds and expressions -- on the tree before fix 7785763f the regenerated rule makes this "
    "theorem false (identifier bounds printed a pointer). coq/Hash.v models src/express/hash.c (linear hashing with "
    "bucket splitting, constants and code shape anchored by the translator) from the declared names alone; proved for "
    "every hash function and any number of keys: every declared name is visited exactly once by the iteration, the "
    "visiting order is a permutation of the declarations, look-up finds exactly the declared names. The check runs "
    "exp2cxx, exp2python, exppp and schema_scanner on generated and shipped schemas under three variants (cwd, "
    "absolute / relative / ./ path, 6 kB environment, tr_TR locale, ASLR off, run order) and compares output trees and "
    "messages byte for byte; compares the printed form of bounds of every expression kind with the model; compares the "
    "scanner's entity order with Hash.v's dict_order, incl. schemas of 1700 and 2600 entities that make the table split.",
    "Partial by nature: the theorems cover the two mechanisms the property names; that no other path lets an address, "
    "time, path or environment value reach an output is established by the differential runs only. The scanner echoes "
    "its path argument into SCHEMA_TARGETS(...) (normalised before comparison).",
    "DESIGN.md C12")
CLAIMED["C17"] = (
    "Rocq/Coq theorems that the scanner's and the generator's file rules (both regenerated from the sources by a "
    "translator) agree for every accepted type shape and that the listed and created file sets are equal for every "
    "schema; generated schemas through schema_scanner and exp2cxx vs the extracted model",
    "tools/translate.py regenerates coq/gen/ScannerRule.v on every run from schemaScanner.cc (notGenerated(), "
    "printSchemaFilenames(), writeLists()), classes_wrapper.cc (SCOPEPrint() loops, SCHEMAprint(), initUnityFiles(), "
    "print_file_header()), classes_type.c (TYPEprint_descriptions(), TYPEget_RefTypeVarNm(), TYPEPrint()), selects.c "
    "(TYPEselect_print()), genCxxFilenames.c, class_strings.[ch] and type.h. coq/GenFiles.v gives the data its "
    "control-flow meaning; coq/Properties_C17.v proves (axiom-free): the two rules give the same answer for every "
    "body kind the front end accepts as a defined type, with or without a head type; for every schema name and "
    "declaration list, in whatever order each program walks it, the generator's file set = the scanner's list + the "
    "two unity headers; two declarations share a file only if they are the same or an enumeration n meets a select "
    "n_var. A rule change on either side regenerates the data and breaks rules_agree. The check builds the scanner "
    "from /repo's sources as its CMakeLists does, runs both tools on generated schemas with every type shape "
    "(renamed enumerations/selects incl. chains, aggregates of defined types, nested aggregates, selects of "
    "selects, keyword-like and mixed-case names) and two-schema files, and compares the CMakeLists.txt lists, "
    "directory/library name and announced count with the directory listing and with the extracted model; "
    "declarations outside wf_kinds (where the rules differ) must be rejected by both tools.",
    "Trusted: the pattern-matching translator, the Python parsing of CMakeLists.txt. That the parser/resolver give a "
    "declaration the body kind/head the model is told is tested. Multi-pass output (suffix _1, _2 for mutually "
    "dependent schemas) is not modelled.",
    "DESIGN.md C17")
CLAIMED["C18"] = (
    "Rocq/Coq theorems relating the generator's base list and constructor parameter list to ISO 10303-21 attribute "
    "order for every inheritance graph (equality up to repeats when supertypes are listed deepest first; refutation "
    "witnesses for diamonds and mixed depth); generated schemas through exp2python, imported against the bundled "
    "runtime and introspected, vs the schema and the extracted model",
    "coq/PyGen.v models classes_python.c LIBdescribe_entity() (base list, constructor parameters), count_supertypes(), "
    "cmp_python_mro(), linklist.c LISTsort() (bubble passes) and entity.c ENTITY_get_all_attributes(), and next to it "
    "ISO 10303-21's inherited-then-own order with an ancestor contributing once. Properties_C18.v proves (axiom-free), "
    "for every schema of any size and shape whose entities list their supertypes deepest first (all single-inheritance "
    "and equal-depth schemas): the class's bases are the declared supertypes in declaration order; the constructor's "
    "parameters are, after dropping repeats, exactly the Part 21 order; and equal to it when no ancestor is reached "
    "twice. The unrestricted statement is refuted with two witnesses (diamond; supertypes of different depth), both "
    "recorded as open findings. The check runs exp2python on generated schemas (chains, multiple supertypes, forced "
    "diamonds, derived/inverse attributes, every defined-type kind, Python-keyword identifiers), requires exit 0 and "
    "exactly one module, imports it in a child interpreter against /repo's stepcode package, and compares every "
    "class's bases and __init__ signature and every type definition (underlying type, enumeration items in order, "
    "select members, aggregate kind and bounds) with the schema via an independent Part 21 ordering, and with the "
    "extracted model.",
    "Importability and the type definitions are tested, not proved. CPython and the runtime package are the platform. "
    "Schemas with an identifier pair x / x_ and expression-valued aggregate bounds (NotImplementedError by design) are "
    "outside the generated subset.",
    "DESIGN.md C18")
CLAIMED["C19"] = (
    "Rocq/Coq invariants and accept-iff theorems for ARRAY, BAG, SET over all operation sequences; LIST "
    "refuted with witnesses; exhaustive short + random long sequences vs the Python runtime and an EXPRESS oracle",
    "coq/PyAggr.v models the four classes of AggregationDataTypes.py line by line (base type INTEGER). "
    "coq/Properties_C19.v proves (axiom-free), for every bound pair, flag setting and operation sequence: ARRAY keeps "
    "exactly b2-b1+1 slots indexed b1..b2, an assignment is accepted iff index in range, value of the base type and "
    "(UNIQUE) different from every other element, what was stored is read back and nothing else changes, unset "
    "elements are readable only when OPTIONAL; BAG/SET never exceed the upper bound, hold only base-type values, a "
    "BAG accepts iff typed and room left, a SET never holds duplicates. LIST is refuted (c19_list_refuted) and "
    "recorded as two open findings. The model is tied to the code by running ALL constructor x operation sequences "
    "of length 2 (quick) / 3 (thorough) plus random long ones on the real classes and comparing every result and "
    "exception; an independent list/multiset/set reference of ISO 10303-11 8.2 judges the implementation.",
    "Trusted: CPython list/set, harness/py_aggr_driver.py, the reference oracle. Base types other than INTEGER and "
    "nested aggregates are not modelled.",
    "DESIGN.md C19")

NOT_APPLICABLE = {}

ALL = ["C%02d" % i for i in range(1, 21)]


def hook_commits():
    import subprocess
    try:
        out = subprocess.run(["git", "-C", "/repo", "log", "--format=%H", "--grep=^verif hook"], stdout=subprocess.PIPE).stdout.decode()
        return [l for l in out.split() if l]
    except OSError:
        return []


def main():
    checks = []
    for pid in ALL:
        if pid not in CLAIMED:
            continue
        tech, text, note, ref = CLAIMED[pid]
        checks.append({
            "property_id": pid,
            "quick_cmd": "./check %s --tier quick" % pid,
            "thorough_cmd": "./check %s --tier thorough" % pid,
            "evidence_file": "/verif/evidence/%s.json" % pid,
            "replay_cmd_template": "cat {path}",
            "engine": "coq-model+correspondence",
            "level_claimed": {"category": "proof", "text": text, "design_ref": ref},
            "level_note": note,
            "technique": tech,
        })
    na = []
    for pid in ALL:
        if pid in CLAIMED:
            continue
        na.append({"property_id": pid,
                   "reason": NOT_APPLICABLE.get(pid, "not claimed yet: model, theorems and correspondence check "
                                                      "for this property are not built at this commit (see DESIGN.md "
                                                      "section 9 for the construction order)")})
    man = {
        "version": 1,
        "setup_cmd": "./check --setup",
        "hooks": {
            "guard": "STEPCODE_VERIF",
            "enable": "checks configure their own cmake build of /repo's working tree in /var/tmp/stepcode-verif "
                      "with -DSTEPCODE_VERIF in CMAKE_C_FLAGS/CMAKE_CXX_FLAGS",
            "baseline_off_cmd": "cmake --build /repo/_build -j16 && ctest --test-dir /repo/_build -j8 --timeout 900",
            "source_commits": hook_commits(),
            "add_only": True,
        },
        "engines": [{
            "name": "coq-model+correspondence",
            "path": "/verif/tools",
            "serves_properties": sorted(CLAIMED),
            "kind_free_text": "Coq 8.16.1 development under /verif/coq (models, proofs, Properties_<id>.v), "
                              "extraction to OCaml drivers under /verif/ocaml, C++/C harnesses under /verif/harness "
                              "linked against libraries built from /repo's working tree, Python orchestrators "
                              "tools/<id>.py (generators, oracles, evidence)",
        }],
        "checks": checks,
        "not_applicable": na,
        "notes": "All checks: ./check <ID> --tier quick|thorough, honour VERIF_SEED/VERIF_TIER, rebuild the "
                 "implementation from /repo's working tree (cache keyed by a hash of src/ include/ cmake/), re-check "
                 "the Coq property file on every run, and rewrite evidence/<ID>.json.",
    }
    path = os.path.join(VERIF, "MANIFEST.json")
    with open(path, "w") as f:
        json.dump(man, f, indent=1)
        f.write("\n")
    try:
        import jsonschema
        jsonschema.validate(man, json.load(open("/root/.vp/MANIFEST.schema.json")))
        print("MANIFEST.json valid; %d claimed, %d not claimed" % (len(checks), len(na)))
    except ImportError:
        print("MANIFEST.json written (jsonschema not importable here; run with python3-vt to validate)")


if __name__ == "__main__":
    main()
