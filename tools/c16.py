#!/usr/bin/env python3
"""C16 -- working-session files round-trip populations with per-instance state.
Coq: Properties_C16.v over coq/WorkSession.v + coq/gen/WsLetters.v (regenerated).
Correspondence: generated (also partially filled) populations x random state
assignments x three save/load cycles through STEPfile::WriteWorkingFile /
ReadWorkingFile; letters, restored states, ids, references vs the extracted model;
oracle from the statement (population as an exchange round trip would give it,
deleted instances left out, byte-identical from the second generation on)."""
import os
import shutil
import sys

sys.path.insert(0, os.path.dirname(os.path.abspath(__file__)))
from common import *  # noqa
from schemalib import schema_lib, schema_harness
import p21tok
import popgen
import translate
from c14 import ser_param, refs_of
from c15 import top_level_split

PID = "C16"
ST = {"C": 1, "I": 2, "D": 3, "N": 4}


def strip_ts(data):
    return [l for l in data.split(b"\n") if not l.startswith(b"FILE_NAME")]


def scrub(p, live):
    k = p[0]
    if k == "ref":
        return p if p[1] in live else ("null",)
    if k == "typed":
        return ("typed", p[1], scrub(p[2], live))
    if k == "list":
        return ("list", [scrub(x, live) for x in p[1]])
    return p


def nested_gone(p, live, depth=0):
    """The property does not say what becomes of a reference to an instance that was left out.  The reader unsets it
    where the attribute (or aggregate element) is an entity reference; inside an aggregate of aggregates the element is
    kept as text.  Both are accepted there: a reference to a deleted instance and an unset element compare equal."""
    k = p[0]
    if k == "list":
        return ("list", [nested_gone(x, live, depth + 1) for x in p[1]])
    if depth >= 2 and (k == "null" or (k == "ref" and p[1] not in live)):
        return ("gone",)
    if k == "typed":
        return ("typed", p[1], nested_gone(p[2], live, depth))
    return p


def main(tier, seed):
    res = Result(PID, tier, seed)
    try:
        translate.run_all(PID)
    except translate.AnchorLost as e:
        res.violation("translator lost its anchor: %s" % e, {"theorem_or_correspondence": "tools/translate.py gen_wsletters"}, found_input=False)
    pr = coq_prove(PID)
    proof_coverage(res, pr, ["coq/gen/WsLetters.v regenerated from editordefines.h and STEPfile.cc (EntityWfState, "
                             "WriteWorkingData, strchr letter test) by tools/translate.py",
                             "values are as in the exchange-file round trip (C01); this check adds states and deletion"])
    if pr["forbidden"]:
        res.violation("forbidden vernacular in coq/", {"forbidden": pr["forbidden"]}, found_input=False)
    try:
        bdir = build_impl("dbg")
        sl = schema_lib(bdir, os.path.join(VERIF, "schemas", "verif_all.exp"))
        if not sl["ok"]:
            raise BuildError("schema library does not build:\n" + sl["log"])
        hfile = schema_harness(bdir, sl, "h_file")
        extract_and_build_drivers()
    except BuildError as e:
        res.violation("build failed: %s" % e, {"error": str(e)}, found_input=False)
        res.coverage.update({"evaluations": 0, "distinct_nontrivial": 0})
        return res.finish()
    drv = driver("drv_c16")
    wdir = os.path.join(bdir, "verif-work", "c16-%d" % os.getpid())
    os.makedirs(wdir, exist_ok=True)
    n = 300 if tier == "quick" else 8000
    evals = 0
    nontrivial = 0
    oracle_fail = 0
    disagreements = 0
    samples = []
    hist = {"with_deleted": 0, "with_incomplete_values": 0, "states": {"C": 0, "I": 0, "D": 0, "N": 0}}
    for k in range(n):
        r = rng(seed, "c16/%d" % k)
        # every fourth population carries comments inside its records (kept per instance and written back
        # between the state letter and the id)
        g = popgen.Gen(r, fancy=(k % 4 == 3))
        insts = g.population(r.choice([3, 6, 10]))
        partial = set()
        # partially filled populations: unset a required attribute of some simple instances
        if k % 3 == 1:
            for inst in insts:
                if not inst["complex"] and r.random() < 0.3:
                    spans = top_level_split(inst["toks"])
                    ai = r.randrange(len(spans))
                    a, b = spans[ai]
                    if inst["toks"][a:b] not in (["$"], ["*"]):
                        inst["toks"] = inst["toks"][:a] + ["$"] + inst["toks"][b:]
                        ps = list(inst["parts"][0][1])
                        ps[ai] = ("null",)
                        inst["parts"] = [(inst["parts"][0][0], ps)]
                        partial.add(inst["id"])
            if partial:
                hist["with_incomplete_values"] += 1
        data, order = g.render(insts, shuffle=False)
        fin = os.path.join(wdir, "in.p21")
        open(fin, "wb").write(data)
        # state assignment (by index in the instance manager = file order)
        states = {}
        # strict mode keeps a missing required value unset (lenient mode substitutes 0 / '' on the first read, C15)
        cmd = [hfile] + (["strict"] if partial else []) + ["read", fin]
        for idx, inst in enumerate(order):
            letter = r.choice("CCCINND") if inst["id"] not in partial else r.choice("IIND")
            if k % 5 == 0:
                letter = r.choice("CIN")      # sessions without deleted instances
            states[inst["id"]] = letter
            hist["states"][letter] += 1
            cmd += ["state", "%d:%d" % (idx, {"C": 0, "I": 1, "D": 2, "N": 3}[letter])]
        if "D" in states.values():
            hist["with_deleted"] += 1
        w = [os.path.join(wdir, "w%d.p21" % j) for j in range(1, 4)]
        for f in w:
            if os.path.exists(f):
                os.remove(f)
        cmd += ["writews", w[0], "readws", w[0], "dump", "-", "writews", w[1], "readws", w[1], "writews", w[2]]
        rc, out, err = shb(cmd, timeout=120)
        txt = out.decode("latin-1").replace("\x00", "")
        evals += 1
        nontrivial += 1
        what = None
        try:
            f1 = p21tok.parse_file(open(w[0], "rb").read())
            f2 = open(w[1], "rb").read()
            f3 = open(w[2], "rb").read()
        except (OSError, p21tok.P21Error) as e:
            what = "working-session file missing or unparsable: %s" % e
        if what is None:
            # letters written
            got_letters = {i["id"]: i["state"] for i in f1["data"]}
            if got_letters != states:
                what = "state letters written %s, assigned %s" % (got_letters, states)
        if what is None:
            # restored session: dump after the first load
            live = [i["id"] for i in order if states[i["id"]] != "D"]
            dumped = []
            for l in txt.split("\n"):
                if l.startswith("INST "):
                    p = l.split(" ", 3)
                    rest = p[3]
                    # "<Entity or (parts)> <state> | ..."
                    head = rest.split(" | ")[0]
                    st = int(head.split()[-1])
                    dumped.append((int(p[2][1:]), st))
            exp = [(i, ST[states[i]]) for i in live]
            if dumped != exp:
                what = "restored (id, state) %s, expected %s (deleted instances left out, states kept)" % (dumped, exp)
        if what is None:
            # values of the restored population = exchange round trip values, references to deleted unset
            p2 = p21tok.parse_file(f2)
            liveset = set(live)
            exp_insts = []
            for i in order:
                if i["id"] in liveset:
                    parts = [(kw, [p21tok.norm_param(nested_gone(scrub(x, liveset), liveset)) for x in ps]) for kw, ps in i["parts"]]
                    exp_insts.append((i["id"], states[i["id"]], sorted(parts) if i["complex"] else parts))
            got_insts = []
            for i in p2["data"]:
                parts = [(kw, [p21tok.norm_param(nested_gone(x, liveset)) for x in ps]) for kw, ps in i["parts"]]
                got_insts.append((i["id"], i["state"], sorted(parts) if i["complex"] else parts))
            if exp_insts != got_insts:
                for x, y in zip(exp_insts, got_insts):
                    if x != y:
                        what = "restored instance differs: expected %s got %s" % (x, y)
                        break
                else:
                    what = "restored population has %d instances, expected %d" % (len(got_insts), len(exp_insts))
        if what is None and strip_ts(f2) != strip_ts(f3):
            what = "saving the restored session twice does not reproduce the file"
        if what is None and "D" not in states.values():
            f1b = open(w[0], "rb").read()
            if strip_ts(f1b) != strip_ts(f2):
                what = "no instance deleted, yet the re-saved file differs from the first save"
        if what:
            oracle_fail += 1
            os.makedirs(res.replay_dir, exist_ok=True)
            dst = os.path.join(res.replay_dir, "c16-%d-%d.p21" % (seed, k))
            shutil.copy(fin, dst)
            res.violation(what, {"input_file": dst, "states": states, "replay": " ".join(cmd).replace(fin, dst)})
            continue
        # correspondence with the model
        req = ["WS"]
        for i in order:
            req += ["%d%d" % (ST[states[i["id"]]], i["id"]), "{"]
            for kw, ps in i["parts"]:
                req += [kw, "("]
                for j, p in enumerate(ps):
                    if j:
                        req.append(",")
                    req += ser_param(p)
                req.append(")")
            req.append("}")
        rc2, mo, me = sh([drv], input=(" ".join(req) + "\n").encode(), timeout=60)
        m = mo.strip().split()
        try:
            i_save, i_load, i_save2 = m.index("SAVE"), m.index("LOAD"), m.index("SAVE2")
            m_letters = m[i_save + 1] if i_load > i_save + 1 else ""
            m_load = m[i_load + 1:i_save2]
            m_letters2 = m[i_save2 + 1] if len(m) > i_save2 + 1 else ""
        except ValueError:
            m_letters, m_load, m_letters2 = None, [], None
        impl_letters = "".join(i["state"] for i in f1["data"])
        p2 = p21tok.parse_file(f2)
        impl_load = []
        for i in p2["data"]:
            parts = i["parts"]
            rs = [r_ for (_, ps) in parts for p in ps for r_ in refs_of(p)]
            impl_load.append((ST[i["state"]], i["id"], sorted(rs)))
        model_load = []
        for ent in m_load:
            st, i, rs = ent.split(":")
            model_load.append((int(st), int(i), sorted(int(x) for x in rs.split(",") if x)))
        impl_letters2 = "".join(i["state"] for i in p2["data"])
        if m_letters != impl_letters or model_load != impl_load or m_letters2 != impl_letters2:
            disagreements += 1
            res.violation("model WorkSession.v and STEPfile disagree",
                          {"model": mo.strip()[:1500], "impl_letters": impl_letters, "impl_load": impl_load[:20],
                           "theorem_or_correspondence": "correspondence C16: coq/WorkSession.v vs WriteWorkingFile/ReadWorkingFile"},
                          found_input=False)
        if len(samples) < 2:
            samples.append({"states": "".join(states[i["id"]] for i in order), "second_generation": impl_letters2})
    shutil.rmtree(wdir, ignore_errors=True)
    if not pr["ok"]:
        res.violation("Properties_C16.v no longer checks (%s)" % ", ".join(pr["failed"] or ["see log"]),
                      {"theorem_or_correspondence": "coq/Properties_C16.v", "log": pr["log"]}, found_input=False)
    res.coverage.update({
        "evaluations": evals,
        "distinct_nontrivial": nontrivial,
        "rule": "%d generated populations (one third with required attributes unset) x random assignment of "
                "complete/incomplete/new/delete (one fifth without deletions) x save, load, dump, save, load, save; "
                "every history is non-trivial (>= 3 instances, 3 cycles)" % n,
        "samples": samples or ["(none)"],
        "histogram": hist,
        "traces_validated_against_impl": evals,
        "correspondence_disagreements": disagreements,
        "oracle_failures": oracle_fail,
        "unproved_clauses": ["byte-level layout of the working-session file (covered by the idempotence oracle)"],
    })
    res.assumptions = ["'saving again reproduces the file' is read as: from the second generation on (see Properties_C16.v)"]
    return res.finish()


if __name__ == "__main__":
    tier = os.environ.get("VERIF_TIER", "quick")
    if "--tier" in sys.argv:
        tier = sys.argv[sys.argv.index("--tier") + 1]
    sys.exit(main(tier, int(os.environ.get("VERIF_SEED", "1"))))
