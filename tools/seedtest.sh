#!/bin/bash
# usage: tools/seedtest.sh <ID> <seeded dir> [tier]   -- apply the patch to /repo, run the check, undo.
# prints CAUGHT / MISSED and appends the outcome to <seeded dir>/result.txt
set -u
id=$1; dir=$2; tier=${3:-quick}
cd /repo || exit 2
if [ -n "$(git status --porcelain --untracked-files=no)" ]; then echo "/repo not clean"; exit 2; fi
git apply "$dir/patch.diff" || { echo "patch does not apply"; exit 2; }
out=$(mktemp)
( cd /verif && ./check "$id" --tier "$tier" ) > "$out" 2>&1
rc=$?
git -C /repo checkout -- .
n=$(grep -c '^VIOLATION' "$out")
if [ $rc -ne 0 ] && [ "$n" -gt 0 ]; then verdict=CAUGHT; else verdict=MISSED; fi
echo "$verdict id=$id tier=$tier rc=$rc violations=$n first: $(grep -A1 '^VIOLATION' "$out" | grep '^  ->' | head -1 | cut -c1-220)"
echo "$(date -u +%FT%TZ) $verdict check=$id tier=$tier rc=$rc violations=$n :: $(grep -A1 '^VIOLATION' "$out" | grep '^  ->' | head -1 | cut -c1-300)" >> "$dir/result.txt"
rm -f "$out"
