#!/bin/bash
# usage: tools/seedtest.sh <ID> <seeded dir> [tier]
# Applies the patch in a scratch worktree of /repo (/var/tmp/wt-seed, at /repo's HEAD), runs the check against that
# tree (VERIF_REPO) from a scratch copy of /verif (/var/tmp/verif-seed), and undoes it: neither /repo nor /verif is
# touched, so other checks can run at the same time.
# prints CAUGHT / MISSED and appends the outcome to <seeded dir>/result.txt
set -u
id=$1; dir=$2; tier=${3:-quick}
W=/var/tmp/wt-seed
head=$(git -C /repo rev-parse HEAD)
if [ ! -d "$W" ]; then git -C /repo worktree add -q --detach "$W" "$head" || exit 2; fi
cd "$W" || exit 2
git checkout -q -- . && git checkout -q --detach "$head" || exit 2
# a later fix: commit may touch the lines of a seeded change: patch.rebased.diff is the same change on the current tree
pf="$dir/patch.diff"; [ -f "$dir/patch.rebased.diff" ] && pf="$dir/patch.rebased.diff"
git apply "$pf" || { echo "patch does not apply"; exit 2; }
out=$(mktemp)
# a scratch copy of /verif too: regenerated coq/gen files, evidence and replays of the seeded run stay out of /verif
V=/var/tmp/verif-seed
mkdir -p "$V"
rsync -a --delete --exclude .git --exclude replays --exclude evidence --exclude seeded /verif/ "$V"/
mkdir -p "$V/evidence" "$V/replays"
( cd "$V" && VERIF_REPO="$W" ./check "$id" --tier "$tier" ) > "$out" 2>&1
rc=$?
git -C "$W" checkout -q -- .
n=$(grep -c '^VIOLATION' "$out")
if [ $rc -ne 0 ] && [ "$n" -gt 0 ]; then verdict=CAUGHT; else verdict=MISSED; fi
echo "$verdict id=$id tier=$tier rc=$rc violations=$n first: $(grep -A1 '^VIOLATION' "$out" | grep '^  ->' | head -1 | cut -c1-220)"
echo "$(date -u +%FT%TZ) $verdict check=$id tier=$tier rc=$rc violations=$n :: $(grep -A1 '^VIOLATION' "$out" | grep '^  ->' | head -1 | cut -c1-300)" >> "$dir/result.txt"
rm -f "$out"
