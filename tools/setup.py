#!/usr/bin/env python3
"""MANIFEST.setup_cmd: build the framework from files on disk only (offline):
full .vo build of coq/, extraction, OCaml drivers."""
import os
import sys
sys.path.insert(0, os.path.dirname(os.path.abspath(__file__)))
from common import *  # noqa


def main():
    os.makedirs(CACHE, exist_ok=True)
    tr = os.path.join(VERIF, "tools", "translate.py")
    if os.path.exists(tr):
        rc, out, err = sh([sys.executable, tr])
        print(out, err)
        if rc != 0:
            print("translators failed")
            return 1
    coq_makefile()
    rc, out, err = sh(["make", "-k", "-j", str(NCPU)], cwd=COQ, timeout=3400)
    print(out[-3000:])
    print(err[-3000:])
    if rc != 0:
        print("coq build failed (continuing: checks report which property is affected)")
    try:
        extract_and_build_drivers()
    except BuildError as e:
        print(e)
        return 1
    bad = forbidden_scan()
    if bad:
        print("forbidden vernacular:", bad)
        return 1
    return 0


if __name__ == "__main__":
    sys.exit(main())
