#!/usr/bin/env python3
"""C04 -- all EXPRESS tools give the same, correct verdict on a schema.
Coq: Properties_C04.v over coq/ExpErr.v + coq/gen/ErrTable.v (regenerated).
Correspondence / oracle: generated valid schemas and their single-fault mutants through
check-express, exppp, exp2cxx, exp2python (exit status, ERROR lines, created files);
the diagnostics printed by the tool fed to the extracted model of main(); random and
exhaustive inheritance graphs for the sub/supertype cycle check (guarded hook prints the
subtype lists the check walks)."""
import glob
import os
import re
import shutil
import sys

sys.path.insert(0, os.path.dirname(os.path.abspath(__file__)))
from common import *  # noqa
import gen_express as G
import translate

PID = "C04"
TOOLS = ["check-express", "exppp", "exp2cxx", "exp2python"]
DIAG = re.compile(r"(?:^|\s)(?:(?P<file>[^\s:]+):(?P<line>\d+): )?(?:--)?(?P<kind>ERROR|WARNING) P(?P<l>[EW])(?P<code>\d+)")


class HangBudget(Exception):
    pass


HANGS = []      # (tool, schema text) of runs that did not stop within the time limit


def run_tool(bdir, tool, exp_path, wdir, opts=(), extra_env=None):
    d = os.path.join(wdir, "out-" + tool)
    shutil.rmtree(d, ignore_errors=True)
    os.makedirs(d)
    # the schemas of this check are a few dozen lines: a run takes milliseconds; one that is still going after 40 s hangs
    # fresh heap memory is filled with a non-zero byte, so that a field nobody initialised does not pass for NULL / 0 by luck
    rc, out, err = shb([os.path.join(bdir, "bin", tool)] + list(opts) + [exp_path], cwd=d, timeout=40, env=dict({"MALLOC_PERTURB_": "165"}, **(extra_env or {})))
    if rc == 124 and err.endswith(b"TIMEOUT"):
        try:
            HANGS.append((tool, open(exp_path, encoding="latin-1").read()))
        except OSError:
            HANGS.append((tool, ""))
        if len(HANGS) >= 3:
            # do not spend the whole run waiting: three hangs are reported and the check stops
            raise HangBudget()
    txt = (out + err).decode("latin-1")
    diags = []
    for line in txt.split("\n"):
        m = DIAG.search(line)
        if m:
            diags.append((m.group("kind"), int(m.group("code")), int(m.group("line") or 0), line.strip()))
    files = sorted(os.listdir(d))
    return rc, diags, files, txt


def has_cycle(n, sub_of):
    adj = {i: [j for j in range(n) if i in sub_of[j]] for i in range(n)}   # i supertype of j
    color = {}

    def dfs(u):
        color[u] = 1
        for v in adj[u]:
            if color.get(v) == 1 or (v not in color and dfs(v)):
                return True
        color[u] = 2
        return False
    return any(u not in color and dfs(u) for u in range(n))


def main(tier, seed):
    res = Result(PID, tier, seed)
    try:
        return main_body(res, tier, seed)
    except HangBudget:
        for (tool, text) in HANGS[:3]:
            os.makedirs(res.replay_dir, exist_ok=True)
            path = os.path.join(res.replay_dir, "c04-hang-%d-%s.exp" % (seed, tool))
            open(path, "w", encoding="latin-1").write(text)
            res.violation("%s does not stop on a schema of a few lines (no verdict after 40 s); the check ends after three such runs" % tool,
                          {"input_file": path, "replay": "timeout 40 %s <file>" % tool})
        res.coverage.setdefault("evaluations", len(HANGS))
        res.coverage.setdefault("distinct_nontrivial", 0)
        return res.finish()


def main_body(res, tier, seed):
    try:
        translate.run_all(PID)
    except translate.AnchorLost as e:
        res.violation("translator lost its anchor: %s" % e, {"theorem_or_correspondence": "tools/translate.py gen_errtable"}, found_input=False)
    pr = coq_prove(PID)
    proof_coverage(res, pr, ["coq/gen/ErrTable.v regenerated from error.c / error.h / fedex.c by tools/translate.py",
                             "which diagnostics the parser and resolver raise for a schema is not modelled (except the cycle check)",
                             "guarded hook VERIF-SUBTYPES prints the subtype lists walked by the cycle check"])
    if pr["forbidden"]:
        res.violation("forbidden vernacular in coq/", {"forbidden": pr["forbidden"]}, found_input=False)
    try:
        bdir = build_impl("dbg")
        extract_and_build_drivers()
    except BuildError as e:
        res.violation("build failed: %s" % e, {"error": str(e)}, found_input=False)
        res.coverage.update({"evaluations": 0, "distinct_nontrivial": 0})
        return res.finish()
    drv = driver("drv_exp")
    wdir = os.path.join(bdir, "verif-work", "c04-%d" % os.getpid())
    os.makedirs(wdir, exist_ok=True)
    nsch = 30 if tier == "quick" else 1000
    evals = 0
    oracle_fail = 0
    disagreements = 0
    class_hist = {}
    nontrivial = set()
    samples = []

    def save(name, text):
        os.makedirs(res.replay_dir, exist_ok=True)
        p = os.path.join(res.replay_dir, name)
        open(p, "w", encoding="latin-1").write(text)
        return p

    def model_verdict(diags):
        evs = " ".join("%d:%d" % (c, l) for (_, c, l, _) in diags)
        rc, out, err = sh([drv], input=("M w1 w2 w3 w4 w5 w6 w7 w8 w9 w10 w11 ; %s ; ; \n" % evs).encode(), timeout=60)
        p = out.split()
        return (int(p[1]), int(p[3])) if len(p) >= 4 and p[0] == "M" else (None, None)

    # a catalogue of faulty schemas, one (or more) per diagnostic of the error table that a schema can provoke
    # (corpus/C04/diag/<name>.exp, first line "-- expect: PE0xx ..."): every tool rejects, names the diagnostic, writes nothing
    catalogue = []
    for pth in sorted(glob.glob(os.path.join(VERIF, "corpus", "C04", "diag", "*.exp"))):
        t_ = open(pth).read()
        m_ = re.match(r"-- expect:([^\n]*)\n", t_)
        mk_ = re.search(r"^-- known: (\S+)$", t_, re.M)
        ex_ = {"codes": [int(c[2:]) for c in m_.group(1).split()]} if m_ else {}
        if mk_:
            ex_["known"] = mk_.group(1)       # an open finding: the unchanged tools accept this faulty schema
        catalogue.append(("catalogue_" + os.path.basename(pth)[:-4], "corpus/C04/diag/" + os.path.basename(pth), t_, ex_))
    for k in range(nsch):
        r = rng(seed, "c04/%d" % k)
        S = G.gen_schema(r, name="gen_%d" % k, keywordish=(k % 4 == 0))
        cases = [("valid", "generated valid schema", G.render(S, tail_remarks=(k % 2 == 0)), {})]
        if k == 0:
            cases += catalogue
            # and a corpus of valid schemas that use what the generator does not produce (chained USE with AS, every
            # REPEAT control, recursion through a SELECT, nested functions, ALIAS / QUERY, redeclared attributes ...)
            for pth in sorted(glob.glob(os.path.join(VERIF, "corpus", "C04", "valid", "*.exp"))):
                tv_ = open(pth).read()
                mkv_ = re.search(r"^-- known: (\S+)$", tv_, re.M)      # an open finding: the unchanged tools reject this valid schema
                cases.append(("valid", "corpus/C04/valid/" + os.path.basename(pth), tv_, {"known": mkv_.group(1)} if mkv_ else {}))
            # schemas on which only the agreement of message and status is judged
            for pth in sorted(glob.glob(os.path.join(VERIF, "corpus", "C04", "other", "*.exp"))):
                cases.append(("either", "corpus/C04/other/" + os.path.basename(pth), open(pth).read(), {}))
        if k % 5 == 1:
            # multi-schema file with USE FROM
            S2 = G.gen_schema(r, name="gen_%d_b" % k, n_ent=3, n_types=2)
            S2.uses.append((S.name, [S.entities[0]["name"]]))
            cases.append(("valid", "two schemas, USE FROM", G.render(S) + "\n" + G.render(S2), {}))
        cases += G.mutants(r, S)
        for (cls, desc, text, expect) in cases:
            fexp = os.path.join(wdir, "in.exp")
            open(fexp, "w", encoding="latin-1").write(text)
            verdicts = []
            for tool in TOOLS:
                rc, diags, files, txt = run_tool(bdir, tool, fexp, wdir)
                verdicts.append((tool, rc, diags, files, txt))
                evals += 1
            class_hist[cls] = class_hist.get(cls, 0) + 1
            nontrivial.add((cls, desc.split(" ")[0]))
            what = None
            sig_c04 = None
            for (tool, rc, diags, files, txt) in verdicts:
                nerr = sum(1 for d in diags if d[0] == "ERROR")
                if rc < 0 or rc > 100:
                    what = "%s died (status %d) on %s" % (tool, rc, desc)
                elif (rc != 0) != (nerr > 0):
                    what = "%s: exit status %d with %d ERROR diagnostics (%s)" % (tool, rc, nerr, desc)
                elif rc == 0 and re.search(r"^ERROR\b", txt, re.M):
                    # a message that calls itself an error outside the numbered diagnostics
                    what = "%s prints '%s' and exits with status 0 (%s)" % (tool, re.search(r"^ERROR[^\n]*", txt, re.M).group(0)[:80], desc)
                    if "unexpected type in EXPresolve" in txt and "shared_enum_item" in desc:
                        sig_c04 = "ambiguous_enum_item_internal_error"
                elif cls == "either":
                    pass
                elif cls == "valid" and rc != 0:
                    what = "%s rejects a valid schema: %s" % (tool, [d[3] for d in diags][:2])
                elif cls != "valid" and rc == 0:
                    what = "%s accepts a schema with a %s fault (%s)" % (tool, cls, desc)
                elif cls != "valid" and files:
                    what = "%s wrote %s although it rejected the schema (%s)" % (tool, files[:3], desc)
                elif cls.startswith("catalogue_") and expect.get("codes") and not any(d[0] == "ERROR" and d[1] in expect["codes"] for d in diags):
                    what = "%s does not report PE%s for %s: %s" % (tool, "/PE".join("%03d" % c for c in expect["codes"]), desc, [d[3][-80:] for d in diags][:3])
                elif cls == "valid" and tool != "check-express" and not files:
                    what = "%s accepted the schema but produced no output" % tool
                if what:
                    break
            if what is None and cls == "either":
                pass
            if what is None and len(set(v[1] != 0 for v in verdicts)) != 1:
                what = "the tools disagree: %s (%s)" % ([(v[0], v[1]) for v in verdicts], desc)
            if what and expect.get("known") and ("accepts a schema" in what or "the tools disagree" in what or "rejects a valid schema" in what):
                sig_c04 = expect["known"]
            if what:
                oracle_fail += 1
                p = save("c04-%d-%d-%s.exp" % (seed, k, cls), text)
                res.violation(what, {"input_file": p, "class": cls, "replay": "%s/bin/check-express %s; echo $?" % (bdir, p)}, signature=sig_c04)
                continue
            # correspondence: the printed diagnostics through the model of main()
            tool, rc, diags, files, txt = verdicts[0]
            mstat, mocc = model_verdict(diags)
            if mstat is None or (mstat != 0) != (rc != 0):
                disagreements += 1
                res.violation("model main() and check-express disagree on the exit status: model %s tool %s" % (mstat, rc),
                              {"diagnostics": [d[3] for d in diags][:10],
                               "theorem_or_correspondence": "correspondence C04: coq/ExpErr.v main vs fedex.c"}, found_input=False)
            if len(samples) < 4 and cls != "valid" and k % 3 == 0:
                samples.append({"class": cls, "what": desc, "status": [v[1] for v in verdicts], "first_diag": diags[0][3] if diags else None})
    # ---- cycle check: exhaustive model sweep against an independent cycle detector
    rc, out, err = sh([drv], input=("CYCSEARCH 3\nCYCSEARCH 4 noself\n" if tier == "quick" else "CYCSEARCH 3\nCYCSEARCH 4\n").encode(), timeout=900)
    for line in out.split("\n"):
        if line.startswith("CYCSEARCH"):
            evals += 1
            m = re.search(r"graphs=(\d+) cyclic=(\d+) missed=(\d+)", line)
            if not m or int(m.group(3)) != 0:
                disagreements += 1
                res.violation("the model of the cycle check misses a cycle: " + line,
                              {"theorem_or_correspondence": "coq/ExpErr.v cyc_any vs independent DFS (exhaustive small graphs)"}, found_input=False)
            res.coverage.setdefault("cycle_sweep", []).append(line)
    # ---- cycle check on the real tool: random inheritance graphs
    ngraph = 150 if tier == "quick" else 4000
    cyc_hist = {"cyclic": 0, "acyclic": 0}
    for k in range(ngraph):
        r = rng(seed, "c04g/%d" % k)
        n = r.choice([3, 4, 4, 5, 6])
        names = ["e%d" % i for i in range(n)]
        r.shuffle(names)
        sub_of = {i: [j for j in range(n) if j != i and r.random() < 0.33] for i in range(n)}
        txt = ["SCHEMA s;"]
        order = list(range(n))
        r.shuffle(order)
        for i in order:
            subs = [j for j in range(n) if i in sub_of[j]]
            r.shuffle(subs)
            line = "ENTITY %s" % names[i]
            if subs and r.random() < 0.6:
                line += "\n  SUPERTYPE OF (%s)" % " ANDOR ".join(names[j] for j in subs)
            if sub_of[i]:
                sl = list(sub_of[i])
                r.shuffle(sl)
                line += "\n  SUBTYPE OF (%s)" % ", ".join(names[j] for j in sl)
            txt.append(line + ";\nEND_ENTITY;")
        txt.append("END_SCHEMA;")
        text = "\n".join(txt) + "\n"
        fexp = os.path.join(wdir, "g.exp")
        open(fexp, "w").write(text)
        rc, diags, files, out_txt = run_tool(bdir, "check-express", fexp, wdir)
        evals += 1
        cyc = has_cycle(n, sub_of)
        cyc_hist["cyclic" if cyc else "acyclic"] += 1
        reported = any(d[1] == 44 for d in diags)
        if cyc != reported or (cyc and rc == 0) or rc < 0 or rc > 100:
            oracle_fail += 1
            p = save("c04-cycle-%d-%d.exp" % (seed, k), text)
            res.violation("subtype graph %s a cycle, check-express %s it (exit %d)" % (
                "has" if cyc else "has no", "reports" if reported else "does not report", rc),
                {"input_file": p, "replay": "%s/bin/check-express %s" % (bdir, p)})
            continue
        hooks = [l for l in out_txt.split("\n") if l.startswith("VERIF-SUBTYPES")]
        idx = {nm: i for i, nm in enumerate(names)}
        g = []
        for l in hooks:
            head, _, rest = l[len("VERIF-SUBTYPES "):].partition(":")
            if head.strip() in idx:
                g.append("%d:%s" % (idx[head.strip()], ",".join(str(idx[x]) for x in rest.split() if x in idx)))
        if len(g) == n:
            rc2, mo, me = sh([drv], input=("G " + " ".join(g) + "\n").encode(), timeout=60)
            mp = mo.split()
            if len(mp) < 2 or (mp[1] == "1") != reported:
                disagreements += 1
                res.violation("model cyc_any and ENTITYcheck_subsuper_cyclicity disagree on %s: model %s tool %s" % (g, mp[1:2], reported),
                              {"theorem_or_correspondence": "correspondence C04: coq/ExpErr.v cyc_loop vs resolve.c"}, found_input=False)
    shutil.rmtree(wdir, ignore_errors=True)
    if not pr["ok"]:
        res.violation("Properties_C04.v no longer checks (%s)" % ", ".join(pr["failed"] or ["see log"]),
                      {"theorem_or_correspondence": "coq/Properties_C04.v", "log": pr["log"]}, found_input=False)
    res.coverage.update({
        "evaluations": evals,
        "distinct_nontrivial": len(nontrivial),
        "rule": "%d generated schemas (every 5th as a two-schema file with USE FROM) + their single-fault mutants (undefined "
                "type/supertype/subtype/schema/function/attribute, duplicate type/entity/attribute, subtype cycle, select "
                "cycle, subtype not listing its supertype, inherited attribute redeclared, bad INVERSE, two syntax errors) x 4 "
                "tools; %d random inheritance graphs through check-express with the subtype lists fed to the model; exhaustive "
                "model sweep of the cycle check over all graphs of 3 and 4 nodes; non-trivial = distinct (class, variant)" % (nsch, ngraph),
        "samples": samples or ["(none)"],
        "class_histogram": class_hist,
        "cycle_histogram": cyc_hist,
        "traces_validated_against_impl": evals,
        "correspondence_disagreements": disagreements,
        "oracle_failures": oracle_fail,
        "unproved_clauses": ["resolve_sound / resolve_complete for the other resolution passes (tested by the mutants only)",
                             "termination of the cycle check within its fuel (tested: exhaustive sweep, no OUT-OF-FUEL)"],
    })
    res.assumptions = ["unbuffered diagnostics (the tools' default)"]
    return res.finish()


if __name__ == "__main__":
    tier = os.environ.get("VERIF_TIER", "quick")
    if "--tier" in sys.argv:
        tier = sys.argv[sys.argv.index("--tier") + 1]
    sys.exit(main(tier, int(os.environ.get("VERIF_SEED", "1"))))
