#!/usr/bin/env python3
"""Generate C++ for an EXPRESS schema with the freshly built exp2cxx, compile it into a
shared library next to the implementation build, and build schema-specific harnesses."""
import glob
import hashlib
import os
import shutil
from concurrent.futures import ThreadPoolExecutor

from common import *  # noqa


def schema_lib(bdir, exp_path, cfg="dbg"):
    """returns dict(dir, lib, ok, log, gen_rc).  Cached per (bdir, schema text)."""
    text = open(exp_path, "rb").read()
    key = hashlib.sha256(text).hexdigest()[:12]
    base = os.path.splitext(os.path.basename(exp_path))[0]
    wdir = os.path.join(bdir, "verif-schemas", "%s-%s" % (base, key))
    done = os.path.join(wdir, ".done")
    with Lock(os.path.join(bdir, "lock-schema-" + key)):
        if os.path.exists(done):
            return {"dir": wdir, "lib": os.path.join(wdir, "libschema.so"), "ok": open(done).read().startswith("ok"),
                    "log": open(os.path.join(wdir, "build.log")).read()[-4000:]}
        shutil.rmtree(wdir, ignore_errors=True)
        os.makedirs(wdir)
        shutil.copy(exp_path, os.path.join(wdir, "schema.exp"))
        rc, out, err = sh([os.path.join(bdir, "bin", "exp2cxx"), "schema.exp"], cwd=wdir, timeout=600, env={"ASAN_OPTIONS": "detect_leaks=0"})
        log = "exp2cxx rc=%d\n%s\n%s\n" % (rc, out[-3000:], err[-3000:])
        ok = rc == 0
        if ok:
            srcs = sorted(glob.glob(os.path.join(wdir, "*_unity_entities.cc")) +
                          glob.glob(os.path.join(wdir, "*_unity_types.cc")))
            for f in sorted(glob.glob(os.path.join(wdir, "*.cc"))):
                if f not in srcs and not f.endswith("_unity_entities.cc") and not f.endswith("_unity_types.cc"):
                    srcs.append(f)
            flags = ["-std=c++11", "-w", "-fPIC", "-DSC_SDAI_UNITY_BUILD", "-D" + GUARD] + CFG_FLAGS[cfg].split() + \
                    ["-I" + wdir, "-I" + os.path.join(REPO, "include"), "-I" + os.path.join(bdir, "include")] + \
                    ["-I" + os.path.join(REPO, "src", d) for d in ("cldai", "cleditor", "clutils", "clstepcore", "cllazyfile")]

            def cc(src):
                obj = src[:-3] + ".o"
                r, o, e = sh(["g++"] + flags + ["-c", src, "-o", obj], timeout=1800)
                return r, obj, (o + e)[-3000:]
            with ThreadPoolExecutor(max_workers=8) as ex:
                results = list(ex.map(cc, srcs))
            objs = []
            for r, obj, l in results:
                if r != 0:
                    ok = False
                    log += "compile failed: %s\n%s\n" % (obj, l)
                objs.append(obj)
            if ok:
                r, o, e = sh(["g++", "-shared", "-o", os.path.join(wdir, "libschema.so")] + objs +
                             ["-L" + os.path.join(bdir, "lib"), "-Wl,--no-as-needed", "-Wl,--disable-new-dtags",
                              "-Wl,-rpath," + os.path.join(bdir, "lib")] + ["-l" + l for l in CORE_LIBS] +
                             CFG_FLAGS[cfg].split(), timeout=600)
                if r != 0:
                    ok = False
                    log += "link failed:\n" + (o + e)[-3000:]
        open(os.path.join(wdir, "build.log"), "w").write(log)
        open(done, "w").write("ok" if ok else "failed")
        return {"dir": wdir, "lib": os.path.join(wdir, "libschema.so"), "ok": ok, "log": log[-4000:]}


def schema_harness(bdir, sl, name, cfg="dbg", extra_libs=(), extra_src=()):
    """compile harness/<name>.cc against a schema library; returns exe path"""
    src = os.path.join(HARNESS, name + ".cc")
    exe = os.path.join(sl["dir"], name)
    sig = hashlib.sha256(open(src, "rb").read()).hexdigest()
    stamp = exe + ".stamp"
    if os.path.exists(exe) and os.path.exists(stamp) and open(stamp).read() == sig:
        return exe
    cmd = ["g++", "-std=c++11", "-w", "-D" + GUARD] + CFG_FLAGS[cfg].split() + \
          ["-I" + sl["dir"], "-I" + os.path.join(REPO, "include"), "-I" + os.path.join(bdir, "include"),
           "-I" + os.path.join(REPO, "src"), "-I" + os.path.join(REPO, "src", "test", "p21read"),
           "-I" + os.path.join(REPO, "src", "cllazyfile"), "-I" + HARNESS] + \
          ["-I" + os.path.join(REPO, "src", d) for d in ("cldai", "cleditor", "clutils", "clstepcore")] + \
          [src] + list(extra_src) + ["-L" + sl["dir"], "-lschema", "-L" + os.path.join(bdir, "lib")] + \
          ["-l" + l for l in list(extra_libs) + CORE_LIBS] + \
          ["-Wl,--disable-new-dtags", "-Wl,-rpath," + sl["dir"], "-Wl,-rpath," + os.path.join(bdir, "lib"), "-o", exe]
    rc, out, err = sh(cmd, timeout=900)
    if rc != 0:
        raise BuildError("schema harness %s failed:\n%s" % (name, (out + err)[-4000:]))
    open(stamp, "w").write(sig)
    return exe


def p21read_exe(bdir, sl, cfg="dbg"):
    """the reference tool p21read built against the schema library"""
    exe = os.path.join(sl["dir"], "p21read")
    if os.path.exists(exe):
        return exe
    d = os.path.join(REPO, "src", "test", "p21read")
    cmd = ["g++", "-std=c++11", "-w"] + CFG_FLAGS[cfg].split() + \
          ["-I" + sl["dir"], "-I" + os.path.join(REPO, "include"), "-I" + os.path.join(bdir, "include"), "-I" + d] + \
          ["-I" + os.path.join(REPO, "src", x) for x in ("cldai", "cleditor", "clutils", "clstepcore")] + \
          [os.path.join(d, "p21read.cc"), os.path.join(d, "sc_benchmark.cc"),
           "-L" + sl["dir"], "-lschema", "-L" + os.path.join(bdir, "lib")] + ["-l" + l for l in CORE_LIBS] + \
          ["-Wl,-rpath," + sl["dir"], "-Wl,-rpath," + os.path.join(bdir, "lib"), "-o", exe]
    rc, out, err = sh(cmd, timeout=900)
    if rc != 0:
        raise BuildError("p21read failed to build:\n" + (out + err)[-4000:])
    return exe


def scanner_exe(bdir):
    """build cmake/schema_scanner from /repo's working tree the way its own CMakeLists does
    (source list read from that file); cached in the per-tree build directory"""
    import re
    exe = os.path.join(bdir, "bin", "schema_scanner")
    with Lock(os.path.join(bdir, "lock-scanner")):
        if os.path.exists(exe):
            return exe
        cml = open(os.path.join(REPO, "cmake", "schema_scanner", "CMakeLists.txt")).read()
        m = re.search(r"set\(schema_scanner_src(.*?)\)", cml, re.S)
        if not m:
            raise BuildError("cmake/schema_scanner/CMakeLists.txt: source list not found")
        srcs = []
        for w in m.group(1).split():
            w = w.replace("${SC_ROOT}", REPO).replace("${CMAKE_CURRENT_SOURCE_DIR}", os.path.join(REPO, "cmake", "schema_scanner"))
            srcs.append(w)
        defs = re.findall(r"target_compile_definitions\(schema_scanner PUBLIC ([^)]*)\)", cml)
        dflags = ["-D" + d for d in (defs[-1].split() if defs else ["SC_STATIC", "SCHEMA_SCANNER"])]
        odir = os.path.join(bdir, "verif-scanner")
        os.makedirs(odir, exist_ok=True)
        inc = ["-I" + os.path.join(REPO, p) for p in ("include", "src/express", "src/express/generated", "src/exp2cxx")] + \
              ["-I" + os.path.join(bdir, "include")]

        def cc(src):
            obj = os.path.join(odir, os.path.basename(src) + ".o")
            comp = ["g++", "-std=c++11"] if src.endswith(".cc") else ["gcc"]
            r, o, e = sh(comp + ["-w", "-g", "-O0", "-D" + GUARD] + dflags + inc + ["-c", src, "-o", obj], timeout=600)
            return r, obj, (o + e)[-2000:]
        with ThreadPoolExecutor(max_workers=16) as ex:
            results = list(ex.map(cc, srcs))
        for r, obj, l in results:
            if r != 0:
                raise BuildError("schema_scanner: compiling %s failed:\n%s" % (obj, l))
        r, o, e = sh(["g++", "-o", exe + ".tmp"] + [obj for _, obj, _ in results], timeout=600)
        if r != 0:
            raise BuildError("schema_scanner: link failed:\n" + (o + e)[-2000:])
        os.rename(exe + ".tmp", exe)
        return exe
