#!/usr/bin/env python3
"""C03 -- the reader never reports a schema-violating exchange file as clean.
Coq: Properties_C03.v (severity bookkeeping from one bad instance to the file verdict
and exit status, any population).  Fault-injection correspondence: conforming
populations of schemas/verif_all.exp, each altered by ONE violation from the listed
classes at some instance/attribute position, through h_file and the real p21read:
file severity, exit status, hooked per-instance outcomes vs the model, and the values
of every untouched instance (confinement)."""
import os
import re
import shutil
import sys

sys.path.insert(0, os.path.dirname(os.path.abspath(__file__)))
from common import *  # noqa
from schemalib import schema_lib, schema_harness, p21read_exe
import p21tok
import popgen
import translate
from c15 import top_level_split, kind_of, run_model

PID = "C03"

WRONG_KIND = {
    "KInteger": ["'str'", ".RED.", "(1)", "#1", "1.5E3x", "20.75", "3."],
    "KReal": ["'str'", ".T.", "(1.)", "abc"],
    "KNumber": ["'s'", ".T."],
    "KString": ["12", ".RED.", "(1)", "4.5"],
    "KBinary": ["12", "'1F'", ".T."],
    "KBoolean": ["1", "'T'", ".MAYBE.", ".U."],
    "KLogical": ["1", "'T'", ".MAYBE."],
    "KEnum": ["1", "'RED'", ".PURPLE.", ".T."],
    "KEntity": ["'x'", "12", ".T.", "#999999"],
    "KAggregate": ["12", "'x'", "$"],
    "KSelect": ["COLOR(.RED.)", "NOSUCH(1)", ".T.", "12"],
}


def mutate(r, g, insts, per_class=2):
    """one fault per returned case: (class, description, new_insts, faulty_id, swallow).
    Candidates are enumerated for every instance and attribute; per_class of each class are kept."""
    cands = []

    for idx, inst in enumerate(insts):
        def with_toks(toks, idx=idx, inst=inst, **kw):
            m = dict(inst)
            m["toks"] = toks
            m.update(kw)
            return insts[:idx] + [m] + insts[idx + 1:]

        toks = inst["toks"]
        iid = inst["id"]
        if not inst["complex"]:
            ent = inst["parts"][0][0]
            spans = top_level_split(toks)
            attrs = popgen.all_attrs(ent)
            if len(spans) == len(attrs) and spans:
                a, b = spans[-1]
                if len(spans) > 1:
                    cands.append(("too_few_params", "%s: last parameter dropped" % ent, with_toks(toks[:a - 1] + toks[b:]), iid, False))
                else:
                    cands.append(("too_few_params", "%s: only parameter dropped" % ent, with_toks(toks[:a] + toks[b:]), iid, False))
                cands.append(("too_many_params", "%s: extra parameter" % ent, with_toks(toks[:b] + [",", "1"] + toks[b:]), iid, False))
                for ai in range(len(spans)):
                    owner, an, at, opt, der = attrs[ai]
                    a, b = spans[ai]
                    kind = kind_of(at)
                    if (ent, an) in popgen.DERIVED_IN:
                        cands.append(("value_for_derived", "%s.%s derived but given a value" % (ent, an),
                                      with_toks(toks[:a] + ["7"] + toks[b:]), iid, False))
                        continue
                    for bad in WRONG_KIND[kind]:
                        if bad == "$" and opt:
                            continue
                        if kind == "KSelect" and "(" in bad and bad.split("(")[0] in [m_[0] for m_ in at[1]]:
                            continue        # a member of this very select (top_sel lists color): not a fault
                        cls = "wrong_kind"
                        if bad in (".PURPLE.", ".MAYBE."):
                            cls = "undeclared_enum_item"
                        elif bad == "#999999":
                            cls = "dangling_reference"
                        elif bad == "$":
                            cls = "missing_required_aggregate"
                        elif kind == "KSelect":
                            cls = "select_outside_list"
                        cands.append((cls, "%s.%s (%s%s) := %s" % (owner, an, kind, " optional" if opt else "", bad), with_toks(toks[:a] + [bad] + toks[b:]), iid, False))
                    cands.append(("star_not_derived", "%s.%s (%s) := *" % (owner, an, kind), with_toks(toks[:a] + ["*"] + toks[b:]), iid, False))
                    # characters that belong to no token between a good value and its delimiter
                    if toks[a:b] not in (["$"], ["*"]):
                        gk = kind + ("_ref" if kind == "KSelect" and toks[a].startswith("#") else "")
                        cands.append(("garbage_after_value", "%s.%s (%s%s) := <value> @@" % (owner, an, gk, " optional" if opt else ""),
                                      with_toks(toks[:b] + [" @@"] + toks[b:]), iid, False))
                    # one element of an aggregate of simple values replaced by a literal of the wrong kind: first, middle, last
                    if kind == "KAggregate" and toks[a] == "(" and toks[b - 1] == ")" and not isinstance(at[1], tuple) or \
                            (kind == "KAggregate" and toks[a] == "(" and toks[b - 1] == ")" and isinstance(at[1], tuple) and at[1][0] == "enum"):
                        inner = toks[a + 1:b - 1]
                        if "(" not in inner and inner:
                            elems = [j for j, t_ in enumerate(inner) if t_ != ","]
                            ek = kind_of(at[1])
                            for pos_name, j in (("first", elems[0]), ("middle", elems[len(elems) // 2]), ("last", elems[-1])):
                                if len(elems) < 2 and pos_name != "first":
                                    continue
                                for badv in WRONG_KIND.get(ek, [])[:3]:
                                    if badv in ("$", "(1)", "(1.)"):
                                        continue
                                    ni = inner[:j] + [badv] + inner[j + 1:]
                                    cands.append(("wrong_kind_element" if badv not in (".PURPLE.", ".MAYBE.") else "undeclared_enum_item",
                                                  "%s.%s (aggregate of %s, %s element of %d) := %s" % (owner, an, ek, pos_name, len(elems), badv),
                                                  with_toks(toks[:a + 1] + ni + toks[b - 1:]), iid, False))
                    # an element of an inner aggregate (LIST OF LIST OF INTEGER) replaced by a literal of the wrong kind
                    if kind == "KAggregate" and isinstance(at[1], tuple) and at[1][0] == "agg" and toks[a] == "(":
                        inner_pos = [j for j in range(a + 1, b - 1) if toks[j] not in ("(", ")", ",")]
                        if inner_pos:
                            j = r.choice(inner_pos)
                            for badv in ("'x'", ".T."):
                                cands.append(("wrong_kind_element", "%s.%s (nested aggregate of %s) inner element := %s" % (owner, an, kind_of(at[1][1]), badv),
                                              with_toks(toks[:j] + [badv] + toks[j + 1:]), iid, False))
                    # a reference to an instance that does not exist, held by a SELECT attribute or by an aggregate of selects
                    # a malformed or ill-typed literal inside the typed parameter of a SELECT (and of an element of a list of them)
                    sel_members = at[1] if kind == "KSelect" else (at[1][1] if kind == "KAggregate" and isinstance(at[1], tuple) and at[1][0] == "select" else None)
                    if sel_members and toks[a] != "$":
                        kws_ = [m_[0] for m_ in sel_members if m_[0]]
                        for bad_, why_ in ((["LENGTH_MEASURE", "(", "2", ")"], "an integer for a REAL"), (["COUNT_MEASURE", "(", "12abc", ")"], "letters after an INTEGER"),
                                           (["COUNT_MEASURE", "(", "7.5", ")"], "a real for an INTEGER"), (["LABEL", "(", "12", ")"], "an integer for a STRING"),
                                           (["LENGTH_MEASURE", "(", "'x'", ")"], "a string for a REAL"), (["LENGTH_MEASURE", "(", ".5", ")"], "a REAL without digits before the point"),
                                           (["RATIO_MEASURE", "(", ".T.", ")"], "an enumeration for a NUMBER"), (["COUNT_MEASURE", "(", ")"], "no value")):
                            if bad_[0] in kws_:
                                newv_ = bad_ if kind == "KSelect" else ["("] + bad_ + [")"]
                                cands.append(("typed_param_bad_literal", "%s.%s (%s) := %s: %s" % (owner, an, kind, "".join(bad_), why_),
                                              with_toks(toks[:a] + newv_ + toks[b:]), iid, False))
                    if kind == "KSelect" and any(m_[0] is None for m_ in at[1]):
                        cands.append(("dangling_reference", "%s.%s (KSelect) := #999999" % (owner, an), with_toks(toks[:a] + ["#999999"] + toks[b:]), iid, False))
                    if kind == "KAggregate" and isinstance(at[1], tuple) and at[1][0] == "select" and any(m_[0] is None for m_ in at[1][1]):
                        cands.append(("dangling_reference", "%s.%s (aggregate of KSelect) := (#999999)" % (owner, an), with_toks(toks[:a] + ["(", "#999999", ")"] + toks[b:]), iid, False))
                        inner = toks[a + 1:b - 1] if toks[a] == "(" else []
                        if inner and "(" not in inner:
                            cands.append(("dangling_reference", "%s.%s (aggregate of KSelect, appended) := (..., #999999)" % (owner, an),
                                          with_toks(toks[:b - 1] + [",", "#999999"] + toks[b - 1:]), iid, False))
                    if kind == "KEntity":
                        wrong = [i["id"] for i in insts if not i["complex"] and not any(popgen.VERIF_ALL.isa(i["parts"][0][0], e_) for e_ in at[1])]
                        if wrong:
                            w = r.choice(wrong)
                            cands.append(("ill_typed_reference", "%s.%s := #%d (wrong entity type)" % (owner, an, w),
                                          with_toks(toks[:a] + ["#%d" % w] + toks[b:]), iid, False))
                    if kind == "KAggregate" and at[1][0] == "ref" if isinstance(at[1], tuple) else False:
                        wrong = [i["id"] for i in insts if not i["complex"] and not any(popgen.VERIF_ALL.isa(i["parts"][0][0], e_) for e_ in at[1][1])]
                        if wrong:
                            w = r.choice(wrong)
                            cands.append(("ill_typed_reference", "%s.%s := (#%d) (wrong entity type in aggregate)" % (owner, an, w),
                                          with_toks(toks[:a] + ["(", "#%d" % w, ")"] + toks[b:]), iid, False))
                        cands.append(("dangling_reference", "%s.%s := (#999999)" % (owner, an),
                                      with_toks(toks[:a] + ["(", "#999999", ")"] + toks[b:]), iid, False))
            cands.append(("unknown_keyword", "NOSUCH_ENTITY", with_toks(["NOSUCH_ENTITY"] + toks[1:]), iid, False))
            if ent in ("LEFTY", "RIGHTY", "EXTRA"):
                cands.append(("abstract_keyword", "BASE instantiated", with_toks(["BASE", "(", "1", ")"]), iid, False))
        else:
            cands.append(("illegal_complex", "ONEOF violated",
                          with_toks(["(", "BASE", "(", "1", ")", "LEFTY", "(", "'l'", ")", "RIGHTY", "(", "1.", ")", ")"]), iid, False))
            cands.append(("illegal_complex", "unknown part",
                          with_toks(["(", "BASE", "(", "1", ")", "NOSUCH", "(", "'l'", ")", ")"]), iid, False))
            # an unknown part before, between and after the parts of a legal combination (they are written in alphabetical order)
            for where_, unk_ in (("first", "AAA_NOSUCH"), ("middle", "FFF_NOSUCH"), ("last", "ZZZ_NOSUCH")):
                legal_ = [["BASE", "(", "1", ")"], ["EXTRA", "(", ".RED.", ")"], ["LEFTY", "(", "'l'", ")"]]
                pos_ = {"first": 0, "middle": 2, "last": 3}[where_]
                parts_ = legal_[:pos_] + [[unk_, "(", "7", ")"]] + legal_[pos_:]
                cands.append(("unknown_part", "unknown part written %s among the parts of a legal combination" % where_,
                              with_toks(["("] + [t_ for p_ in parts_ for t_ in p_] + [")"]), iid, False))
            # the same part twice
            for dupi_ in (0, 1, 2):
                legal_ = [["BASE", "(", "1", ")"], ["EXTRA", "(", ".RED.", ")"], ["LEFTY", "(", "'l'", ")"]]
                second_ = [["BASE", "(", "2", ")"], ["EXTRA", "(", ".BLUE.", ")"], ["LEFTY", "(", "'m'", ")"]][dupi_]
                parts_ = legal_[:dupi_ + 1] + [second_] + legal_[dupi_ + 1:]
                cands.append(("duplicate_part", "part %s given twice" % legal_[dupi_][0],
                              with_toks(["("] + [t_ for p_ in parts_ for t_ in p_] + [")"]), iid, False))
            cands.append(("illegal_complex", "supertype missing",
                          with_toks(["(", "EXTRA", "(", ".RED.", ")", "LEFTY", "(", "'l'", ")", ")"]), iid, False))
            cands.append(("wrong_kind", "complex part value of the wrong kind",
                          with_toks(["(", "BASE", "(", "'x'", ")", "EXTRA", "(", ".RED.", ")", "LEFTY", "(", "'l'", ")", ")"]), iid, False))
            cands.append(("undeclared_enum_item", "complex part EXTRA(.PURPLE.)",
                          with_toks(["(", "BASE", "(", "1", ")", "EXTRA", "(", ".PURPLE.", ")", "LEFTY", "(", "'l'", ")", ")"]), iid, False))
            # the family whose SI_B part derives UNIT_B.dims: a value where the asterisk belongs, and faults in the other parts
            cands.append(("value_for_derived", "complex part value for derived: UNIT_B(7) beside SI_B",
                          with_toks(["(", "LEN_B", "(", "'l'", ")", "SI_B", "(", ".RED.", ")", "UNIT_B", "(", "7", ")", ")"]), iid, False))
            cands.append(("undeclared_enum_item", "complex part SI_B(.PURPLE.) beside UNIT_B(*)",
                          with_toks(["(", "LEN_B", "(", "'l'", ")", "SI_B", "(", ".PURPLE.", ")", "UNIT_B", "(", "*", ")", ")"]), iid, False))
            cands.append(("wrong_kind", "complex part LEN_B(12) beside UNIT_B(7): a tolerated value does not hide another fault",
                          with_toks(["(", "LEN_B", "(", "12", ")", "SI_B", "(", ".RED.", ")", "UNIT_B", "(", "7", ")", ")"]), iid, False))
            cands.append(("star_not_derived", "complex part UNIT_B(*) without the deriving part",
                          with_toks(["(", "LEN_B", "(", "'l'", ")", "UNIT_B", "(", "*", ")", ")"]), iid, False))
        dup = {"id": iid, "complex": False, "parts": [("ITEM", [("str", "dup")])], "toks": ["ITEM", "(", "'dup'", ")"], "dup": True}
        cands.append(("duplicate_id", "#%d twice" % iid, insts + [dup], None, False))
        # an own class when the last parameter is $ (the reader treats what follows a $ separately)
        # one class per kind of last parameter (the reader of that kind meets the text of the next instance)
        lastk = "complex"
        if not inst["complex"]:
            la = popgen.all_attrs(inst["parts"][0][0])
            lastk = kind_of(la[-1][2]) if la else "none"
            if len(toks) >= 2 and toks[-2] == "$":
                lastk = "null"
            elif lastk == "KSelect" and len(toks) >= 2 and toks[-2].startswith("#"):
                lastk = "KSelect_ref"
        cands.append(("unterminated_after_null" if lastk == "null" else "unterminated_instance", "missing ); after %s" % lastk,
                      with_toks(toks[:-1], noterm=True), iid, True))
        # the number sign of the instance name is missing: text that is no instance stands between two instances
        cands.append(("missing_number_sign", "%d=... instead of #%d=..." % (iid, iid), with_toks(toks, nohash=True), iid, False))
        # the closing parenthesis alone is missing: the record still ends at its semicolon, the neighbours are intact
        if not inst["complex"] and toks[-1] == ")":
            cands.append(("missing_close_paren", "missing ) before ; after %s" % lastk, with_toks(toks[:-1]), iid, False))
        # the same fault followed by an instance whose text reaches a ')' before any ',' (the reader of the last
        # parameter may then take the following record for the end of this one)
        extra = {"id": max(i["id"] for i in insts) + 1, "complex": False, "parts": [("ITEM", [("str", "x")])], "toks": ["ITEM", "(", "'x'", ")"]}
        broken = dict(inst)
        broken["toks"] = toks[:-1]
        broken["noterm"] = True
        cands.append(("unterminated_after_null" if lastk == "null" else "unterminated_instance", "missing ); after %s, one-parameter instance next" % lastk,
                      insts[:idx] + [broken, extra] + insts[idx + 1:], iid, True))
        for k, t in enumerate(toks):
            if t.startswith("'") and len(t) >= 2:
                cands.append(("unterminated_string", "missing closing quote", with_toks(toks[:k] + [t[:-1]] + toks[k + 1:]), iid, True))
                break
    r.shuffle(cands)
    out, seen = [], {}
    for c in cands:
        key = c[0]
        if c[0] in ("unterminated_instance", "unterminated_after_null", "missing_close_paren"):
            key = c[0] + " " + c[1]
        if " := " in c[1] and c[0] in ("wrong_kind", "wrong_kind_element", "undeclared_enum_item", "dangling_reference", "select_outside_list", "garbage_after_value"):
            key = c[0] + " " + c[1].split(" (", 1)[1]        # "<kind>) := <bad value>", optional and required apart
        if c[0] in ("too_few_params", "too_many_params") and c[1].split(":")[0] in ("DCARRIER", "LCARRIER", "SI_B", "DPOINT"):
            key = c[0] + " " + c[1].split(":")[0]                # classes with redefining or derived attributes: own path through the attribute loop
        if c[0] == "typed_param_bad_literal":
            key = c[0] + " " + c[1].split(" := ")[1] + (" agg" if "KAggregate" in c[1] else "")      # each literal, in an attribute and in a list
        if c[0] in ("unknown_part", "duplicate_part"):
            key = c[0] + " " + c[1]                              # each place of the odd part is its own class
        if c[1].startswith("complex part"):
            key = c[0] + " " + c[1]                              # each fault inside an externally mapped instance is its own class
        if c[0] == "ill_typed_reference":
            key = c[0] + " " + c[1].split(" := ")[0]             # per attribute: redeclared ones (CARRIER.load in DCARRIER) have their own reader path
        if seen.get(key, 0) < per_class:
            seen[key] = seen.get(key, 0) + 1
            out.append(c)
    return out


def render(g, insts):
    out = [("ISO-10303-21;\nHEADER;\nFILE_DESCRIPTION(('d'),'2;1');\n"
            "FILE_NAME('f','2020-01-01T00:00:00',('a'),('o'),'p','s','a');\nFILE_SCHEMA(('VERIF_ALL'));\nENDSEC;\nDATA;\n")]
    for i in insts:
        line = "%s%d=%s" % ("" if i.get("nohash") else "#", i["id"], "".join(i["toks"]))
        out.append(line + ("\n" if i.get("noterm") else ";\n"))
    out.append("ENDSEC;\nEND-ISO-10303-21;\n")
    return "".join(out).encode("latin-1")


def dump_map(txt):
    d = {}
    for l in txt.split("\n"):
        if l.startswith("INST "):
            p = l.replace("\x00", "").split(" ", 3)
            d[int(p[2][1:])] = p[3]
    return d


def main(tier, seed):
    res = Result(PID, tier, seed)
    try:
        translate.run_all(PID)
    except translate.AnchorLost as e:
        res.violation("translator lost its anchor: %s" % e, {"theorem_or_correspondence": "tools/translate.py"}, found_input=False)
    pr = coq_prove(PID)
    proof_coverage(res, pr, ["COMPLEX_APPENDS / P21READ_FAIL_AT regenerated from STEPfile.cc / p21read.cc by tools/translate.py",
                             "per-instance outcomes observed through the guarded VERIF-INST / VERIF-CINST hook",
                             "that each fault class yields a 'bad' instance outcome is tested (fault injection), not proved"])
    if pr["forbidden"]:
        res.violation("forbidden vernacular in coq/", {"forbidden": pr["forbidden"]}, found_input=False)
    try:
        bdir = build_impl("dbg")
        sl = schema_lib(bdir, os.path.join(VERIF, "schemas", "verif_all.exp"))
        if not sl["ok"]:
            raise BuildError("schema library does not build:\n" + sl["log"])
        hfile = schema_harness(bdir, sl, "h_file")
        p21read = p21read_exe(bdir, sl)
        extract_and_build_drivers()
    except BuildError as e:
        res.violation("build failed: %s" % e, {"error": str(e)}, found_input=False)
        res.coverage.update({"evaluations": 0, "distinct_nontrivial": 0})
        return res.finish()
    wdir = os.path.join(bdir, "verif-work", "c03-%d" % os.getpid())
    os.makedirs(wdir, exist_ok=True)
    npop = 25 if tier == "quick" else 2500
    evals = 0
    class_hist = {}
    nontrivial = set()
    disagreements = 0
    oracle_fail = 0
    samples = []
    # kept failures run first: files with one fault each that were once read without any report
    cdir = os.path.join(VERIF, "corpus", "C03")
    for fn in sorted(os.listdir(cdir)) if os.path.isdir(cdir) else []:
        if not fn.endswith(".p21"):
            continue
        fpath = os.path.join(cdir, fn)
        rcc, outc, errc = shb([hfile, "read", fpath, "dump", "-"], timeout=60)
        sevc = [l for l in outc.decode("latin-1").split("\n") if l.startswith("SEV read")]
        rcp, _o, _e = shb([p21read, fpath, os.path.join(wdir, "p.out")], timeout=60, cwd=wdir)
        evals += 1
        class_hist["corpus"] = class_hist.get("corpus", 0) + 1
        fsev = int(sevc[0].split()[3]) if sevc else None
        if fsev is None or fsev >= 2 or rcp == 0:
            oracle_fail += 1
            res.violation("corpus/C03/%s (one fault, kept from an earlier run): file severity %s, p21read exit %d: the violation is not reported" % (fn, fsev, rcp),
                          {"input_file": fpath, "replay": "%s %s /tmp/out.p21; echo $?" % (p21read, fpath)})
    for k in range(npop):
        r = rng(seed, "c03/%d" % k)
        g = popgen.Gen(r, fancy=False)
        insts = g.population(r.choice([4, 6, 9]))
        base = render(g, insts)
        fin = os.path.join(wdir, "in.p21")
        open(fin, "wb").write(base)
        rc, out, err = shb([hfile, "read", fin, "dump", "-"], timeout=60)
        base_dump = dump_map(out.decode("latin-1"))
        if not any(l.startswith("SEV read 3 3") for l in out.decode("latin-1").split("\n")):
            res.violation("GENERATOR BUG: unmutated population is not read clean", {"seed_case": k}, found_input=False)
            continue
        for (cls, desc, minsts, faulty, swallow) in mutate(r, g, insts, 2 if tier == 'quick' else 6):
            data = render(g, minsts)
            open(fin, "wb").write(data)
            evals += 1
            class_hist[cls] = class_hist.get(cls, 0) + 1
            nontrivial.add((cls, desc.split(":")[0].split(" ")[0]))
            rc, out, err = shb([hfile, "read", fin, "dump", "-"], timeout=60)
            txt = out.decode("latin-1")
            sevl = [l for l in txt.split("\n") if l.startswith("SEV read")]
            rc2, out2, err2 = shb([p21read, fin, os.path.join(wdir, "p.out")], timeout=60, cwd=wdir)
            file_sev = int(sevl[0].split()[3]) if sevl else None
            bad = None
            if file_sev is None:
                bad = "reader died (status %d)" % rc
            elif file_sev >= 2:
                bad = "file severity %d: the violation is not reported (p21read exit %d)" % (file_sev, rc2)
            elif rc2 == 0:
                bad = "file severity %d but p21read exits 0" % file_sev
            else:
                # confinement: every other instance is loaded with its values
                got = dump_map(txt)
                pos = [i["id"] for i in minsts].index(faulty) if faulty is not None else len(minsts)
                for j, i in enumerate(minsts):
                    if i["id"] == faulty or i.get("dup"):
                        continue
                    if swallow and j > pos:
                        continue
                    # instances that reference a lost instance may legitimately change (unresolved reference)
                    lost = set([faulty] if faulty is not None else [])
                    if swallow:
                        lost |= set(x["id"] for x in minsts[pos:])
                    if any(("#%d" % l) in i["toks"] for l in lost):
                        continue
                    if got.get(i["id"]) != base_dump.get(i["id"]):
                        # state differs only: compare without the state field
                        a = re.sub(r"^(\S+ )\d", r"\1", got.get(i["id"]) or "MISSING")
                        b = re.sub(r"^(\S+ )\d", r"\1", base_dump.get(i["id"]) or "MISSING")
                        if a != b:
                            bad = "untouched instance #%d changed: %s (was %s)" % (i["id"], got.get(i["id"]), base_dump.get(i["id"]))
                            break
            # externally mapped instances: the severity STEPcomplex::STEPread returned vs complex_sev (coq/FileSev.v) applied
            # to what the guarded hook says reading each part gave (severity, per attribute: severity and derived or not)
            cparts, cown, cinst = {}, {}, {}
            for l_ in err.decode("latin-1").split("\n"):
                h_ = l_.split()
                if h_[:1] == ["VERIF-CPART"]:
                    cparts.setdefault(int(h_[1]), []).append((h_[2], int(h_[3]), h_[4:]))
                elif h_[:1] == ["VERIF-COWN"]:
                    cown[int(h_[1])] = int(h_[2])
                elif h_[:1] == ["VERIF-CINST"]:
                    cinst.setdefault(int(h_[1]), int(h_[2]))
            for cid, own_ in cown.items():
                if cid not in cinst:
                    continue
                if cls == "duplicate_part":
                    # parts under the numbers of their names, in the order they were read: complex_sev_named
                    nums_ = {}
                    reqn = "XN %d %s" % (own_, " ".join("%d=%d:%s" % (nums_.setdefault(_nm, len(nums_) + 1), sv, ",".join(al)) for (_nm, sv, al) in cparts.get(cid, [])))
                    mxn = run_model([reqn])[0].split()
                    class_hist["complex_named_compared"] = class_hist.get("complex_named_compared", 0) + 1
                    if len(mxn) < 2 or int(mxn[1]) != cinst[cid]:
                        disagreements += 1
                        res.violation("model complex_sev_named and STEPcomplex::STEPread disagree on #%d (%s): parts %s own %d, reader %d, model %s" % (
                                      cid, desc, cparts.get(cid), own_, cinst[cid], mxn[1:2]),
                                      {"theorem_or_correspondence": "correspondence C03: coq/FileSev.v complex_sev_named vs STEPcomplex::STEPread"}, found_input=False)
                    continue
                req = "X %d %s" % (own_, " ".join("%d:%s" % (sv, ",".join(al)) for (_nm, sv, al) in cparts.get(cid, [])))
                mx = run_model([req])[0].split()
                class_hist["complex_merge_compared"] = class_hist.get("complex_merge_compared", 0) + 1
                if any(sv < 3 for (_nm, sv, al) in cparts.get(cid, [])):
                    class_hist["complex_merge_with_part_error"] = class_hist.get("complex_merge_with_part_error", 0) + 1
                if len(mx) >= 3 and "0" in mx[2] and any(sv < 3 and c_ == "0" for (_n, sv, _a), c_ in zip(cparts.get(cid, []), mx[2])):
                    class_hist["complex_merge_tolerated"] = class_hist.get("complex_merge_tolerated", 0) + 1
                if len(mx) < 2 or int(mx[1]) != cinst[cid]:
                    disagreements += 1
                    res.violation("model complex_sev and STEPcomplex::STEPread disagree on #%d (%s: %s): parts %s own %d, reader %d, model %s" % (
                                  cid, cls, desc, cparts.get(cid), own_, cinst[cid], mx[1:2]),
                                  {"theorem_or_correspondence": "correspondence C03: coq/FileSev.v complex_sev vs STEPcomplex::STEPread"}, found_input=False)
            if bad:
                oracle_fail += 1
                os.makedirs(res.replay_dir, exist_ok=True)
                path = os.path.join(res.replay_dir, "c03-%d-%d-%s.p21" % (seed, k, cls))
                open(path, "wb").write(data)
                res.violation("%s (%s): %s" % (cls, desc, bad), {"input_file": path, "class": cls,
                              "replay": "%s %s /tmp/out.p21; echo $?" % (p21read, path)}, signature=sig_of(cls, desc, bad))
                continue
            if len(samples) < 4 and evals % 37 == 1:
                samples.append({"class": cls, "what": desc, "file_severity": file_sev, "p21read_exit": rc2})
            # correspondence with the bookkeeping model
            hooks = [l.split() for l in err.decode("latin-1").split("\n") if l.startswith("VERIF-INST ") or l.startswith("VERIF-CINST ")]
            hs = {}
            for h in hooks:
                hs.setdefault(int(h[1]), ("S" if h[0] == "VERIF-INST" else "C") + h[2])
            # the attribute loop (coq/RecRead.v record_sev): severity of every simple record all of whose values are good, from
            # the number of its parameters and the places of the redefining attributes of its class alone
            if cls in ("too_few_params", "too_many_params"):
                for mi_ in [x_ for x_ in minsts if x_["id"] == faulty]:
                    if mi_["complex"] or mi_.get("dup") or mi_.get("noterm"):
                        continue
                    ent_ = mi_["parts"][0][0] if mi_["toks"][0] == mi_["parts"][0][0] else None
                    if ent_ is None or ent_ not in popgen.ENTITIES:
                        continue
                    if mi_["id"] == faulty and cls not in ("too_few_params", "too_many_params"):
                        continue            # its values are not all good
                    nexp = len(popgen.all_attrs(ent_))
                    flags = REDEF_FLAGS.get(ent_, "0" * nexp)
                    kpar = 0 if mi_["toks"][1:] == ["(", ")"] else len(top_level_split(mi_["toks"]))
                    got_ = hs.get(mi_["id"])
                    if got_ is None or not got_.startswith("S"):
                        continue
                    mr = run_model(["R %s %d" % (flags or "-", kpar)])[0].split()
                    class_hist["record_loop_compared"] = class_hist.get("record_loop_compared", 0) + 1
                    if len(mr) < 2 or int(mr[1]) != int(got_[1:]):
                        disagreements += 1
                        res.violation("model record_sev and SDAI_Application_instance::STEPread disagree on #%d %s with %d parameters (%s): reader %s, model %s" % (
                                      mi_["id"], ent_, kpar, cls, got_[1:], mr[1:2]),
                                      {"theorem_or_correspondence": "correspondence C03: coq/RecRead.v record_sev vs sdaiApplication_instance.cc STEPread"}, found_input=False)
            if not swallow and cls != "duplicate_id":
                os_ = [hs.get(i["id"], "N") for i in minsts]
                m = run_model(["F 3 1 " + " ".join(os_)])[0].split()
                if len(m) < 4 or int(m[2]) != file_sev or int(m[3]) != 1:
                    disagreements += 1
                    res.violation("model append_file and STEPfile disagree (%s: %s)" % (cls, desc),
                                  {"outcomes": os_, "model": m, "impl_file_sev": file_sev, "p21read_exit": rc2,
                                   "theorem_or_correspondence": "correspondence C03: coq/FileSev.v vs STEPfile.cc"}, found_input=False)
    shutil.rmtree(wdir, ignore_errors=True)
    if not pr["ok"]:
        res.violation("Properties_C03.v no longer checks (%s)" % ", ".join(pr["failed"] or ["see log"]),
                      {"theorem_or_correspondence": "coq/Properties_C03.v", "log": pr["log"]}, found_input=False)
    res.coverage.update({
        "evaluations": evals,
        "distinct_nontrivial": len(nontrivial),
        "rule": "%d generated conforming populations x one fault per class (too few/many parameters, wrong literal kind, "
                "unknown/abstract keyword, undeclared enumeration item, `*` on a non-derived attribute, value on a derived "
                "one, missing required aggregate, dangling / ill-typed reference, select value outside the list, illegal "
                "complex, duplicate id, unterminated instance / string) at a random instance and attribute; non-trivial = "
                "distinct (class, entity)" % npop,
        "samples": samples or ["(none)"],
        "class_histogram": class_hist,
        "traces_validated_against_impl": evals,
        "correspondence_disagreements": disagreements,
        "oracle_failures": oracle_fail,
        "unproved_clauses": ["attribute-level detection per fault class (tested by fault injection only)",
                             "confinement (tested: values of untouched instances compared with the unmutated read)"],
    })
    res.assumptions = ["for unterminated instance/string only the instances before the fault are required to survive",
                       "instances referencing the faulty instance are exempt from the confinement comparison"]
    return res.finish()


# which attributes of a class are redefining ones (they take no parameter), in the order of the instance's attribute list
REDEF_FLAGS = {"DCARRIER": "0010", "LCARRIER": "001", "RED2": "0010"}


def sig_of(cls, desc, bad):
    # a value for an attribute that another part of the same complex instance derives is tolerated on purpose (open finding)
    if desc.startswith("complex part value for derived") and ("not reported" in bad or "exits 0" in bad):
        return "complex_part_value_for_derived_tolerated"
    return None


if __name__ == "__main__":
    tier = os.environ.get("VERIF_TIER", "quick")
    if "--tier" in sys.argv:
        tier = sys.argv[sys.argv.index("--tier") + 1]
    sys.exit(main(tier, int(os.environ.get("VERIF_SEED", "1"))))
