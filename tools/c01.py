#!/usr/bin/env python3
"""C01 -- exchange files survive read-then-write with every value intact.
Coq: Properties_C01.v (token-level print/parse round trip of the Part 21 parameter
syntax, integer and string literal round trips).  Correspondence / oracle: generated
conforming populations of schemas/verif_all.exp in random layouts through the real
reader and writer (h_file), compared with an independent Part 21 parser."""
import itertools
import os
import re
import shutil
import sys

sys.path.insert(0, os.path.dirname(os.path.abspath(__file__)))
from common import *  # noqa
from schemalib import schema_lib, schema_harness, p21read_exe
import p21tok
import c10
import popgen
import translate

PID = "C01"

HDR = ("ISO-10303-21;\nHEADER;\nFILE_DESCRIPTION(('d'),'2;1');\n"
       "FILE_NAME('f','2020-01-01T00:00:00',('a'),('o'),'p','s','a');\nFILE_SCHEMA(('VERIF_ALL'));\nENDSEC;\nDATA;\n")
END = "ENDSEC;\nEND-ISO-10303-21;\n"

# minimal files for the open findings (layouts the grammar allows and the reader mishandles)
KNOWN_BAD = {
    "comment_before_delimiter": "#1=POINT('a'/* c */,1.,2.,$);\n#2=POINT('b',1./* c */,2.,3);\n",
    "comment_with_quote": "#1=POINT('a',/* ' */1.,2.,$);\n#2=POINT('b',1.,2.,3);\n",
    "comment_in_aggregate": "#4=POLY((#1,/* c */#1),(1.,2.,3.),('a','b'),(1,2),((1,2),(3)),(.RED.),$,(LABEL('x')),(),(.T.),());\n#1=POINT('a',1.,2.,$);\n",
    "comment_in_complex": "#1=(BASE(1)/* c */EXTRA(.RED.)LEFTY('l'));\n#2=POINT('b',1.,2.,3);\n",
    # values that coincide with the library's "unset" sentinels
    "integer_long_max_reads_as_unset": "#1=POINT('a',1.,2.,9223372036854775807);\n#2=POLY((#1),(1.,2.,3.),('a'),(9223372036854775807,2),((1)),(.RED.),$,(LABEL('x')),(),(.T.),());\n",
    "real_flt_min_reads_as_unset": "#1=POINT('a',1.1754943508222875E-38,2.,3);\n",
    # instance names are digit strings of any length; the reader keeps them in an int
    "instance_id_beyond_int": "#3000000000=ITEM('x');\n#2=POINT('b',1.,2.,3);\n",
    # ARRAY OF OPTIONAL: an unset element is written as a dollar sign
    "array_of_optional_dollar": "#1=OPTS($,$,$,$,$,$,$,$,(1,$,3),$);\n",
    # a select one of whose members is a renamed select
    "renamed_select_member": "#1=OPTS($,$,$,$,$,$,$,$,$,COUNT_MEASURE(7));\n",
}
# the same file without the construct the finding is about: it must read and write back, otherwise the file (a stale copy of
# an older schema, say) and not the reader is at fault.  Files not listed here get their comments stripped instead.
KNOWN_CONTROL = {
    "integer_long_max_reads_as_unset": "#1=POINT('a',1.,2.,9223372036854775806);\n#2=POLY((#1),(1.,2.,3.),('a'),(9223372036854775806,2),((1)),(.RED.),$,(LABEL('x')),(),(.T.),());\n",
    "real_flt_min_reads_as_unset": "#1=POINT('a',1.25E-38,2.,3);\n",
    "instance_id_beyond_int": "#300000000=ITEM('x');\n#2=POINT('b',1.,2.,3);\n",
    "array_of_optional_dollar": "#1=OPTS($,$,$,$,$,$,$,$,(1,2,3),$);\n",
    "renamed_select_member": "#1=OPTS($,$,$,$,$,$,$,$,$,COLOR(.RED.));\n",
}


def strip_ts(data):
    return [l for l in data.split(b"\n") if not l.startswith(b"FILE_NAME")]


def norm_expected(insts):
    out = []
    for i in insts:
        parts = [(kw, [p21tok.norm_param(x) for x in ps]) for kw, ps in i["parts"]]
        if i["complex"]:
            parts = sorted(parts)
        out.append({"id": i["id"], "complex": i["complex"], "parts": parts})
    return out


def norm_parsed(insts):
    out = []
    for i in insts:
        parts = [(kw, [p21tok.norm_param(x) for x in ps]) for kw, ps in i["parts"]]
        if i["complex"]:
            parts = sorted(parts)
        out.append({"id": i["id"], "complex": i["complex"], "parts": parts})
    return out


P1_KEYWORDS = " ".join(sorted(e for e in popgen.ENTITIES if e not in popgen.ABSTRACT))
P1_COMBOS = " ".join("+".join(c) for c in popgen.COMPLEX_LEGAL)


def pass1_disagreement(hfile, wdir, data, conforming):
    """None, or a description of how the model's first pass differs from the reader's; prefixed with UNMODELLED when the
    model stopped following the reader (then only the instances up to that point are compared)"""
    m_ = re.search(rb"\bDATA\s*;", data)
    if not m_:
        return None
    k = m_.end() - 5
    fin = os.path.join(wdir, "p1.p21")
    open(fin, "wb").write(data)
    rc, out, err = shb([hfile, "read", fin], timeout=90)
    impl = [(int(l.split()[1]), l.split()[2].upper()) for l in err.decode("latin-1").split("\n") if l.startswith("VERIF-P1 ") and len(l.split()) >= 3]
    req = "P %s ; %s ; %s\n" % (data[k + 5:].hex(), P1_KEYWORDS, P1_COMBOS)
    rcm, mo, me = sh([driver("drv_pass1")], input=req.encode(), timeout=120)
    model, status = [], None
    for l in mo.split("\n"):
        p_ = l.split()
        if p_[:1] == ["C"] and len(p_) >= 3:
            model.append((int(p_[1]), p_[2].upper()))
        elif p_[:1] == ["X"]:
            model.append((int(p_[1]), "(COMPLEX)"))
        elif p_[:1] == ["END"]:
            status = p_[1] if len(p_) > 1 else "?"
    if status is None:
        return "the model could not be run"
    if rc < 0:
        return "the reader died (status %d)" % rc
    if status == "Unmodelled":
        if impl[:len(model)] != model:
            return "UNMODELLED" + "up to where the model stops: model %s, reader %s" % (model[:12], impl[:12])
        return "UNMODELLED" if not conforming else "the model does not follow the reader on a conforming file (it stops after %d instances)" % len(model)
    if impl != model:
        return "model creates %s (%s), the reader %s" % (model[:14], status, impl[:14])
    return None


def judge(hfile, wdir, data, expected_order, header_in=None):
    """run read -> write -> read -> write; returns None or a message"""
    fin = os.path.join(wdir, "in.p21")
    o1 = os.path.join(wdir, "o1.p21")
    o2 = os.path.join(wdir, "o2.p21")
    for f in (o1, o2):
        if os.path.exists(f):
            os.remove(f)
    open(fin, "wb").write(data)
    rc, out, err = shb([hfile, "read", fin, "write", o1, "read", o1, "write", o2], timeout=90)
    txt = out.decode("latin-1")
    sevs = [l for l in txt.split("\n") if l.startswith("SEV ")]
    if rc != 0:
        return "reader/writer died with status %d" % rc
    if len(sevs) < 4:
        return "harness produced no result"
    if sevs[0] != "SEV read 3 3":
        return "reading a conforming file reports an error (%s)" % sevs[0]
    try:
        pin = p21tok.parse_file(data)
    except p21tok.P21Error as e:
        return "GENERATOR BUG: input does not parse: %s" % e
    try:
        p1 = p21tok.parse_file(open(o1, "rb").read())
    except (p21tok.P21Error, OSError) as e:
        return "written file is not a syntactically valid Part 21 file: %s" % e
    exp = norm_expected(expected_order) if expected_order is not None else norm_parsed(pin["data"])
    got = norm_parsed(p1["data"])
    if len(exp) != len(got):
        return "written file has %d instances, input has %d" % (len(got), len(exp))
    for x, y in zip(exp, got):
        if x != y:
            return "instance #%s differs after read+write: expected %s got %s" % (x["id"], x["parts"], y["parts"])
    hin = [(i["parts"][0][0], [p21tok.norm_param(q) for q in i["parts"][0][1]]) for i in pin["header"]]
    hout = [(i["parts"][0][0], [p21tok.norm_param(q) for q in i["parts"][0][1]]) for i in p1["header"]]
    for (k1, a), (k2, b) in zip(hin, hout):
        if k1 != k2:
            return "header entity %s became %s" % (k1, k2)
        if k1 == "FILE_NAME":
            a = a[:1] + a[2:]
            b = b[:1] + b[2:]
        if a != b:
            return "header %s differs: %s vs %s" % (k1, a, b)
    if len(hin) != len(hout):
        return "header has %d entities, input %d" % (len(hout), len(hin))
    if sevs[2] != "SEV read 3 3":
        return "re-reading the written file reports an error (%s)" % sevs[2]
    try:
        if strip_ts(open(o1, "rb").read()) != strip_ts(open(o2, "rb").read()):
            return "second-generation file differs from the first"
    except OSError:
        return "second write produced no file"
    return None


def save_case(res, wdir, name, data):
    os.makedirs(res.replay_dir, exist_ok=True)
    path = os.path.join(res.replay_dir, name)
    open(path, "wb").write(data)
    return path


def shrink_insts(g, insts, fails):
    """drop instances nobody references while the failure persists"""
    cur = list(insts)
    changed = True
    while changed and len(cur) > 1:
        changed = False
        for i in range(len(cur) - 1, -1, -1):
            cand = cur[:i] + cur[i + 1:]
            rid = cur[i]["id"]
            if any(("#%d" % rid) in c["toks"] for c in cand):
                continue
            if fails(cand):
                cur = cand
                changed = True
    return cur


def main(tier, seed):
    res = Result(PID, tier, seed)
    try:
        translate.run_all(PID)
    except translate.AnchorLost as e:
        res.violation("translator lost its anchor: %s" % e, {"theorem_or_correspondence": "tools/translate.py"}, found_input=False)
    pr = coq_prove(PID)
    proof_coverage(res, pr, ["the Part 21 reader/writer as a whole is NOT modelled in Coq: the theorems cover the "
                             "token-level parameter syntax (print/parse round trip), integer and string literal "
                             "round trips, and the end of a record as the first pass finds it (SkipInstance: coq/P21Skip.v, "
                             "compared with read_func.cc on every text of up to 5 (quick) / 6 (thorough) characters over ' / * ; a blank \\ S); "
                             "everything else is the file-level correspondence/oracle of this check",
                             "independent parser tools/p21tok.py and generator tools/popgen.py"])
    if pr["forbidden"]:
        res.violation("forbidden vernacular in coq/", {"forbidden": pr["forbidden"]}, found_input=False)
    try:
        bdir = build_impl("dbg")
        sl = schema_lib(bdir, os.path.join(VERIF, "schemas", "verif_all.exp"))
        if not sl["ok"]:
            raise BuildError("schema library for verif_all.exp does not build:\n" + sl["log"])
        hfile = schema_harness(bdir, sl, "h_file")
        extract_and_build_drivers()
    except BuildError as e:
        res.violation("build failed: %s" % e, {"error": str(e)}, found_input=False)
        res.coverage.update({"evaluations": 0, "distinct_nontrivial": 0})
        return res.finish()
    wdir = os.path.join(bdir, "verif-work", "c01-%d" % os.getpid())
    os.makedirs(wdir, exist_ok=True)
    nfiles = 600 if tier == "quick" else 20000
    p1_hist = {"compared": 0, "unmodelled": 0, "disagreements": 0}
    evals = 0
    nontrivial = 0
    fails = 0
    feature_hist = {"fancy": 0, "plain": 0, "complex": 0, "forward_ref": 0, "instances": 0}
    samples = []
    # corpus first
    cdir = os.path.join(VERIF, "corpus", PID)
    if os.path.isdir(cdir):
        for f in sorted(os.listdir(cdir)):
            if f.endswith(".p21"):
                data = open(os.path.join(cdir, f), "rb").read()
                evals += 1
                msg = judge(hfile, wdir, data, None)
                if msg:
                    fails += 1
                    res.violation("corpus file %s: %s" % (f, msg), {"file": os.path.join(cdir, f),
                                  "replay": "%s read %s write /tmp/o1.p21" % (hfile, os.path.join(cdir, f))})
    for k in range(nfiles):
        r = rng(seed, "c01/%d" % k)
        g = popgen.Gen(r, fancy=(k % 4 != 0))
        n = r.choice([3, 6, 10, 10, 16, 30])
        insts = g.population(n, sparse_ids=(k % 5 == 0))
        data, order = g.render(insts)
        evals += 1
        feature_hist["fancy" if g.fancy else "plain"] += 1
        feature_hist["instances"] += len(order)
        feature_hist["complex"] += sum(1 for i in order if i["complex"])
        seen = set()
        for i in order:
            if any(t.startswith("#") and int(t[1:]) not in seen for t in i["toks"] if t[:1] == "#" and t[1:].isdigit()):
                feature_hist["forward_ref"] += 1
            seen.add(i["id"])
        if len(order) >= 3:
            nontrivial += 1
        if len(samples) < 2 and k in (1, 2):
            samples.append(data.decode("latin-1")[:1500])
        # the first pass on its own: coq/P21Pass1.v (extracted) vs the instances ReadData1 creates (guarded hook VERIF-P1),
        # on the file and on byte-damaged copies of it (where the model follows the reader: up to the first recovery)
        for mi_ in range(1 + (2 if tier == "quick" else 8)):
            if mi_ == 0:
                pdata, pdesc = data, "conforming"
            else:
                pdata, pdesc = c10.mutate_bytes(r, data)
            bad_p1 = pass1_disagreement(hfile, wdir, pdata, mi_ == 0)
            evals += 1
            p1_hist["compared"] += 1
            if bad_p1 and bad_p1.startswith("UNMODELLED"):
                p1_hist["unmodelled"] += 1
                bad_p1 = bad_p1[10:] or None
            if bad_p1:
                p1_hist["disagreements"] += 1
                path = save_case(res, wdir, "pass1-%d-%d-%d.p21" % (seed, k, mi_), pdata)
                res.violation("model P21Pass1.v and the first pass of the reader disagree (%s): %s" % (pdesc, bad_p1),
                              {"input_file": path, "replay": "%s read %s" % (hfile, path),
                               "theorem_or_correspondence": "correspondence C01: coq/P21Pass1.v read_data1 vs STEPfile::ReadData1"}, found_input=False)
        msg = judge(hfile, wdir, data, order)
        if msg:
            fails += 1
            if msg.startswith("GENERATOR BUG"):
                res.violation(msg, {"seed_case": k}, found_input=False)
                continue
            if fails <= 3:
                def still_fails(cand):
                    d2, o2_ = g.render(cand, shuffle=False)
                    return judge(hfile, wdir, d2, o2_) is not None
                small = shrink_insts(g, order, still_fails)
                data2, order2 = g.render(small, shuffle=False)
                msg2 = judge(hfile, wdir, data2, order2) or msg
                if judge(hfile, wdir, data2, order2) is None:
                    data2, msg2 = data, msg
            else:
                data2, msg2 = data, msg
            path = save_case(res, wdir, "case-%d-%d.p21" % (seed, k), data2)
            res.violation(msg2, {"input_file": path, "replay": "%s read %s write /tmp/o1.p21 read /tmp/o1.p21 write /tmp/o2.p21" % (hfile, path)})
    # open findings: each minimal file either still fails in its known way (KNOWN-FINDING) or passes now
    known = [(sig, (HDR + body + END).encode()) for sig, body in KNOWN_BAD.items()]
    kdir = os.path.join(VERIF, "corpus", PID + "-known")
    if os.path.isdir(kdir):
        for f in sorted(os.listdir(kdir)):
            if f.endswith(".p21"):
                known.append((f[:-4], open(os.path.join(kdir, f), "rb").read()))
    for sig, data in known:
        evals += 1
        # the same file without its comments must read and write back: otherwise the file, not the reader, is at fault
        ctl_data = (HDR + KNOWN_CONTROL[sig] + END).encode() if sig in KNOWN_CONTROL else re.sub(rb"/\*.*?\*/", b"", data, flags=re.S)
        if sig == "user_defined_header_entity":
            ctl_data = re.sub(rb"(?m)^![^\n]*\n", b"", data)         # the same file without the user-defined entity
        ctl = judge(hfile, wdir, ctl_data, None)
        if ctl:
            res.violation("GENERATOR BUG: the control of the file kept for the open finding %s (the same file without the construct in question) fails too: %s" % (sig, ctl), {}, found_input=False)
            continue
        msg = judge(hfile, wdir, data, None)
        if msg:
            path = save_case(res, wdir, "known-%s.p21" % sig, data)
            res.violation("%s: %s" % (sig, msg), {"input_file": path}, signature=sig)
    # ---- the end of a record as the first pass sees it: SkipInstance() vs coq/P21Skip.v on every short text over
    # the characters that matter to it (apostrophe, slash, asterisk, semicolon, backslash S for the page escape, NUL, blank)
    skip_cmp = skip_dis = skip_wf = 0
    sep_cmp = sep_dis = sep_wf = 0
    try:
        hlex = build_harness(bdir, "h_lex")
        alpha = ["'", "/", "*", ";", "a", " ", "\\", "S"]
        texts = []
        for n_ in range(0, (6 if tier == "quick" else 7)):
            for tup in itertools.product(alpha, repeat=n_):
                texts.append("".join(tup))
        texts += ["A('x;',/* ; ' */ #1) ; rest", "A('x", "/*/ ;*/ /;x", "A(/* " + "c" * 9000 + " */1);#2", "A('it''s;',$);B", "A('\\S\\'';');B",
                  "(A(1)B('/*'))/* ; */;C", "A(1)\x00;B", "/* never closed ;", "A(/**/);", "A(/***/);", "A(/* * / ;*/);x"]
        texts = [t.replace("\\x00", "\x00") for t in texts]
        reqs = ["K " + t.encode("latin-1").hex() for t in texts]
        rci, oi, _e = sh([hlex], input="\n".join(reqs).encode() + b"\n", timeout=1800)
        rcm, om, _e = sh([driver("drv_c09")], input="\n".join(reqs).encode() + b"\n", timeout=1800)
        li, lm = oi.split("\n"), om.split("\n")
        if rci != 0:
            res.violation("h_lex died on the SkipInstance stream (status %d)" % rci, {}, found_input=False)
        wf = re.compile(r"^(?:[^';/\x00]|'(?:[^'\\]|''|\\\\|\\S\\.)*'(?!')|/\*(?:[^*]|\*(?!/))*\*/|/(?!\*))*;", re.S)
        for k_, t in enumerate(texts):
            evals += 1
            skip_cmp += 1
            a = li[k_].split() if k_ < len(li) else []
            m = lm[k_].split() if k_ < len(lm) else []
            if len(a) < 5 or len(m) < 2:
                skip_dis += 1
                continue
            same = a[1] == m[1] and (a[1] == "0" or a[4] == m[4])
            if not same:
                skip_dis += 1
                if skip_dis <= 5:
                    res.violation("model P21Skip.v and SkipInstance() disagree on %r: reader %s, model %s" % (t, " ".join(a), " ".join(m)),
                                  {"input_hex": t.encode("latin-1").hex(), "replay": "echo 'K %s' | %s" % (t.encode("latin-1").hex(), hlex),
                                   "theorem_or_correspondence": "correspondence C01: coq/P21Skip.v vs read_func.cc SkipInstance"}, found_input=False)
            # oracle, independent of the model: a text that starts with a well-formed record ends at that record's semicolon
            mm = wf.match(t)
            if mm:
                skip_wf += 1
                if not (a[1] == "1" and int(a[4]) == len(t) - mm.end()):
                    res.violation("SkipInstance() does not end the well-formed record %r at its semicolon: %s (%d bytes should be left)" % (t[:60], " ".join(a), len(t) - mm.end()),
                                  {"input_hex": t.encode("latin-1").hex(), "replay": "echo 'K %s' | %s" % (t.encode("latin-1").hex(), hlex)})
        # ---- what is skipped between two tokens: ReadTokenSeparator() vs coq/P21Skip.v token_separator
        salpha = ["/", "*", " ", "\\", "F", "N", "a", "\n"]
        stexts = []
        for n_ in range(0, (6 if tier == "quick" else 7)):
            for tup in itertools.product(salpha, repeat=n_):
                stexts.append("".join(tup))
        stexts += [" /* c */ /**/\n#1", "/*" + "c" * 9000 + "*/#1=", "/* a * / b *//*/ x */ \t#2", "/* never closed #1=A();", "/ /*x*/#1", "/**/*,"]
        reqs = ["P " + t.encode("latin-1").hex() for t in stexts]
        rci, oi, _e = sh([hlex], input="\n".join(reqs).encode() + b"\n", timeout=1800)
        rcm, om, _e = sh([driver("drv_c09")], input="\n".join(reqs).encode() + b"\n", timeout=1800)
        li, lm = [l_ for l_ in oi.split("\n") if l_.startswith("P ")], om.split("\n")      # the reader also prints messages of its own
        if rci != 0:
            res.violation("h_lex died on the ReadTokenSeparator stream (status %d)" % rci, {}, found_input=False)
        sepre = re.compile(r"^(?:[ \n\t\r\f\v]|/\*(?:[^*]|\*(?!/))*\*/)*(?=[^ \n\t\r\f\v/\\])", re.S)
        for k_, t in enumerate(stexts):
            evals += 1
            sep_cmp += 1
            a = li[k_].split() if k_ < len(li) else []
            m = lm[k_].split() if k_ < len(lm) else []
            if len(a) < 5 or len(m) < 5 or a[4] != m[4]:
                sep_dis += 1
                if sep_dis <= 5:
                    res.violation("model P21Skip.v and ReadTokenSeparator() disagree on %r: reader %s, model %s" % (t, " ".join(a), " ".join(m)),
                                  {"input_hex": t.encode("latin-1").hex(), "replay": "echo 'P %s' | %s" % (t.encode("latin-1").hex(), hlex),
                                   "theorem_or_correspondence": "correspondence C01: coq/P21Skip.v token_separator vs read_func.cc ReadTokenSeparator"}, found_input=False)
                continue
            mm = sepre.match(t)
            if mm:
                sep_wf += 1
                if int(a[4]) != len(t) - mm.end():
                    res.violation("ReadTokenSeparator() does not stop at the token after white space and comments in %r: %s bytes left, expected %d" % (t[:60], a[4], len(t) - mm.end()),
                                  {"input_hex": t.encode("latin-1").hex(), "replay": "echo 'P %s' | %s" % (t.encode("latin-1").hex(), hlex)})
    except BuildError as e:
        res.violation("build failed: %s" % e, {"error": str(e)}, found_input=False)
    shutil.rmtree(wdir, ignore_errors=True)
    if not pr["ok"]:
        res.violation("Properties_C01.v no longer checks (%s)" % ", ".join(pr["failed"] or ["see log"]),
                      {"theorem_or_correspondence": "coq/Properties_C01.v", "log": pr["log"]}, found_input=False)
    res.coverage.update({
        "evaluations": evals,
        "distinct_nontrivial": nontrivial,
        "rule": "corpus + %d generated conforming populations of schemas/verif_all.exp (3..30 instances; every simple "
                "kind, enumeration, select incl. nested select and entity select, all four aggregate kinds incl. "
                "nested, OPTIONAL/derived-redeclared attributes, single+multiple inheritance, complex instances in "
                "random part order, forward references, sparse ids; 3/4 of the files in random layout: white space "
                "and comments between tokens, signed/zero-padded integers, every real spelling, string escapes) each "
                "read, written, re-read, re-written; + 4 minimal files for the open findings; non-trivial = at least "
                "3 instances" % nfiles,
        "samples": samples or ["(none)"],
        "traces_validated_against_impl": evals,
        "feature_histogram": feature_hist,
        "first_pass_model": p1_hist,
        "skip_instance_stream": {"texts": skip_cmp, "well_formed_records": skip_wf, "disagreements": skip_dis},
        "token_separator_stream": {"texts": sep_cmp, "separators_followed_by_a_token": sep_wf, "disagreements": sep_dis},
        "oracle_failures": fails,
        "unproved_clauses": ["byte-level reader/writer of whole files (L3/L4) is covered by the oracle only",
                             "reals with more than 15 significant digits: compared numerically to 15 digits"],
    })
    res.assumptions = ["schema under test: schemas/verif_all.exp (one fixed schema in quick tier)",
                       "C locale; reals exclude |x| < 1e-300 and non-finite values"]
    return res.finish()


if __name__ == "__main__":
    tier = os.environ.get("VERIF_TIER", "quick")
    if "--tier" in sys.argv:
        tier = sys.argv[sys.argv.index("--tier") + 1]
    sys.exit(main(tier, int(os.environ.get("VERIF_SEED", "1"))))
