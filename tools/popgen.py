#!/usr/bin/env python3
"""Population generator for schemas/verif_all.exp: typed random values, every literal
form of the Part 21 grammar, random layouts (white space / comments between tokens),
forward references, complex instances.  The schema description below mirrors
schemas/verif_all.exp (checked against the generated dictionary by C02)."""
import random

INT, REAL, NUMBER, STR, BIN, BOOL, LOGICAL = "int", "real", "number", "str", "bin", "bool", "logical"
COLOR = ("enum", ["RED", "GREEN", "BLUE"])


def agg(elem, lo=0, hi=None, kind="LIST"):
    return ("agg", elem, lo, hi, kind)


def ref(*names):
    return ("ref", list(names))


NUM_OR_LABEL = ("select", [("LENGTH_MEASURE", REAL), ("LABEL", STR), ("COUNT_MEASURE", INT), ("RATIO_MEASURE", NUMBER)])
# top_sel = SELECT (renamed_sel, color): only the enumeration branch is generated (the renamed-select branch is an open finding)
TOP_SEL = ("select", [("COLOR", COLOR)])
ENT_SEL = ("select", [(None, ref("POINT", "CIRCLE", "DPOINT"))])
MIXED_SEL = ("select", [(None, ref("POINT", "CIRCLE", "DPOINT")), ("LENGTH_MEASURE", REAL), ("LABEL", STR),
                        ("COUNT_MEASURE", INT), ("RATIO_MEASURE", NUMBER)])

# entity -> (supertypes, own attributes [(name, type, optional, derived)])
ENTITIES = {
    "POINT": ([], [("name", STR, False, False), ("x", REAL, False, False), ("y", REAL, False, False),
                   ("tag", INT, True, False)]),
    "CIRCLE": ([], [("centre", ref("POINT", "DPOINT"), False, False), ("radius", REAL, False, False),
                    ("col", COLOR, False, False), ("closed", BOOL, False, False), ("flag", LOGICAL, False, False),
                    ("bits", BIN, False, False), ("n", NUMBER, False, False), ("cnt", INT, False, False)]),
    "POLY": ([], [("pts", agg(ref("POINT", "DPOINT"), 1), False, False),
                  ("weights", agg(REAL, 3, 3, "ARRAY"), False, False),
                  ("names", agg(STR, 0, None, "SET"), False, False),
                  ("counts", agg(INT, 0, None, "BAG"), False, False),
                  ("grid", agg(agg(INT)), False, False),
                  ("cols", agg(COLOR), False, False),
                  ("opt_pts", agg(ref("POINT", "DPOINT")), True, False),
                  ("sels", agg(NUM_OR_LABEL), False, False),
                  ("bins", agg(BIN), False, False),
                  ("logs", agg(LOGICAL), False, False),
                  ("esels", agg(ENT_SEL), False, False)]),
    "HOLDER": ([], [("v", NUM_OR_LABEL, False, False), ("e", ENT_SEL, False, False), ("m", MIXED_SEL, True, False)]),
    "BASE": ([], [("id", INT, False, False)]),
    "LEFTY": (["BASE"], [("l", STR, False, False)]),
    "RIGHTY": (["BASE"], [("r", REAL, False, False)]),
    "EXTRA": (["BASE"], [("e", COLOR, False, False)]),
    "BOTH": (["LEFTY", "EXTRA"], [("b", BOOL, False, False)]),
    "DPOINT": (["POINT"], [("w", REAL, False, False)]),
    "OWNER": ([], [("oname", STR, False, False), ("items", agg(ref("ITEM"), 0, None, "SET"), False, False),
                   ("first", ref("ITEM"), True, False)]),
    "ITEM": ([], [("iname", STR, False, False)]),
    "NODE": ([], [("nlabel", STR, False, False), ("next", ref("NODE"), True, False),
                  ("others", agg(ref("NODE")), False, False)]),
    "MESH": ([], [("rows", agg(agg(ref("NODE"))), False, False)]),
    "OPTS": ([], [("oe", COLOR, True, False), ("ob", BOOL, True, False), ("ol", LOGICAL, True, False),
                  ("orl", REAL, True, False), ("os", STR, True, False), ("obin", BIN, True, False),
                  ("onum", NUMBER, True, False), ("osel", NUM_OR_LABEL, True, False),
                  ("oarr", agg(INT, 3, 3, "ARRAY"), True, False), ("otop", TOP_SEL, True, False)]),
    "UNIT_B": ([], [("dims", INT, False, False)]),
    "SI_B": (["UNIT_B"], [("prefix", COLOR, False, False)]),
    "LEN_B": (["UNIT_B"], [("lname", STR, False, False)]),
    "CARRIER": ([], [("load", ref("POINT", "DPOINT"), False, False), ("note", STR, False, False)]),
    "DCARRIER": (["CARRIER"], [("extra", INT, False, False)]),
    "LCARRIER": (["CARRIER"], []),
    "USER_B": ([], [("u", ref("UNIT_B"), False, False), ("bs", ("select", [(None, ref("LEFTY", "EXTRA"))]), True, False),
                    ("many", agg(ref("BASE")), False, False)]),
    "TRI": ([], [("ta", INT, False, False), ("tb", INT, False, False), ("ts", STR, False, False)]),
    "TRI_D": (["TRI"], [("td", INT, False, False)]),
    "TRI_E": (["TRI"], [("te", INT, False, False)]),
    "BASE2": ([], [("bn", NUMBER, False, False), ("bt", STR, False, False)]),
    "RED2": (["BASE2"], [("rs", STR, False, False)]),
}
# attributes redeclared in a subtype with a narrower type (not derived): (entity, attr) -> the type instances of that entity need
REDECLARED_IN = {("DCARRIER", "load"): ref("DPOINT"), ("LCARRIER", "load"): ref("DPOINT"), ("RED2", "bn"): INT,
                 ("NARROW_HOLDER", "held"): ref("SPECIAL_PART")}
ABSTRACT = {"BASE"}
# attributes redeclared as DERIVE in a subtype: (entity, supertype attr) -> written as '*'
DERIVED_IN = {("DPOINT", "tag"), ("SI_B", "dims"), ("TRI_D", "ta"), ("TRI_D", "tb")}
# legal complex (external-mapping) combinations of the BASE family: ONEOF(lefty, righty) ANDOR extra
# and len_b ANDOR si_b under unit_b, where si_b derives unit_b.dims (the UNIT_B part is then written UNIT_B(*))
COMPLEX_LEGAL = [["BASE", "EXTRA", "LEFTY"], ["BASE", "EXTRA", "RIGHTY"], ["LEN_B", "SI_B", "UNIT_B"], ["TRI", "TRI_D", "TRI_E"]]


class Schema:
    def __init__(self, name, entities, abstract=(), derived_in=(), complex_legal=(), weights=None, inverses=None, skip=()):
        self.name = name
        self.ENTITIES = entities
        self.ABSTRACT = set(abstract)
        self.DERIVED_IN = set(derived_in)
        self.COMPLEX_LEGAL = list(complex_legal)
        self.weights = weights or {}
        self.INVERSES = inverses or {}
        self.SKIP = set(skip)          # entities the random populations leave out (used by fixed populations only)

    def all_attrs(self, ent):
        return all_attrs(ent, self.ENTITIES)

    def supertypes(self, ent):
        out = []
        for s_ in self.ENTITIES[ent][0]:
            out.append(s_)
            out += self.supertypes(s_)
        return out

    def isa(self, ent, target):
        return ent == target or target in self.supertypes(ent)


def all_attrs(ent, entities=None):
    """inherited-then-own explicit attributes in Part 21 order, each (owner, name, type, optional, derived)"""
    if entities is None:
        entities = ENTITIES
    seen = []
    out = []

    def rec(e):
        sups, own = entities[e]
        for s in sups:
            rec(s)
        if e in seen:
            return
        seen.append(e)
        for (n, t, o, d) in own:
            out.append((e, n, REDECLARED_IN.get((ent, n), t) if e != ent else t, o, d))
    rec(ent)
    return out


VERIF_ALL = None  # set below


class Gen:
    def __init__(self, rnd, fancy=True, schema=None):
        self.r = rnd
        self.fancy = fancy
        self.comments_ok = True
        self.S = schema or VERIF_ALL

    # ---- scalar literals: canonical value + source spelling
    def g_int(self):
        r = self.r
        v = r.choice([0, 1, -1, 7, 42, 2 ** 31 - 1, -2 ** 31, 2 ** 31, 10 ** 15, r.randint(-10 ** 6, 10 ** 6),
                      9223372036854775806, -9223372036854775807, r.randint(-10 ** 18, 10 ** 18)])
        s = str(v)
        if self.fancy and r.random() < 0.25:
            if v >= 0:
                s = r.choice(["+", "", "00", "+0"]) + s
            else:
                s = "-" + r.choice(["", "0", "00"]) + s[1:]
        return ("int", v), s

    def g_real(self):
        r = self.r
        nd = r.choice([1, 1, 2, 3, 5, 8, 12, 15])
        mant = "".join(r.choice("0123456789") for _ in range(nd)).lstrip("0") or "0"
        pos = r.randint(0, len(mant))
        ip, fp = mant[:pos] or "0", mant[pos:]
        s = r.choice(["", "", "-", "+"]) + ip + "." + fp
        if r.random() < 0.4:
            e = r.choice([0, 1, -1, 5, -5, 15, -15, 20, 100, -100, 300, -300, r.randint(-30, 30)])
            s += "E" + r.choice(["", "+", "+0"] if e >= 0 else ["-", "-0"]) + str(abs(e))
        if not self.fancy:
            s = s.lstrip("+")
        try:
            f = float(s)
            if f in (float("inf"), float("-inf")) or (f != 0 and abs(f) < 1e-300):
                s = "1.5"
        except ValueError:
            s = "1.5"
        return ("real", s), s

    def g_str(self):
        r = self.r
        parts = []
        for _ in range(r.choice([0, 1, 1, 2, 3, 6])):
            parts.append(r.choice(["a", "B", " ", "it''s", "''", "#12", "(", ")", ";", ",", "/*", "*/", "$", "*",
                                   "\\\\", "\\S\\A", "\\S\\'", "\\X\\E9", "\\X2\\00E9\\X0\\", "\\X4\\0001F600\\X0\\", "=", ".T.",
                                   "ENDSEC;", "'' ''", "x y", "\"", "!", "&SCOPE", "1.E5"]))
        raw = "".join(parts)
        return ("str", raw), "'" + raw + "'"

    def g_bin(self):
        r = self.r
        n = r.choice([0, 1, 2, 3, 8, 17])
        body = r.choice("0123") + "".join(r.choice("0123456789ABCDEF") for _ in range(n))
        return ("bin", body), '"' + body + '"'

    def g_enum(self, items):
        it = self.r.choice(items)
        return ("enum", it), "." + it + "."

    def g_value(self, t, ids_by_ent, depth=0):
        """returns (param AST as the oracle parser would produce it, list of source tokens)"""
        r = self.r
        if t == INT:
            p, s = self.g_int()
            return p, [s]
        if t == REAL or t == NUMBER:
            if t == NUMBER and r.random() < 0.3:
                p, s = self.g_int()
                if abs(p[1]) > 10 ** 15:
                    p, s = ("int", 5), "5"
                # a NUMBER given as an integer token denotes that number; it is written as a real
                return ("real", "%d." % p[1]), [s]
            p, s = self.g_real()
            return p, [s]
        if t == STR:
            p, s = self.g_str()
            return p, [s]
        if t == BIN:
            p, s = self.g_bin()
            return p, [s]
        if t == BOOL:
            p, s = self.g_enum(["T", "F"])
            return p, [s]
        if t == LOGICAL:
            p, s = self.g_enum(["T", "F", "U"])
            return p, [s]
        k = t[0]
        if k == "enum":
            p, s = self.g_enum(t[1])
            return p, [s]
        if k == "ref":
            cands = [i for e in t[1] for i in ids_by_ent.get(e, [])]
            if not cands:
                return None, None
            i = r.choice(cands)
            return ("ref", i), ["#%d" % i]
        if k == "agg":
            _, elem, lo, hi, kind = t
            n = r.choice([lo, lo, lo + 1, lo + 2, lo + 4]) if hi is None else r.randint(lo, hi)
            if kind == "ARRAY":
                n = hi
            ps, toks = [], ["("]
            for j in range(n):
                p, tk = self.g_value(elem, ids_by_ent, depth + 1)
                if p is None:
                    if len(ps) >= lo:
                        break
                    return None, None
                if kind == "SET" and p in ps:
                    continue
                if j or len(ps):
                    toks.append(",")
                ps.append(p)
                toks += tk
            if len(ps) < lo:
                return None, None
            toks.append(")")
            return ("list", ps), toks
        if k == "select":
            kw, mt = r.choice(t[1])
            p, tk = self.g_value(mt, ids_by_ent, depth + 1)
            if p is None:
                return None, None
            if kw is None:
                return p, tk
            return ("typed", kw, p), [kw, "("] + tk + [")"]
        raise ValueError(t)

    def population(self, n_inst, sparse_ids=False, start=1):
        """returns list of instances: dict(id, parts=[(KW, [params])], complex, toks=[source tokens of the record])"""
        r = self.r
        ids = []
        cur = start
        for _ in range(n_inst):
            ids.append(cur)
            cur += 1 if not sparse_ids else r.choice([1, 1, 2, 7, 93, 997])
        # choose entity kinds; referenced kinds first in id order but emitted shuffled later (forward refs)
        kinds = []
        S = self.S
        concrete = [e for e in S.ENTITIES if e not in S.ABSTRACT and e not in S.SKIP]
        for i in ids:
            x = r.random()
            acc = 0.0
            chosen = None
            for kname, w in S.weights.items():
                acc += w
                if x < acc:
                    chosen = kname
                    break
            if chosen == "COMPLEX" and not S.COMPLEX_LEGAL:
                chosen = None
            kinds.append(chosen or r.choice(concrete))
        ids_by_ent = {}
        combos = {}
        for i, k in zip(ids, kinds):
            if k != "COMPLEX":
                ids_by_ent.setdefault(k, []).append(i)
                for sup in self.S.supertypes(k):
                    ids_by_ent.setdefault(sup, []).append(i)
            else:
                # an instance in external mapping is of the type of each of its parts (and of their supertypes)
                combos[i] = list(r.choice(self.S.COMPLEX_LEGAL))
                for e in set(combos[i]) | set(s_ for p_ in combos[i] for s_ in self.S.supertypes(p_)):
                    ids_by_ent.setdefault(e, []).append(i)
        insts = []
        for i, k in zip(ids, kinds):
            if k == "COMPLEX":
                combo = combos[i]
                order = combo[:]
                if self.fancy:
                    r.shuffle(order)
                parts, toks = [], ["("]
                for e in order:
                    ps, tk = self.record_values(e, ids_by_ent, own_only=True, ctx=combo)
                    parts.append((e, ps))
                    toks += [e, "("] + tk + [")"]
                toks.append(")")
                insts.append({"id": i, "complex": True, "parts": parts, "toks": toks})
            else:
                res = self.record_values(k, ids_by_ent)
                if res[0] is None:
                    k = self.S.fallback
                    res = self.record_values(k, ids_by_ent)
                ps, tk = res
                insts.append({"id": i, "complex": False, "parts": [(k, ps)], "toks": [k, "("] + tk + [")"]})
        return insts

    def record_values(self, ent, ids_by_ent, own_only=False, ctx=None):
        """ctx: the parts of the externally mapped instance this record is a part of (one of them may derive an attribute)"""
        r = self.r
        attrs = [(ent, n, t, o, d) for (n, t, o, d) in self.S.ENTITIES[ent][1]] if own_only else self.S.all_attrs(ent)
        ps, toks = [], []
        for (owner, n, t, opt, der) in attrs:
            if toks:
                toks.append(",")
            if (ent, n) in self.S.DERIVED_IN or any((p_, n) in self.S.DERIVED_IN and self.S.isa(p_, ent) for p_ in (ctx or [])):
                ps.append(("star",))
                toks.append("*")
                continue
            if opt and r.random() < 0.4:
                ps.append(("null",))
                toks.append("$")
                continue
            p, tk = self.g_value(t, ids_by_ent)
            if p is None:
                if opt:
                    ps.append(("null",))
                    toks.append("$")
                    continue
                return None, None
            ps.append(p)
            toks += tk
        return ps, toks

    def sep(self, after=None, before=None):
        """token separator: Part 21 allows any white space and comments between tokens.
        Comments are only put where the reader is known to cope (see known_findings.jsonl:
        comment between a value and its delimiter, comment containing a quote, comment
        inside a complex record are open findings exercised by a separate stream)."""
        r = self.r
        if not self.fancy:
            return ""
        x = r.random()
        if x < 0.6:
            return ""
        if x < 0.8:
            return " "
        if x < 0.9:
            return r.choice(["\n", "\t", "  ", "\n  ", " \n"])
        if self.comments_ok and after in ("(", ",", "=", None) and before not in (",", ")", ";"):
            return r.choice(["/* c */", "/**/", "/* ( */", "/* , */", "/** n **/", "/***/", "/* a * b */", "/* see #1 */", "/*#2*/", "/* ' */", "/* ; */", "/*);*/", "/*/ x */"])
        return " "

    def between(self, p=0.07):
        """comments where a whole token separator stands outside a record: before an instance, between its name and '=',
        between ')' and ';', before ENDSEC - one or several in a row, some with '* /', '/*' or '**' inside"""
        r = self.r
        if not self.fancy or r.random() >= p:
            return ""
        texts = ["/* c */", "/**/", "/* a * / b */", "/* open /* again */", "/***/", "/* ENDSEC; */", "/* two\nlines */", "/** x **/", "/* it's; */", "/*/ x */", "/* " + "long " * 1800 + "*/"]
        return "".join(r.choice(texts) + r.choice(["", " ", "\n"]) for _ in range(r.choice((1, 1, 2, 3))))

    def idtext(self, i):
        """digits of an instance name: a decimal numeral, now and then written with leading zeros (#0010 is #10)"""
        if self.fancy and self.r.random() < 0.06:
            return "0" * self.r.choice((1, 1, 2, 3)) + str(i)
        return str(i)

    def render(self, insts, schema=None, shuffle=True, header=None, comments_in_records=True):
        schema = schema or self.S.name
        r = self.r
        def kw(word):
            """a section keyword and its semicolon: white space may stand between them"""
            if self.fancy and r.random() < 0.12:
                return word + r.choice([" ", "  ", "\n", "\t", " \n "]) + ";"
            return word + ";"
        out = ["ISO-10303-21;\n" + kw("HEADER") + "\n"]
        out.append(header or ("FILE_DESCRIPTION(('descr one','d2'),'2;1');\n"
                              "FILE_NAME('f.p21','2020-01-01T00:00:00',('a u','b'),('org'),'pre','sys','auth');\n"))
        out.append("FILE_SCHEMA(('%s'));\n" % schema + kw("ENDSEC") + "\n" + kw("DATA") + "\n")
        order = list(insts)
        if shuffle and self.fancy:
            r.shuffle(order)
        for inst in order:
            self.comments_ok = not inst["complex"]
            line = "%s#%s%s%s=%s" % (self.between(), self.idtext(inst["id"]), self.sep("#", "=") if self.fancy else "", self.between(0.03),
                                     self.sep("=", None) if self.fancy else "")
            toks = inst["toks"]
            depth = 0
            for k, tk in enumerate(toks):
                line += ("#" + self.idtext(int(tk[1:]))) if (tk[:1] == "#" and tk[1:].isdigit()) else tk
                if tk == "(":
                    depth += 1
                elif tk == ")":
                    depth -= 1
                nxt = toks[k + 1] if k + 1 < len(toks) else ";"
                self.comments_ok = (not inst["complex"]) and depth <= 1 and nxt != "("
                line += self.sep(tk if tk in ("(", ",") else "v", nxt)
            line += self.between(0.03) + ";" + ("\n" if r.random() < 0.9 or not self.fancy else " ")
            out.append(line)
        out.append(self.between(0.15) + kw("ENDSEC") + "\nEND-ISO-10303-21;\n")
        return "".join(out).encode("latin-1"), order


VERIF_ALL = Schema("VERIF_ALL", ENTITIES, ABSTRACT, DERIVED_IN, COMPLEX_LEGAL,
                   weights={"POINT": 0.3, "ITEM": 0.06, "COMPLEX": 0.08},
                   inverses={"ITEM": [("owned_by", "OWNER", "items", True)]})
VERIF_ALL.fallback = "POINT"

# schemas/verif_inv.exp : several inverse attributes per entity, inherited inverses, inverses onto the same
# entity through different attributes, aggregate and single-valued inverted attributes, a single-valued inverse
PART_OR_DOC = ("select", [(None, ref("PART", "SPECIAL_PART", "VERY_SPECIAL_PART", "TAGGED_PART", "DOCUMENTATION"))])
INV_ENTITIES = {
    "PART": ([], [("pname", STR, False, False)]),
    "SPECIAL_PART": (["PART"], [("grade", INT, False, False)]),
    "VERY_SPECIAL_PART": (["SPECIAL_PART"], [("vs", INT, False, False)]),
    "TAGGED": ([], [("tag", STR, False, False)]),
    "TAGGED_PART": (["PART", "TAGGED"], [("extra", INT, False, False)]),
    "GADGET": (["SPECIAL_PART", "TAGGED_PART"], [("g", INT, False, False)]),
    "AUDITED": ([], [("auditor", STR, False, False)]),
    "AUDIT": ([], [("subject", ref("AUDITED", "AUDITED_TAGGED"), False, False), ("remark", STR, False, False)]),
    "AUDITED_TAGGED": (["TAGGED", "AUDITED"], [("at", INT, False, False)]),
    "TAG_USE": ([], [("target", ref("TAGGED", "TAGGED_PART", "GADGET", "AUDITED_TAGGED"), False, False), ("uname", STR, False, False)]),
    "LABEL": ([], [("ltarget", PART_OR_DOC, False, False), ("ltext", STR, False, False)]),
    "CRATE": ([], [("cname", STR, False, False), ("content", agg(ref("PART")), False, False)]),
    "HOLDER": ([], [("hname", STR, False, False), ("held", ref("PART"), False, False)]),
    "SUB_HOLDER": (["HOLDER"], [("sh", INT, False, False)]),
    "NARROW_HOLDER": (["SUB_HOLDER"], []),
    "OTHER_HOLDER": ([], [("held", ref("PART"), False, False)]),
    "DUAL_HOLDER": (["OTHER_HOLDER", "SUB_HOLDER"], []),
    "TASK": ([], [("tname", STR, False, False), ("needs", agg(ref("TASK")), False, False), ("after", ref("TASK"), True, False)]),
    "ASSEMBLY": ([], [("aname", STR, False, False), ("components", agg(ref("PART")), False, False),
                      ("main_part", ref("PART"), True, False), ("spare", ref("PART"), True, False)]),
    "SUB_ASSEMBLY": (["ASSEMBLY"], [("level", INT, False, False)]),
    "SUB_SUB_ASSEMBLY": (["SUB_ASSEMBLY"], [("note", STR, False, False)]),
    "DOCUMENTATION": ([], [("about", ref("PART"), False, False), ("text", STR, False, False)]),
    "CERTIFICATE": ([], [("subject", ref("SPECIAL_PART"), False, False), ("other", ref("PART"), True, False)]),
}
# external mappings of the assembly family (referrers in external mapping)
INV_COMPLEX_LEGAL = [["ASSEMBLY", "SUB_ASSEMBLY"], ["ASSEMBLY", "SUB_ASSEMBLY", "SUB_SUB_ASSEMBLY"],
                     # referents in external mapping: every part has its own inverse attributes
                     ["PART", "SPECIAL_PART", "TAGGED", "TAGGED_PART"], ["PART", "SPECIAL_PART", "VERY_SPECIAL_PART"]]
VERIF_INV = Schema("VERIF_INV", INV_ENTITIES, complex_legal=INV_COMPLEX_LEGAL,
                   weights={"PART": 0.2, "SPECIAL_PART": 0.1, "VERY_SPECIAL_PART": 0.08, "TAGGED_PART": 0.08, "COMPLEX": 0.06, "TASK": 0.12,
                            "GADGET": 0.08, "AUDITED_TAGGED": 0.06, "AUDIT": 0.06, "NARROW_HOLDER": 0.06, "DUAL_HOLDER": 0.08, "SUB_HOLDER": 0.06},
                   inverses={"PART": [("crates", "CRATE", "content", True), ("sub_owners", "SUB_HOLDER", "held", True), ("used_in", "ASSEMBLY", "components", True), ("main_of", "ASSEMBLY", "main_part", True),
                                      ("doc", "DOCUMENTATION", "about", False), ("labels", "LABEL", "ltarget", True)],
                             "SPECIAL_PART": [("certified_by", "CERTIFICATE", "subject", True)],
                             "TAGGED": [("tag_users", "TAG_USE", "target", True)],
                             "AUDITED": [("tag_users", "AUDIT", "subject", True)],
                             "TASK": [("needed_by", "TASK", "needs", True), ("before", "TASK", "after", True)]},
                   skip=["LABEL"])       # a LABEL that refers to a part stops the loader (open finding select_typed_inverted_attribute)
VERIF_INV.fallback = "PART"
