#!/usr/bin/env python3
"""C18 -- the Python generator emits an importable module that mirrors the schema.
Coq: Properties_C18.v over coq/PyGen.v.  Correspondence / oracle: generated schemas (chains,
multiple supertypes, diamonds, derived and inverse attributes, every kind of defined type,
Python-keyword identifiers) through exp2python; the module is imported against /repo's
bundled runtime package in a child interpreter (harness/py_mod_inspect.py) and its classes'
bases and constructor signatures, and its type definitions, are compared with the schema
(independent ISO 10303-21 ordering written here) and with the extracted model."""
import glob
import json
import os
import re
import shutil
import sys

sys.path.insert(0, os.path.dirname(os.path.abspath(__file__)))
from common import *  # noqa
import gen_express as G
from c17 import enrich

PID = "C18"
PYKW = {"assert", "async", "await", "break", "class", "continue", "def", "del", "elif", "except", "finally", "global",
        "import", "is", "lambda", "nonlocal", "pass", "raise", "try", "yield", "property"}


def pyname(n):
    n = n.lower()
    return n + "_" if n in PYKW else n


def p21_order(S, ename, memo=None):
    """ISO 10303-21 11.2.5.3: inherited attributes first, supertypes in declaration order, an
    ancestor reached twice contributes where first met; then the entity's own explicit attributes"""
    e = S.entity(ename)
    out = []
    for s in e["supers"]:
        for a in p21_order(S, s):
            if a not in out:
                out.append(a)
    for a in e["attrs"]:
        out.append((ename, a["name"]))
    return out


def main(tier, seed):
    res = Result(PID, tier, seed)
    pr = coq_prove(PID)
    proof_coverage(res, pr, ["CPython and the stepcode runtime package are the platform the module is imported on (not modelled)",
                             "hand-written Gallina model of LIBdescribe_entity/LISTsort/ENTITY_get_all_attributes tied by the correspondence run"])
    if pr["forbidden"]:
        res.violation("forbidden vernacular in coq/", {"forbidden": pr["forbidden"]}, found_input=False)
    try:
        bdir = build_impl("dbg")
        extract_and_build_drivers()
    except BuildError as e:
        res.violation("build failed: %s" % e, {"error": str(e)}, found_input=False)
        res.coverage.update({"evaluations": 0, "distinct_nontrivial": 0})
        return res.finish()
    drv = driver("drv_c18")
    insp = [sys.executable, os.path.join(HARNESS, "py_mod_inspect.py")]
    wroot = os.path.join(bdir, "verif-work", "c18-%d" % os.getpid())
    shutil.rmtree(wroot, ignore_errors=True)
    os.makedirs(wroot)
    nsch = 90 if tier == "quick" else 2000
    evals = 0
    oracle_fail = 0
    disagreements = 0
    nontrivial = 0
    hist = {"entities": 0, "with_supertypes": 0, "multiple_supertypes": 0, "diamonds": 0, "mixed_depth": 0, "types": 0, "keyword_names": 0,
            "import_ok": 0}
    samples = []

    # ---- behaviour of the module written for schemas/py_beh.exp: values of DERIVE attributes (nested - / * + ** DIV MOD),
    # WHERE rules, and which values the attribute setters accept (every simple type, defined types, enumeration, aggregates)
    BEH_DERIVE = {"remaining": 14.0, "left_nested": 10.0, "share": 5.0, "prod": 200.0, "mixed": 1.0, "grouped": 10.0, "powr": 81.0,
                  "neg": -5.0, "idiv": 2.0, "imod": 1.0, "chain": 15.0, "total_kw": 11.0,
                  "lit": 24.6913578, "big": 12345686.5}       # REAL literals with more than six digits
    BEH_SET = {("remaining", "derived"): "refuse",
               ("closed", "bool"): "accept", ("closed", "real"): "refuse", ("closed", "string"): "refuse", ("closed", "none"): "refuse",
               ("locked", "bool"): "accept", ("locked", "none"): "accept", ("locked", "int"): "refuse",
               ("state", "unknown"): "accept", ("state", "string"): "refuse",
               ("label", "string"): "accept", ("label", "int"): "refuse", ("label", "bool"): "refuse",
               ("size", "real"): "accept", ("size", "string"): "refuse", ("size", "bool"): "refuse",
               ("cnt", "int"): "accept", ("cnt", "string"): "refuse", ("cnt", "real"): "refuse",
               ("num", "real"): "accept", ("num", "int"): "accept", ("num", "string"): "refuse",
               ("flag", "bool"): "accept", ("flag", "string"): "refuse",
               ("len", "defined"): "accept", ("len", "string"): "refuse",
               ("col", "item"): "accept", ("col", "string"): "refuse", ("col", "int"): "refuse",
               ("history", "list_of_boolean"): "accept", ("history", "list_of_number"): "refuse", ("history", "bool"): "refuse",
               ("counts", "set_of_integer"): "accept", ("counts", "list_of_boolean"): "refuse",
               ("names", "list_of_string"): "accept", ("names", "none"): "accept", ("names", "set_of_integer"): "refuse"}
    BEH_EXTRA = {"percent(50.0)": "ok", "percent(150.0)": "raise", "percent(-1.0)": "raise", "single_slot": "defined",
                 "ruled(3)": "lab1:ok,lab2:ok,unnamed_wr_0:ok", "ruled(11)": "lab1:ok,lab2:ok,unnamed_wr_0:raise",
                 "ruled(5)": "lab1:ok,lab2:raise,unnamed_wr_0:ok", "ruled(-2)": "lab1:raise,lab2:ok,unnamed_wr_0:ok",
                 "sel_user.f:=sup_r": "accept", "sel_user.f:=kw_user": "accept", "sel_user.g:=sup_r": "accept",
                 "sel_user.g:=kw_user": "refuse", "sel_user.f:=integer": "refuse"}
    bexp = os.path.join(VERIF, "schemas", "py_beh.exp")
    bdirw = os.path.join(wroot, "beh")
    os.makedirs(bdirw)
    rcb, ob, eb = sh([os.path.join(bdir, "bin", "exp2python"), bexp], cwd=bdirw, timeout=120)
    rcp, op_, ep = sh([sys.executable, os.path.join(HARNESS, "py_beh_probe.py"), bdirw, "beh"], timeout=120)
    seen_beh = 0
    hist["behaviour_probes"] = 0
    for line in op_.split("\n"):
        f = line.split()
        bad = None
        sigb = None
        if not f:
            continue
        if f[0] == "ERR":
            bad = "the module written for schemas/py_beh.exp cannot be exercised: %s" % line
        elif f[0] == "DERIVE" and len(f) == 3:
            seen_beh += 1
            try:
                okv = abs(float(f[2]) - BEH_DERIVE[f[1]]) < 1e-9
            except (ValueError, KeyError):
                okv = False
            if not okv:
                bad = "DERIVE attribute %s of budget(20., 8., 2., 9, 4, 2) evaluates to %s, the EXPRESS expression gives %s" % (f[1], f[2], BEH_DERIVE.get(f[1]))
                if f[1] == "idiv":
                    sigb = "python_div_is_true_division"
        elif f[0] == "CTOR" and len(f) >= 2:
            seen_beh += 1
            got = f[2] if len(f) > 2 else ""
            want = {"redecl": 3, "redecl_child": 4, "neg_holder": 1}.get(f[1])
            # a redeclared attribute (SELF\\sup_r.x : INTEGER) adds no constructor parameter
            if want is not None and (len([x for x in got.split(",") if x]) != want or "error" in got):
                bad = "constructor of %s takes (%s): %d explicit attributes are inherited or own (a redeclared attribute is not a new one)" % (f[1], got, want)
        elif f[0] == "BASE" and len(f) == 4:
            seen_beh += 1
            if f[3] != "ok":
                bad = "defined type %s is declared on %s, the generated class says %s" % (f[1], f[2], f[3])
        elif f[0] == "BOUNDS" and len(f) == 3:
            seen_beh += 1
            want = {"arr_neg": "-1:3", "lst_expr": "1:5"}.get(f[1])
            if want and f[2] != want:
                bad = "defined type %s has bounds %s, the schema says %s" % (f[1], f[2], want)
        elif f[0] == "RULE" and len(f) == 3:
            seen_beh += 1
            if f[2] != "ok":
                bad = "WHERE rule %s holds for budget(20., 8., 2., 9, 4, 2) but the generated method says %s" % (f[1], f[2])
        elif f[0] == "EXTRA" and len(f) == 3:
            seen_beh += 1
            if BEH_EXTRA.get(f[1]) != f[2]:
                bad = "%s of the module written for schemas/py_beh.exp gives %s, the schema gives %s (rules by label / unnamed_wr_<n> in the order of the unlabelled ones)" % (f[1], f[2], BEH_EXTRA.get(f[1]))
        elif f[0] == "SET" and len(f) == 4:
            seen_beh += 1
            want = BEH_SET.get((f[1], f[2]))
            if want and f[3] != want:
                bad = "switch.%s := <%s> is %sd by the generated setter, EXPRESS typing says %s" % (f[1], f[2], f[3], want)
        if bad:
            oracle_fail += 1
            res.violation(bad, {"input_file": bexp, "replay": "exp2python schemas/py_beh.exp; python3 harness/py_beh_probe.py <dir> beh"}, signature=sigb)
        else:
            hist["behaviour_probes"] += 1
    evals += 1
    if seen_beh < len(BEH_DERIVE) + 14 + len(BEH_SET) + len(BEH_EXTRA) and not any(l.startswith("ERR") for l in op_.split("\n")):
        res.violation("the behaviour probe printed %d observations, %d expected: %s" % (seen_beh, len(BEH_DERIVE) + 14 + len(BEH_SET) + len(BEH_EXTRA), (op_ + ep)[-300:]),
                      {"input_file": bexp}, found_input=False)

    def save(name, text):
        os.makedirs(res.replay_dir, exist_ok=True)
        p = os.path.join(res.replay_dir, name)
        open(p, "w").write(text)
        return p

    # ---- schemas/py_renum.exp: forty selects whose lists name a renamed enumeration or a renamed select, under names that
    # spread over the dictionary's hash order: one module, importable, every select with the members the schema declares
    rexp = os.path.join(VERIF, "schemas", "py_renum.exp")
    rtxt = open(rexp).read()
    rdir = os.path.join(wroot, "renum")
    os.makedirs(rdir)
    rcr, orr, err_ = sh([os.path.join(bdir, "bin", "exp2python"), rexp], cwd=rdir, timeout=120)
    evals += 1
    rmods = sorted(os.path.basename(m) for m in glob.glob(os.path.join(rdir, "*.py")))
    rbad = None
    hist["renamed_in_select"] = 0
    if rcr != 0:
        rbad = "exp2python exits with status %d on schemas/py_renum.exp: %s" % (rcr, (orr + err_)[-200:])
    elif rmods != ["py_renum.py"]:
        rbad = "schemas/py_renum.exp: expected exactly one module py_renum.py, found %s" % rmods
    else:
        rc2, jo, je = sh(insp + [rdir, "py_renum"], timeout=120, env={"VERIF_REPO": REPO})
        try:
            rinfo = json.loads(jo)
        except ValueError:
            rinfo = None
            rbad = "inspector failed on the module of schemas/py_renum.exp: %s" % (jo + je)[-300:]
        if rinfo is not None and rinfo["import_error"]:
            rbad = "the module of schemas/py_renum.exp cannot be imported: %s" % rinfo["import_error"][:200]
        elif rinfo is not None:
            renamed = dict(re.findall(r"^TYPE (\w+) = (e1|base_sel);", rtxt, re.M))
            for (sn, mem) in re.findall(r"^TYPE (\w+) = SELECT \(a, (\w+)\);", rtxt, re.M):
                d = rinfo["types"].get(sn)
                hist["renamed_in_select"] += 1
                if not d or d.get("kind") != "select" or d.get("members") != ["a", mem]:
                    rbad = rbad or "select %s of schemas/py_renum.exp: module has %s, schema has members ['a', '%s']" % (sn, d, mem)
            for (tn, tgt) in renamed.items():
                d = rinfo["types"].get(tn)
                if tgt == "e1" and (not d or d.get("kind") != "enum" or d.get("items") != ["up", "down"]):
                    rbad = rbad or "renamed enumeration %s of schemas/py_renum.exp: module has %s" % (tn, d)
                if tgt == "base_sel" and (not d or d.get("kind") != "select" or d.get("members") != ["a", "e1"]):
                    rbad = rbad or "renamed select %s of schemas/py_renum.exp: module has %s" % (tn, d)
    if rbad:
        oracle_fail += 1
        res.violation(rbad, {"input_file": rexp, "replay": "exp2python schemas/py_renum.exp; python3 harness/py_mod_inspect.py <dir> py_renum"})

    for k in range(nsch):
        r = rng(seed, "c18/%d" % k)
        kw = (k % 4 == 1)
        S = G.gen_schema(r, name="py_%d" % k, keywordish=kw, n_ent=r.randint(3, 10))
        if k % 3 == 0 and not kw:
            S = enrich(r, S)      # defined types on defined types, aggregates of defined types, selects of selects
        # avoid x / x_ pairs (the escape appends '_'): outside what the escaping scheme can express
        allnames = [e["name"] for e in S.entities] + [a["name"] for e in S.entities for a in e["attrs"] + e["derived"] + e["inverse"]] + [t["name"] for t in S.types]
        if any(n.endswith("_") and n[:-1] in allnames for n in allnames):
            continue
        if k % 5 == 2 and len(S.entities) >= 4:
            # force a diamond: last entity under two entities that share the first as ancestor
            a, b, c, d = [e["name"] for e in S.entities[:3]] + [S.entities[-1]["name"]]
            S.entity(a)["supers"] = []
            S.entity(b)["supers"] = [a]
            S.entity(c)["supers"] = [a]
            S.entity(d)["supers"] = [b, c]
            for e in S.entities:
                e["supexpr"] = None
                e["abstract"] = False
        text = G.render(S)
        wd = os.path.join(wroot, "s%d" % k)
        os.makedirs(wd)
        fexp = os.path.join(wd, "schema.exp")
        open(fexp, "w").write(text)
        rc, so, se = sh([os.path.join(bdir, "bin", "exp2python"), fexp], cwd=wd, timeout=120)
        evals += 1
        mods = sorted(glob.glob(os.path.join(wd, "*.py")))
        what = None
        sig = None
        info = None
        if rc != 0:
            what = "exp2python exits with status %d on a valid schema: %s" % (rc, (so + se)[-200:])
        elif [os.path.basename(m) for m in mods] != [S.name.lower() + ".py"]:
            what = "expected exactly one module %s.py, found %s" % (S.name.lower(), [os.path.basename(m) for m in mods])
        else:
            rc2, jo, je = sh(insp + [wd, S.name.lower()], timeout=120, env={"VERIF_REPO": REPO})
            try:
                info = json.loads(jo)
            except ValueError:
                what = "inspector failed: %s" % (jo + je)[-300:]
        if info is not None and info["import_error"]:
            what = "the module cannot be imported against the bundled runtime: %s" % info["import_error"][:200]
            if kw and "SyntaxError" in info["import_error"]:
                m = re.search(r"line (\d+)", info["import_error"])
                if m:
                    lines = open(mods[0]).read().split("\n")
                    ln = lines[int(m.group(1)) - 1] if int(m.group(1)) <= len(lines) else ""
                    # names of defined types, functions and constants of this schema that are Python keywords (the generator
                    # escapes entity, attribute and enumeration item names only)
                    unesc = {x["name"].lower() for x in list(S.types) + list(S.functions) + list(getattr(S, "consts", []) or []) if isinstance(x, dict) and x.get("name", "").lower() in PYKW}
                    unesc |= {c[0].lower() for c in (getattr(S, "consts", []) or []) if isinstance(c, tuple) and c[0].lower() in PYKW}
                    if (unesc and re.search(r"\b(%s)\b" % "|".join(sorted(unesc)), ln)) or \
                            re.search(r"\b(%s)\b" % "|".join(PYKW - {"property", "is", "class", "def", "pass", "raise", "assert", "except", "try", "global", "import"}), ln) \
                            or re.match(r"\s*(class|def)\s+(%s)\b" % "|".join(PYKW), ln) or re.match(r"\s*(%s)\s*=" % "|".join(PYKW), ln) \
                            or re.search(r"[(,]\s*(%s)\s*[,)]" % "|".join(PYKW), ln):
                        sig = "keyword_named_defined_type"
            info = None
        if info is not None:
            hist["import_ok"] += 1
            ids = {e["name"]: i + 1 for i, e in enumerate(S.entities)}
            # ---- classes
            for e in S.entities:
                hist["entities"] += 1
                cn = pyname(e["name"])
                c = info["classes"].get(cn)
                if c is None:
                    what = what or "no class for entity %s" % e["name"]
                    continue
                want_bases = [pyname(s) for s in e["supers"]] or ["BaseEntityClass"]
                want_ctor = [pyname(a) for (_, a) in p21_order(S, e["name"])]
                got_ctor = [re.sub(r"^inherited\d+__", "", p) for p in c["ctor"]] if c["own_init"] or e["supers"] else []
                if e["supers"]:
                    hist["with_supertypes"] += 1
                if len(e["supers"]) > 1:
                    hist["multiple_supertypes"] += 1
                if c["bases"] != want_bases and not what:
                    what = "class %s has bases %s, the entity declares SUBTYPE OF (%s)" % (cn, c["bases"], ", ".join(e["supers"]))
                    sig = "supertypes_sorted_by_depth" if sorted(c["bases"]) == sorted(want_bases) else None
                    hist["mixed_depth"] += 1
                elif got_ctor != want_ctor and not what:
                    if not c["own_init"] and not want_ctor:
                        continue
                    what = "constructor of %s takes (%s), Part 21 order is (%s)" % (cn, ", ".join(got_ctor), ", ".join(want_ctor))
                    if len(got_ctor) > len(want_ctor) and [x for i, x in enumerate(got_ctor) if x not in got_ctor[:i]] == want_ctor:
                        sig = "diamond_inherited_twice"
                        hist["diamonds"] += 1
                    elif sorted(got_ctor) == sorted(want_ctor) or sorted(set(got_ctor)) == sorted(set(want_ctor)):
                        sig = "supertypes_sorted_by_depth"
            extra = set(info["classes"]) - {pyname(e["name"]) for e in S.entities}
            if extra and not what:
                what = "classes %s correspond to no entity" % sorted(extra)
            # ---- defined types
            for t in S.types:
                hist["types"] += 1
                tn = pyname(t["name"])
                d = info["types"].get(tn)
                if d is None:
                    what = what or "no definition for defined type %s" % t["name"]
                    continue
                if t["kind"] == "enum":
                    if d["kind"] != "enum" or d["items"] != [pyname(i) for i in t["items"]]:
                        what = what or "enumeration %s: module has %s, schema has items %s" % (tn, d, t["items"])
                elif t["kind"] == "select":
                    if d["kind"] != "select" or d["members"] != [pyname(m) for m in t["members"]]:
                        what = what or "select %s: module has %s, schema has members %s" % (tn, d, t["members"])
                elif t["kind"] == "simple":
                    if d["kind"] != "class" or d["bases"] != [t["base"]]:
                        what = what or "defined type %s: module has %s, schema says %s" % (tn, d, t["base"])
                elif t["kind"] == "aggr":
                    if d["kind"] != "aggr" or d["agg"] != t["agg"] or d["lo"] != t["lo"] or d["hi"] != t["hi"]:
                        what = what or "aggregate type %s: module has %s, schema says %s [%s:%s]" % (tn, d, t["agg"], t["lo"], t["hi"])
                elif t["kind"] == "ref" and t["root"].startswith("simple:"):
                    # TYPE a = b; with b a defined simple type: the declared underlying type is b
                    base_of_target = t["root"].split(":")[1]
                    alias_ok = d.get("alias") and base_of_target in ("BOOLEAN", "LOGICAL") and d["bases"] == [base_of_target]
                    if not alias_ok and (d["kind"] != "class" or d["bases"] != [pyname(t["target"])]):
                        what = what or "defined type %s = %s: module has %s" % (tn, t["target"], d)
            if kw:
                hist["keyword_names"] += 1
            # ---- model
            toks = []
            for e in S.entities:
                kinds = "E" * len(e["attrs"]) + "D" * len(e["derived"]) + "I" * len(e["inverse"])
                toks.append("%d:%s:%s" % (ids[e["name"]], ",".join(str(ids[s]) for s in e["supers"]), kinds or "-"))
            rcm, mo, me = sh([drv], input=(" ".join(toks) + "\n").encode(), timeout=60)
            rev = {v: k2 for k2, v in ids.items()}
            for part in mo.strip().split(" ; "):
                f = part.split("|")
                if len(f) < 4:
                    res.violation("drv_c18 output unreadable: %s" % part[:100], {}, found_input=False)
                    break
                en = rev[int(f[0])]
                c = info["classes"].get(pyname(en))
                if c is None:
                    continue
                e = S.entity(en)
                mb = [pyname(rev[int(x)]) for x in f[1].split(",") if x] or ["BaseEntityClass"]

                def names(lst):
                    out = []
                    for x in lst.split(","):
                        if x:
                            o, i = x.split(".")
                            out.append(pyname(S.entity(rev[int(o)])["attrs"][int(i)]["name"]))
                    return out
                mc = names(f[2])
                mp = names(f[3])
                got_ctor = [re.sub(r"^inherited\d+__", "", p) for p in c["ctor"]] if c["own_init"] or e["supers"] else []
                if mb != c["bases"] or (c["own_init"] and mc != got_ctor):
                    disagreements += 1
                    p = save("c18-%d-%d.exp" % (seed, k), text)
                    res.violation("model PyGen.v and exp2python disagree on %s: bases %s vs %s, constructor %s vs %s" % (en, mb, c["bases"], mc, got_ctor),
                                  {"input_file": p, "theorem_or_correspondence": "correspondence C18: coq/PyGen.v vs classes_python.c"}, found_input=False)
                    break
                if mp != [pyname(a) for (_, a) in p21_order(S, en)]:
                    disagreements += 1
                    res.violation("model p21_ctor and the check's ISO 10303-21 ordering disagree on %s" % en,
                                  {"input_file": save("c18-%d-%d.exp" % (seed, k), text), "theorem_or_correspondence": "PyGen.v p21_ctor vs tools/c18.py p21_order"}, found_input=False)
                    break
            if any(len(e["supers"]) > 0 for e in S.entities):
                nontrivial += 1
            if len(samples) < 3:
                c0 = next(iter(info["classes"].items()))
                samples.append({"schema": S.name, "class": c0[0], "bases": c0[1]["bases"], "ctor": c0[1]["ctor"][:5]})
        if what:
            oracle_fail += 1
            p = save("c18-%d-%d.exp" % (seed, k), text)
            res.violation(what, {"input_file": p, "replay": "cd $(mktemp -d) && %s/bin/exp2python %s && VERIF_REPO=%s python3 %s . %s" % (
                bdir, p, REPO, insp[1], S.name.lower())}, signature=sig)
        shutil.rmtree(wd, ignore_errors=True)
    shutil.rmtree(wroot, ignore_errors=True)
    if not pr["ok"]:
        res.violation("Properties_C18.v no longer checks (%s)" % ", ".join(pr["failed"] or ["see log"]),
                      {"theorem_or_correspondence": "coq/Properties_C18.v", "log": pr["log"]}, found_input=False)
    res.coverage.update({
        "evaluations": evals,
        "distinct_nontrivial": nontrivial,
        "rule": "%d generated schemas (3-10 entities, 0-2 supertypes each, every 5th with a forced diamond, every 4th with Python-keyword "
                "identifiers; explicit/optional/derived/inverse attributes; simple, enumeration, select, aggregate defined types) through "
                "exp2python, imported in a child interpreter against /repo's stepcode package; classes' bases and constructor signatures "
                "and every type definition compared with the schema and with the extracted model; non-trivial = some entity has a supertype" % nsch,
        "samples": samples or ["(none)"],
        "histogram": hist,
        "traces_validated_against_impl": evals,
        "correspondence_disagreements": disagreements,
        "oracle_failures": oracle_fail,
        "unproved_clauses": ["importability / syntactic validity of the emitted text (tested)", "type definitions mirror the schema (tested)",
                             "full constructor equality is refuted for diamonds and mixed-depth supertypes (c18_*_refuted)"],
    })
    res.assumptions = ["no identifier pair x / x_ in one schema", "aggregate bounds are literals (expression bounds raise NotImplementedError by design)"]
    return res.finish()


if __name__ == "__main__":
    tier = os.environ.get("VERIF_TIER", "quick")
    if "--tier" in sys.argv:
        tier = sys.argv[sys.argv.index("--tier") + 1]
    sys.exit(main(tier, int(os.environ.get("VERIF_SEED", "1"))))
