#!/usr/bin/env python3
"""Grammar-directed generator of valid EXPRESS schemas (by construction) with a
declaration-level AST, plus single-fault mutants for the classes of C04/C20.
Used by C02 C04 C06 C07 C12 C17 C18 C20."""
import random

SIMPLE = ["INTEGER", "REAL", "STRING", "BOOLEAN", "LOGICAL", "NUMBER", "BINARY"]
PY_KEYWORDS = ["class", "def", "pass", "lambda", "global", "yield", "import", "raise", "print", "None", "del", "assert"]
CXX_LIKE = ["int_", "char_", "class_", "union_", "public_", "delete_", "new_", "template_"]


class Schema:
    def __init__(self, name):
        self.name = name
        self.consts = []      # (name, type, expr)
        self.types = []       # dict(name, kind: simple|enum|select|aggr, ...)
        self.entities = []    # dict(name, abstract, supers, supexpr, attrs, derived, inverse, unique, where)
        self.functions = []   # dict(name, params, ret, body)
        self.rules = []
        self.uses = []        # (schema, [names]) USE FROM / REFERENCE FROM

    def entity(self, n):
        return [e for e in self.entities if e["name"] == n][0]


class ExprGen:
    """expressions over a set of integer-valued names; every operator and literal kind"""

    def __init__(self, r):
        self.r = r

    def lit_int(self):
        return str(self.r.choice([0, 1, 2, 7, 10, 255]))

    def lit_real(self):
        return self.r.choice(["0.0", "1.5", "2.0E3", "1.0E-2", "3.25"])

    def lit_str(self):
        return self.r.choice(["'a'", "'it''s'", "''", "'x y'", "'a.b.c'"])

    def num(self, names, depth):
        r = self.r
        if depth <= 0 or r.random() < 0.3:
            return r.choice(names + [self.lit_int(), self.lit_int()]) if names else self.lit_int()
        k = r.random()
        a = self.num(names, depth - 1)
        b = self.num(names, depth - 1)
        if k < 0.5:
            return "%s %s %s" % (a, r.choice(["+", "-", "*"]), b)
        if k < 0.6:
            return "(%s) %s (%s)" % (a, r.choice(["+", "-", "*", "DIV", "MOD"]), b)
        if k < 0.7:
            return "-(%s)" % a
        if k < 0.8:
            return "ABS(%s)" % a
        if k < 0.9:
            return "(%s %s %s)" % (a, r.choice(["+", "*"]), b)
        return "%s ** 2" % (a if a.isalnum() else "(" + a + ")")

    def boolean(self, names, depth):
        r = self.r
        if depth <= 0 or r.random() < 0.25:
            a = self.num(names, 1)
            b = self.num(names, 1)
            return "%s %s %s" % (a, r.choice(["<", ">", "<=", ">=", "<>", "="]), b)
        k = r.random()
        if k < 0.35:
            return "(%s) %s (%s)" % (self.boolean(names, depth - 1), r.choice(["AND", "OR", "XOR"]), self.boolean(names, depth - 1))
        if k < 0.5:
            return "NOT (%s)" % self.boolean(names, depth - 1)
        if k < 0.6:
            return "%s IN [%s, %s]" % (self.num(names, 0), self.lit_int(), self.lit_int())
        if k < 0.7:
            return "{%s <= %s <= %s}" % (self.lit_int(), self.num(names, 0), "100")
        if k < 0.8:
            return "SIZEOF([%s, %s : 2]) = 3" % (self.lit_int(), self.lit_int())
        if k < 0.9:
            return "%s LIKE 'a*'" % self.lit_str()
        return "EXISTS(%s)" % (r.choice(names) if names else "1")


def gen_schema(r, name="gen_schema", n_ent=None, n_types=None, features=None, keywordish=False):
    """returns Schema; features: set of strings to force (inverse, derive, select, multi, abstract, where, func, rule)"""
    S = Schema(name)
    X = ExprGen(r)
    n_types = n_types if n_types is not None else r.randint(3, 7)
    n_ent = n_ent if n_ent is not None else r.randint(3, 9)
    used = set()

    def fresh(prefix):
        pool = []
        if keywordish:
            pool = [p for p in PY_KEYWORDS + CXX_LIKE if p not in used]
        if pool and r.random() < 0.3:
            n = r.choice(pool)
        else:
            n = "%s%d" % (prefix, len(used))
        used.add(n)
        return n
    # constants
    for _ in range(r.randint(0, 2)):
        S.consts.append((fresh("c"), "INTEGER", X.lit_int()))
    # simple defined types and enumerations
    for _ in range(n_types):
        k = r.random()
        if k < 0.35:
            base = r.choice(SIMPLE[:6])
            t = {"name": fresh("t"), "kind": "simple", "base": base, "where": None}
            if base in ("INTEGER", "REAL", "NUMBER") and r.random() < 0.5:
                t["where"] = "SELF >= 0"
            S.types.append(t)
        elif k < 0.65:
            items = [fresh("it") for _ in range(r.randint(1, 4))]
            S.types.append({"name": fresh("en"), "kind": "enum", "items": items})
        elif k < 0.85:
            elem = r.choice(SIMPLE[:4])
            S.types.append({"name": fresh("ag"), "kind": "aggr", "agg": r.choice(["LIST", "SET", "BAG", "ARRAY"]),
                            "lo": r.choice([0, 1]), "hi": r.choice([None, 3, 5]), "elem": elem})
        else:
            S.types.append({"name": fresh("ts"), "kind": "simple", "base": "STRING", "where": None})
    for t in S.types:
        if t["kind"] == "aggr" and t["agg"] == "ARRAY":
            t["lo"] = 1
            t["hi"] = t["hi"] or 3
    # entities: inheritance DAG (supertypes among earlier entities)
    names = [fresh("e") for _ in range(n_ent)]
    for i, n in enumerate(names):
        sups = []
        if i > 0 and r.random() < 0.55:
            sups.append(r.choice(names[:i]))
            if i > 1 and r.random() < 0.25:
                s2 = r.choice(names[:i])
                if s2 not in sups:
                    sups.append(s2)
        S.entities.append({"name": n, "abstract": False, "supers": sups, "supexpr": None, "attrs": [], "derived": [],
                           "inverse": [], "unique": [], "where": []})
    # no diamond attribute clashes: attribute names are globally unique
    simple_names = [t["name"] for t in S.types if t["kind"] in ("simple", "enum", "aggr")]
    for i, e in enumerate(S.entities):
        for _ in range(r.randint(0, 4)):
            k = r.random()
            if k < 0.4:
                ty = r.choice(SIMPLE)
            elif k < 0.6 and simple_names:
                ty = r.choice(simple_names)
            elif k < 0.8:
                ty = r.choice(names)           # entity reference (forward references allowed)
            else:
                ty = "%s [%d:%s] OF %s" % (r.choice(["LIST", "SET", "BAG"]), r.choice([0, 1]), r.choice(["?", "4"]),
                                           r.choice(SIMPLE[:4] + names[:2]))
            e["attrs"].append({"name": fresh("a"), "type": ty, "optional": r.random() < 0.3})
        int_attrs = [a["name"] for a in e["attrs"] if a["type"] == "INTEGER" and not a["optional"]]
        if int_attrs and r.random() < 0.6:
            e["derived"].append({"name": fresh("d"), "type": "INTEGER", "expr": X.num(int_attrs, 2)})
        if int_attrs and r.random() < 0.6:
            bx = X.boolean(int_attrs, 2)
            if not any(a in bx.replace("(", " ").replace(")", " ").replace(",", " ").split() for a in int_attrs):
                bx = "(%s >= 0) OR (%s)" % (int_attrs[0], bx)
            e["where"].append((("wr%d" % len(e["where"])) if r.random() < 0.8 else None, bx))
        if e["attrs"] and r.random() < 0.3:
            a = r.choice(e["attrs"])
            if not a["optional"] and not a["type"].startswith(("LIST", "SET", "BAG")):
                e["unique"].append(("ur1", [a["name"]]))
    # inverse attributes: entity x has attr of type entity y -> y INVERSE inv : SET OF x FOR attr
    for e in S.entities:
        for a in e["attrs"]:
            if a["type"] in names and r.random() < 0.5 and a["type"] != e["name"]:
                tgt = S.entity(a["type"])
                tgt["inverse"].append({"name": fresh("inv"), "card": "SET [0:?] OF", "entity": e["name"], "attr": a["name"]})
    # supertype expressions
    for e in S.entities:
        subs = [x["name"] for x in S.entities if e["name"] in x["supers"]]
        if subs and r.random() < 0.6:
            r.shuffle(subs)
            if len(subs) == 1:
                e["supexpr"] = subs[0]
            else:
                op = r.choice(["ONEOF", "ANDOR", "AND"])
                if op == "ONEOF":
                    e["supexpr"] = "ONEOF (%s)" % ", ".join(subs)
                else:
                    e["supexpr"] = (" %s " % op).join(subs)
            if r.random() < 0.3:
                e["abstract"] = True
    # select types over entities / defined types
    if r.random() < 0.7 or (features and "select" in features):
        mem = r.sample(names, min(len(names), r.randint(1, 3)))
        S.types.append({"name": fresh("sel"), "kind": "select", "members": mem})
    # functions and rules
    if r.random() < 0.7:
        fn = fresh("f")
        S.functions.append({"name": fn, "params": [("x", "INTEGER")], "ret": "INTEGER",
                            "body": ["LOCAL", "  y : INTEGER := 0;", "END_LOCAL;",
                                     "IF x > %s THEN" % X.lit_int(), "  y := %s;" % X.num(["x"], 2), "ELSE", "  y := x;", "END_IF;",
                                     "REPEAT i := 1 TO 3;", "  y := y + i;", "END_REPEAT;",
                                     "CASE x OF", "  1 : y := 1;", "  2, 3 : y := 2;", "  OTHERWISE : y := y;", "END_CASE;",
                                     "RETURN (y);"]})
        # use the function in a where rule of an entity with an integer attribute
        for e in S.entities:
            ia = [a["name"] for a in e["attrs"] if a["type"] == "INTEGER" and not a["optional"]]
            if ia:
                e["where"].append(("wf", "%s(%s) >= 0" % (fn, ia[0])))
                break
    if r.random() < 0.5 and S.entities:
        e = r.choice(S.entities)
        S.rules.append({"name": fresh("r"), "for": [e["name"]],
                        "where": [("wr1", "SIZEOF (QUERY (q <* %s | TRUE)) >= 0" % e["name"])]})
    return S


def render(S, tail_remarks=False, r=None):
    out = ["SCHEMA %s;" % S.name, ""]
    for (sch, names_) in S.uses:
        out.append("%s FROM %s%s;" % ("USE" if True else "REFERENCE", sch, (" (%s)" % ", ".join(names_)) if names_ else ""))
    if S.consts:
        out.append("CONSTANT")
        for n, t, e in S.consts:
            out.append("  %s : %s := %s;" % (n, t, e))
        out.append("END_CONSTANT;")
        out.append("")
    for t in S.types:
        if t["kind"] == "simple":
            out.append("TYPE %s = %s;" % (t["name"], t["base"]))
            if t.get("where"):
                out.append("WHERE")
                out.append("  wr1 : %s;" % t["where"])
        elif t["kind"] == "enum":
            out.append("TYPE %s = ENUMERATION OF (%s);" % (t["name"], ", ".join(t["items"])))
        elif t["kind"] == "select":
            out.append("TYPE %s = SELECT (%s);" % (t["name"], ", ".join(t["members"])))
        elif t["kind"] == "aggr":
            out.append("TYPE %s = %s [%d:%s] OF %s;" % (t["name"], t["agg"], t["lo"], "?" if t["hi"] is None else t["hi"], t["elem"]))
        elif t["kind"] == "ref":        # TYPE n = other_defined_type;
            out.append("TYPE %s = %s;" % (t["name"], t["target"]))
        out.append("END_TYPE;" + ("  -- tail remark %s" % t["name"] if tail_remarks else ""))
        out.append("")
    for e in S.entities:
        head = "ENTITY %s" % e["name"]
        if e["abstract"] or e["supexpr"]:
            head += "\n  %sSUPERTYPE%s" % ("ABSTRACT " if e["abstract"] else "", (" OF (%s)" % e["supexpr"]) if e["supexpr"] else "")
        if e["supers"]:
            head += "\n  SUBTYPE OF (%s)" % ", ".join(e["supers"])
        out.append(head + ";")
        for a in e["attrs"]:
            out.append("  %s : %s%s;" % (a["name"], "OPTIONAL " if a["optional"] else "", a["type"]))
        if e["derived"]:
            out.append("DERIVE")
            for d in e["derived"]:
                out.append("  %s : %s := %s;" % (d["name"], d["type"], d["expr"]))
        if e["inverse"]:
            out.append("INVERSE")
            for iv in e["inverse"]:
                out.append("  %s : %s %s FOR %s;" % (iv["name"], iv["card"], iv["entity"], iv["attr"]))
        if e["unique"]:
            out.append("UNIQUE")
            for lab, attrs in e["unique"]:
                out.append("  %s : %s;" % (lab, ", ".join(attrs)))
        if e["where"]:
            out.append("WHERE")
            for lab, ex in e["where"]:
                out.append("  %s%s;" % ((lab + " : ") if lab else "", ex))
        out.append("END_ENTITY;")
        out.append("")
    for f in S.functions:
        out.append("FUNCTION %s (%s) : %s;" % (f["name"], "; ".join("%s : %s" % p for p in f["params"]), f["ret"]))
        for l in f["body"]:
            out.append("  " + l)
        out.append("END_FUNCTION;")
        out.append("")
    for ru in S.rules:
        out.append("RULE %s FOR (%s);" % (ru["name"], ", ".join(ru["for"])))
        out.append("WHERE")
        for lab, ex in ru["where"]:
            out.append("  %s : %s;" % (lab, ex))
        out.append("END_RULE;")
        out.append("")
    out.append("END_SCHEMA;")
    return "\n".join(out) + "\n"


# ---------------------------------------------------------------------------
# single-fault mutants (C04, C20).  Each returns (class, description, text, expect) where
# expect = dict(codes=[PE numbers any of which must be reported], quoted=<token that must appear>)
# ---------------------------------------------------------------------------

def mutants(r, S):
    import copy
    out = []

    def variant(fn):
        T = copy.deepcopy(S)
        res = fn(T)
        if res is None:
            return
        cls, desc, expect = res[:3]
        text = res[3] if len(res) > 3 else render(T)
        out.append((cls, desc, text, expect))

    ents = [e["name"] for e in S.entities]
    with_attrs = [e for e in S.entities if e["attrs"]]
    subs = [e for e in S.entities if e["supers"]]

    def undefined_type(T):
        es = [e for e in T.entities if e["attrs"]]
        if not es:
            return None
        e = r.choice(es)
        r.choice(e["attrs"])["type"] = "nosuch_type_xyz"
        return ("undefined_type", "attribute of %s has an undefined type" % e["name"], {"quoted": "nosuch_type_xyz"})

    def undefined_supertype(T):
        e = r.choice(T.entities)
        e["supers"] = e["supers"] + ["nosuch_super_xyz"]
        return ("undefined_supertype", "%s SUBTYPE OF (nosuch_super_xyz)" % e["name"], {"quoted": "nosuch_super_xyz"})

    def undefined_subtype(T):
        e = r.choice(T.entities)
        e["supexpr"] = ("ONEOF (%s, nosuch_sub_xyz)" % e["supexpr"]) if e["supexpr"] and "ONEOF" not in e["supexpr"] and " " not in e["supexpr"] \
            else "nosuch_sub_xyz" if not e["supexpr"] else e["supexpr"].replace("(", "(nosuch_sub_xyz, ", 1) if e["supexpr"].startswith("ONEOF") else e["supexpr"] + " ANDOR nosuch_sub_xyz"
        return ("undefined_subtype", "%s SUPERTYPE OF (... nosuch_sub_xyz)" % e["name"], {"quoted": "nosuch_sub_xyz"})

    def undefined_schema(T):
        T.uses.append(("nosuch_schema_xyz", []))
        return ("undefined_schema", "USE FROM nosuch_schema_xyz", {"quoted": "nosuch_schema_xyz"})

    def undefined_function(T):
        es = [e for e in T.entities if any(a["type"] == "INTEGER" and not a["optional"] for a in e["attrs"])]
        if not es:
            return None
        e = r.choice(es)
        a = [a["name"] for a in e["attrs"] if a["type"] == "INTEGER" and not a["optional"]][0]
        e["where"].append(("wundef", "nosuch_func_xyz(%s) > 0" % a))
        return ("undefined_function", "WHERE rule of %s calls nosuch_func_xyz" % e["name"], {"quoted": "nosuch_func_xyz"})

    def undefined_attr(T):
        e = r.choice(T.entities)
        e["where"].append(("wattr", "SELF.nosuch_attr_xyz > 0"))
        return ("undefined_attribute_reference", "WHERE rule of %s uses SELF.nosuch_attr_xyz" % e["name"], {"quoted": "nosuch_attr_xyz"})

    def duplicate_decl(T):
        if not T.types:
            return None
        t = r.choice(T.types)
        dup = {"name": t["name"], "kind": "simple", "base": "REAL", "where": None}
        T.types.append(dup)
        return ("duplicate_declaration", "type %s declared twice" % t["name"], {"quoted": t["name"]})

    def duplicate_entity(T):
        e = r.choice(T.entities)
        T.entities.append({"name": e["name"], "abstract": False, "supers": [], "supexpr": None, "attrs": [], "derived": [],
                           "inverse": [], "unique": [], "where": []})
        return ("duplicate_declaration", "entity %s declared twice" % e["name"], {"quoted": e["name"]})

    def duplicate_attr(T):
        es = [e for e in T.entities if e["attrs"]]
        if not es:
            return None
        e = r.choice(es)
        a = r.choice(e["attrs"])
        e["attrs"].append({"name": a["name"], "type": "INTEGER", "optional": False})
        return ("duplicate_declaration", "attribute %s.%s declared twice" % (e["name"], a["name"]), {"quoted": a["name"]})

    def subtype_cycle(T):
        es = [e for e in T.entities if e["supers"]]
        if not es:
            return None
        e = r.choice(es)
        top = T.entity(e["supers"][0])
        # make the supertype a subtype of its own subtype
        top["supers"] = top["supers"] + [e["name"]]
        return ("subtype_cycle", "%s and %s are subtypes of each other" % (e["name"], top["name"]), {"codes": [44]})

    def select_cycle(T):
        T.types.append({"name": "selcyc_a", "kind": "select", "members": ["selcyc_b"]})
        T.types.append({"name": "selcyc_b", "kind": "select", "members": ["selcyc_a"]})
        return ("select_cycle", "selcyc_a selects selcyc_b selects selcyc_a", {"quoted": "selcyc_"})

    def subtype_not_listing(T):
        # supertype names a subtype that does not declare it as supertype
        if len(T.entities) < 2:
            return None
        a, b = r.sample(T.entities, 2)
        if a["name"] in b["supers"] or b["name"] in a["supers"]:
            return None
        # avoid creating a cycle: b must not be an ancestor of a
        def ancestors(x, seen=None):
            seen = seen or set()
            for s_ in T.entity(x)["supers"]:
                if s_ not in seen and s_ in [q["name"] for q in T.entities]:
                    seen.add(s_)
                    ancestors(s_, seen)
            return seen
        if b["name"] in ancestors(a["name"]):
            return None
        a["supexpr"] = ("%s ANDOR %s" % (a["supexpr"], b["name"])) if a["supexpr"] and not a["supexpr"].startswith("ONEOF") else \
            ("ONEOF (%s)" % b["name"] if not a["supexpr"] else "(%s) ANDOR %s" % (a["supexpr"], b["name"]))
        return ("subtype_not_listing_supertype", "%s SUPERTYPE OF (%s) but %s is not SUBTYPE OF it" % (a["name"], b["name"], b["name"]),
                {"quoted": b["name"]})

    def inherited_redeclared(T):
        es = [e for e in T.entities if e["supers"] and T.entity(e["supers"][0])["attrs"]]
        if not es:
            return None
        e = r.choice(es)
        a = r.choice(T.entity(e["supers"][0])["attrs"])
        e["attrs"].append({"name": a["name"], "type": "INTEGER", "optional": False})
        return ("inherited_attribute_redeclared", "%s declares %s again" % (e["name"], a["name"]), {"quoted": a["name"]})

    def subtype_not_listing_second(T):
        # as above, but the faulty subtype comes after one that does declare the supertype
        names_ = [q["name"] for q in T.entities]
        cands = [a for a in T.entities if any(a["name"] in q["supers"] for q in T.entities)]
        if not cands:
            return None
        a = r.choice(cands)
        proper = [q["name"] for q in T.entities if a["name"] in q["supers"]]

        def ancestors(x, seen=None):
            seen = seen or set()
            for s_ in T.entity(x)["supers"]:
                if s_ not in seen and s_ in names_:
                    seen.add(s_)
                    ancestors(s_, seen)
            return seen
        others = [b for b in T.entities if b["name"] != a["name"] and a["name"] not in b["supers"] and b["name"] not in ancestors(a["name"])]
        if not others:
            return None
        b = r.choice(others)
        a["supexpr"] = "ONEOF (%s, %s)" % (proper[0], b["name"])
        return ("subtype_not_listing_supertype", "%s SUPERTYPE OF (ONEOF (%s, %s)) but %s is not SUBTYPE OF it" % (a["name"], proper[0], b["name"], b["name"]),
                {"quoted": b["name"]})

    def inherited_redeclared_indirect(T):
        # the attribute comes from a supertype two or more levels up
        cands = []
        for e in T.entities:
            for s1 in e["supers"]:
                for s2 in T.entity(s1)["supers"]:
                    anc = T.entity(s2)
                    for a in anc["attrs"]:
                        if all(a["name"] != x["name"] for x in T.entity(s1)["attrs"]):
                            cands.append((e, a))
        if not cands:
            return None
        e, a = r.choice(cands)
        e["attrs"].append({"name": a["name"], "type": "INTEGER", "optional": False})
        return ("inherited_attribute_redeclared", "%s declares %s again (inherited from two levels up)" % (e["name"], a["name"]), {"quoted": a["name"]})

    def bad_inverse(T):
        es = [e for e in T.entities if e["inverse"]]
        if es:
            e = r.choice(es)
            r.choice(e["inverse"])["attr"] = "nosuch_inv_attr_xyz"
            return ("bad_inverse", "INVERSE of %s names nosuch_inv_attr_xyz" % e["name"], {"quoted": "nosuch_inv_attr_xyz"})
        e = r.choice(T.entities)
        other = r.choice(T.entities)
        e["inverse"].append({"name": "badinv", "card": "SET [0:?] OF", "entity": other["name"], "attr": "nosuch_inv_attr_xyz"})
        return ("bad_inverse", "INVERSE of %s names nosuch_inv_attr_xyz" % e["name"], {"quoted": "nosuch_inv_attr_xyz"})

    # an undefined name at every kind of position of an expression (WHERE rule) and of a statement (function body)
    WHERE_POS = ["%s > 0", "0 < %s", "%s = {a}", "{a} <> %s", "%s IN [1, 2]", "(%s + 1) > 0", "ABS (%s) > 0", "SIZEOF ([%s]) > 0",
                 "NOT (%s > 1)", "{a} + %s > 2", "EXISTS (%s)", "%s :=: {a}", "{a} * (%s - 1) >= 0",
                 "SIZEOF (QUERY (q <* [1, 2] | q > %s)) >= 0", "(%s > 0) OR ({a} > 0)", "({a} > 0) AND (%s > 0)", "-%s < 0"]
    STMT_POS = ["y := %s;", "IF %s = x THEN y := 1; END_IF;", "y := y + %s;", "REPEAT j := 1 TO %s; y := y; END_REPEAT;",
                "REPEAT WHILE %s > 0; y := y; END_REPEAT;", "CASE %s OF 1 : y := 1; END_CASE;",
                "CASE x OF 1 : y := %s; OTHERWISE : y := 0; END_CASE;", "CASE x OF 1 : y := 0; OTHERWISE : y := %s; END_CASE;",
                "CASE x OF %s : y := 0; END_CASE;", "RETURN (%s);", "%s := 1;", "IF x > 0 THEN y := 1; ELSE y := %s; END_IF;",
                "ALIAS z FOR %s; y := 1; END_ALIAS;", "BEGIN y := %s; END;"]

    def undefined_name_where(tpl):
        def fn(T):
            es = [e for e in T.entities if any(a["type"] == "INTEGER" and not a["optional"] for a in e["attrs"])]
            if not es:
                return None
            e = r.choice(es)
            a = [a["name"] for a in e["attrs"] if a["type"] == "INTEGER" and not a["optional"]][0]
            e["where"].append(("wundefn", tpl.replace("{a}", a) % "nosuch_var_xyz"))
            return ("undefined_name", "WHERE rule of %s: %s" % (e["name"], tpl), {"quoted": "nosuch_var_xyz"})
        return fn

    def undefined_name_stmt(tpl):
        def fn(T):
            T.functions.append({"name": "f_undefn", "params": [("x", "INTEGER")], "ret": "INTEGER",
                                "body": ["LOCAL", "  y : INTEGER := 0;", "END_LOCAL;", tpl % "nosuch_var_xyz", "RETURN (y);"]})
            return ("undefined_name", "function body: %s" % tpl, {"quoted": "nosuch_var_xyz"})
        return fn

    def duplicate_enum_item(T):
        ts = [t for t in T.types if t["kind"] == "enum"]
        if not ts:
            return None
        t = r.choice(ts)
        t["items"] = t["items"] + [r.choice(t["items"])]
        return ("duplicate_declaration", "enumeration %s lists %s twice" % (t["name"], t["items"][-1]), {"quoted": t["items"][-1]})

    tpls = list(WHERE_POS)
    r.shuffle(tpls)
    spls = list(STMT_POS)
    r.shuffle(spls)
    for tpl in tpls[:4]:
        variant(undefined_name_where(tpl))
    for tpl in spls[:4]:
        variant(undefined_name_stmt(tpl))
    variant(duplicate_enum_item)
    for fn in (undefined_type, undefined_supertype, undefined_subtype, undefined_schema, undefined_function, undefined_attr,
               duplicate_decl, duplicate_entity, duplicate_attr, subtype_cycle, select_cycle, subtype_not_listing,
               subtype_not_listing_second, inherited_redeclared, inherited_redeclared_indirect, bad_inverse):
        variant(fn)
    # syntax errors: textual edits of the valid schema
    base = render(S)
    lines = base.split("\n")
    semis = [i for i, l in enumerate(lines) if l.rstrip().endswith(";") and not l.startswith(("SCHEMA", "END_SCHEMA"))]
    if semis:
        i = r.choice(semis)
        l2 = list(lines)
        l2[i] = l2[i].rstrip()[:-1]
        out.append(("syntax_error", "missing semicolon on line %d" % (i + 1), "\n".join(l2), {"codes": [4, 17]}))
    kw = [i for i, l in enumerate(lines) if l.startswith("END_ENTITY")]
    if kw:
        i = r.choice(kw)
        l2 = list(lines)
        l2[i] = "END_ENTITI;"
        out.append(("syntax_error", "misspelt END_ENTITY on line %d" % (i + 1), "\n".join(l2), {"codes": [4, 17]}))
    return out


def lexical_mutants(r, S):
    """C20: diagnostics that quote a character / identifier / count from the input"""
    base = render(S)
    out = []
    lines = base.split("\n")
    idx = [i for i, l in enumerate(lines) if l.startswith("ENTITY")]
    if not idx:
        return out
    i = r.choice(idx)

    def with_line(k, text):
        l2 = list(lines)
        l2.insert(k, text)
        return "\n".join(l2)
    for ch in ["@", "~", "&", "$", "%", "^"]:
        out.append(("illegal_character", "character %s" % ch, with_line(i, ch), {"code": 33, "quoted": "(%s)" % ch, "line": i + 1}))
    # encoded string literals: a non-hex digit is reported once, with that digit; the length complaint only for a wrong length
    for lit, bad, code in (('"0000G041"', "(G)", 30), ('"000000Z1"', "(Z)", 30), ('"0000041"', "(7)", 31), ('"00000041000"', "(11)", 31)):
        out.append(("encoded_string", "encoded string literal %s" % lit,
                    with_line(i, "TYPE zz_enc = STRING; WHERE wz : SELF <> %s; END_TYPE;" % lit), {"code": code, "quoted": bad, "line": i + 1, "only_codes": [code]}))
    # not in the EXPRESS character set either; the scanner treats them as white space (open finding)
    for ch in ["`", "!"]:
        out.append(("unrecognized_character", "character %s" % ch, with_line(i, ch), {"code": 33, "quoted": "(%s)" % ch, "line": i + 1}))
    for ident in ["_abc", "_x1", "__y"]:
        t = list(lines)
        t[i] = t[i].replace("ENTITY ", "ENTITY %s_" % ident, 1)
        name = t[i].split()[1].rstrip(";")
        out.append(("bad_identifier", "identifier %s" % name, "\n".join(t), {"code": 32, "quoted": "(%s)" % name, "line": i + 1}))
    for byte in [0xE9, 0x80, 0xFF]:
        out.append(("unrecognized_character", "byte 0x%x" % byte, with_line(i, "\udcff").replace("\udcff", chr(byte)),
                    {"code": 34, "quoted": "(0x%x)" % byte, "line": i + 1, "latin1": True}))
    return out
