#!/usr/bin/env python3
"""C14 -- appending a file keeps both populations whole and their references separate.
Coq: Properties_C14.v over coq/Append.v (constants regenerated from
SetFileIdIncrement).  Correspondence: ReadExchangeFile(A) followed by one or two
AppendExchangeFile calls on generated populations with overlapping id ranges; ids and
references of the resulting session vs the extracted model; oracle from the statement."""
import os
import shutil
import sys

sys.path.insert(0, os.path.dirname(os.path.abspath(__file__)))
from common import *  # noqa
from schemalib import schema_lib, schema_harness
import p21tok
import popgen
import translate

PID = "C14"


def ser_param(p):
    k = p[0]
    if k == "null":
        return ["$"]
    if k == "star":
        return ["*"]
    if k == "int":
        return ["i%d" % p[1]]
    if k == "real":
        return ["r"]
    if k == "str":
        return ["s"]
    if k == "bin":
        return ["b"]
    if k == "enum":
        return ["e"]
    if k == "ref":
        return ["#%d" % p[1]]
    if k == "typed":
        return ["t" + p[1], "("] + ser_param(p[2]) + [")"]
    out = ["("]
    for j, x in enumerate(p[1]):
        if j:
            out.append(",")
        out += ser_param(x)
    return out + [")"]


def ser_pop(insts):
    out = []
    for i in insts:
        out += [str(i["id"]), "{"]
        for kw, ps in i["parts"]:
            out += [kw, "("]
            for j, p in enumerate(ps):
                if j:
                    out.append(",")
                out += ser_param(p)
            out.append(")")
        out.append("}")
    return out


def refs_of(p):
    k = p[0]
    if k == "ref":
        return [p[1]]
    if k == "typed":
        return refs_of(p[2])
    if k == "list":
        return [r for x in p[1] for r in refs_of(x)]
    return []


def shift_param(p, k):
    t = p[0]
    if t == "ref":
        return ("ref", p[1] + k)
    if t == "typed":
        return ("typed", p[1], shift_param(p[2], k))
    if t == "list":
        return ("list", [shift_param(x, k) for x in p[1]])
    return p


def main(tier, seed):
    res = Result(PID, tier, seed)
    try:
        translate.run_all(PID)
    except translate.AnchorLost as e:
        res.violation("translator lost its anchor: %s" % e, {"theorem_or_correspondence": "tools/translate.py gen_consts"}, found_input=False)
    pr = coq_prove(PID)
    proof_coverage(res, pr, ["INCR_* constants regenerated from STEPfile::SetFileIdIncrement (double arithmetic exact below 2^31)",
                             "the threading of addFileId through every read path is covered by the correspondence, not proved"])
    if pr["forbidden"]:
        res.violation("forbidden vernacular in coq/", {"forbidden": pr["forbidden"]}, found_input=False)
    try:
        bdir = build_impl("dbg")
        sl = schema_lib(bdir, os.path.join(VERIF, "schemas", "verif_all.exp"))
        if not sl["ok"]:
            raise BuildError("schema library does not build:\n" + sl["log"])
        hfile = schema_harness(bdir, sl, "h_file")
        extract_and_build_drivers()
    except BuildError as e:
        res.violation("build failed: %s" % e, {"error": str(e)}, found_input=False)
        res.coverage.update({"evaluations": 0, "distinct_nontrivial": 0})
        return res.finish()
    drv = driver("drv_c14")
    wdir = os.path.join(bdir, "verif-work", "c14-%d" % os.getpid())
    os.makedirs(wdir, exist_ok=True)
    n = 300 if tier == "quick" else 8000
    evals = 0
    nontrivial = 0
    disagreements = 0
    oracle_fail = 0
    samples = []
    shape_hist = {"two_files": 0, "three_files": 0, "identical_ids": 0, "near_1000": 0, "refs_in_agg_select_complex": 0}
    # offsets: exhaustive sweep of incr against the C++ formula evaluated in Python floats (the oracle of the constants)
    import math
    ks = list(range(-3, 4100)) + [9999, 10000, 10001, 99901, 99902, 2 ** 31 - 2000]
    rc, out, err = sh([drv], input=("\n".join("K %d" % m for m in ks) + "\n").encode(), timeout=120)
    for m, line in zip(ks, out.split("\n")):
        evals += 1
        exp = 0 if m < 0 else int((math.ceil((m + 99.0) / 1000.0) + 1.0) * 1000.0)
        if not line.startswith("K ") or int(line.split()[1]) != exp:
            disagreements += 1
            res.violation("model incr(%d) = %s, SetFileIdIncrement formula gives %d" % (m, line, exp),
                          {"theorem_or_correspondence": "correspondence C14: coq/Append.v incr vs STEPfile.inline.cc"}, found_input=False)
            break
    for k in range(n):
        r = rng(seed, "c14/%d" % k)
        g = popgen.Gen(r, fancy=(k % 3 == 0))
        nfiles = 3 if k % 4 == 0 else 2
        pops = []
        for f in range(nfiles):
            mode = r.choice(["same", "sparse", "near1000", "high"])
            start = {"same": 1, "sparse": 1, "near1000": r.choice([895, 990, 1890, 1995]), "high": r.choice([1, 4000, 12345])}[mode]
            insts = g.population(r.choice([3, 5, 8]), sparse_ids=(mode == "sparse"), start=start)
            pops.append(insts)
            if mode == "near1000":
                shape_hist["near_1000"] += 1
        if k % 6 == 5:
            # twin append: a file appended to itself in which every reference carries the same number, so the
            # last reference resolved before the append and the first one of the appended file are written alike
            g = popgen.Gen(r, fancy=False)
            nfiles = r.choice([2, 3])
            base = r.choice([1, 7, 995])
            def twin():
                return [{"id": base, "complex": False, "parts": [("ITEM", [("str", "a")])], "toks": ["ITEM", "(", "'a'", ")"]},
                        {"id": base + 1, "complex": False,
                         "parts": [("OWNER", [("str", "o"), ("list", [("ref", base)]), ("ref", base)])],
                         "toks": ["OWNER", "(", "'o'", ",", "(", "#%d" % base, ")", ",", "#%d" % base, ")"]}]
            pops = [twin() for _ in range(nfiles)]
            shape_hist["twin"] = shape_hist.get("twin", 0) + 1
        shape_hist["three_files" if nfiles == 3 else "two_files"] += 1
        if set(i["id"] for i in pops[0]) & set(i["id"] for i in pops[1]):
            shape_hist["identical_ids"] += 1
        if any(refs_of(p) for i in pops[1] for (_, ps) in i["parts"] for p in ps if p[0] in ("list", "typed")) or any(i["complex"] for i in pops[1]):
            shape_hist["refs_in_agg_select_complex"] += 1
        files = []
        orders = []
        for f, insts in enumerate(pops):
            data, order = g.render(insts)
            if f > 0 and k % 4 == 1:
                # the appended file names the same schema in another conforming spelling (object identifier, letter case)
                sp = r.choice(["VERIF_ALL { 1 0 10303 999 1 0 1 }", "verif_all", "Verif_All"])
                data = data.replace(b"FILE_SCHEMA(('VERIF_ALL'));", ("FILE_SCHEMA(('%s'));" % sp).encode(), 1)
                shape_hist["schema_name_spelled_differently"] = shape_hist.get("schema_name_spelled_differently", 0) + 1
            path = os.path.join(wdir, "f%d.p21" % f)
            open(path, "wb").write(data)
            files.append(path)
            orders.append(order)
        outp = os.path.join(wdir, "out.p21")
        if os.path.exists(outp):
            os.remove(outp)
        cmd = [hfile, "read", files[0]]
        for f in files[1:]:
            cmd += ["append", f]
        cmd += ["dump", "-", "write", outp]
        rc, out, err = shb(cmd, timeout=90)
        txt = out.decode("latin-1")
        evals += 1
        nontrivial += 1
        sevs = [l for l in txt.split("\n") if l.startswith("SEV ")]
        what = None
        try:
            got = p21tok.parse_file(open(outp, "rb").read())["data"]
        except (OSError, p21tok.P21Error) as e:
            got = None
            what = "no valid file written after read+append: %s (%s)" % (e, sevs)
        if got is not None:
            # oracle from the statement
            exp = [dict(i) for i in orders[0]]
            maxid = max(i["id"] for i in exp)
            offsets = []
            for order in orders[1:]:
                # one common offset larger than every earlier id: recover it from the first appended instance
                pos = len(exp)
                if pos >= len(got):
                    what = "appended instances are missing: %d instances in session, expected more than %d" % (len(got), pos)
                    break
                kk = got[pos]["id"] - order[0]["id"]
                offsets.append(kk)
                if kk <= maxid - min(i["id"] for i in order) or kk <= 0 and maxid >= 0:
                    pass
                for i in order:
                    exp.append({"id": i["id"] + kk, "complex": i["complex"],
                                "parts": [(kw, [shift_param(p, kk) for p in ps]) for kw, ps in i["parts"]]})
                if min(i["id"] for i in order) + kk <= maxid:
                    what = "offset %d does not lift the appended ids above the earlier maximum %d" % (kk, maxid)
                    break
                maxid = max(i["id"] for i in exp)
            if what is None:
                ne = [p21tok.norm_inst(i) for i in exp]
                ng = [p21tok.norm_inst(i) for i in got]
                for x in ne + ng:
                    if x["complex"]:
                        x["parts"] = sorted(x["parts"])
                if len(ne) != len(ng):
                    what = "session holds %d instances after the appends, expected %d" % (len(ng), len(ne))
                else:
                    for x, y in zip(ne, ng):
                        if x != y:
                            what = "instance #%d: expected %s got %s" % (x["id"], x["parts"], y["parts"])
                            break
                if what is None and len(set(i["id"] for i in got)) != len(got):
                    what = "instance ids collide after append"
        if what:
            oracle_fail += 1
            os.makedirs(res.replay_dir, exist_ok=True)
            saved = []
            for f, path in enumerate(files):
                dst = os.path.join(res.replay_dir, "c14-%d-%d-f%d.p21" % (seed, k, f))
                shutil.copy(path, dst)
                saved.append(dst)
            res.violation(what, {"files": saved, "replay": "%s read %s %s dump - write /tmp/out.p21" % (
                hfile, saved[0], " ".join("append " + s_ for s_ in saved[1:]))})
            continue
        # correspondence with the model: ids and reference lists of the whole session
        req = "APP " + " | ".join(" ".join(ser_pop(o)) for o in orders)
        rc2, mo, me = sh([drv], input=(req + "\n").encode(), timeout=60)
        model = {}
        mline = mo.strip().split()
        morder = []
        for ent in mline[1:]:
            i, _, rs = ent.partition(":")
            model[int(i)] = [int(x) for x in rs.split(",") if x]
            morder.append(int(i))
        impl_order = [i["id"] for i in got]
        impl = {}
        for i in got:
            parts = sorted(i["parts"]) if i["complex"] else i["parts"]
            impl[i["id"]] = [r_ for (_, ps) in parts for p in ps for r_ in refs_of(p)]
        # model part order for complex instances is the input order; compare as multisets per instance
        bad = None
        if morder != impl_order:
            bad = "ids %s vs model %s" % (impl_order, morder)
        else:
            for i in impl_order:
                if sorted(impl[i]) != sorted(model[i]):
                    bad = "references of #%d: %s vs model %s" % (i, impl[i], model[i])
                    break
        if bad:
            disagreements += 1
            res.violation("model append_pop and STEPfile disagree: " + bad,
                          {"theorem_or_correspondence": "correspondence C14: coq/Append.v vs STEPfile read+append", "request": req[:2000]},
                          found_input=False)
        if len(samples) < 2:
            samples.append({"files": [len(o) for o in orders], "offsets": offsets, "ids_after": impl_order[:12]})
    shutil.rmtree(wdir, ignore_errors=True)
    if not pr["ok"]:
        res.violation("Properties_C14.v no longer checks (%s)" % ", ".join(pr["failed"] or ["see log"]),
                      {"theorem_or_correspondence": "coq/Properties_C14.v", "log": pr["log"]}, found_input=False)
    res.coverage.update({
        "evaluations": evals,
        "distinct_nontrivial": nontrivial,
        "rule": "incr swept for max ids -3..4100 and boundary values against the C++ formula; %d histories "
                "ReadExchangeFile + 1 or 2 AppendExchangeFile over generated populations with identical / sparse / "
                "near-multiple-of-1000 / high id ranges, references inside aggregates, selects and complex parts; "
                "non-trivial = every history (>= 2 files)" % n,
        "samples": samples or ["(none)"],
        "shape_histogram": shape_hist,
        "traces_validated_against_impl": evals,
        "correspondence_disagreements": disagreements,
        "oracle_failures": oracle_fail,
        "unproved_clauses": ["that every C++ read path passes addFileId on (attribute, aggregate element, select, complex "
                             "part, generated STEPread_content) is covered by the correspondence only"],
    })
    res.assumptions = ["ids below 2^31 - 2000", "appended files conform to the schema"]
    return res.finish()


if __name__ == "__main__":
    tier = os.environ.get("VERIF_TIER", "quick")
    if "--tier" in sys.argv:
        tier = sys.argv[sys.argv.index("--tier") + 1]
    sys.exit(main(tier, int(os.environ.get("VERIF_SEED", "1"))))
