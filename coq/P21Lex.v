(* Lexical layer of the Part 21 reader/writer (C09, C05, C03, C15):
   src/clstepcore/read_func.cc  ReadInteger / ReadReal / ReadNumber / WriteReal
   src/clutils/Str.cc           CheckRemainingInput
   on a model of std::istream (peek/get/putback/ws/operator>>) and of the
   lexical stage of libstdc++'s num_get for long and double.
   No proofs here; the file is extracted for the correspondence check. *)
From Coq Require Import List ZArith Bool NArith.
From SC.gen Require Import SevTable Consts.
Import ListNotations.
Local Open Scope Z_scope.

Definition byte := N.

(* ---------------- std::istream over a byte list ---------------- *)
Record stream := mkS { rest : list byte; eofb : bool; failb : bool }.

Definition of_bytes (l : list byte) : stream := mkS l false false.
Definition good (s : stream) : bool := negb (eofb s) && negb (failb s).
Definition s_fail (s : stream) : stream := mkS (rest s) (eofb s) true.
Definition s_clear (s : stream) : stream := mkS (rest s) false false.

Definition is_space (c : byte) : bool :=
  (N.eqb c 32 || N.eqb c 9 || N.eqb c 10 || N.eqb c 11 || N.eqb c 12 || N.eqb c 13)%N.
Definition is_digit (c : byte) : bool := (N.leb 48 c && N.leb c 57)%N.

Fixpoint skip_ws (l : list byte) : list byte :=
  match l with
  | c :: r => if is_space c then skip_ws r else l
  | [] => []
  end.

(* in >> ws  (sentry with noskipws: a stream that is not good gets failbit) *)
Definition s_ws (s : stream) : stream :=
  if good s then
    let r := skip_ws (rest s) in
    match r with [] => mkS [] true (failb s) | _ => mkS r (eofb s) (failb s) end
  else s_fail s.

(* in.peek(): None = EOF; sets eofbit at end, failbit when the stream is not good *)
Definition s_peek (s : stream) : option byte * stream :=
  if good s then
    match rest s with
    | c :: _ => (Some c, s)
    | [] => (None, mkS [] true (failb s))
    end
  else (None, s_fail s).

(* in.get(c) *)
Definition s_get (s : stream) : option byte * stream :=
  if good s then
    match rest s with
    | c :: r => (Some c, mkS r (eofb s) (failb s))
    | [] => (None, mkS [] true true)
    end
  else (None, s_fail s).

(* in.putback(c): clears eofbit first (C++11), then needs a good stream *)
Definition s_putback (s : stream) (c : byte) : stream :=
  let s1 := mkS (rest s) false (failb s) in
  if good s1 then mkS (c :: rest s1) false (failb s1) else s_fail s1.

(* ---------------- num_get<long>, lexical + 64-bit range ---------------- *)
Definition LONG_MAX : Z := 9223372036854775807.
Definition LONG_MIN : Z := -9223372036854775808.

Fixpoint take_digits (l : list byte) (acc : Z) (n : nat) : Z * nat * list byte :=
  match l with
  | c :: r => if is_digit c then take_digits r (acc * 10 + (Z.of_N c - 48)) (S n) else (acc, n, l)
  | [] => (acc, n, [])
  end.

(* in >> i for long, default flags (skipws, dec).  Returns (assigned value when
   !fail, stream).  The C++ leaves the variable untouched on failure only in the
   sense STEPcode uses it: it tests in.fail(). *)
Definition s_read_long (s : stream) : option Z * stream :=
  if good s then
    let r0 := skip_ws (rest s) in
    match r0 with
    | [] => (None, mkS [] true true)               (* sentry fails at EOF *)
    | c :: r1 =>
        let neg := N.eqb c 45 in
        let signed := (N.eqb c 45 || N.eqb c 43)%bool in
        let body := if signed then r1 else r0 in
        let '(v, n, r2) := take_digits body 0 O in
        let e := match r2 with [] => true | _ => false end in
        match n with
        | O => (None, mkS r2 e true)                (* no digits *)
        | _ =>
            let v' := if neg then - v else v in
            if (LONG_MIN <=? v') && (v' <=? LONG_MAX)
            then (Some v', mkS r2 e false)
            else (None, mkS r2 e true)              (* overflow: failbit *)
        end
    end
  else (None, s_fail s).

(* ---------------- num_get<double>, lexical ---------------- *)
(* The accumulated narrow string (libstdc++ __xtrc) and the rest of the input. *)
Fixpoint take_digit_bytes (l : list byte) : list byte * list byte :=
  match l with
  | c :: r => if is_digit c then let '(d, r') := take_digit_bytes r in (c :: d, r') else ([], l)
  | [] => ([], [])
  end.

Record ftok := { f_neg : bool; f_int : list byte; f_frac : list byte;
                 f_has_exp : bool; f_eneg : bool; f_exp : list byte }.

(* decimal value of a digit list *)
Fixpoint digits_val (l : list byte) (acc : Z) : Z :=
  match l with c :: r => digits_val r (acc * 10 + (Z.of_N c - 48)) | [] => acc end.

(* |value| >= 2^1024 - 2^970 rounds to infinity: strtod reports overflow.
   Decided exactly on mantissa * 10^e; exponents are clamped first. *)
Definition DBL_OVER : Z := 2 ^ 1024 - 2 ^ 970.
Definition strip_zeros (l : list byte) : list byte :=
  (fix go l := match l with c :: r => if N.eqb c 48 then go r else l | [] => [] end) l.
Definition f_overflows (t : ftok) : bool :=
  let ds := strip_zeros (f_int t ++ f_frac t) in
  match ds with
  | [] => false
  | _ =>
      let m := digits_val ds 0 in
      let e10 := (if f_has_exp t then (if f_eneg t then - digits_val (f_exp t) 0 else digits_val (f_exp t) 0) else 0)
                 - Z.of_nat (length (f_frac t)) in
      let nd := Z.of_nat (length ds) in
      (* magnitude ~ 10^(nd-1+e10) *)
      if nd + e10 >? 320 then true
      else if nd + e10 <? 300 then false
      else if 0 <=? e10 then (DBL_OVER <=? m * 10 ^ e10) else (DBL_OVER * 10 ^ (- e10) <=? m)
  end.

Inductive fres := FOk (t : ftok) | FFail.

(* Lexical stage 2 of num_get<double> (libstdc++ _M_extract_float, C locale, no
   grouping) followed by the strtod "whole string consumed" test.
   Returns the token (when conversion succeeds), the rest, and whether EOF was hit. *)
(* consume the next byte when it satisfies p *)
Definition eat (p : byte -> bool) (l : list byte) : option byte * list byte :=
  match l with
  | c :: r => if p c then (Some c, r) else (None, l)
  | [] => (None, [])
  end.
Definition is_e (c : byte) : bool := (N.eqb c 101 || N.eqb c 69)%bool.
Definition is_dot (c : byte) : bool := N.eqb c 46.
Definition is_pm (c : byte) : bool := (N.eqb c 45 || N.eqb c 43)%bool.

Definition scan_float (l : list byte) : fres * list byte :=
  let '(sg, l1) := eat is_pm l in
  let neg := match sg with Some c => N.eqb c 45 | None => false end in
  let '(ip, l2) := take_digit_bytes l1 in
  let '(dot, l3) := eat is_dot l2 in
  let '(fp, l4) := match dot with Some _ => take_digit_bytes l3 | None => ([], l3) end in
  let mant := match ip ++ fp with [] => false | _ => true end in
  if mant then
    let '(e, l5) := eat is_e l4 in
    match e with
    | Some _ =>
        let '(esg, l6) := eat is_pm l5 in
        let eneg := match esg with Some c => N.eqb c 45 | None => false end in
        let '(ep, l7) := take_digit_bytes l6 in
        match ep with
        | [] => (FFail, l7)                         (* "1e", "1e+": strtod stops early *)
        | _ => (FOk {| f_neg := neg; f_int := ip; f_frac := fp; f_has_exp := true; f_eneg := eneg; f_exp := ep |}, l7)
        end
    | None => (FOk {| f_neg := neg; f_int := ip; f_frac := fp; f_has_exp := false; f_eneg := false; f_exp := [] |}, l5)
    end
  else (FFail, l4).

(* in >> d for double *)
Definition s_read_double (s : stream) : option ftok * stream :=
  if good s then
    let r0 := skip_ws (rest s) in
    match r0 with
    | [] => (None, mkS [] true true)
    | _ =>
        let '(fr, r1) := scan_float r0 in
        let e := match r1 with [] => true | _ => false end in
        match fr with
        | FOk t => if f_overflows t then (None, mkS r1 e true) else (Some t, mkS r1 e false)
        | FFail => (None, mkS r1 e true)
        end
    end
  else (None, s_fail s).

(* ---------------- CheckRemainingInput (Str.cc) ---------------- *)
Definition in_delims (delims : list byte) (c : byte) : bool :=
  (N.eqb c 0 || existsb (N.eqb c) delims)%bool.   (* strchr also matches the terminator *)

(* the skipping loop of CheckRemainingInput: up to a delimiter, but not beyond the semicolon that ends the instance *)
Inductive skipres : Set :=
| SkFound (d : byte) (r : list byte)     (* a delimiter: recovered *)
| SkSemi (r : list byte)                 (* stopped at a semicolon (put back) *)
| SkEnd.                                 (* end of the input *)

Fixpoint skip_to_delim (delims : list byte) (l : list byte) : skipres :=
  match l with
  | c :: r => if in_delims delims c then SkFound c r
              else if N.eqb c 59 then SkSemi r
              else skip_to_delim delims r
  | [] => SkEnd
  end.

(* the separator between a value and the delimiter that follows it (ISO 10303-21: white space and comments).
   The loop of CheckRemainingInput - in >> ws; while the next two characters are a solidus and an asterisk: read up to
   the first asterisk-solidus pair after them, in >> ws - as one pass over the unread input.
   incomment: inside a comment; star: the character before was an asterisk of the comment's text (the asterisk of
   the opening pair does not count: prev starts as NUL in the source).
   None = a comment is opened and never closed (the input is used up looking for its end). *)
Fixpoint sep_scan (incomment star : bool) (l : list byte) : option (list byte) :=
  match l with
  | [] => if incomment then None else Some []
  | c :: r =>
      if incomment then
        if (star && N.eqb c 47)%bool then sep_scan false false r
        else sep_scan true (N.eqb c 42) r
      else if is_space c then sep_scan false false r
      else if N.eqb c 47 then
        match r with
        | b :: r' => if N.eqb b 42 then sep_scan true false r' else Some l    (* a lone solidus is put back *)
        | [] => Some l
        end
      else Some l
  end.

(* delims = None models a NULL tokenList (no comment is looked for then) *)
Definition check_remaining (s : stream) (sev : Z) (delims : option (list byte)) : Z * stream :=
  if eofb s then (sev, s)
  else
    match delims with
    | Some ds =>
        match sep_scan false false (rest s) with
        | None => (greater sev SEVERITY_INPUT_ERROR, mkS [] true true)     (* comment never closed *)
        | Some [] => (sev, mkS [] true false)                               (* in >> ws reached the end *)
        | Some (c :: r) =>
            if in_delims ds c then (sev, mkS (c :: r) false false)
            else
              match skip_to_delim ds (c :: r) with
              | SkFound d r' => (greater sev SEVERITY_WARNING, mkS (d :: r') false false)
              | SkSemi r' => (greater sev SEVERITY_INPUT_ERROR, mkS (59%N :: r') false false)
              | SkEnd => (greater sev SEVERITY_INPUT_ERROR, mkS [] true true)
              end
        end
    | None =>
        let s1 := s_ws (s_clear s) in
        if eofb s1 then (sev, s1)
        else if good s1 then (greater sev SEVERITY_WARNING, s1) else (sev, s1)
    end.

(* ---------------- ReadInteger ---------------- *)
(* result: assigned value (None = val left untouched), severity, stream *)
Definition read_integer (s : stream) (sev : Z) (delims : option (list byte)) : option Z * Z * stream :=
  let s1 := s_ws s in
  let '(v, s2) := s_read_long s1 in
  let sev1 := match v with Some _ => sev | None => greater sev SEVERITY_WARNING end in
  let '(sev', s3) := check_remaining s2 sev1 delims in
  (v, sev', s3).

(* ---------------- ReadNumber ---------------- *)
Definition read_number (s : stream) (sev : Z) (delims : option (list byte)) : option ftok * Z * stream :=
  let s1 := s_ws s in
  let '(v, s2) := s_read_double s1 in
  let sev1 := match v with Some _ => sev | None => greater sev SEVERITY_WARNING end in
  let '(sev', s3) := check_remaining s2 sev1 delims in
  (v, sev', s3).

(* ---------------- ReadReal ---------------- *)
(* the scan into buf[]: characters copied, local severity e, and the number of
   bytes written to buf (index of the terminating NUL) *)
(* "in.get( buf[i++] ); c = in.peek();" : consume the peeked character, peek again *)
Definition get_peek (s : stream) (buf : list byte) : list byte * option byte * stream :=
  let '(c, s1) := s_get s in
  let buf' := buf ++ match c with Some b => [b] | None => [] end in
  let '(c', s2) := s_peek s1 in
  (buf', c', s2).

Definition opt_is (p : byte -> bool) (c : option byte) : bool :=
  match c with Some b => p b | None => false end.

(* while( isdigit( c ) ) { in.get( buf[i++] ); c = in.peek(); } *)
Fixpoint get_digits (fuel : nat) (s : stream) (c : option byte) (buf : list byte)
  : list byte * option byte * stream :=
  match fuel with
  | O => (buf, c, s)
  | S f =>
      if opt_is is_digit c then
        let '(buf', c', s') := get_peek s buf in get_digits f s' c' buf'
      else (buf, c, s)
  end.

Definition is_sign (c : byte) : bool := (N.eqb c 43 || N.eqb c 45)%bool.

Record real_scan := { rs_buf : list byte; rs_sev : Z; rs_stream : stream }.

Definition scan_real (s0 : stream) : real_scan :=
  let fuel := S (length (rest s0)) in
  let s := s_ws s0 in
  let '(c0, s1) := s_peek s in
  (* optional sign *)
  let '(buf1, c1, s2) := if opt_is is_sign c0 then get_peek s1 [] else ([], c0, s1) in
  (* required initial digit *)
  let e1 := if opt_is is_digit c1 then SEVERITY_NULL else SEVERITY_WARNING in
  let '(buf2, c2, s3) := get_digits fuel s2 c1 buf1 in
  (* required decimal point *)
  let '(buf3, c3, s4, e2) :=
    if opt_is (N.eqb 46) c2 then let '(b, c, s') := get_peek s3 buf2 in (b, c, s', e1)
    else (buf2, c2, s3, greater e1 SEVERITY_WARNING) in
  let '(buf4, c4, s5) := get_digits fuel s4 c3 buf3 in
  (* optional exponent *)
  if opt_is (fun c => (N.eqb c 101 || N.eqb c 69)%bool) c4 then
    let e3 := if opt_is (N.eqb 101) c4 then greater e2 SEVERITY_WARNING else e2 in
    let '(buf5, c5, s6) := get_peek s5 buf4 in
    let '(buf6, c6, s7) := if opt_is is_sign c5 then get_peek s6 buf5 else (buf5, c5, s6) in
    let e4 := if opt_is is_digit c6 then e3 else greater e3 SEVERITY_WARNING in
    let '(buf7, c7, s8) := get_digits fuel s7 c6 buf6 in
    {| rs_buf := buf7; rs_sev := e4; rs_stream := s8 |}
  else {| rs_buf := buf4; rs_sev := e2; rs_stream := s5 |}.

(* ReadReal: value token (None = S_REAL_NULL assigned, valAssigned = 0), severity, stream *)
Definition read_real (s : stream) (sev : Z) (delims : option (list byte)) : option ftok * Z * stream :=
  let sc := scan_real s in
  let '(v, _) := s_read_double (of_bytes (rs_buf sc)) in
  let sev1 := match v with Some _ => greater sev (rs_sev sc) | None => greater sev SEVERITY_WARNING end in
  let '(sev2, s3) := check_remaining (rs_stream sc) sev1 delims in
  (v, sev2, s3).

(* number of characters ReadReal collects; with a fixed buffer char buf[N] this is
   the index of the terminating NUL and must stay below N (READREAL_BUF = 0
   encodes the unbounded std::string of the current source) *)
Definition read_real_buf_index (s : stream) : Z := Z.of_nat (length (rs_buf (scan_real s))).

(* ---------------- WriteReal: post-processing of the "%.15G" text ---------------- *)
Definition has_byte (b : byte) (l : list byte) : bool := existsb (N.eqb b) l.

Fixpoint split_at (b : byte) (l : list byte) : list byte * list byte :=
  match l with
  | c :: r => if N.eqb c b then ([], r) else let '(x, y) := split_at b r in (c :: x, y)
  | [] => ([], [])
  end.

(* rbuf = output of sprintf("%.15G", val) *)
Definition write_real_text (rbuf : list byte) : list byte :=
  if has_byte 46%N rbuf then rbuf
  else if (has_byte 69%N rbuf || has_byte 101%N rbuf)%bool then
    let k := if has_byte 69%N rbuf then 69%N else 101%N in
    let '(m, e) := split_at k rbuf in
    m ++ [46%N; 69%N] ++ e
  else rbuf ++ [46%N].
