(* src/cldai/sdaiEnum.cc  SDAI_Enum::ReadEnum / SDAI_LOGICAL::ReadEnum (C09): reading an
   enumeration, BOOLEAN or LOGICAL token from the stream model of P21Lex.v.
   The two functions differ only in how many table entries they search; [elems] is the
   element_at() table, [nsearch] the number of indices compared.  No proofs here. *)
From Coq Require Import List ZArith Bool NArith.
From SC.gen Require Import SevTable.
From SC Require Import P21Lex.
Import ListNotations.
Local Open Scope Z_scope.

Definition is_alpha (c : byte) : bool := ((N.leb 65 c && N.leb c 90) || (N.leb 97 c && N.leb c 122))%N%bool.
Definition is_alnum (c : byte) : bool := is_alpha c || is_digit c.
Definition upc (c : byte) : byte := if (N.leb 97 c && N.leb c 122)%N then (c - 32)%N else c.

Fixpoint bytes_eqb (a b : list byte) : bool :=
  match a, b with
  | [], [] => true
  | x :: a', y :: b' => N.eqb x y && bytes_eqb a' b'
  | _, _ => false
  end.

(* first index below nsearch whose table entry equals the upper-cased word *)
Fixpoint search (w : list byte) (elems : list (list byte)) (nsearch : nat) (i : Z) : option Z :=
  match nsearch, elems with
  | O, _ => None
  | S n, e :: r => if bytes_eqb w e then Some i else search w r n (i + 1)
  | S n, [] => None
  end.

(* the "look for UPPER or DIGIT" loop: c is the character in hand *)
Fixpoint word_loop (fuel : nat) (s : stream) (c : byte) (acc : list byte) : stream * byte * list byte :=
  match fuel with
  | O => (s, c, acc)
  | S f =>
    if good s && (is_alnum c || N.eqb c 95) then
      match s_get s with
      | (Some c', s') => word_loop f s' c' (acc ++ [c])
      | (None, s') => (s', c, acc ++ [c])           (* get failed: c keeps its value *)
      end
    else (s, c, acc)
  end.

Record eres := { e_sev : Z; e_val : option Z; e_stream : stream }.

Definition worse (a b : Z) : Z := greater a b.

(* [null_index]: a table entry that names the unset state (LOGICAL's UNSET) is not a literal *)
Definition lookup (elems : list (list byte)) (nsearch : nat) (null_index : option Z) (w : list byte) : option Z :=
  match search (map upc w) elems nsearch 0 with
  | Some i => match null_index with Some n => if i =? n then None else Some i | None => Some i end
  | None => None
  end.

Definition read_enum (elems : list (list byte)) (nsearch : nat) (null_index : option Z) (need_delims : bool) (s0 : stream) : eres :=
  let s := s_ws s0 in
  if good s then
    match s_get s with
    | (None, s1) => {| e_sev := SEVERITY_NULL; e_val := None; e_stream := s1 |}   (* unreachable: good and non-empty after ws *)
    | (Some c0, s1) =>
      if N.eqb c0 46 || is_alpha c0 then
        let '(valid0, c1, s2) :=
            if N.eqb c0 46 then
              match s_get s1 with (Some c', s') => (false, c', s') | (None, s') => (false, c0, s') end
            else (true, c0, s1) in
        (* look for UPPER *)
        let '(s3, c2, w1) :=
            if good s2 && (is_alpha c1 || N.eqb c1 95) then
              match s_get s2 with (Some c', s') => (s', c', [c1]) | (None, s') => (s', c1, [c1]) end
            else (s2, c1, []) in
        let '(s4, c3, w) := word_loop (S (length (rest s3))) s3 c2 w1 in
        let s5 := if good s4 && negb (N.eqb c3 46) then s_putback s4 c3 else s4 in
        match w with
        | _ :: _ =>
          let found := lookup elems nsearch null_index w in
          let sev1 := match found with None => worse SEVERITY_NULL SEVERITY_WARNING | Some _ => SEVERITY_NULL end in
          let valid :=
              if N.eqb c3 46 then negb valid0
              else if need_delims then false else valid0 in
          let sev2 := if valid then sev1 else worse sev1 SEVERITY_WARNING in
          {| e_sev := sev2; e_val := found; e_stream := s5 |}
        | [] =>
          if N.eqb c3 46 || negb valid0
          then {| e_sev := SEVERITY_WARNING; e_val := None; e_stream := s5 |}
          else {| e_sev := SEVERITY_INCOMPLETE; e_val := None; e_stream := s5 |}
        end
      else if N.eqb c0 44 || N.eqb c0 41 then
        {| e_sev := SEVERITY_INCOMPLETE; e_val := None; e_stream := s_putback s1 c0 |}
      else {| e_sev := SEVERITY_WARNING; e_val := None; e_stream := s_putback s1 c0 |}
    end
  else {| e_sev := SEVERITY_INCOMPLETE; e_val := None; e_stream := s |}.

(* the three tables *)
Definition str (l : list Z) : list byte := map Z.to_N l.
Definition LOGICAL_TABLE : list (list byte) := [str [70]; str [84]; str [85; 78; 83; 69; 84]; str [85]].   (* F T UNSET U *)
Definition BOOLEAN_TABLE : list (list byte) := [str [70]; str [84]].
