From Coq Require Import List NArith Bool Lia Arith.
From SC Require Import gen.StrSplit ExpStr.
Import ListNotations.
Local Open Scope N_scope.

(* a piece never ends between the two apostrophes of a pair because it ends after BREAK_CHAR *)
Lemma break_is_not_quote : (BREAK_CHAR =? QUOTE_CHAR) = false.
Proof. reflexivity. Qed.

Lemma dbl_cons c r : dbl (c :: r) = (if c =? QUOTE_CHAR then [c; c] else [c]) ++ dbl r.
Proof. reflexivity. Qed.

Lemma dbl_app a b : dbl (a ++ b) = dbl a ++ dbl b.
Proof. unfold dbl. apply flat_map_app. Qed.

Lemma undbl_dbl s : undbl (dbl s) = Some s.
Proof.
  induction s as [|c r IH]; [reflexivity|].
  rewrite dbl_cons. destruct (c =? QUOTE_CHAR) eqn:E.
  - cbn [app undbl]. rewrite E, IH. reflexivity.
  - cbn [app undbl]. rewrite E, IH. reflexivity.
Qed.

(* ---- the loop of the C code computes the structural pieces ---- *)
Lemma next_bp_le s : (next_bp s <= length s)%nat.
Proof. induction s as [|c r IH]; cbn [next_bp length]; [lia|]. destruct (c =? BREAK_CHAR); lia. Qed.

Lemma next_bp_pos c r : (1 <= next_bp (c :: r))%nat.
Proof. cbn [next_bp]. destruct (c =? BREAK_CHAR); lia. Qed.

Lemma chunks_step s : s <> [] ->
  chunks s = firstn (next_bp s) s :: chunks (skipn (next_bp s) s).
Proof.
  induction s as [|c r IH]; [congruence|]. intros _.
  cbn [chunks next_bp]. destruct (c =? BREAK_CHAR) eqn:E.
  - reflexivity.
  - cbn [firstn skipn]. destruct r as [|c' r'].
    + reflexivity.
    + rewrite (IH ltac:(discriminate)). reflexivity.
Qed.

Lemma pieces_loop_chunks : forall fuel s, (length s <= fuel)%nat -> pieces_loop fuel s = chunks s.
Proof.
  induction fuel as [|f IH]; intros s H.
  - destruct s; [reflexivity | cbn [length] in H; lia].
  - destruct s as [|c r]; [reflexivity|].
    cbn [pieces_loop]. rewrite (chunks_step (c :: r)) by discriminate.
    f_equal. apply IH. rewrite skipn_length.
    pose proof (next_bp_pos c r). cbn [length] in *. lia.
Qed.

Lemma pieces_c_chunks s : pieces_c s = chunks s.
Proof. apply pieces_loop_chunks. lia. Qed.

Lemma concat_chunks s : concat (chunks s) = s.
Proof.
  induction s as [|c r IH]; [reflexivity|].
  cbn [chunks]. destruct (c =? BREAK_CHAR).
  - cbn [concat app]. rewrite IH. reflexivity.
  - destruct (chunks r) as [|h t]; cbn [concat app] in *; rewrite <- IH; [reflexivity|reflexivity].
Qed.

(* cutting commutes with doubling the apostrophes: no cut falls inside a pair *)
Lemma chunks_dbl s : chunks (dbl s) = map dbl (chunks s).
Proof.
  induction s as [|c r IH]; [reflexivity|].
  rewrite dbl_cons. cbn [chunks]. destruct (c =? BREAK_CHAR) eqn:B.
  - assert (Q : (c =? QUOTE_CHAR) = false).
    { apply N.eqb_eq in B. subst c. exact break_is_not_quote. }
    rewrite Q. cbn [app chunks map]. rewrite B, IH.
    change (dbl [c]) with ((if c =? QUOTE_CHAR then [c; c] else [c]) ++ []). rewrite Q. reflexivity.
  - destruct (c =? QUOTE_CHAR) eqn:Q.
    + cbn [app chunks]. rewrite B, IH.
      destruct (chunks r) as [|h t]; cbn [map].
      * change (dbl [c]) with ((if c =? QUOTE_CHAR then [c; c] else [c]) ++ []). rewrite Q. reflexivity.
      * rewrite dbl_cons, Q. reflexivity.
    + cbn [app chunks]. rewrite B, IH.
      destruct (chunks r) as [|h t]; cbn [map].
      * change (dbl [c]) with ((if c =? QUOTE_CHAR then [c; c] else [c]) ++ []). rewrite Q. reflexivity.
      * rewrite dbl_cons, Q. reflexivity.
Qed.

Lemma emit_map : forall cs cur ds, emit (dbl cur) (map dbl cs) ds = map dbl (emit cur cs ds).
Proof.
  induction cs as [|c r IH]; intros cur ds; [reflexivity|].
  cbn [map emit]. destruct ds as [|[|] ds'].
  - rewrite <- dbl_app. apply IH.
  - cbn [map]. rewrite IH. reflexivity.
  - rewrite <- dbl_app. apply IH.
Qed.

Lemma concat_emit : forall cs cur ds, concat (emit cur cs ds) = cur ++ concat cs.
Proof.
  induction cs as [|c r IH]; intros cur ds.
  - cbn [emit concat]. reflexivity.
  - cbn [emit concat]. destruct ds as [|[|] ds'].
    + rewrite IH, <- app_assoc. reflexivity.
    + cbn [concat]. rewrite IH. reflexivity.
    + rewrite IH, <- app_assoc. reflexivity.
Qed.

(* the literals are the doubled forms of strings whose concatenation is the source value *)
Lemma literals_are_dbl s ds : exists vs, literals s ds = map dbl vs /\ concat vs = s.
Proof.
  unfold literals. rewrite pieces_c_chunks, chunks_dbl.
  pose proof (concat_chunks s) as C.
  destruct (chunks s) as [|c r]; cbn [map].
  - exists [[]]. split; [reflexivity|]. cbn [concat app] in *. exact C.
  - exists (emit c r ds). split; [apply emit_map|].
    rewrite concat_emit. exact C.
Qed.

Theorem split_denotes_source s ds :
  exists vs, map undbl (literals s ds) = map Some vs /\ concat vs = s.
Proof.
  destruct (literals_are_dbl s ds) as [vs [E C]]. exists vs. split; [|exact C].
  rewrite E, map_map. apply map_ext. intros v. apply undbl_dbl.
Qed.

Theorem split_keeps_text s ds : concat (literals s ds) = dbl s.
Proof.
  destruct (literals_are_dbl s ds) as [vs [E C]]. rewrite E, <- C.
  clear. induction vs as [|v r IH]; [reflexivity|]. cbn [map concat]. rewrite dbl_app, IH. reflexivity.
Qed.

(* no decisions (everything fits): one literal *)
Lemma short_path s : literals s [] = [dbl s].
Proof.
  unfold literals. rewrite pieces_c_chunks.
  pose proof (concat_chunks (dbl s)) as C.
  destruct (chunks (dbl s)) as [|c r].
  - cbn [concat] in C. rewrite <- C. reflexivity.
  - assert (E : forall cs cur, emit cur cs [] = [cur ++ concat cs]).
    { induction cs as [|x cs IH]; intros cur; cbn [emit concat]; [rewrite app_nil_r; reflexivity|].
      rewrite IH, <- app_assoc. reflexivity. }
    rewrite E. cbn [concat] in C. rewrite C. reflexivity.
Qed.

(* the oracle of the correspondence check is sound *)
Lemma str_eqb_eq a : forall b, str_eqb a b = true -> a = b.
Proof.
  induction a as [|x a IH]; intros [|y b] H; cbn [str_eqb] in H; try discriminate; [reflexivity|].
  apply andb_prop in H. destruct H as [H1 H2]. apply N.eqb_eq in H1. subst. f_equal. apply IH. exact H2.
Qed.

Theorem explained_sound s lits : explained s lits = true -> exists ds, literals s ds = lits.
Proof.
  unfold explained, literals. destruct (pieces_c (dbl s)) as [|c r].
  - intros H. exists []. destruct lits as [|[|? ?] [|? ?]]; try discriminate. reflexivity.
  - set (eqs := fix eqs (a b : list str) : bool :=
                  match a, b with
                  | [], [] => true
                  | x :: a', y :: b' => str_eqb x y && eqs a' b'
                  | _, _ => false
                  end).
    assert (Heq : forall a b, eqs a b = true -> a = b).
    { induction a as [|x a IH]; intros [|y b] H; cbn in H; try discriminate; [reflexivity|].
      apply andb_prop in H. destruct H as [H1 H2]. apply str_eqb_eq in H1. subst. f_equal. apply IH. exact H2. }
    intros H. exists (explain c r lits). apply Heq. exact H.
Qed.
