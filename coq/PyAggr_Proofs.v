From Coq Require Import List ZArith Bool Lia Arith.
From SC Require Import PyAggr.
Import ListNotations.
Local Open Scope Z_scope.

Lemma set_nth_length {A} (l : list A) n x : length (set_nth l n x) = length l.
Proof. revert n. induction l as [|y r IH]; intros [|n]; cbn; try reflexivity. f_equal. apply IH. Qed.

Lemma nth_set_nth_same {A} (l : list A) n x d : (n < length l)%nat -> nth n (set_nth l n x) d = x.
Proof. revert n. induction l as [|y r IH]; intros [|n] H; cbn in *; try lia; [reflexivity|apply IH; lia]. Qed.

Lemma nth_set_nth_other {A} (l : list A) n m x d : n <> m -> nth m (set_nth l n x) d = nth m l d.
Proof.
  revert n m. induction l as [|y r IH]; intros [|n] [|m] H; cbn; try reflexivity; try congruence.
  apply IH. congruence.
Qed.

(* ---------------- ARRAY ---------------- *)
Definition array_wf (a : agg) : Prop :=
  a_kind a = KArray /\ exists b2, a_b2 a = Some b2 /\ a_b1 a <= b2 /\
  Z.of_nat (length (a_cont a)) = b2 - a_b1 a + 1.

Lemma new_array_wf b1 b2 u o a : new_agg KArray b1 b2 u o = inl a -> array_wf a.
Proof.
  cbn. destruct b2 as [n2|]; [|discriminate]. destruct (Z.leb_spec b1 n2) as [Hle|Hgt]; [|discriminate].
  intros Hn. inversion Hn. subst. split; [reflexivity|]. exists n2. cbn. rewrite repeat_length.
  repeat split; try lia.
Qed.

Lemma array_step_wf a o : array_wf a -> array_wf (fst (array_step a o)).
Proof.
  intros [Hk [b2 [Hb [Hle Hlen]]]]. unfold array_step. rewrite Hb.
  destruct o; cbn [fst]; try (split; [exact Hk|exists b2; auto]).
  - destruct (i <? a_b1 a); [split; [exact Hk|exists b2; auto]|].
    destruct (b2 <? i); [split; [exact Hk|exists b2; auto]|].
    destruct (nth _ _ _); [|destruct (a_optional a)]; split; try exact Hk; exists b2; auto.
  - destruct (i <? a_b1 a); [split; [exact Hk|exists b2; auto]|].
    destruct (b2 <? i); [split; [exact Hk|exists b2; auto]|].
    destruct (negb (typed v)); [split; [exact Hk|exists b2; auto]|].
    destruct (a_unique a && mem_other v (a_cont a) (Z.to_nat (i - a_b1 a))); [split; [exact Hk|exists b2; auto]|].
    cbn. split; [exact Hk|]. exists b2. cbn. rewrite set_nth_length. auto.
Qed.

(* an assignment is accepted exactly when EXPRESS allows it *)
Lemma array_set_accept a i v : array_wf a ->
  (exists a', array_step a (OSet i v) = (a', Ok RNone)) <->
  (a_b1 a <= i /\ (forall b2, a_b2 a = Some b2 -> i <= b2) /\ typed v = true /\
   (a_unique a = true -> mem_other v (a_cont a) (Z.to_nat (i - a_b1 a)) = false)).
Proof.
  intros [Hk [b2 [Hb [Hle Hlen]]]]. unfold array_step. rewrite Hb. split.
  - intros [a' H]. destruct (Z.ltb_spec i (a_b1 a)); [discriminate|].
    destruct (Z.ltb_spec b2 i); [discriminate|].
    destruct (typed v) eqn:Ht; cbn [negb] in H; [|discriminate].
    destruct (a_unique a) eqn:Hu; cbn [andb] in H.
    + destruct (mem_other v (a_cont a) (Z.to_nat (i - a_b1 a))) eqn:Hm; [discriminate|].
      repeat split; auto. intros b2' E. inversion E. lia.
    + repeat split; auto; [intros b2' E; inversion E; lia|discriminate].
  - intros [H1 [H2 [H3 H4]]]. specialize (H2 b2 eq_refl).
    destruct (Z.ltb_spec i (a_b1 a)); [lia|]. destruct (Z.ltb_spec b2 i); [lia|].
    rewrite H3. cbn [negb]. destruct (a_unique a); cbn [andb]; [rewrite (H4 eq_refl)|]; eexists; reflexivity.
Qed.

(* what was stored is read back; every other position is untouched *)
Lemma array_set_get a i v a' : array_wf a -> array_step a (OSet i v) = (a', Ok RNone) ->
  snd (array_step a' (OGet i)) = Ok (RVal v) /\
  forall j, j <> i -> snd (array_step a' (OGet j)) = snd (array_step a (OGet j)).
Proof.
  intros [Hk [b2 [Hb [Hle Hlen]]]] H. unfold array_step in H. rewrite Hb in H.
  destruct (Z.ltb_spec i (a_b1 a)); [discriminate|]. destruct (Z.ltb_spec b2 i); [discriminate|].
  destruct (negb (typed v)); [discriminate|].
  destruct (a_unique a && mem_other v (a_cont a) (Z.to_nat (i - a_b1 a))); [discriminate|].
  inversion H. subst a'. clear H. unfold array_step, with_cont. cbn [a_b1 a_b2 a_cont a_optional]. rewrite Hb.
  split.
  - destruct (Z.ltb_spec i (a_b1 a)); [lia|]. destruct (Z.ltb_spec b2 i); [lia|]. cbn [snd].
    rewrite nth_set_nth_same by lia. reflexivity.
  - intros j Hj. destruct (Z.ltb_spec j (a_b1 a)); [reflexivity|]. destruct (Z.ltb_spec b2 j); [reflexivity|].
    rewrite nth_set_nth_other by lia.
    destruct (nth (Z.to_nat (j - a_b1 a)) (a_cont a) None); [reflexivity|]. destruct (a_optional a); reflexivity.
Qed.

(* size and index range never change *)
Lemma array_queries a : array_wf a -> forall b2, a_b2 a = Some b2 ->
  snd (array_step a QSize) = Ok (RInt (Z.of_nat (length (a_cont a)))) /\
  snd (array_step a QLoIndex) = Ok (RInt (a_b1 a)) /\ snd (array_step a QHiIndex) = Ok (RInt b2).
Proof.
  intros [Hk [b2' [Hb [Hle Hlen]]]] b2 E. rewrite Hb in E. inversion E. subst b2'.
  unfold array_step. rewrite Hb. cbn [snd]. rewrite Hlen. auto.
Qed.

(* an unset element is readable only when OPTIONAL *)
Lemma array_get_unset a i : array_wf a -> a_b1 a <= i -> (forall b2, a_b2 a = Some b2 -> i <= b2) ->
  nth (Z.to_nat (i - a_b1 a)) (a_cont a) None = None ->
  snd (array_step a (OGet i)) = if a_optional a then Ok RNone else Raise AssertionError.
Proof.
  intros [Hk [b2 [Hb [Hle Hlen]]]] H1 H2 Hn. specialize (H2 b2 Hb). unfold array_step. rewrite Hb.
  destruct (Z.ltb_spec i (a_b1 a)); [lia|]. destruct (Z.ltb_spec b2 i); [lia|]. rewrite Hn.
  destruct (a_optional a); reflexivity.
Qed.

(* ---------------- BAG and SET ---------------- *)
Definition bagset_wf (a : agg) : Prop :=
  (a_kind a = KBag \/ a_kind a = KSet) /\ 0 <= a_b1 a /\
  (forall b2, a_b2 a = Some b2 -> Z.of_nat (length (a_cont a)) <= b2 /\ a_b1 a <= b2) /\
  (forall x, In x (a_cont a) -> exists v, x = Some v /\ typed v = true) /\
  (a_kind a = KSet -> NoDup (a_cont a)).

Lemma memv_In v l : (forall x, In x l -> exists w, x = Some w) -> memv v l = true -> exists w, In (Some w) l /\ pv_eqb v w = true.
Proof.
  intros Hs. unfold memv. rewrite existsb_exists. intros [x [Hx E]]. destruct x as [w|]; [|discriminate]. eauto.
Qed.

Lemma pv_eqb_eq a b : pv_eqb a b = true <-> a = b.
Proof.
  destruct a, b; cbn; split; intros H; try discriminate; try (apply Z.eqb_eq in H; congruence);
    inversion H; apply Z.eqb_refl.
Qed.

Lemma memv_false_notin v l : memv v l = false -> ~ In (Some v) l.
Proof.
  unfold memv. intros H Hin. assert (existsb (fun x => match x with Some w => pv_eqb v w | None => false end) l = true).
  { apply existsb_exists. exists (Some v). split; [exact Hin|]. apply pv_eqb_eq. reflexivity. }
  congruence.
Qed.

Lemma new_bagset_wf k b1 b2 u o a : (k = KBag \/ k = KSet) -> new_agg k b1 b2 u o = inl a -> bagset_wf a.
Proof.
  intros Hk Hn.
  assert (Hform : negb (0 <=? b1) = false /\
                  a = {| a_kind := k; a_b1 := b1; a_b2 := b2; a_unique := false; a_optional := false; a_cont := [] |} /\
                  (forall n2, b2 = Some n2 -> b1 <= n2)).
  { destruct Hk as [-> | ->]; cbn in Hn; destruct (negb (0 <=? b1)) eqn:E0; try discriminate;
      destruct b2 as [n2|]; try (destruct (Z.leb_spec b1 n2) as [Hl|Hg]; [|discriminate]);
      inversion Hn; subst; (split; [reflexivity|split; [reflexivity|]]); intros n E; inversion E; subst; try lia. }
  destruct Hform as [H0 [-> Hb]]. apply negb_false_iff in H0. apply Z.leb_le in H0.
  split; [exact Hk|]. cbn. split; [exact H0|]. split; [|split].
  - intros n2 E. split; [pose proof (Hb n2 E); lia|apply Hb; exact E].
  - intros x [].
  - intros _. constructor.
Qed.

Lemma bagset_step_wf a o : bagset_wf a -> bagset_wf (fst (bagset_step a o)).
Proof.
  intros Hw. pose proof Hw as [Hk [H0 [Hb [Hty Hnd]]]]. unfold bagset_step.
  destruct o as [i|i v0|v| | | | | |]; cbn [fst]; try exact Hw; try (destruct (a_kind a); exact Hw).
  assert (Hadd : typed v = true -> full a = false -> (a_kind a = KSet -> memv v (a_cont a) = false) ->
                 bagset_wf (with_cont a (a_cont a ++ [Some v]))).
  { intros Ht Hf Hm. unfold with_cont. split; [exact Hk|]. cbn. split; [exact H0|]. split; [|split].
    - intros b2 E. destruct (Hb b2 E) as [H1 H2]. split; [|exact H2]. unfold full in Hf. rewrite E in Hf.
      unfold zlen in Hf. rewrite app_length. cbn. destruct (Z.geb_spec (Z.of_nat (length (a_cont a))) b2); [discriminate|lia].
    - intros x Hx. apply in_app_or in Hx. destruct Hx as [Hx|[Hx|[]]]; [apply Hty; exact Hx|subst; eauto].
    - intros Hs. specialize (Hnd Hs). specialize (Hm Hs).
      clear -Hnd Hm. induction (a_cont a) as [|x r IH]; cbn.
      + constructor; [intros []|constructor].
      + inversion Hnd as [|? ? Hx Hr]. subst. constructor.
        * intro Hin. apply in_app_or in Hin. destruct Hin as [Hin|[Hin|[]]]; [contradiction|]. subst.
          apply (memv_false_notin v (Some v :: r) Hm). left. reflexivity.
        * apply IH; [exact Hr|]. unfold memv in *. cbn in Hm. apply orb_false_elim in Hm. tauto. }
  destruct (a_kind a) eqn:Ek; destruct Hk as [Hk|Hk]; try discriminate.
  - destruct (full a) eqn:Ef; cbn [fst]; [exact Hw|].
    destruct (typed v) eqn:Et; cbn [negb fst]; [|exact Hw].
    apply Hadd; auto. discriminate.
  - destruct (full a) eqn:Ef.
    + destruct (memv v (a_cont a)); cbn [fst]; exact Hw.
    + destruct (typed v) eqn:Et; cbn [negb]; [|cbn [fst]; exact Hw].
      destruct (memv v (a_cont a)) eqn:Em; cbn [fst]; [exact Hw|].
      apply Hadd; auto.
Qed.

(* a BAG accepts an element exactly when it has the base type and the upper bound leaves room *)
Lemma bag_add_accept a v : bagset_wf a -> a_kind a = KBag ->
  (snd (bagset_step a (OAdd v)) = Ok RNone <->
   typed v = true /\ forall b2, a_b2 a = Some b2 -> Z.of_nat (length (a_cont a)) < b2).
Proof.
  intros [_ [H0 [Hb _]]] Hk. unfold bagset_step. rewrite Hk. unfold full, zlen.
  destruct (a_b2 a) as [b2|] eqn:E.
  - destruct (Z.geb_spec (Z.of_nat (length (a_cont a))) b2) as [Hge|Hlt]; cbn [snd].
    + split; [discriminate|]. intros [_ H]. specialize (H b2 eq_refl). lia.
    + destruct (typed v); cbn [negb snd]; split; auto; try discriminate; try (intros [H _]; discriminate).
      intros _. split; [reflexivity|]. intros b2' E'. inversion E'. lia.
  - destruct (typed v); cbn [negb snd]; split; auto; try discriminate; try (intros [H _]; discriminate).
    intros _. split; [reflexivity|discriminate].
Qed.

(* the reported size is the number of elements held, never above the upper bound *)
Lemma bagset_size a : bagset_wf a ->
  snd (bagset_step a QSize) = Ok (RInt (Z.of_nat (length (a_cont a)))) /\
  forall b2, a_b2 a = Some b2 -> Z.of_nat (length (a_cont a)) <= b2.
Proof. intros [_ [_ [Hb _]]]. split; [reflexivity|]. intros b2 E. apply (Hb b2 E). Qed.

(* a SET never holds two equal elements, whatever is added *)
Lemma set_nodup a ops : bagset_wf a -> a_kind a = KSet ->
  NoDup (a_cont (fold_left (fun s o => fst (bagset_step s o)) ops a)).
Proof.
  revert a. induction ops as [|o r IH]; intros a Hw Hk; cbn [fold_left].
  - destruct Hw as [_ [_ [_ [_ Hnd]]]]. apply Hnd. exact Hk.
  - apply IH; [apply bagset_step_wf; exact Hw|].
    unfold bagset_step. destruct o as [i|i v0|v| | | | | |]; cbn [fst]; try exact Hk.
    + rewrite Hk. destruct (full a); [destruct (memv v (a_cont a)); exact Hk|].
      destruct (negb (typed v)); [exact Hk|]. destruct (memv v (a_cont a)); [exact Hk|]. cbn. exact Hk.
    + rewrite Hk. exact Hk.
Qed.

(* adding an element a SET already holds is accepted and changes nothing *)
Lemma set_add_existing a v : a_kind a = KSet -> memv v (a_cont a) = true -> typed v = true ->
  bagset_step a (OAdd v) = (a, Ok RNone).
Proof.
  intros Hk Hm Ht. unfold bagset_step. rewrite Hk, Hm, Ht. destruct (full a); reflexivity.
Qed.
