(* C08: the tree the generator builds for a supertype whose subtypes are all leaves denotes exactly
   the declared constraint: {e} joined with one of the sets the SUPERTYPE OF expression (with the
   subtypes it does not mention joined by ANDOR) allows.  List equality, not only set equality. *)
From Coq Require Import List NArith Bool.
From SC Require Import Complex.
Import ListNotations.
Local Open Scope N_scope.

Section SxInd.
  Variable P : sx -> Prop.
  Hypothesis HL : forall n, P (XLeaf n).
  Hypothesis HO : forall l, Forall P l -> P (XOneOf l).
  Hypothesis HA : forall l, Forall P l -> P (XAnd l).
  Hypothesis HAO : forall l, Forall P l -> P (XAndOr l).
  Fixpoint sx_ind2 (x : sx) : P x :=
    let go := fix go (l : list sx) : Forall P l :=
                match l with [] => Forall_nil P | c :: r => Forall_cons c (sx_ind2 c) (go r) end in
    match x with
    | XLeaf n => HL n
    | XOneOf l => HO l (go l)
    | XAnd l => HA l (go l)
    | XAndOr l => HAO l (go l)
    end.
End SxInd.

(* the three combinators, named *)
Fixpoint and_sets (ls : list (list (list N))) : list (list N) :=
  match ls with [] => [[]] | c :: r => cross c (and_sets r) end.
Fixpoint or_sets (ls : list (list (list N))) : list (list N) :=
  match ls with [] => [] | c :: r => c ++ or_sets r end.
Fixpoint andor_all (ls : list (list (list N))) : list (list N) :=
  match ls with [] => [[]] | c :: r => let rest := andor_all r in rest ++ cross c rest end.
Definition andor_sets (ls : list (list (list N))) : list (list N) :=
  filter (fun s => match s with [] => false | _ => true end) (andor_all ls).

Lemma sets_TAnd l : sets (TAnd l) = and_sets (map sets l).
Proof. cbn [sets]. induction l as [|c r IH]; [reflexivity|]. cbn [map and_sets]. rewrite <- IH. reflexivity. Qed.
Lemma sets_TOr l : sets (TOr l) = or_sets (map sets l).
Proof. cbn [sets]. induction l as [|c r IH]; [reflexivity|]. cbn [map or_sets]. rewrite <- IH. reflexivity. Qed.
Lemma sets_TAndOr l : sets (TAndOr l) = andor_sets (map sets l).
Proof.
  unfold andor_sets. cbn [sets]. f_equal.
  induction l as [|c r IH]; [reflexivity|]. cbn [map andor_all]. rewrite <- IH. reflexivity.
Qed.
Lemma dsets_XAnd l : dsets (XAnd l) = and_sets (map dsets l).
Proof. cbn [dsets]. induction l as [|c r IH]; [reflexivity|]. cbn [map and_sets]. rewrite <- IH. reflexivity. Qed.
Lemma dsets_XOneOf l : dsets (XOneOf l) = or_sets (map dsets l).
Proof. cbn [dsets]. induction l as [|c r IH]; [reflexivity|]. cbn [map or_sets]. rewrite <- IH. reflexivity. Qed.
Lemma dsets_XAndOr l : dsets (XAndOr l) = andor_sets (map dsets l).
Proof.
  unfold andor_sets. cbn [dsets]. f_equal.
  induction l as [|c r IH]; [reflexivity|]. cbn [map andor_all]. rewrite <- IH. reflexivity.
Qed.

Lemma leaves_cons_in x l s : In x l -> In s (leaves x) ->
  In s ((fix go (l : list sx) := match l with [] => [] | c :: r => leaves c ++ go r end) l).
Proof.
  induction l as [|c r IH]; intros Hx Hs; [destruct Hx|].
  apply in_or_app. destruct Hx as [->|Hx]; [left; exact Hs | right; apply IH; assumption].
Qed.

Section Flat.
  Variable G : graph.
  Variable st : N -> tree.

  Lemma node_leaf s : subs G s = [] -> node G st s = TLeaf s.
  Proof. intros H. unfold node. rewrite H. reflexivity. Qed.

  (* an expression over leaf subtypes is translated to a tree with the same denotation *)
  Lemma conv_dsets x : (forall s, In s (leaves x) -> subs G s = []) -> sets (conv G st x) = dsets x.
  Proof.
    induction x as [n|l IH|l IH|l IH] using sx_ind2; intros H.
    - cbn [conv]. rewrite node_leaf by (apply H; left; reflexivity). reflexivity.
    - cbn [conv]. rewrite sets_TOr, dsets_XOneOf, map_map. f_equal.
      apply map_ext_in. intros c Hc. rewrite Forall_forall in IH. apply IH; [exact Hc|].
      intros s Hs. apply H. cbn [leaves]. apply (leaves_cons_in c l s Hc Hs).
    - cbn [conv]. rewrite sets_TAnd, dsets_XAnd, map_map. f_equal.
      apply map_ext_in. intros c Hc. rewrite Forall_forall in IH. apply IH; [exact Hc|].
      intros s Hs. apply H. cbn [leaves]. apply (leaves_cons_in c l s Hc Hs).
    - cbn [conv]. rewrite sets_TAndOr, dsets_XAndOr, map_map. f_equal.
      apply map_ext_in. intros c Hc. rewrite Forall_forall in IH. apply IH; [exact Hc|].
      intros s Hs. apply H. cbn [leaves]. apply (leaves_cons_in c l s Hc Hs).
  Qed.
End Flat.

Lemma cross_single_nil A : cross A [[]] = A.
Proof.
  unfold cross. induction A as [|a r IH]; [reflexivity|]. cbn [flat_map map app]. rewrite app_nil_r. f_equal. exact IH.
Qed.

Lemma cross_single e B : cross [[e]] B = map (cons e) B.
Proof. unfold cross. cbn [flat_map]. rewrite app_nil_r. reflexivity. Qed.

Definition mentioned (G : graph) (e : N) : list N :=
  match find G e with Some c => match c_expr c with Some x => leaves x | None => [] end | None => [] end.
Definition implicit (G : graph) (e : N) : list N :=
  filter (fun s => negb (memb s (mentioned G e))) (subs G e).
Definition declared (G : graph) (e : N) : option sx :=
  match find G e with Some c => c_expr c | None => None end.

(* The generated tree of a supertype e whose mentioned and unmentioned subtypes are all leaves:
   e alone when nothing is declared below it, otherwise e with one of the sets its constraint allows. *)
Theorem flat_tree_denotes_constraint G f e :
  (forall s, In s (mentioned G e) -> subs G s = []) ->
  (forall s, In s (subs G e) -> subs G s = []) ->
  sets (build (S f) G e) =
  match declared G e, implicit G e with
  | None, [] => [[e]]
  | _, _ => map (cons e) (dsets (constraint G e))
  end.
Proof.
  intros Hm Hs.
  assert (Himp : forall s, In s (implicit G e) -> subs G s = []).
  { intros s H. apply Hs. unfold implicit in H. apply filter_In in H. tauto. }
  assert (Nodes : map sets (map (node G (build f G)) (implicit G e)) = map dsets (map XLeaf (implicit G e))).
  { rewrite !map_map. apply map_ext_in. intros s H. rewrite node_leaf by (apply Himp; exact H). reflexivity. }
  unfold declared, constraint, implicit, mentioned in *. cbn [build].
  destruct (find G e) as [c|] eqn:F.
  - destruct (c_expr c) as [x|] eqn:X.
    + set (imps := filter (fun s => negb (memb s (leaves x))) (subs G e)) in *.
      pose proof (conv_dsets G (build f G) x Hm) as Cx.
      destruct imps as [|i0 ir] eqn:I.
      * rewrite sets_TAnd. cbn [map and_sets]. change (sets (TLeaf e)) with [[e]]. rewrite Cx, cross_single_nil, cross_single. reflexivity.
      * rewrite sets_TAnd. cbn [map and_sets]. change (sets (TLeaf e)) with [[e]]. rewrite cross_single_nil, cross_single.
        rewrite sets_TAndOr, dsets_XAndOr. cbn [app map]. rewrite Cx.
        cbn [map] in Nodes. rewrite Nodes. reflexivity.
    + cbn [leaves app] in *.
      set (imps := filter (fun s => negb (memb s [])) (subs G e)) in *.
      destruct imps as [|i0 ir] eqn:I.
      * reflexivity.
      * rewrite sets_TAnd. cbn [map and_sets]. change (sets (TLeaf e)) with [[e]]. rewrite cross_single_nil, cross_single.
        rewrite sets_TAndOr, dsets_XAndOr. cbn [app map]. cbn [map] in Nodes. rewrite Nodes. reflexivity.
  - cbn [app] in *.
    set (imps := filter (fun s => negb (memb s [])) (subs G e)) in *.
    destruct imps as [|i0 ir] eqn:I.
    + reflexivity.
    + rewrite sets_TAnd. cbn [map and_sets]. change (sets (TLeaf e)) with [[e]]. rewrite cross_single_nil, cross_single.
      rewrite sets_TAndOr, dsets_XAndOr. cbn [app map]. cbn [map] in Nodes. rewrite Nodes. reflexivity.
Qed.
