(* Lemmas about white space, comments and token separators shared by P21Scan_Proofs.v and P21Skip_Proofs.v. *)
From Coq Require Import List ZArith Bool NArith Lia.
From SC Require Import P21Lex P21Sep.
Import ListNotations.
Local Open Scope N_scope.

Lemma skip_ws_nonspace c l : is_space c = false -> skip_ws (c :: l) = c :: l.
Proof. intros H. cbn [skip_ws]. rewrite H. reflexivity. Qed.

Lemma skip_ws_spaces ws l : forallb is_space ws = true -> skip_ws (ws ++ l) = skip_ws l.
Proof.
  induction ws as [|c ws IH]; intros H; [reflexivity|].
  cbn [forallb] in H. apply andb_true_iff in H. destruct H as [Hc Hw].
  cbn [app skip_ws]. rewrite Hc. apply IH. exact Hw.
Qed.

Lemma comment_end_closes txt k : no_close txt = true -> comment_end (txt ++ STAR :: SLASH :: k) = Some k.
Proof.
  induction txt as [|a t IH]; intros H.
  - reflexivity.
  - destruct t as [|b t'].
    + cbn [app comment_end]. change (STAR =? SLASH) with false. rewrite andb_false_r. reflexivity.
    + cbn [no_close] in H. apply andb_true_iff in H. destruct H as [Hab Ht].
      apply negb_true_iff in Hab.
      change ((a :: b :: t') ++ STAR :: SLASH :: k) with (a :: b :: (t' ++ STAR :: SLASH :: k)).
      cbn [comment_end]. rewrite Hab. apply (IH Ht).
Qed.

Lemma digit_not_space c : is_digit c = true -> is_space c = false.
Proof.
  unfold is_digit, is_space. intros H. apply andb_true_iff in H. destruct H as [H1 H2].
  apply N.leb_le in H1. apply N.leb_le in H2.
  repeat (apply orb_false_iff; split); apply N.eqb_neq; lia.
Qed.

Lemma seps_pairs_length s : (length (fst s) <= length (seps_text s))%nat.
Proof.
  destruct s as [pairs wsf]. unfold seps_text. cbn [fst snd]. rewrite app_length.
  induction pairs as [|[ws txt] ps IH]; [cbn; lia|].
  cbn [flat_map fst snd length]. rewrite !app_length. cbn [length]. lia.
Qed.

Lemma head_is_app p a rest : a <> [] -> head_is p (a ++ rest) = head_is p a.
Proof. destruct a; [congruence|reflexivity]. Qed.

(* the text of separators followed by a non-digit does not start with a digit *)
Lemma seps_head_not_digit s c rest : seps_ok s = true -> is_digit c = false ->
  head_is is_digit (seps_text s ++ c :: rest) = false.
Proof.
  destruct s as [pairs wsf]. intros Hok Hc. unfold seps_ok in Hok. cbn [fst snd] in Hok.
  apply andb_true_iff in Hok. destruct Hok as [Hps Hwf].
  unfold seps_text. cbn [fst snd].
  destruct pairs as [|[ws txt] ps].
  - cbn [flat_map app]. destruct wsf as [|w wsf']; [exact Hc|].
    cbn [forallb] in Hwf. apply andb_true_iff in Hwf. destruct Hwf as [Hw _].
    cbn [app head_is]. destruct (is_digit w) eqn:E; [|reflexivity].
    rewrite (digit_not_space _ E) in Hw. discriminate.
  - cbn [forallb fst snd] in Hps. apply andb_true_iff in Hps. destruct Hps as [Hp _].
    apply andb_true_iff in Hp. destruct Hp as [Hws _].
    cbn [flat_map fst snd]. rewrite <- !app_assoc.
    destruct ws as [|w ws']; [reflexivity|].
    cbn [forallb] in Hws. apply andb_true_iff in Hws. destruct Hws as [Hw _].
    cbn [app head_is]. destruct (is_digit w) eqn:E; [|reflexivity].
    rewrite (digit_not_space _ E) in Hw. discriminate.
Qed.
