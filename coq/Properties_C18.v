(* C18 -- the Python generator emits an importable module that mirrors the schema.
   Only statements closed by [exact]. *)
From Coq Require Import List NArith Bool.
From SC Require Import PyGen PyGen_Proofs.
Import ListNotations.

(* For every schema, of any size and inheritance shape, in which each entity names its
   supertypes deepest first (true of every single-inheritance schema and of every schema whose
   supertypes have equal depth), the generated base list is the declared one and the
   constructor's parameters are, once repeats are dropped, exactly ISO 10303-21's
   inherited-then-own explicit attributes. *)
Theorem c18_bases_in_declaration_order : forall G,
  (forall e, In e G -> nonincreasing (depth G) (e_supers e) = true) ->
  forall e, In e G -> gen_bases G e = e_supers e.
Proof. exact bases_in_declaration_order. Qed.
Print Assumptions c18_bases_in_declaration_order.

Theorem c18_constructor_is_part21_order_partial : forall G,
  (forall e, In e G -> nonincreasing (depth G) (e_supers e) = true) ->
  forall fuel e, In e G -> dedup (gen_ctor fuel G e) = p21_ctor fuel G e.
Proof. exact ctor_is_p21_up_to_repeats. Qed.
Print Assumptions c18_constructor_is_part21_order_partial.

Theorem c18_constructor_is_part21_order_without_shared_ancestors : forall G,
  (forall e, In e G -> nonincreasing (depth G) (e_supers e) = true) ->
  forall fuel e, In e G -> dedup (gen_ctor fuel G e) = gen_ctor fuel G e ->
  gen_ctor fuel G e = p21_ctor fuel G e.
Proof. exact ctor_is_p21. Qed.
Print Assumptions c18_constructor_is_part21_order_without_shared_ancestors.

(* The full statement (equality for every schema) is false of the generator: *)
Theorem c18_diamond_refuted :
  (forall e, In e G_diamond -> nonincreasing (depth G_diamond) (e_supers e) = true) /\
  exists e, In e G_diamond /\ gen_ctor 5 G_diamond e <> p21_ctor 5 G_diamond e /\
            length (gen_ctor 5 G_diamond e) = 5%nat /\ length (p21_ctor 5 G_diamond e) = 4%nat.
Proof. exact diamond_refuted. Qed.
Print Assumptions c18_diamond_refuted.

Theorem c18_depth_order_refuted :
  exists e, In e G_depth /\ gen_bases G_depth e <> e_supers e /\ gen_ctor 5 G_depth e <> p21_ctor 5 G_depth e.
Proof. exact depth_order_refuted. Qed.
Print Assumptions c18_depth_order_refuted.
