(* C09 / C01: where a Part 21 string literal ends.
   src/clutils/Str.cc GetLiteralStr() and src/cldai/sdaiString.cc SDAI_String::STEPread(): the
   literal is kept verbatim (quotes and escapes included), so reading a string "to its value"
   is reading exactly its extent.  An apostrophe closes the literal unless it is doubled or
   follows the page escape \S\ .  No proofs here; extracted for the correspondence check. *)
From Coq Require Import List ZArith Bool NArith.
From SC.gen Require Import SevTable.
From SC Require Import P21Lex.
Import ListNotations.
Local Open Scope N_scope.

Definition APOS : byte := 39.
Definition BSL : byte := 92.
Definition CAP_S : byte := 83.

(* StrEndsWith( s, "\\S\\" ) on the reversed accumulator *)
Definition ends_with_page (racc : list byte) : bool :=
  match racc with
  | a :: b :: c :: _ => (a =? BSL) && (b =? CAP_S) && (c =? BSL)
  | _ => false
  end.

(* the while loop of GetLiteralStr(); racc = s reversed; returns (s reversed, allDelimsEscaped, rest) *)
Fixpoint lit_loop (l : list byte) (racc : list byte) (alld : bool) : list byte * bool * list byte :=
  match l with
  | [] => (racc, alld, [])
  | c :: r =>
    if c =? APOS then
      lit_loop r (c :: racc) (if ends_with_page racc then alld else negb alld)
    else if negb alld then (racc, alld, l)
    else lit_loop r (c :: racc) alld
  end.

(* GetLiteralStr(): (literal, "Missing closing quote" raised, rest of the input) *)
Definition get_literal (l : list byte) : list byte * bool * list byte :=
  let l1 := skip_ws l in
  match l1 with
  | c :: r =>
    if c =? APOS then
      let '(racc, alld, rest) := lit_loop r [c] true in
      (rev racc, alld, rest)
    else ([], false, l1)
  | [] => ([], false, [])
  end.

(* SDAI_String::STEPread(): (content, returned severity, rest) *)
Definition string_read (l : list byte) : list byte * Z * list byte :=
  let '(s, unclosed, rest) := get_literal l in
  match s with
  | [] => ([], SEVERITY_INCOMPLETE, rest)
  | _ => (s, if unclosed then SEVERITY_INPUT_ERROR else SEVERITY_NULL, rest)
  end.

(* ---- the string literals of ISO 10303-21 (body between the quotes) ---- *)
Inductive item : Set :=
| Plain (c : byte)              (* any character but apostrophe and reverse solidus *)
| Apos                          (* '' *)
| Bsl2                          (* \\ *)
| Page (c : byte)               (* \S\c : c may be an apostrophe *)
| Raw (bs : list byte).         (* \X\hh, \X2\...\X0\, \X4\...\X0\, \PA\ : no apostrophe inside, does not end in \S\ *)

Definition itext (i : item) : list byte :=
  match i with
  | Plain c => [c]
  | Apos => [APOS; APOS]
  | Bsl2 => [BSL; BSL]
  | Page c => [BSL; CAP_S; BSL; c]
  | Raw bs => bs
  end.

Definition item_ok (i : item) : bool :=
  match i with
  | Plain c => negb (c =? APOS) && negb (c =? BSL)
  | Raw bs => forallb (fun c => negb (c =? APOS)) bs && (3 <=? N.of_nat (length bs)) && negb (ends_with_page (rev bs))
  | _ => true
  end.

Definition body (its : list item) : list byte := flat_map itext its.
