From Coq Require Import List ZArith Bool Lia.
From SC Require Import gen.ErrArena ErrBuf ErrBufMem_Proofs.
Import ListNotations.
Local Open Scope Z_scope.

(* what the regenerated constants have to satisfy, each decided by computation *)
Lemma kb_measures : EB_MEASURES_FIRST = true. Proof. vm_compute. reflexivity. Qed.
Lemma kb_margin : EB_PREFIX_FIXED + EB_LINE_DIGITS_MAX + EB_CODE_DIGITS + EB_TAIL <= EB_NEED_MARGIN. Proof. vm_compute. discriminate. Qed.
Lemma kb_strlen : 0 <= EB_MAX_STRLEN <= EB_MAX_SPACE. Proof. vm_compute. split; discriminate. Qed.

Lemma stored_le_need m : msg_ok m = true -> stored_len m <= need m.
Proof.
  unfold msg_ok, stored_len, prefix_len, need. intros H.
  apply andb_prop in H. destruct H as [H H4]. apply andb_prop in H. destruct H as [H H3]. apply andb_prop in H. destruct H as [H1 H2].
  apply Z.leb_le in H1, H2, H3, H4. pose proof kb_margin. lia.
Qed.

Lemma inv_init : inv init = true.
Proof. unfold inv, init; cbn [used cnt]. pose proof kb_strlen. pose proof kb_errors.
  repeat (apply andb_true_intro; split); try apply Z.leb_le; try apply Z.ltb_lt; lia. Qed.

Lemma inv_spec s : inv s = true <-> 0 <= used s /\ used s + EB_MAX_STRLEN <= EB_MAX_SPACE /\ 0 <= cnt s /\ cnt s < EB_MAX_ERRORS.
Proof.
  unfold inv. rewrite !andb_true_iff, !Z.leb_le, Z.ltb_lt. tauto.
Qed.

(* one report: nothing is cut short, the heap slot exists, the text lies in the arena, and the state is again as between reports *)
Lemma report_ok s m : inv s = true -> msg_ok m = true ->
  inv (fst (report s m)) = true /\ what_ok m (snd (report s m)) = true.
Proof.
  intros Hi Hm. pose proof (stored_le_need m Hm) as Hsn.
  assert (Hpos : 0 <= stored_len m).
  { unfold msg_ok in Hm. unfold stored_len, prefix_len.
    apply andb_prop in Hm. destruct Hm as [Hm H4]. apply andb_prop in Hm. destruct Hm as [Hm H3]. apply andb_prop in Hm. destruct Hm as [H1 H2].
    apply Z.leb_le in H1, H2, H3, H4. pose proof kb_margin. unfold EB_PREFIX_FIXED, EB_CODE_DIGITS, EB_TAIL. lia. }
  apply inv_spec in Hi. destruct Hi as [U0 [U1 [C0 C1]]].
  pose proof kb_strlen as [S0 S1]. pose proof kb_slots as KS. pose proof kb_errors as KE.
  unfold report. rewrite kb_measures. cbn [andb].
  set (s1 := if EB_MAX_SPACE - used s <? need m then init else s).
  assert (I1 : 0 <= used s1 /\ used s1 + EB_MAX_STRLEN <= EB_MAX_SPACE /\ 0 <= cnt s1 /\ cnt s1 < EB_MAX_ERRORS /\
               (need m <= EB_MAX_SPACE -> need m <= EB_MAX_SPACE - used s1)).
  { subst s1. destruct (Z.ltb_spec (EB_MAX_SPACE - used s) (need m)); cbn [init used cnt]; repeat split; lia. }
  destruct I1 as [V0 [V1 [D0 [D1 Hroom]]]].
  destruct (Z.ltb_spec EB_MAX_SPACE (need m)) as [Hbig|Hfit].
  - cbn [fst snd what_ok]. split; [|reflexivity]. apply inv_spec. repeat split; lia.
  - specialize (Hroom Hfit). cbn [fst snd].
    assert (Hmin : Z.min EB_MAX_SPACE (used s1 + stored_len m) = used s1 + stored_len m) by (apply Z.min_r; lia).
    rewrite Hmin. split.
    + destruct ((EB_MAX_SPACE <? used s1 + stored_len m + EB_MAX_STRLEN) || (cnt s1 + 1 =? EB_MAX_ERRORS)) eqn:G.
      * apply inv_init.
      * apply orb_false_iff in G. destruct G as [G1 G2]. apply Z.ltb_ge in G1. apply Z.eqb_neq in G2.
        apply inv_spec. cbn [used cnt]. repeat split; lia.
    + unfold what_ok. repeat (apply andb_true_intro; split).
      * apply negb_true_iff. apply Z.ltb_ge. lia.
      * apply Z.leb_le. lia.
      * apply Z.ltb_lt. lia.
      * apply Z.leb_le. lia.
      * apply Z.leb_le. lia.
Qed.

(* every diagnostic of a run of any length *)
Theorem run_ok : forall ms s, inv s = true -> forallb msg_ok ms = true ->
  inv (fst (run s ms)) = true /\ forallb (fun p => what_ok (fst p) (snd p)) (combine ms (snd (run s ms))) = true.
Proof.
  induction ms as [|m r IH]; intros s Hi Hm.
  - cbn. split; [exact Hi|reflexivity].
  - cbn [forallb] in Hm. apply andb_prop in Hm. destruct Hm as [Hm Hr].
    destruct (report_ok s m Hi Hm) as [Hi' Hw].
    cbn [run]. destruct (report s m) as [s' w] eqn:E. cbn [fst snd] in Hi', Hw.
    specialize (IH s' Hi' Hr). destruct (run s' r) as [s'' ws] eqn:E2. cbn [fst snd] in IH |- *.
    destruct IH as [IH1 IH2]. split; [exact IH1|]. cbn [combine forallb fst snd]. rewrite Hw, IH2. reflexivity.
Qed.

Lemma run_length : forall ms s, length (snd (run s ms)) = length ms.
Proof.
  induction ms as [|m r IH]; intros s; [reflexivity|].
  cbn [run]. destruct (report s m) as [s' w]. specialize (IH s'). destruct (run s' r) as [s'' ws]. cbn [snd length] in *. lia.
Qed.

