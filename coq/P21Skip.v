(* C01 / C03: where the first pass of the eager reader ends an instance.
     src/clstepcore/read_func.cc  SkipInstance()
   It reads up to the semicolon that ends the record: white space is skipped by operator>>,
   string literals are read by SDAI_String::STEPread (coq/P21Str.v), comments are skipped.
   No proofs here; extracted for the correspondence check. *)
From Coq Require Import List ZArith Bool NArith.
From SC Require Import P21Lex P21Str P21Sep.
Import ListNotations.
Local Open Scope N_scope.

(* Some rest: SEVERITY_NULL with the stream after the semicolon; None: SEVERITY_INPUT_ERROR *)
Fixpoint skip_instance (fuel : nat) (l : list byte) : option (list byte) :=
  match fuel with
  | O => None
  | S f =>
    match skip_ws l with
    | [] => None
    | c :: r =>
      if c =? SEMI then Some r
      else if c =? APOS then
        let '(_, _, r') := string_read (c :: r) in skip_instance f r'
      else if c =? SLASH then
        match r with
        | b :: r2 => if b =? STAR then
                       match comment_end r2 with
                       | Some r3 => skip_instance f r3
                       | None => None
                       end
                     else skip_instance f r
        | [] => None
        end
      else if c =? 0 then None
      else skip_instance f r
    end
  end.

Definition skip_inst (l : list byte) : option (list byte) := skip_instance (S (length l)) l.

(* the text of a record as this scan sees it *)
Inductive stok : Set :=
| SStr (its : list item)
| SCmt (txt : list byte)
| SChr (c : byte).          (* anything else: parentheses, number signs, letters, digits, white space, commas ... *)

Definition stext (t : stok) : list byte :=
  match t with
  | SStr its => APOS :: body its ++ [APOS]
  | SCmt txt => SLASH :: STAR :: txt ++ [STAR; SLASH]
  | SChr c => [c]
  end.
Definition srender (ts : list stok) : list byte := flat_map stext ts.

Definition schr_ok (c : byte) : bool := negb (c =? SEMI) && negb (c =? APOS) && negb (c =? SLASH) && negb (c =? 0).

Definition stok_ok (t : stok) (next : list byte) : bool :=
  match t with
  | SStr its => forallb item_ok its && negb (head_is (fun c => c =? APOS) next)
  | SCmt txt => no_close txt
  | SChr c => schr_ok c
  end.

Fixpoint stoks_ok (ts : list stok) (k : list byte) : bool :=
  match ts with
  | [] => true
  | t :: r => stok_ok t (srender r ++ k) && stoks_ok r k
  end.

(* ------------------------------------------------------------------------------------------
   ReadTokenSeparator() / ReadComment() / ReadPcd() (src/clstepcore/read_func.cc): what the eager
   reader skips between any two tokens - white space, comments, print control directives.
   ------------------------------------------------------------------------------------------ *)
Definition BSLASH : byte := 92.

(* ReadPcd(), entered at the reverse solidus: \F\ or \N\ ; anything else is consumed as far as it was looked at *)
Definition read_pcd (l : list byte) : list byte :=
  match l with
  | _ :: c2 :: r =>
    if (c2 =? 70) || (c2 =? 78) then
      match r with
      | c3 :: r' => r'
      | [] => []
      end
    else r
  | _ :: [] => []
  | [] => []
  end.

(* ReadComment( in, s ), entered at a slash (after white space): None = the comment never ends (input exhausted) *)
Definition read_comment (l : list byte) : option (list byte) :=
  match l with
  | _ :: b :: r => if b =? STAR then comment_end (skip_ws r) else Some (b :: r)     (* not a comment: the slash is gone *)
  | _ :: [] => Some []
  | [] => Some []
  end.

Fixpoint read_token_separator (fuel : nat) (l : list byte) : list byte :=
  match fuel with
  | O => l
  | S f =>
    let l1 := skip_ws l in
    match l1 with
    | c :: _ =>
      if c =? SLASH then
        match read_comment l1 with
        | Some r => read_token_separator f r
        | None => []
        end
      else if c =? BSLASH then read_token_separator f (read_pcd l1)
      else l1
    | [] => []
    end
  end.

Definition token_separator (l : list byte) : list byte := read_token_separator (S (length l)) l.
