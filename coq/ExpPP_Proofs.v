From Coq Require Import List NArith Bool Lia.
From SC Require Import gen.PPRule ExpPP.
Import ListNotations.
Local Open Scope N_scope.

Section Join.
  Variable f : ct -> list tok.
  Variable o : N.
  Fixpoint join (xs : list ct) : list tok :=
    match xs with
    | [] => []
    | [x] => f x
    | x :: r => f x ++ [TOp o] ++ join r
    end.
End Join.

Lemma print_ct_CC o xs paren prev :
  print_ct (CC o xs) paren prev =
  let inner := join (fun x => print_ct x true o) o xs in
  if paren && negb (o =? prev) then TLP :: inner ++ [TRP] else inner.
Proof. reflexivity. Qed.

Lemma join_app f o a b : a <> [] -> b <> [] -> join f o (a ++ b) = join f o a ++ [TOp o] ++ join f o b.
Proof.
  intros Ha Hb. induction a as [|x r IH]; [congruence|].
  destruct r as [|y r].
  - cbn [app join]. destruct b as [|z b]; [congruence|]. reflexivity.
  - cbn [app]. change (join f o (x :: y :: r ++ b)) with (f x ++ [TOp o] ++ join f o ((y :: r) ++ b)).
    rewrite IH by discriminate. cbn [join]. rewrite <- !app_assoc. reflexivity.
Qed.

Lemma flat_items_ne e : forall o, items o (flat e) <> [].
Proof.
  induction e as [a|o' l IHl r IHr|o' x IHx]; intros o; cbn [flat items]; try discriminate.
  destruct (is_chain o'); cbn [items]; [|discriminate].
  destruct (o' =? o); [|discriminate].
  intros E. apply app_eq_nil in E. destruct E as [E _]. exact (IHl o' E).
Qed.

Lemma join_items t o : items o t <> [] -> join (fun x => print_ct x true o) o (items o t) = print_ct t true o.
Proof.
  destruct t as [a|o' x|o' l r|o' xs]; cbn [items]; try reflexivity.
  destruct (N.eqb_spec o' o) as [->|Ne]; [|reflexivity].
  intros _. rewrite print_ct_CC. cbv zeta. rewrite N.eqb_refl. reflexivity.
Qed.

(* printing factors through the flattened tree: nothing but the nesting of one chain operator
   (and redundant parentheses) is lost *)
Theorem print_flat e : forall paren prev, print e paren prev = print_ct (flat e) paren prev.
Proof.
  induction e as [a|o l IHl r IHr|o x IHx]; intros paren prev; cbn [print flat].
  - reflexivity.
  - destruct (is_chain o) eqn:C.
    + rewrite print_ct_CC. cbv zeta.
      rewrite join_app by apply flat_items_ne.
      rewrite !join_items by apply flat_items_ne.
      rewrite IHl, IHr. reflexivity.
    + cbn [print_ct]. rewrite IHl, IHr. reflexivity.
  - cbn [print_ct]. rewrite IHx. reflexivity.
Qed.

Corollary same_flat_same_text e e' : flat e = flat e' -> print_top e = print_top e'.
Proof. intros E. unfold print_top. rewrite !print_flat, E. reflexivity. Qed.

(* ---- re-reading: the left-nested tree of a flattened tree flattens to it ---- *)
Fixpoint wfct (t : ct) : bool :=
  match t with
  | CA _ => true
  | CU _ x => wfct x
  | CB o l r => negb (is_chain o) && wfct l && wfct r
  | CC o xs =>
    is_chain o && (2 <=? N.of_nat (length xs)) &&
    (fix all (xs : list ct) : bool :=
       match xs with
       | [] => true
       | x :: r => wfct x && match x with CC o' _ => negb (o' =? o) | _ => true end && all r
       end) xs
  end.

Definition item_ok (o : N) (x : ct) : bool := wfct x && match x with CC o' _ => negb (o' =? o) | _ => true end.

Lemma wfct_CC o xs : wfct (CC o xs) = is_chain o && (2 <=? N.of_nat (length xs)) && forallb (item_ok o) xs.
Proof.
  assert (E : forall ys, (fix all (xs0 : list ct) : bool :=
                 match xs0 with
                 | [] => true
                 | x :: r => wfct x && match x with CC o' _ => negb (o' =? o) | _ => true end && all r
                 end) ys = forallb (item_ok o) ys).
  { induction ys as [|x r IH]; [reflexivity|]. cbn [forallb]. rewrite <- IH. unfold item_ok. reflexivity. }
  cbn [wfct]. rewrite E. reflexivity.
Qed.

Lemma items_ok o x : item_ok o x = true -> items o x = [x].
Proof.
  unfold item_ok. destruct x as [a|o' y|o' l r|o' ys]; cbn [items]; try reflexivity.
  intros H. apply andb_prop in H. destruct H as [_ H]. apply negb_true_iff in H. rewrite H. reflexivity.
Qed.

Lemma forallb_app' {A} (f : A -> bool) a b : forallb f (a ++ b) = forallb f a && forallb f b.
Proof. induction a as [|x a IH]; [reflexivity|]. cbn [app forallb]. rewrite IH, andb_assoc. reflexivity. Qed.

Lemma flat_wf e : wfct (flat e) = true /\ forall o, forallb (item_ok o) (items o (flat e)) = true.
Proof.
  induction e as [a|o' l [Wl Il] r [Wr Ir]|o' x [Wx Ix]].
  - split; [reflexivity|]. intros o. reflexivity.
  - cbn [flat]. destruct (is_chain o') eqn:C.
    + assert (W : wfct (CC o' (items o' (flat l) ++ items o' (flat r))) = true).
      { rewrite wfct_CC, C, forallb_app', Il, Ir. cbn [andb].
        rewrite andb_true_r. apply N.leb_le. rewrite app_length.
        pose proof (flat_items_ne l o'). pose proof (flat_items_ne r o').
        destruct (items o' (flat l)); [congruence|]. destruct (items o' (flat r)); [congruence|]. cbn [length]. lia. }
      split; [exact W|]. intros o. cbn [items]. destruct (N.eqb_spec o' o) as [->|Ne].
      * rewrite forallb_app', Il, Ir. reflexivity.
      * cbn [forallb]. unfold item_ok. rewrite W. cbn [andb]. apply N.eqb_neq in Ne. rewrite Ne. reflexivity.
    + assert (W : wfct (CB o' (flat l) (flat r)) = true) by (cbn [wfct]; rewrite C, Wl, Wr; reflexivity).
      split; [exact W|]. intros o. cbn [items forallb]. unfold item_ok. rewrite W. reflexivity.
  - split; [cbn [flat wfct]; exact Wx|]. intros o. cbn [flat items forallb]. unfold item_ok. cbn [wfct]. rewrite Wx. reflexivity.
Qed.

Lemma flat_fold o (C : is_chain o = true) rest : forall acc,
  items o (flat acc) <> [] ->
  flat (fold_left (fun a y => Bin o a y) rest acc) =
  match rest with
  | [] => flat acc
  | _ => CC o (items o (flat acc) ++ flat_map (fun y => items o (flat y)) rest)
  end.
Proof.
  induction rest as [|y r IH]; intros acc Hacc; [reflexivity|].
  cbn [fold_left]. rewrite IH.
  - destruct r as [|z r].
    + cbn [flat flat_map]. rewrite C, app_nil_r. reflexivity.
    + cbn [flat]. rewrite C. cbn [items]. rewrite N.eqb_refl. cbn [flat_map]. rewrite <- app_assoc. reflexivity.
  - cbn [flat]. rewrite C. cbn [items]. rewrite N.eqb_refl. intros E. apply app_eq_nil in E. destruct E as [E _]. exact (Hacc E).
Qed.

Section CtInd.
  Variable P : ct -> Prop.
  Hypothesis HA : forall a, P (CA a).
  Hypothesis HU : forall o x, P x -> P (CU o x).
  Hypothesis HB : forall o l r, P l -> P r -> P (CB o l r).
  Hypothesis HC : forall o xs, Forall P xs -> P (CC o xs).
  Fixpoint ct_ind2 (t : ct) : P t :=
    match t with
    | CA a => HA a
    | CU o x => HU o x (ct_ind2 x)
    | CB o l r => HB o l r (ct_ind2 l) (ct_ind2 r)
    | CC o xs => HC o xs ((fix go (xs : list ct) : Forall P xs :=
                             match xs with [] => Forall_nil P | x :: r => Forall_cons x (ct_ind2 x) (go r) end) xs)
    end.
End CtInd.

Theorem flat_unflat t : wfct t = true -> flat (unflat t) = t.
Proof.
  induction t as [a|o x IH|o l r IHl IHr|o xs IH] using ct_ind2; intros W.
  - reflexivity.
  - cbn [unflat flat]. cbn [wfct] in W. rewrite IH by exact W. reflexivity.
  - cbn [wfct] in W. apply andb_prop in W. destruct W as [W Wr]. apply andb_prop in W. destruct W as [C Wl].
    apply negb_true_iff in C. cbn [unflat flat]. rewrite C, IHl, IHr by assumption. reflexivity.
  - rewrite wfct_CC in W. apply andb_prop in W. destruct W as [W Ok]. apply andb_prop in W. destruct W as [C Len].
    apply N.leb_le in Len. cbn [unflat].
    (* every item round-trips and stays a single item *)
    assert (R : forall x, In x xs -> flat (unflat x) = x /\ items o x = [x]).
    { intros x Hx. rewrite forallb_forall in Ok. specialize (Ok x Hx). rewrite Forall_forall in IH.
      split; [apply IH; [exact Hx|]; unfold item_ok in Ok; apply andb_prop in Ok; tauto|apply items_ok; exact Ok]. }
    destruct xs as [|x0 rest]; [cbn [length] in Len; lia|]. cbn [map].
    rewrite (flat_fold o C).
    + destruct rest as [|x1 rest]; [cbn [length] in Len; lia|]. cbn [map].
      destruct (R x0 (or_introl eq_refl)) as [F0 I0]. rewrite F0, I0.
      f_equal. cbn [app]. f_equal.
      assert (G : forall l, (forall x, In x l -> In x (x0 :: x1 :: rest)) ->
                  flat_map (fun y => items o (flat y)) (map unflat l) = l).
      { induction l as [|y l IHl]; intros Hl; [reflexivity|]. cbn [map flat_map].
        destruct (R y (Hl y (or_introl eq_refl))) as [Fy Iy]. rewrite Fy, Iy. cbn [app]. f_equal.
        apply IHl. intros z Hz. apply Hl. right. exact Hz. }
      apply (G (x1 :: rest)). intros z Hz. right. exact Hz.
    + destruct (R x0 (or_introl eq_refl)) as [F0 I0]. rewrite F0, I0. discriminate.
Qed.

(* printing the tree a left-associative parser rebuilds gives the same text: printing again
   changes nothing *)
Theorem reprint_stable e : print_top (unflat (flat e)) = print_top e.
Proof.
  apply same_flat_same_text. apply flat_unflat. apply (proj1 (flat_wf e)).
Qed.
