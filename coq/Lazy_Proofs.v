From Coq Require Import List ZArith Bool Lia Arith.
From SC Require Import Lazy.
Import ListNotations.
Local Open Scope Z_scope.

(* ---------------- tables ---------------- *)
Lemma tfind_tadd t k v k' :
  tfind (tadd t k v) k' = if Z.eqb k' k then tfind t k ++ [v] else tfind t k'.
Proof.
  induction t as [|[k0 l] r IH]; cbn [tadd tfind].
  - destruct (Z.eqb k' k); reflexivity.
  - destruct (Z.eqb_spec k k0) as [E1|E1]; cbn [tfind].
    + subst k0. destruct (Z.eqb_spec k' k) as [E2|E2]; reflexivity.
    + destruct (Z.eqb_spec k' k0) as [E2|E2].
      * subst k0. destruct (Z.eqb_spec k' k) as [E3|E3]; [congruence|reflexivity].
      * rewrite IH. reflexivity.
Qed.

Definition cnt (x : Z) (l : list Z) : nat := count_occ Z.eq_dec l x.

Lemma cnt_app x l1 l2 : cnt x (l1 ++ l2) = (cnt x l1 + cnt x l2)%nat.
Proof. apply count_occ_app. Qed.

Lemma cnt_in x l : (0 < cnt x l)%nat <-> In x l.
Proof. unfold cnt. symmetry. apply count_occ_In. Qed.

(* adding the references of one instance to the reverse table *)
Lemma fold_tadd rev refs id x y :
  cnt y (tfind (fold_left (fun rv r => tadd rv r id) refs rev) x)
  = (cnt y (tfind rev x) + (if Z.eq_dec y id then cnt x refs else 0))%nat.
Proof.
  revert rev. induction refs as [|r rs IH]; intros rev; cbn [fold_left].
  - destruct (Z.eq_dec y id); cbn; lia.
  - rewrite IH. rewrite tfind_tadd.
    assert (Hc : cnt x (r :: rs) = ((if Z.eq_dec r x then 1 else 0) + cnt x rs)%nat).
    { unfold cnt. cbn [count_occ]. destruct (Z.eq_dec r x); lia. }
    rewrite Hc.
    assert (H1 : cnt y [id] = (if Z.eq_dec y id then 1 else 0)%nat).
    { unfold cnt. cbn [count_occ]. destruct (Z.eq_dec id y) as [E|E], (Z.eq_dec y id) as [E'|E']; congruence || reflexivity. }
    destruct (Z.eqb_spec x r) as [E|E].
    + subst x. rewrite cnt_app, H1. destruct (Z.eq_dec r r) as [_|C]; [|congruence].
      destruct (Z.eq_dec y id); lia.
    + destruct (Z.eq_dec r x) as [C|_]; [congruence|]. destruct (Z.eq_dec y id); lia.
Qed.

Lemma tfind_app_new fwd id refs y :
  ~ In id (map fst fwd) ->
  tfind (fwd ++ [(id, refs)]) y = if Z.eqb y id then refs else tfind fwd y.
Proof.
  intros Hn. induction fwd as [|[k v] r IH]; cbn.
  - destruct (Z.eqb y id); reflexivity.
  - destruct (Z.eqb_spec y k) as [->|Hk].
    + destruct (Z.eqb_spec k id) as [->|]; [exfalso; apply Hn; left; reflexivity|reflexivity].
    + apply IH. intro Hin. apply Hn. right. exact Hin.
Qed.

Lemma tfind_not_key t k : ~ In k (map fst t) -> tfind t k = [].
Proof.
  induction t as [|[k0 v] r IH]; cbn; [reflexivity|]. intros Hn.
  destruct (Z.eqb_spec k k0) as [->|]; [exfalso; apply Hn; left; reflexivity|].
  apply IH. intro H. apply Hn. right. exact H.
Qed.

(* invariant of build: keys of fwd are processed ids; reverse = transpose of forward *)
Lemma build_inv insts :
  NoDup (map fst insts) ->
  forall fwd rev fwd' rev',
  (forall k, In k (map fst fwd) -> ~ In k (map fst insts)) ->
  (forall x y, cnt y (tfind rev x) = cnt x (tfind fwd y)) ->
  fold_left add_instance insts (fwd, rev) = (fwd', rev') ->
  (forall x y, cnt y (tfind rev' x) = cnt x (tfind fwd' y)) /\
  (forall y, ~ In y (map fst fwd) -> ~ In y (map fst insts) -> tfind fwd' y = []) /\
  (forall y refs, In (y, refs) insts -> tfind fwd' y = refs) /\
  (forall y, In y (map fst fwd) -> tfind fwd' y = tfind fwd y).
Proof.
  induction insts as [|[id refs] r IH]; intros Hnd fwd rev fwd' rev' Hk Ht HR; cbn [fold_left] in HR.
  - inversion HR. subst. split; [exact Ht|]. split; [intros y H1 _; apply tfind_not_key; exact H1|].
    split; [intros y refs []|reflexivity].
  - cbn [map fst] in Hnd. inversion Hnd as [|? ? Hid Hr]. subst.
    assert (Hidk : ~ In id (map fst fwd)).
    { intro H. apply (Hk id H). left. reflexivity. }
    destruct refs as [|r0 rs].
    + (* no references: tables unchanged *)
      cbn [add_instance] in HR.
      assert (Hk' : forall k, In k (map fst fwd) -> ~ In k (map fst r)).
      { intros k H1 H2. apply (Hk k H1). right. exact H2. }
      destruct (IH Hr fwd rev fwd' rev' Hk' Ht HR) as [I1 [I2 [I3 I4]]]. split; [exact I1|]. split.
      * intros y H1 H2. apply I2; [exact H1|]. intro H. apply H2. right. exact H.
      * split; [|exact I4]. intros y refs [E|Hin]; [inversion E; subst; apply I2; assumption|apply I3; exact Hin].
    + cbn [add_instance] in HR.
      set (refs := r0 :: rs) in *.
      set (fwd1 := fwd ++ [(id, refs)]) in *. set (rev1 := fold_left (fun rv r1 => tadd rv r1 id) refs rev) in *.
      assert (Hk1 : forall k, In k (map fst fwd1) -> ~ In k (map fst r)).
      { intros k H1 H2. unfold fwd1 in H1. rewrite map_app in H1. apply in_app_or in H1. destruct H1 as [H1|[H1|[]]].
        - apply (Hk k H1). right. exact H2.
        - cbn in H1. subst. contradiction. }
      assert (Ht1 : forall x y, cnt y (tfind rev1 x) = cnt x (tfind fwd1 y)).
      { intros x y. unfold rev1, fwd1. rewrite fold_tadd, tfind_app_new by exact Hidk.
        destruct (Z.eqb_spec y id) as [E|Hn].
        - subst y. destruct (Z.eq_dec id id) as [_|C]; [|congruence]. rewrite Ht, (tfind_not_key fwd id Hidk). cbn. reflexivity.
        - destruct (Z.eq_dec y id) as [C|_]; [congruence|]. rewrite Ht. lia. }
      destruct (IH Hr fwd1 rev1 fwd' rev' Hk1 Ht1 HR) as [I1 [I2 [I3 I4]]]. split; [exact I1|]. split; [|split].
      * intros y H1 H2. apply I2.
        -- unfold fwd1. rewrite map_app. intro H. apply in_app_or in H. destruct H as [H|[H|[]]]; [contradiction|].
           cbn in H. subst. apply H2. left. reflexivity.
        -- intro H. apply H2. right. exact H.
      * intros y rf [E|Hin]; [|apply I3; exact Hin]. inversion E. subst.
        rewrite I4; [|unfold fwd1; rewrite map_app; apply in_or_app; right; left; reflexivity].
        unfold fwd1. rewrite tfind_app_new by exact Hidk. rewrite Z.eqb_refl. reflexivity.
      * intros y Hy. rewrite I4; [|unfold fwd1; rewrite map_app; apply in_or_app; left; exact Hy].
        unfold fwd1. rewrite tfind_app_new by exact Hidk.
        destruct (Z.eqb_spec y id) as [E|_]; [subst; contradiction|reflexivity].
Qed.

Lemma build_spec insts :
  NoDup (map fst insts) ->
  (forall x y, cnt y (tfind (snd (build insts)) x) = cnt x (tfind (fst (build insts)) y)) /\
  (forall y refs, In (y, refs) insts -> tfind (fst (build insts)) y = refs) /\
  (forall y, ~ In y (map fst insts) -> tfind (fst (build insts)) y = []).
Proof.
  intros Hnd. unfold build.
  destruct (fold_left add_instance insts ([], [])) as [fwd rev] eqn:HR. cbn [fst snd].
  destruct (build_inv insts Hnd [] [] fwd rev (fun k H => False_ind _ H) (fun x y => eq_refl) HR) as [H1 [H2 [H3 _]]].
  split; [exact H1|]. split; [exact H3|].
  intros y Hy. apply H2; [intros []|exact Hy].
Qed.

(* ---------------- dependencies = transitive closure ---------------- *)
Inductive reach (fwd : table) : Z -> Z -> Prop :=
| reach1 a b : In b (tfind fwd a) -> reach fwd a b
| reachS a c b : In c (tfind fwd a) -> reach fwd c b -> reach fwd a b.

Lemma zmem_In x l : zmem x l = true <-> In x l.
Proof.
  unfold zmem. rewrite existsb_exists. split.
  - intros [y [Hy E]]. apply Z.eqb_eq in E. subst. exact Hy.
  - intros H. exists x. split; [exact H|apply Z.eqb_refl].
Qed.

Lemma reach_trans_r fwd a c b : reach fwd a c -> In b (tfind fwd c) -> reach fwd a b.
Proof.
  induction 1 as [a c H|a d c H Hr IH]; intros Hb.
  - eapply reachS; [exact H|apply reach1; exact Hb].
  - eapply reachS; [exact H|apply IH; exact Hb].
Qed.

Lemma deps_loop_correct fwd id fuel q ch c :
  (forall y, In y (q ++ ch) -> reach fwd id y) ->
  (forall y, In y ch -> forall z, In z (tfind fwd y) -> In z ch \/ In z q) ->
  (forall z, In z (tfind fwd id) -> In z ch \/ In z q) ->
  deps_loop fuel fwd q ch = Some c ->
  forall y, In y c <-> reach fwd id y.
Proof.
  revert q ch. induction fuel as [|f IH]; intros q ch HA HB HC Hres; [discriminate|].
  cbn [deps_loop] in Hres. destruct q as [|x q].
  - inversion Hres. subst c. intros y. split; [intros Hy; apply HA; exact Hy|].
    assert (Hcl : forall a b, reach fwd a b -> (a = id \/ In a ch) -> In b ch).
    { induction 1 as [a b H|a c0 b H Hr IHr]; intros Ha.
      - destruct Ha as [->|Ha]; [destruct (HC b H) as [?|[]]; assumption|destruct (HB a Ha b H) as [?|[]]; assumption].
      - apply IHr. right. destruct Ha as [->|Ha]; [destruct (HC c0 H) as [?|[]]; assumption|destruct (HB a Ha c0 H) as [?|[]]; assumption]. }
    intros Hr. apply (Hcl id y Hr). left. reflexivity.
  - destruct (zmem x ch) eqn:E.
    + apply zmem_In in E. apply (IH q ch); [| | |exact Hres].
      * intros y Hy. apply HA. cbn. right. exact Hy.
      * intros y Hy z Hz. destruct (HB y Hy z Hz) as [H|[H|H]]; [left; exact H|subst; left; exact E|right; exact H].
      * intros z Hz. destruct (HC z Hz) as [H|[H|H]]; [left; exact H|subst; left; exact E|right; exact H].
    + apply (IH (q ++ tfind fwd x) (x :: ch)); [| | |exact Hres].
      * intros y Hy. rewrite <- app_assoc in Hy. apply in_app_or in Hy. destruct Hy as [Hy|Hy].
        -- apply HA. cbn. right. apply in_or_app. left. exact Hy.
        -- apply in_app_or in Hy. destruct Hy as [Hy|[Hy|Hy]].
           ++ eapply reach_trans_r; [apply HA; cbn; left; reflexivity|exact Hy].
           ++ subst. apply HA. cbn. left. reflexivity.
           ++ apply HA. cbn. right. apply in_or_app. right. exact Hy.
      * intros y [->|Hy] z Hz.
        -- right. apply in_or_app. right. exact Hz.
        -- destruct (HB y Hy z Hz) as [H|[H|H]]; [left; right; exact H|subst; left; left; reflexivity|right; apply in_or_app; left; exact H].
      * intros z Hz. destruct (HC z Hz) as [H|[H|H]]; [left; right; exact H|subst; left; left; reflexivity|right; apply in_or_app; left; exact H].
Qed.

Lemma deps_correct fwd id c : deps fwd id = Some c -> forall y, In y c <-> reach fwd id y.
Proof.
  unfold deps. apply deps_loop_correct.
  - intros y Hy. rewrite app_nil_r in Hy. apply reach1. exact Hy.
  - intros y [].
  - intros z Hz. right. exact Hz.
Qed.

(* termination: the fuel given by [deps] always suffices *)
Fixpoint pot (fwd : table) (ch : list Z) : nat :=
  match fwd with
  | [] => O
  | (k, v) :: r => ((if zmem k ch then 0 else 1 + length v) + pot r ch)%nat
  end.

Lemma pot_mono fwd x ch : (pot fwd (x :: ch) <= pot fwd ch)%nat.
Proof.
  induction fwd as [|[k v] r IH]; cbn [pot]; [lia|].
  unfold zmem at 1. cbn [existsb]. fold (zmem k ch). destruct (Z.eqb k x); cbn [orb]; destruct (zmem k ch); lia.
Qed.

Lemma pot_add fwd x ch : zmem x ch = false -> (pot fwd (x :: ch) + length (tfind fwd x) <= pot fwd ch)%nat.
Proof.
  intros Hx. induction fwd as [|[k v] r IH]; cbn [pot tfind length]; [lia|].
  destruct (Z.eqb_spec x k) as [->|Hn].
  - rewrite Hx. unfold zmem at 1. cbn [existsb]. rewrite Z.eqb_refl. cbn [orb].
    pose proof (pot_mono r k ch). lia.
  - unfold zmem at 1. cbn [existsb]. fold (zmem k ch).
    destruct (Z.eqb_spec k x); [congruence|]. cbn [orb]. destruct (zmem k ch); lia.
Qed.

Lemma deps_loop_total fwd fuel q ch :
  (length q + pot fwd ch < fuel)%nat -> deps_loop fuel fwd q ch <> None.
Proof.
  revert q ch. induction fuel as [|f IH]; intros q ch H; [lia|].
  cbn [deps_loop]. destruct q as [|x q]; [discriminate|].
  destruct (zmem x ch) eqn:E.
  - apply IH. cbn [length] in H. lia.
  - apply IH. rewrite app_length. pose proof (pot_add fwd x ch E). cbn [length] in H. lia.
Qed.

Lemma edges_cons k v r : edges ((k, v) :: r) = (length v + edges r)%nat.
Proof.
  unfold edges. cbn [fold_left snd].
  assert (forall l n, fold_left (fun n kv => (n + length (snd kv))%nat) l n
                      = (n + fold_left (fun n (kv : Z * list Z) => (n + length (snd kv))%nat) l O)%nat) as Hf.
  { induction l as [|kv l' IH]; intros n; cbn [fold_left]; [lia|]. rewrite IH. rewrite (IH (0 + _)%nat). lia. }
  rewrite Hf. lia.
Qed.

Lemma pot_nil fwd : pot fwd [] = (length fwd + edges fwd)%nat.
Proof.
  induction fwd as [|[k v] r IH]; [reflexivity|].
  cbn [pot length]. rewrite edges_cons, IH. cbn. lia.
Qed.

Lemma deps_total fwd id : deps fwd id <> None.
Proof. unfold deps. apply deps_loop_total. rewrite pot_nil. lia. Qed.

(* ---------------- inverse attributes ---------------- *)
Lemma nodup_z_spec l : NoDup (nodup_z l) /\ forall x, In x (nodup_z l) <-> In x l.
Proof.
  induction l as [|a r [IH1 IH2]]; cbn; [split; [constructor|tauto]|].
  destruct (zmem a r) eqn:E.
  - split; [exact IH1|]. intros x. rewrite IH2. apply zmem_In in E. split; [auto|intros [->|H]; auto].
  - split.
    + constructor; [|exact IH1]. rewrite IH2. intro H. apply zmem_In in H. congruence.
    + intros x. cbn. rewrite IH2. tauto.
Qed.

Lemma attr_refs_sub i e a x : In x (attr_refs i e a) -> In x (all_refs i).
Proof.
  unfold attr_refs, all_refs. induction (r_attrs i) as [|[[e0 a0] l] r IH]; cbn; [tauto|].
  intros H. apply in_app_or in H. apply in_or_app. destruct H as [H|H]; [|right; apply IH; exact H].
  left. destruct (Z.eqb e0 e && Z.eqb a0 a); [exact H|contradiction].
Qed.

Lemma find_id pop i : NoDup (map r_id pop) -> In i pop -> find (fun j => Z.eqb (r_id j) (r_id i)) pop = Some i.
Proof.
  induction pop as [|j r IH]; intros Hnd Hin; [contradiction|]. cbn [map] in Hnd. inversion Hnd as [|? ? Hj Hr]. subst.
  cbn [find]. destruct Hin as [->|Hin]; [rewrite Z.eqb_refl; reflexivity|].
  destruct (Z.eqb_spec (r_id j) (r_id i)) as [E|_]; [exfalso; apply Hj; rewrite E; apply in_map; exact Hin|].
  apply IH; assumption.
Qed.

(* the resolved collection holds exactly the instances of type E (or a subtype)
   whose attribute a refers to x -- none missing, none extra, none twice *)
Lemma inverse_exact isa pop x ent attr :
  NoDup (map r_id pop) ->
  let rev := snd (build (map (fun i => (r_id i, all_refs i)) pop)) in
  let res := resolve_inverse isa pop rev x ent attr in
  NoDup res /\
  forall y, In y res <-> exists i, In i pop /\ r_id i = y /\ isa (r_type i) ent = true /\ In x (attr_refs i ent attr).
Proof.
  intros Hnd rev res.
  assert (Hnd' : NoDup (map fst (map (fun i => (r_id i, all_refs i)) pop))) by (rewrite map_map; exact Hnd).
  destruct (build_spec _ Hnd') as [Ht [Hf _]]. fold rev in Ht.
  destruct (nodup_z_spec (tfind rev x)) as [Hn1 Hn2].
  split; [unfold res, resolve_inverse; apply NoDup_filter; exact Hn1|].
  intros y. unfold res, resolve_inverse. rewrite filter_In, Hn2. split.
  - intros [Hc Hk]. destruct (find (fun i => Z.eqb (r_id i) y) pop) as [i|] eqn:F; [|discriminate].
    apply find_some in F. destruct F as [Hi E]. apply Z.eqb_eq in E. apply andb_prop in Hk. destruct Hk as [K1 K2].
    exists i. apply zmem_In in K2. auto.
  - intros [i [Hi [E [K1 K2]]]]. subst y. split.
    + (* a true referrer is among the candidates: reverse table = transpose *)
      apply cnt_in. rewrite Ht. apply cnt_in.
      rewrite (Hf (r_id i) (all_refs i)); [eapply attr_refs_sub; exact K2|].
      apply in_map_iff. exists i. auto.
    + rewrite (find_id pop i Hnd Hi). rewrite K1. cbn. apply zmem_In. exact K2.
Qed.
