(* C14 -- appending a file keeps both populations whole and their references separate.
   [incr] uses the constants regenerated from STEPfile::SetFileIdIncrement on
   every run (coq/gen/Consts.v).  Populations are arbitrary lists of instances
   with arbitrary (nested) parameter values; ids of the appended file are positive
   (Part 21 instance names are #1, #2, ...). *)
From Coq Require Import List ZArith NArith Bool.
From SC.gen Require Import Consts.
From SC Require Import P21Lex P21Syntax Append Append_Proofs.
Import ListNotations.
Local Open Scope Z_scope.

(* the offset is a positive multiple of INCR_MUL (1000), strictly above the maximum id *)
Theorem c14_offset_above_max : forall m, 0 <= m ->
  m < incr m /\ incr m mod INCR_MUL = 0 /\ INCR_MUL <= incr m - m.
Proof. exact incr_above. Qed.
Print Assumptions c14_offset_above_max.

(* the earlier instances keep their ids and values, in order *)
Theorem c14_first_population_kept : forall A B, firstn (length A) (append_pop A B) = A.
Proof. exact append_keeps_first. Qed.
Print Assumptions c14_first_population_kept.

(* every appended instance is present with its id and all its references shifted by
   one common offset *)
Theorem c14_second_population_shifted : forall A B,
  skipn (length A) (append_pop A B) = map (shift_inst (incr (max_id A))) B /\
  forall b, inst_refs (shift_inst (incr (max_id A)) b) = map (fun n => n + incr (max_id A)) (inst_refs b).
Proof. intros A B. split; [apply append_second_shifted|intros b; apply inst_refs_shift]. Qed.
Print Assumptions c14_second_population_shifted.

(* no collision: shifted ids are above every earlier id, and all ids stay distinct *)
Theorem c14_no_collision : forall A B,
  NoDup (map p_id A) -> NoDup (map p_id B) -> (forall b, In b B -> 0 < p_id b) ->
  NoDup (map p_id (append_pop A B)) /\
  forall a b, In a A -> In b B -> p_id a < p_id (shift_inst (incr (max_id A)) b).
Proof.
  intros A B HA HB Hpos. split; [apply (append_ids_nodup A B HA HB Hpos)|].
  intros a b Ha Hb. apply (append_ids_above A B a b Ha Hb (Hpos b Hb)).
Qed.
Print Assumptions c14_no_collision.

(* a shifted reference resolves to the appended counterpart, never to an earlier
   instance that happens to bear the original number *)
Theorem c14_refs_resolve_to_counterpart : forall A B r, 0 < r ->
  lookup (append_pop A B) (r + incr (max_id A)) = option_map (shift_inst (incr (max_id A))) (lookup B r).
Proof. exact append_refs_resolve. Qed.
Print Assumptions c14_refs_resolve_to_counterpart.

Example c14_example :
  incr 7 = 2000 /\ incr 901 = 2000 /\ incr 902 = 3000 /\ incr 1999 = 4000 /\ incr (-1) = 0 /\
  let A := [{| p_id := 5; p_body := [([80%N], [PRef 5])] |}] in
  let B := [{| p_id := 5; p_body := [([80%N], [PList [PRef 5; PTyped [83%N] (PRef 5)]])] |}] in
  map p_id (append_pop A B) = [5; 2005] /\ inst_refs (nth 1 (append_pop A B) (hd {| p_id := 0; p_body := [] |} A)) = [2005; 2005].
Proof. vm_compute. repeat split. Qed.
