From Coq Require Import List ZArith Bool NArith Lia.
From SC.gen Require Import Consts.
From SC Require Import P21Lex P21Syntax P21Syntax_Proofs Append.
Import ListNotations.
Local Open Scope Z_scope.
Ltac Zify.zify_post_hook ::= Z.div_mod_to_equations.

Lemma incr_above m : 0 <= m -> m < incr m /\ incr m mod INCR_MUL = 0 /\ INCR_MUL <= incr m - m.
Proof.
  intros H. unfold incr. destruct (m <? 0) eqn:E; [apply Z.ltb_lt in E; lia|].
  unfold INCR_ADD, INCR_DIV, INCR_PLUS, INCR_MUL.
  split; [lia|]. split; [apply Z.mod_mul; lia|lia].
Qed.

Lemma incr_nonneg m : 0 <= incr m.
Proof.
  unfold incr. destruct (m <? 0) eqn:E; [lia|]. apply Z.ltb_ge in E.
  unfold INCR_ADD, INCR_DIV, INCR_PLUS, INCR_MUL. lia.
Qed.

Lemma fold_max_ge l a : a <= fold_left Z.max l a /\ forall x, In x l -> x <= fold_left Z.max l a.
Proof.
  revert a. induction l as [|y r IH]; intros a; cbn [fold_left]; [split; [lia|intros x []]|].
  destruct (IH (Z.max a y)) as [H1 H2]. split; [lia|].
  intros x [->|Hx]; [lia|apply H2; exact Hx].
Qed.

Lemma max_id_ge P i : In i P -> p_id i <= max_id P.
Proof. intros H. unfold max_id. apply fold_max_ge. apply in_map. exact H. Qed.

Lemma max_id_lo P : -1 <= max_id P.
Proof. unfold max_id. destruct (fold_max_ge (map p_id P) (-1)) as [H _]. exact H. Qed.

(* when the session holds at least one instance with a non-negative id, the
   offset exceeds every earlier id; with an empty session it is 0 *)
Lemma offset_above A a : In a A -> 0 <= max_id A -> p_id a < incr (max_id A).
Proof. intros Hin H0. pose proof (max_id_ge A a Hin). pose proof (incr_above (max_id A) H0). lia. Qed.

Lemma append_keeps_first A B : firstn (length A) (append_pop A B) = A.
Proof. unfold append_pop. rewrite firstn_app, Nat.sub_diag, firstn_all. cbn. apply app_nil_r. Qed.

Lemma append_second_shifted A B :
  skipn (length A) (append_pop A B) = map (shift_inst (incr (max_id A))) B.
Proof. unfold append_pop. rewrite skipn_app, Nat.sub_diag, skipn_all. reflexivity. Qed.

(* no collision: appended ids are strictly above every earlier id *)
Lemma append_ids_above A B a b :
  In a A -> In b B -> 0 < p_id b -> p_id a < p_id (shift_inst (incr (max_id A)) b).
Proof.
  intros Ha Hb Hpos. cbn [shift_inst p_id]. pose proof (max_id_ge A a Ha).
  destruct (Z_lt_le_dec (max_id A) 0) as [Hn|Hn].
  - pose proof (incr_nonneg (max_id A)). lia.
  - pose proof (incr_above (max_id A) Hn). lia.
Qed.

Lemma lookup_app_skip A P id :
  (forall a, In a A -> p_id a <> id) -> lookup (A ++ P) id = lookup P id.
Proof.
  intros H. unfold lookup. induction A as [|a r IH]; [reflexivity|]. cbn [app find].
  destruct (Z.eqb_spec (p_id a) id) as [E|E]; [exfalso; apply (H a (or_introl eq_refl)); exact E|].
  apply IH. intros x Hx. apply H. right. exact Hx.
Qed.

Lemma lookup_shift k P id :
  lookup (map (shift_inst k) P) (id + k) = option_map (shift_inst k) (lookup P id).
Proof.
  unfold lookup. induction P as [|x r IH]; [reflexivity|]. cbn [map find shift_inst p_id].
  destruct (Z.eqb_spec (p_id x + k) (id + k)) as [E|E]; destruct (Z.eqb_spec (p_id x) id) as [E2|E2]; try lia.
  - reflexivity.
  - exact IH.
Qed.

(* every reference of an appended instance points to the appended counterpart *)
Lemma append_refs_resolve A B r :
  0 < r ->
  lookup (append_pop A B) (r + incr (max_id A)) = option_map (shift_inst (incr (max_id A))) (lookup B r).
Proof.
  intros Hr. unfold append_pop. rewrite lookup_app_skip; [apply lookup_shift|].
  intros a Ha. pose proof (max_id_ge A a Ha).
  destruct (Z_lt_le_dec (max_id A) 0) as [Hn|Hn].
  - pose proof (incr_nonneg (max_id A)). lia.
  - pose proof (incr_above (max_id A) Hn). lia.
Qed.

Lemma inst_refs_shift k i : inst_refs (shift_inst k i) = map (fun n => n + k) (inst_refs i).
Proof.
  unfold inst_refs. cbn [shift_inst p_body]. induction (p_body i) as [|[kw ps] r IH]; [reflexivity|].
  cbn [map flat_map fst snd]. rewrite map_app, <- IH. f_equal.
  induction ps as [|p ps IHp]; [reflexivity|]. cbn [map flat_map]. rewrite map_app, <- IHp, refs_shift. reflexivity.
Qed.

Lemma NoDup_map_inj {A B} (f : A -> B) l : (forall x y, f x = f y -> x = y) -> NoDup l -> NoDup (map f l).
Proof.
  intros Hinj. induction 1 as [|x r Hx Hr IH]; cbn; constructor; [|exact IH].
  intro Hin. apply in_map_iff in Hin. destruct Hin as [y [E Hy]]. apply Hinj in E. subst. contradiction.
Qed.

Lemma append_ids_nodup A B :
  NoDup (map p_id A) -> NoDup (map p_id B) -> (forall b, In b B -> 0 < p_id b) ->
  NoDup (map p_id (append_pop A B)).
Proof.
  intros HA HB Hpos. unfold append_pop. rewrite map_app.
  assert (Hm : map p_id (map (shift_inst (incr (max_id A))) B) = map (fun z => z + incr (max_id A)) (map p_id B)).
  { rewrite !map_map. reflexivity. }
  rewrite Hm. clear Hm.
  assert (HB' : NoDup (map (fun z => z + incr (max_id A)) (map p_id B))) by (apply NoDup_map_inj; [intros; lia|exact HB]).
  assert (Hdisj : forall x, In x (map p_id A) -> ~ In x (map (fun z => z + incr (max_id A)) (map p_id B))).
  { intros x Hx Hy. apply in_map_iff in Hx. destruct Hx as [a [<- Ha]].
    apply in_map_iff in Hy. destruct Hy as [z [Ez Hz]]. apply in_map_iff in Hz. destruct Hz as [b [<- Hb]].
    pose proof (append_ids_above A B a b Ha Hb (Hpos b Hb)) as H. cbn [shift_inst p_id] in H. lia. }
  clear HB Hpos. induction (map p_id A) as [|x r IH]; [exact HB'|]. cbn [app].
  inversion HA as [|? ? Hx Hr]. subst. constructor.
  - intro Hin. apply in_app_or in Hin. destruct Hin as [Hin|Hin]; [contradiction|].
    apply (Hdisj x (or_introl eq_refl)). exact Hin.
  - apply IH; [exact Hr|]. intros y Hy. apply Hdisj. right. exact Hy.
Qed.
