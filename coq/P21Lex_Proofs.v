(* Proofs about the lexical layer model (C09, C05). *)
From Coq Require Import List ZArith Bool NArith Lia.
From SC.gen Require Import SevTable Consts.
From SC Require Import P21Lex.
Import ListNotations.
Local Open Scope Z_scope.

(* ------------------------------------------------------------------ *)
(* severities                                                          *)

Lemma greater_le_l a b : greater a b <= a.
Proof. unfold greater. destruct (b <? a) eqn:E; [apply Z.ltb_lt in E|]; lia. Qed.
Lemma greater_le_r a b : greater a b <= b.
Proof. unfold greater. destruct (b <? a) eqn:E; [apply Z.ltb_lt in E|apply Z.ltb_ge in E]; lia. Qed.
Lemma greater_id a b : b >= a -> greater a b = a.
Proof. unfold greater. intros H. destruct (b <? a) eqn:E; [apply Z.ltb_lt in E; lia|reflexivity]. Qed.

Lemma check_remaining_sev_le s sev ds : fst (check_remaining s sev ds) <= sev.
Proof.
  unfold check_remaining.
  destruct (eofb s); cbn [fst]; [lia|].
  destruct ds as [ds|].
  - destruct (sep_scan false false (rest s)) as [[|c r]|]; cbn [fst]; [lia| |apply greater_le_l].
    destruct (in_delims ds c); cbn [fst]; [lia|].
    destruct (skip_to_delim ds (c :: r)) as [d r'|r'|]; cbn [fst]; apply greater_le_l.
  - destruct (eofb (s_ws (s_clear s))); cbn [fst]; [lia|].
    destruct (good (s_ws (s_clear s))); cbn [fst]; [apply greater_le_l|lia].
Qed.

(* ------------------------------------------------------------------ *)
(* (A) a value that could not be converted is never accepted silently  *)

Lemma read_integer_never_silent s sev ds :
  fst (fst (read_integer s sev ds)) = None -> snd (fst (read_integer s sev ds)) <= SEVERITY_WARNING.
Proof.
  unfold read_integer. destruct (s_read_long (s_ws s)) as [v s2] eqn:E.
  destruct v as [z|].
  - destruct (check_remaining s2 sev ds); cbn. discriminate.
  - pose proof (check_remaining_sev_le s2 (greater sev SEVERITY_WARNING) ds) as H.
    destruct (check_remaining s2 (greater sev SEVERITY_WARNING) ds) as [sev' s3]; cbn in *. intros _.
    pose proof (greater_le_r sev SEVERITY_WARNING). lia.
Qed.

Lemma read_number_never_silent s sev ds :
  fst (fst (read_number s sev ds)) = None -> snd (fst (read_number s sev ds)) <= SEVERITY_WARNING.
Proof.
  unfold read_number. destruct (s_read_double (s_ws s)) as [v s2] eqn:E.
  destruct v as [z|].
  - destruct (check_remaining s2 sev ds); cbn. discriminate.
  - pose proof (check_remaining_sev_le s2 (greater sev SEVERITY_WARNING) ds) as H.
    destruct (check_remaining s2 (greater sev SEVERITY_WARNING) ds) as [sev' s3]; cbn in *. intros _.
    pose proof (greater_le_r sev SEVERITY_WARNING). lia.
Qed.

Lemma read_real_never_silent s sev ds :
  fst (fst (read_real s sev ds)) = None -> snd (fst (read_real s sev ds)) <= SEVERITY_WARNING.
Proof.
  unfold read_real. destruct (s_read_double (of_bytes (rs_buf (scan_real s)))) as [v s2] eqn:E.
  destruct v as [z|].
  - destruct (check_remaining (rs_stream (scan_real s)) (greater sev (rs_sev (scan_real s))) ds); cbn. discriminate.
  - pose proof (check_remaining_sev_le (rs_stream (scan_real s)) (greater sev SEVERITY_WARNING) ds) as H.
    destruct (check_remaining (rs_stream (scan_real s)) (greater sev SEVERITY_WARNING) ds) as [sev' s3]; cbn in *. intros _.
    pose proof (greater_le_r sev SEVERITY_WARNING). lia.
Qed.

(* an out-of-range integer is in particular not converted *)
Lemma s_read_long_range s v s' : s_read_long s = (Some v, s') -> LONG_MIN <= v <= LONG_MAX.
Proof.
  unfold s_read_long. destruct (good s); [|discriminate].
  destruct (skip_ws (rest s)) as [|c r1]; [discriminate|].
  destruct (take_digits _ 0 0) as [[v0 n] r2].
  destruct n; [discriminate|].
  match goal with |- context [if ?b then _ else _] => destruct b eqn:E end; [|discriminate].
  intros H. inversion H. subst. apply andb_prop in E. destruct E as [E1 E2].
  apply Z.leb_le in E1. apply Z.leb_le in E2. lia.
Qed.

(* ------------------------------------------------------------------ *)
(* (B) the delimiter is never consumed                                 *)

Definition DELIMS : list byte := [44%N; 41%N].   (* ",)" *)

(* no delimiter and no semicolon (the skipping loop of CheckRemainingInput stops at either) *)
Definition nodelim (u : list byte) : Prop := forall c, In c u -> in_delims DELIMS c = false /\ N.eqb c 59 = false.

(* no solidus directly followed by an asterisk: no comment is opened (a comment is white space: the delimiters in it
   are not the one that follows the value, see check_remaining_separator below) *)
Fixpoint no_open (l : list byte) : bool :=
  match l with
  | a :: r => negb (N.eqb a 47 && match r with b :: _ => N.eqb b 42 | [] => false end) && no_open r
  | [] => true
  end.

Definition clean (u : list byte) : Prop := nodelim u /\ no_open u = true.

(* "the unread input is a delimiter-free remainder followed by d :: r" *)
Definition Before (d : byte) (r : list byte) (l : list byte) : Prop :=
  exists u, clean u /\ l = u ++ d :: r.

Lemma clean_tail c u : clean (c :: u) -> clean u.
Proof.
  intros [H1 H2]. split.
  - intros x Hx. apply H1. right. exact Hx.
  - cbn [no_open] in H2. apply andb_prop in H2. exact (proj2 H2).
Qed.
Lemma clean_nil : clean [].
Proof. split; [intros x []|reflexivity]. Qed.
Lemma clean_head c u : clean (c :: u) -> in_delims DELIMS c = false /\ N.eqb c 59 = false.
Proof. intros [H _]. apply H. left. reflexivity. Qed.

Lemma delim_not_space d : in_delims DELIMS d = true -> is_space d = false.
Proof.
  unfold in_delims, DELIMS, is_space. cbn. intros H.
  repeat (apply orb_prop in H; destruct H as [H|H]); try discriminate;
    apply N.eqb_eq in H; subst; reflexivity.
Qed.
Lemma delim_not_digit d : in_delims DELIMS d = true -> is_digit d = false.
Proof.
  unfold in_delims, DELIMS, is_digit. cbn. intros H.
  repeat (apply orb_prop in H; destruct H as [H|H]); try discriminate;
    apply N.eqb_eq in H; subst; reflexivity.
Qed.

Lemma Before_nonempty d r l : Before d r l -> l <> [].
Proof. intros [u [_ E]] H. subst. destruct u; discriminate. Qed.

Lemma Before_skip_ws d r l :
  in_delims DELIMS d = true -> Before d r l -> Before d r (skip_ws l).
Proof.
  intros Hd [u [Hu E]]. subst. induction u as [|c u IH]; cbn.
  - rewrite (delim_not_space d Hd). exists []. split; [exact clean_nil|reflexivity].
  - destruct (is_space c).
    + apply IH. eapply clean_tail; eauto.
    + exists (c :: u). split; [exact Hu|reflexivity].
Qed.

(* tail of a Before list whose head is not the delimiter position *)
Lemma Before_tail d r c l :
  in_delims DELIMS d = true ->
  Before d r (c :: l) -> in_delims DELIMS c = false -> Before d r l.
Proof.
  intros Hd [u [Hu E]] Hc. destruct u as [|x u]; cbn in E; inversion E; subst.
  - congruence.
  - exists u. split; [eapply clean_tail; eauto|reflexivity].
Qed.

Lemma digit_not_delim c : is_digit c = true -> in_delims DELIMS c = false.
Proof.
  intros H. destruct (in_delims DELIMS c) eqn:E; [|reflexivity].
  rewrite (delim_not_digit c E) in H. discriminate.
Qed.

Lemma Before_take_digits d r l acc n :
  in_delims DELIMS d = true -> Before d r l ->
  Before d r (snd (take_digits l acc n)).
Proof.
  intros Hd. revert acc n. induction l as [|c l IH]; intros acc n HB.
  - exfalso. eapply Before_nonempty; eauto.
  - cbn. destruct (is_digit c) eqn:E.
    + apply IH. eapply Before_tail; eauto. apply digit_not_delim. exact E.
    + cbn. exact HB.
Qed.

Lemma Before_take_digit_bytes d r l :
  in_delims DELIMS d = true -> Before d r l ->
  Before d r (snd (take_digit_bytes l)).
Proof.
  intros Hd. induction l as [|c l IH]; intros HB.
  - exfalso. eapply Before_nonempty; eauto.
  - cbn. destruct (is_digit c) eqn:E.
    + assert (HB' : Before d r l) by (eapply Before_tail; eauto; apply digit_not_delim; exact E).
      specialize (IH HB'). destruct (take_digit_bytes l) as [ds r']. cbn in *. exact IH.
    + cbn. exact HB.
Qed.

(* dropping one specific non-delimiter byte *)
Lemma Before_drop d r c l (p : byte -> bool) :
  in_delims DELIMS d = true ->
  (forall x, p x = true -> in_delims DELIMS x = false) ->
  Before d r (c :: l) -> p c = true -> Before d r l.
Proof. intros Hd Hp HB Hc. eapply Before_tail; eauto. Qed.

Lemma eqb_not_delim k : in_delims DELIMS k = false -> forall x, N.eqb x k = true -> in_delims DELIMS x = false.
Proof. intros H x E. apply N.eqb_eq in E. subst. exact H. Qed.

(* skip_to_delim stops exactly at d *)
Lemma skip_to_delim_Before d r l :
  in_delims DELIMS d = true -> Before d r l -> skip_to_delim DELIMS l = SkFound d r.
Proof.
  intros Hd [u [Hu E]]. subst. induction u as [|c u IH]; cbn [app skip_to_delim].
  - rewrite Hd. reflexivity.
  - destruct (clean_head c u Hu) as [H1 H2]. rewrite H1, H2. apply IH. eapply clean_tail; eauto.
Qed.

(* the separator scan on text that opens no comment only skips the white space in front *)
Lemma delim_not_solidus d : in_delims DELIMS d = true -> N.eqb d 47 = false /\ N.eqb d 42 = false.
Proof.
  unfold in_delims, DELIMS. cbn. intros H.
  repeat (apply orb_prop in H; destruct H as [H|H]); try discriminate;
    apply N.eqb_eq in H; subst; split; reflexivity.
Qed.

Lemma sep_scan_clean_prefix u x r :
  clean u -> is_space x = false -> N.eqb x 47 = false -> N.eqb x 42 = false ->
  sep_scan false false (u ++ x :: r) = Some (skip_ws (u ++ x :: r)).
Proof.
  intros Hu Hs H47 H42. induction u as [|c u IH]; cbn [app sep_scan skip_ws].
  - rewrite Hs, H47. reflexivity.
  - destruct (is_space c) eqn:Ec.
    + apply IH. eapply clean_tail; eauto.
    + destruct (N.eqb c 47) eqn:E47; [|reflexivity].
      destruct u as [|b u']; cbn [app].
      * rewrite H42. reflexivity.
      * destruct Hu as [_ Hn]. cbn [no_open] in Hn. rewrite E47 in Hn. cbn [andb] in Hn.
        destruct (N.eqb b 42); [discriminate|reflexivity].
Qed.

(* CheckRemainingInput on a stream whose unread input is "Before d r":
   it ends positioned exactly at d :: r, with no eof/fail flag left. *)
Lemma check_remaining_Before d r s sev :
  in_delims DELIMS d = true ->
  eofb s = false -> Before d r (rest s) ->
  rest (snd (check_remaining s sev (Some DELIMS))) = d :: r /\
  good (snd (check_remaining s sev (Some DELIMS))) = true.
Proof.
  intros Hd He HB. unfold check_remaining. rewrite He.
  assert (HB' : Before d r (skip_ws (rest s))) by (apply Before_skip_ws; assumption).
  assert (Hsc : sep_scan false false (rest s) = Some (skip_ws (rest s))).
  { destruct HB as [u [Hu Eu]]. rewrite Eu. destruct (delim_not_solidus d Hd) as [A B].
    apply sep_scan_clean_prefix; auto. apply delim_not_space. exact Hd. }
  rewrite Hsc.
  destruct (skip_ws (rest s)) as [|c l] eqn:E; [exfalso; eapply Before_nonempty; eauto|].
  destruct (in_delims DELIMS c) eqn:Ec.
  - cbn [snd rest eofb failb negb andb good]. split; [|reflexivity].
    destruct HB' as [u [Hu Eu]]. destruct u as [|x u]; cbn in Eu; inversion Eu; subst; [reflexivity|].
    rewrite (proj1 (clean_head x u Hu)) in Ec. discriminate.
  - rewrite (skip_to_delim_Before d r (c :: l) Hd HB'). cbn. split; reflexivity.
Qed.

(* ------------------------------------------------------------------ *)
(* (B') a comment between a value and its delimiter is white space      *)

(* a separator: white space characters and closed comments, in any order and number *)
Inductive sepitem : Set := SpI (c : byte) | CmI (body : list byte).

(* the text of a comment holds no asterisk directly followed by a solidus *)
Fixpoint has_close (l : list byte) : bool :=
  match l with
  | a :: r => (N.eqb a 42 && match r with b :: _ => N.eqb b 47 | [] => false end) || has_close r
  | [] => false
  end.

Definition sep_ok (it : sepitem) : bool :=
  match it with SpI c => is_space c | CmI b => negb (has_close b) end.
Definition sep_item_bytes (it : sepitem) : list byte :=
  match it with SpI c => [c] | CmI b => 47%N :: 42%N :: b ++ [42%N; 47%N] end.
Definition sep_bytes (its : list sepitem) : list byte := flat_map sep_item_bytes its.

Definition star_safe (star : bool) (body : list byte) : Prop :=
  star = true -> match body with c :: _ => N.eqb c 47 = false | [] => True end.

Lemma has_close_tail c b : has_close (c :: b) = false -> has_close b = false /\ star_safe (N.eqb c 42) b.
Proof.
  cbn [has_close]. intros H. apply orb_false_elim in H. destruct H as [H1 H2]. split; [exact H2|].
  intros Hs. rewrite Hs in H1. cbn [andb] in H1. destruct b; [trivial|exact H1].
Qed.

Lemma comment_scan body tail : forall star,
  has_close body = false -> star_safe star body ->
  sep_scan true star (body ++ 42%N :: 47%N :: tail) = sep_scan false false tail.
Proof.
  induction body as [|c b IH]; intros star Hc Hs; cbn [app].
  - cbn [sep_scan]. replace (star && N.eqb 42 47)%bool with false by (destruct star; reflexivity).
    cbn [N.eqb Pos.eqb andb]. reflexivity.
  - cbn [sep_scan]. destruct (has_close_tail c b Hc) as [Hc' Hs'].
    replace (star && N.eqb c 47)%bool with false.
    + apply IH; assumption.
    + destruct star; [|reflexivity]. cbn [andb]. symmetry. apply Hs. reflexivity.
Qed.

Lemma comment_unclosed body : forall star,
  has_close body = false -> star_safe star body -> sep_scan true star body = None.
Proof.
  induction body as [|c b IH]; intros star Hc Hs; cbn [sep_scan]; [reflexivity|].
  destruct (has_close_tail c b Hc) as [Hc' Hs'].
  replace (star && N.eqb c 47)%bool with false.
  - apply IH; assumption.
  - destruct star; [|reflexivity]. cbn [andb]. symmetry. apply Hs. reflexivity.
Qed.

Lemma star_safe_false body : star_safe false body.
Proof. intros H. discriminate. Qed.

Lemma sep_scan_separator its tail :
  forallb sep_ok its = true -> sep_scan false false (sep_bytes its ++ tail) = sep_scan false false tail.
Proof.
  induction its as [|it its IH]; intros H; [reflexivity|].
  cbn [forallb] in H. apply andb_prop in H. destruct H as [Hit Hits].
  unfold sep_bytes. cbn [flat_map]. fold (sep_bytes its). rewrite <- app_assoc.
  destruct it as [c|b]; cbn [sep_item_bytes sep_ok] in *.
  - cbn [app sep_scan]. rewrite Hit. apply IH. exact Hits.
  - cbn [app]. cbn [sep_scan]. change (is_space 47%N) with false. change (N.eqb 47 47) with true. change (N.eqb 42 42) with true.
    cbn iota. rewrite <- app_assoc. cbn [app].
    rewrite comment_scan; [apply IH; exact Hits| |apply star_safe_false].
    destruct (has_close b); [discriminate|reflexivity].
Qed.

(* the value is followed by a separator and then a delimiter: the check ends at the delimiter and reports nothing *)
Lemma check_remaining_separator its d r s sev :
  forallb sep_ok its = true -> in_delims DELIMS d = true ->
  eofb s = false -> rest s = sep_bytes its ++ d :: r ->
  check_remaining s sev (Some DELIMS) = (sev, mkS (d :: r) false false).
Proof.
  intros Hits Hd He Hr. unfold check_remaining. rewrite He, Hr.
  rewrite (sep_scan_separator its (d :: r) Hits).
  destruct (delim_not_solidus d Hd) as [A B].
  pose proof (sep_scan_clean_prefix [] d r clean_nil (delim_not_space d Hd) A B) as Hs. cbn [app] in Hs.
  rewrite Hs. cbn [skip_ws]. rewrite (delim_not_space d Hd). rewrite Hd. reflexivity.
Qed.

(* a comment that is opened and never closed swallows the delimiter: that is reported as an error nothing recovers from *)
Lemma check_remaining_unclosed_comment its body s sev :
  forallb sep_ok its = true -> has_close body = false ->
  eofb s = false -> rest s = sep_bytes its ++ 47%N :: 42%N :: body ->
  check_remaining s sev (Some DELIMS) = (greater sev SEVERITY_INPUT_ERROR, mkS [] true true).
Proof.
  intros Hits Hb He Hr. unfold check_remaining. rewrite He, Hr.
  rewrite (sep_scan_separator its _ Hits).
  cbn [sep_scan]. change (is_space 47%N) with false. change (N.eqb 47 47) with true. change (N.eqb 42 42) with true.
  cbn iota. rewrite (comment_unclosed body false Hb (star_safe_false body)). reflexivity.
Qed.

(* ReadInteger leaves the stream at the delimiter *)
Lemma read_integer_delimiter_kept t d r sev :
  in_delims DELIMS d = true -> clean t ->
  let '(_, _, s') := read_integer (of_bytes (t ++ d :: r)) sev (Some DELIMS) in
  rest s' = d :: r /\ good s' = true.
Proof.
  intros Hd Ht. unfold read_integer.
  assert (HB0 : Before d r (t ++ d :: r)) by (exists t; auto).
  (* in >> ws *)
  unfold s_ws, of_bytes, good. cbn [eofb failb rest negb andb].
  assert (HB1 := Before_skip_ws d r _ Hd HB0).
  destruct (skip_ws (t ++ d :: r)) as [|c0 l0] eqn:E0; [exfalso; eapply Before_nonempty; eauto|].
  (* in >> i *)
  unfold s_read_long, good. cbn [eofb failb rest negb andb].
  assert (HB2 := Before_skip_ws d r _ Hd HB1).
  destruct (skip_ws (c0 :: l0)) as [|c r1] eqn:E1; [exfalso; eapply Before_nonempty; eauto|].
  set (body := if (N.eqb c 45 || N.eqb c 43)%bool then r1 else c :: r1).
  assert (HB3 : Before d r body).
  { unfold body. destruct (N.eqb c 45 || N.eqb c 43)%bool eqn:Es; [|exact HB2].
    eapply Before_tail; eauto.
    apply orb_prop in Es. destruct Es as [Es|Es]; apply N.eqb_eq in Es; subst; reflexivity. }
  pose proof (Before_take_digits d r body 0 O Hd HB3) as HB4.
  destruct (take_digits body 0 0) as [[v n] r2]. cbn [snd] in HB4.
  assert (Hr2 : r2 <> []) by (eapply Before_nonempty; eauto).
  set (e := match r2 with [] => true | _ :: _ => false end).
  assert (He : e = false) by (unfold e; destruct r2; congruence).
  assert (Hgoal : forall (v0 : option Z) (f : bool) sev0,
             let '(sev', s3) := check_remaining (mkS r2 e f) sev0 (Some DELIMS) in
             rest s3 = d :: r /\ good s3 = true).
  { intros v0 f sev0.
    pose proof (check_remaining_Before d r (mkS r2 e f) sev0 Hd He HB4) as H.
    destruct (check_remaining (mkS r2 e f) sev0 (Some DELIMS)). exact H. }
  destruct n.
  - specialize (Hgoal None true (greater sev SEVERITY_WARNING)).
    destruct (check_remaining _ _ _). exact Hgoal.
  - destruct ((LONG_MIN <=? (if N.eqb c 45 then - v else v)) && ((if N.eqb c 45 then - v else v) <=? LONG_MAX)).
    + specialize (Hgoal None false sev). destruct (check_remaining _ _ _). exact Hgoal.
    + specialize (Hgoal None true (greater sev SEVERITY_WARNING)). destruct (check_remaining _ _ _). exact Hgoal.
Qed.

(* ReadNumber leaves the stream at the delimiter *)
Lemma Before_eat d r l (p : byte -> bool) :
  in_delims DELIMS d = true ->
  (forall x, p x = true -> in_delims DELIMS x = false) ->
  Before d r l -> Before d r (snd (eat p l)).
Proof.
  intros Hd Hp HB. destruct l as [|c l']; cbn; [exact HB|].
  destruct (p c) eqn:E; cbn; [|exact HB]. eapply Before_tail; eauto.
Qed.

Lemma pm_not_delim x : is_pm x = true -> in_delims DELIMS x = false.
Proof. unfold is_pm. intros H. apply orb_prop in H. destruct H as [H|H]; apply N.eqb_eq in H; subst; reflexivity. Qed.
Lemma e_not_delim x : is_e x = true -> in_delims DELIMS x = false.
Proof. unfold is_e. intros H. apply orb_prop in H. destruct H as [H|H]; apply N.eqb_eq in H; subst; reflexivity. Qed.
Lemma dot_not_delim x : is_dot x = true -> in_delims DELIMS x = false.
Proof. unfold is_dot. intros H. apply N.eqb_eq in H; subst; reflexivity. Qed.

Lemma Before_scan_float d r l :
  in_delims DELIMS d = true -> Before d r l -> Before d r (snd (scan_float l)).
Proof.
  intros Hd HB. unfold scan_float.
  pose proof (Before_eat d r l is_pm Hd pm_not_delim HB) as H1.
  destruct (eat is_pm l) as [sg l1]. cbn [snd] in H1.
  pose proof (Before_take_digit_bytes d r l1 Hd H1) as H2.
  destruct (take_digit_bytes l1) as [ip l2]. cbn [snd] in H2.
  pose proof (Before_eat d r l2 is_dot Hd dot_not_delim H2) as H3.
  destruct (eat is_dot l2) as [dot l3]. cbn [snd] in H3.
  assert (H4 : Before d r (snd (match dot with Some _ => take_digit_bytes l3 | None => ([], l3) end))).
  { destruct dot; [apply Before_take_digit_bytes; assumption|exact H3]. }
  destruct (match dot with Some _ => take_digit_bytes l3 | None => ([], l3) end) as [fp l4]. cbn [snd] in H4.
  destruct (match ip ++ fp with [] => false | _ => true end); [|exact H4].
  pose proof (Before_eat d r l4 is_e Hd e_not_delim H4) as H5.
  destruct (eat is_e l4) as [e l5]. cbn [snd] in H5.
  destruct e; [|exact H5].
  pose proof (Before_eat d r l5 is_pm Hd pm_not_delim H5) as H6.
  destruct (eat is_pm l5) as [esg l6]. cbn [snd] in H6.
  pose proof (Before_take_digit_bytes d r l6 Hd H6) as H7.
  destruct (take_digit_bytes l6) as [ep l7]. cbn [snd] in H7.
  destruct ep; exact H7.
Qed.

Lemma read_number_delimiter_kept t d r sev :
  in_delims DELIMS d = true -> clean t ->
  let '(_, _, s') := read_number (of_bytes (t ++ d :: r)) sev (Some DELIMS) in
  rest s' = d :: r /\ good s' = true.
Proof.
  intros Hd Ht. unfold read_number.
  assert (HB0 : Before d r (t ++ d :: r)) by (exists t; auto).
  unfold s_ws, of_bytes, good. cbn [eofb failb rest negb andb].
  assert (HB1 := Before_skip_ws d r _ Hd HB0).
  destruct (skip_ws (t ++ d :: r)) as [|c0 l0] eqn:E0; [exfalso; eapply Before_nonempty; eauto|].
  unfold s_read_double, good. cbn [eofb failb rest negb andb].
  assert (HB2 := Before_skip_ws d r _ Hd HB1).
  destruct (skip_ws (c0 :: l0)) as [|c r1] eqn:E1; [exfalso; eapply Before_nonempty; eauto|].
  pose proof (Before_scan_float d r (c :: r1) Hd HB2) as HB3.
  destruct (scan_float (c :: r1)) as [fr r2]. cbn [snd] in HB3.
  assert (Hr2 : r2 <> []) by (eapply Before_nonempty; eauto).
  set (e := match r2 with [] => true | _ :: _ => false end).
  assert (He : e = false) by (unfold e; destruct r2; congruence).
  assert (Hgoal : forall (f : bool) sev0,
             let '(sev', s3) := check_remaining (mkS r2 e f) sev0 (Some DELIMS) in
             rest s3 = d :: r /\ good s3 = true).
  { intros f sev0.
    pose proof (check_remaining_Before d r (mkS r2 e f) sev0 Hd He HB3) as H.
    destruct (check_remaining (mkS r2 e f) sev0 (Some DELIMS)). exact H. }
  destruct fr as [tk|].
  - destruct (f_overflows tk).
    + specialize (Hgoal true (greater sev SEVERITY_WARNING)). destruct (check_remaining _ _ _). exact Hgoal.
    + specialize (Hgoal false sev). destruct (check_remaining _ _ _). exact Hgoal.
  - specialize (Hgoal true (greater sev SEVERITY_WARNING)). destruct (check_remaining _ _ _). exact Hgoal.
Qed.

(* ReadReal leaves the stream at the delimiter.  J: the stream is good, its
   unread input still ends in d :: r, and c is the byte last peeked. *)
Definition J (d : byte) (r : list byte) (s : stream) (c : option byte) : Prop :=
  eofb s = false /\ failb s = false /\ Before d r (rest s) /\
  exists x l, rest s = x :: l /\ c = Some x.

Lemma J_peek d r s :
  eofb s = false -> failb s = false -> Before d r (rest s) ->
  exists c, s_peek s = (c, s) /\ J d r s c.
Proof.
  intros He Hf HB. unfold s_peek, good. rewrite He, Hf. cbn [negb andb].
  destruct (rest s) as [|x l] eqn:E; [exfalso; eapply Before_nonempty; eauto|].
  exists (Some x). split; [reflexivity|]. unfold J. rewrite E. repeat split; auto. exists x, l. auto.
Qed.

Lemma J_get_peek d r s c buf (p : byte -> bool) :
  in_delims DELIMS d = true ->
  (forall x, p x = true -> in_delims DELIMS x = false) ->
  J d r s c -> opt_is p c = true ->
  exists buf' c' s', get_peek s buf = (buf', c', s') /\ J d r s' c'.
Proof.
  intros Hd Hp [He [Hf [HB [x [l [Er Ec]]]]]] Hc. subst c. cbn in Hc.
  unfold get_peek, s_get, good. rewrite He, Hf, Er. cbn [negb andb].
  assert (HB' : Before d r l). { rewrite Er in HB. eapply Before_tail; eauto. }
  destruct (J_peek d r (mkS l false false) eq_refl eq_refl HB') as [c' [Hpk HJ]].
  rewrite Hpk. eexists _, c', _. split; [reflexivity|exact HJ].
Qed.

Lemma J_get_digits d r fuel s c buf :
  in_delims DELIMS d = true -> J d r s c ->
  exists buf' c' s', get_digits fuel s c buf = (buf', c', s') /\ J d r s' c'.
Proof.
  intros Hd. revert s c buf. induction fuel as [|f IH]; intros s c buf HJ; cbn.
  - eexists _, _, _. split; [reflexivity|exact HJ].
  - destruct (opt_is is_digit c) eqn:E.
    + destruct (J_get_peek d r s c buf is_digit Hd digit_not_delim HJ E) as [b' [c' [s' [Hg HJ']]]].
      rewrite Hg. apply IH. exact HJ'.
    + eexists _, _, _. split; [reflexivity|exact HJ].
Qed.

Lemma sign_not_delim x : is_sign x = true -> in_delims DELIMS x = false.
Proof. unfold is_sign. intros H. apply orb_prop in H. destruct H as [H|H]; apply N.eqb_eq in H; subst; reflexivity. Qed.

Lemma scan_real_J t d r :
  in_delims DELIMS d = true -> clean t ->
  eofb (rs_stream (scan_real (of_bytes (t ++ d :: r)))) = false /\
  Before d r (rest (rs_stream (scan_real (of_bytes (t ++ d :: r))))).
Proof.
  intros Hd Ht. unfold scan_real.
  set (fuel := S (length (rest (of_bytes (t ++ d :: r))))). clearbody fuel.
  assert (HB0 : Before d r (t ++ d :: r)) by (exists t; auto).
  unfold s_ws, of_bytes, good. cbn [eofb failb rest negb andb].
  assert (HB1 := Before_skip_ws d r _ Hd HB0).
  destruct (skip_ws (t ++ d :: r)) as [|x0 l0] eqn:E0; [exfalso; eapply Before_nonempty; eauto|].
  destruct (J_peek d r (mkS (x0 :: l0) false false) eq_refl eq_refl HB1) as [c0 [Hp0 J0]]. rewrite Hp0.
  (* sign *)
  assert (H1 : exists b1 c1 s2, (if opt_is is_sign c0 then get_peek (mkS (x0 :: l0) false false) [] else ([], c0, mkS (x0 :: l0) false false)) = (b1, c1, s2) /\ J d r s2 c1).
  { destruct (opt_is is_sign c0) eqn:E.
    - eapply J_get_peek; eauto. exact sign_not_delim.
    - eexists _, _, _. split; [reflexivity|exact J0]. }
  destruct H1 as [b1 [c1 [s2 [E1 J1]]]]. rewrite E1.
  destruct (J_get_digits d r fuel s2 c1 b1 Hd J1) as [b2 [c2 [s3 [E2 J2]]]]. rewrite E2.
  (* decimal point *)
  assert (H3 : exists b3 c3 s4 e2,
     (if opt_is (N.eqb 46) c2 then let '(b, c, s') := get_peek s3 b2 in (b, c, s', (if opt_is is_digit c1 then SEVERITY_NULL else SEVERITY_WARNING))
      else (b2, c2, s3, greater (if opt_is is_digit c1 then SEVERITY_NULL else SEVERITY_WARNING) SEVERITY_WARNING)) = (b3, c3, s4, e2) /\ J d r s4 c3).
  { destruct (opt_is (N.eqb 46) c2) eqn:E.
    - destruct (J_get_peek d r s3 c2 b2 (N.eqb 46) Hd) as [b' [c' [s' [Hg HJ']]]]; auto.
      { intros x Hx. apply N.eqb_eq in Hx. subst. reflexivity. }
      rewrite Hg. eexists _, _, _, _. split; [reflexivity|exact HJ'].
    - eexists _, _, _, _. split; [reflexivity|exact J2]. }
  destruct H3 as [b3 [c3 [s4 [e2 [E3 J3]]]]]. rewrite E3.
  destruct (J_get_digits d r fuel s4 c3 b3 Hd J3) as [b4 [c4 [s5 [E4 J4]]]]. rewrite E4.
  destruct (opt_is (fun c => (N.eqb c 101 || N.eqb c 69)%bool) c4) eqn:EE.
  - destruct (J_get_peek d r s5 c4 b4 (fun c => (N.eqb c 101 || N.eqb c 69)%bool) Hd) as [b5 [c5 [s6 [E5 J5]]]]; auto.
    { intros x Hx. apply orb_prop in Hx. destruct Hx as [Hx|Hx]; apply N.eqb_eq in Hx; subst; reflexivity. }
    rewrite E5.
    assert (H6 : exists b6 c6 s7, (if opt_is is_sign c5 then get_peek s6 b5 else (b5, c5, s6)) = (b6, c6, s7) /\ J d r s7 c6).
    { destruct (opt_is is_sign c5) eqn:E.
      - eapply J_get_peek; eauto. exact sign_not_delim.
      - eexists _, _, _. split; [reflexivity|exact J5]. }
    destruct H6 as [b6 [c6 [s7 [E6 J6]]]]. rewrite E6.
    destruct (J_get_digits d r fuel s7 c6 b6 Hd J6) as [b7 [c7 [s8 [E7 J7]]]]. rewrite E7.
    cbn [rs_stream]. destruct J7 as [He [_ [HB _]]]. auto.
  - cbn [rs_stream]. destruct J4 as [He [_ [HB _]]]. auto.
Qed.

Lemma read_real_delimiter_kept t d r sev :
  in_delims DELIMS d = true -> clean t ->
  let '(_, _, s') := read_real (of_bytes (t ++ d :: r)) sev (Some DELIMS) in
  rest s' = d :: r /\ good s' = true.
Proof.
  intros Hd Ht. unfold read_real.
  destruct (scan_real_J t d r Hd Ht) as [He HB].
  destruct (s_read_double (of_bytes (rs_buf (scan_real (of_bytes (t ++ d :: r)))))) as [v s2].
  match goal with |- context [check_remaining ?s ?sv (Some DELIMS)] =>
    pose proof (check_remaining_Before d r s sv Hd He HB) as H;
    destruct (check_remaining s sv (Some DELIMS)) end.
  exact H.
Qed.

(* ------------------------------------------------------------------ *)
(* (C) every conforming, representable integer token is read to its value *)

Definition digits_of (l : list byte) : Prop := forall c, In c l -> is_digit c = true.

Lemma take_digits_app ds tail acc n :
  digits_of ds ->
  (match tail with c :: _ => is_digit c = false | [] => True end) ->
  take_digits (ds ++ tail) acc n = (digits_val ds acc, (n + length ds)%nat, tail).
Proof.
  revert acc n. induction ds as [|c ds IH]; intros acc n Hd Ht; cbn.
  - rewrite Nat.add_0_r. destruct tail as [|c r]; cbn; [reflexivity|]. cbn in Ht. rewrite Ht. reflexivity.
  - rewrite (Hd c (or_introl eq_refl)). rewrite IH; [|intros x Hx; apply Hd; right; exact Hx|exact Ht].
    f_equal. f_equal. lia.
Qed.

Lemma skip_ws_nonspace c l : is_space c = false -> skip_ws (c :: l) = c :: l.
Proof. intros H. cbn. rewrite H. reflexivity. Qed.

Lemma digit_not_space c : is_digit c = true -> is_space c = false.
Proof.
  unfold is_digit, is_space. intros H. apply andb_prop in H. destruct H as [H1 H2].
  apply N.leb_le in H1. apply N.leb_le in H2.
  repeat match goal with |- context [N.eqb c ?k] => destruct (N.eqb_spec c k); [lia|] end. reflexivity.
Qed.

Lemma space_not_digit c : is_space c = true -> is_digit c = false.
Proof. intros H. destruct (is_digit c) eqn:E; [|reflexivity]. rewrite (digit_not_space c E) in H. discriminate. Qed.

Lemma sep_head_not_digit its d r :
  forallb sep_ok its = true -> in_delims DELIMS d = true ->
  exists c l, sep_bytes its ++ d :: r = c :: l /\ is_digit c = false.
Proof.
  intros Hits Hd. destruct its as [|[c|b] its]; cbn.
  - exists d, r. split; [reflexivity|apply delim_not_digit; exact Hd].
  - eexists _, _. split; [reflexivity|]. cbn in Hits. apply andb_prop in Hits. apply space_not_digit. exact (proj1 Hits).
  - eexists _, _. split; [reflexivity|reflexivity].
Qed.

(* token = optional sign, one or more digits; followed by a separator (white space and comments, possibly none)
   and a delimiter *)
Lemma read_integer_accepts (sign : option bool) ds its d r sev :
  in_delims DELIMS d = true -> digits_of ds -> ds <> [] -> forallb sep_ok its = true ->
  let v := digits_val ds 0 in
  let v' := match sign with Some true => - v | _ => v end in
  LONG_MIN <= v' <= LONG_MAX ->
  let sg := match sign with Some true => [45%N] | Some false => [43%N] | None => [] end in
  read_integer (of_bytes (sg ++ ds ++ sep_bytes its ++ d :: r)) sev (Some DELIMS)
  = (Some v', sev, mkS (d :: r) false false).
Proof.
  intros Hd0 Hds Hne Hits v v' Hr sg. subst v v' sg.
  destruct ds as [|c0 ds0] eqn:Eds; [congruence|]. rewrite <- Eds in *.
  assert (Hc0 : is_digit c0 = true) by (apply Hds; subst; left; reflexivity).
  destruct (sep_head_not_digit its d r Hits Hd0) as [d1 [r1 [Etail Hnd]]].
  assert (Hcheck : check_remaining (mkS (d1 :: r1) false false) sev (Some DELIMS) = (sev, mkS (d :: r) false false)).
  { apply (check_remaining_separator its d r); auto; cbn [rest]; symmetry; exact Etail. }
  rewrite Etail. clear Etail.
  assert (Htail : match d1 :: r1 with c :: _ => is_digit c = false | [] => True end) by exact Hnd.
  unfold read_integer.
  destruct sign as [[|]|]; cbn [app].
  - (* minus *)
    unfold s_ws, of_bytes, s_read_long, good.
    cbn -[take_digits LONG_MIN LONG_MAX Z.leb Z.opp check_remaining greater].
    rewrite (take_digits_app ds (d1 :: r1) 0 0 Hds Htail).
    destruct (0 + length ds)%nat eqn:El; [subst ds; cbn in El; discriminate|].
    match goal with |- context [(LONG_MIN <=? ?x) && (?x <=? LONG_MAX)] =>
      replace ((LONG_MIN <=? x) && (x <=? LONG_MAX)) with true
        by (symmetry; apply andb_true_intro; split; apply Z.leb_le; lia) end.
    rewrite Hcheck. reflexivity.
  - (* plus *)
    unfold s_ws, of_bytes, s_read_long, good.
    cbn -[take_digits LONG_MIN LONG_MAX Z.leb Z.opp check_remaining greater].
    rewrite (take_digits_app ds (d1 :: r1) 0 0 Hds Htail).
    destruct (0 + length ds)%nat eqn:El; [subst ds; cbn in El; discriminate|].
    match goal with |- context [(LONG_MIN <=? ?x) && (?x <=? LONG_MAX)] =>
      replace ((LONG_MIN <=? x) && (x <=? LONG_MAX)) with true
        by (symmetry; apply andb_true_intro; split; apply Z.leb_le; lia) end.
    rewrite Hcheck. reflexivity.
  - (* no sign *)
    cbn [app]. rewrite Eds. cbn [app].
    assert (Hsp : is_space c0 = false) by (apply digit_not_space; exact Hc0).
    unfold s_ws, of_bytes, good. cbn [eofb failb rest negb andb].
    rewrite (skip_ws_nonspace c0 _ Hsp). cbn [rest eofb failb].
    unfold s_read_long, good. cbn [eofb failb rest negb andb].
    rewrite (skip_ws_nonspace c0 _ Hsp).
    assert (Hn45 : N.eqb c0 45 = false).
    { unfold is_digit in Hc0. apply andb_prop in Hc0. destruct Hc0 as [H1 _]. apply N.leb_le in H1.
      apply N.eqb_neq. lia. }
    assert (Hn43 : N.eqb c0 43 = false).
    { unfold is_digit in Hc0. apply andb_prop in Hc0. destruct Hc0 as [H1 _]. apply N.leb_le in H1.
      apply N.eqb_neq. lia. }
    rewrite Hn45, Hn43. cbn [orb].
    change (c0 :: ds0 ++ d1 :: r1) with ((c0 :: ds0) ++ d1 :: r1). rewrite <- Eds.
    rewrite (take_digits_app ds (d1 :: r1) 0 0 Hds Htail).
    destruct (0 + length ds)%nat eqn:El; [subst ds; cbn in El; discriminate|].
    match goal with |- context [(LONG_MIN <=? ?x) && (?x <=? LONG_MAX)] =>
      replace ((LONG_MIN <=? x) && (x <=? LONG_MAX)) with true
        by (symmetry; apply andb_true_intro; split; apply Z.leb_le; lia) end.
    rewrite Hcheck. reflexivity.
Qed.

(* ------------------------------------------------------------------ *)
(* (D) WriteReal: whatever "%.15G" produced, the result has a decimal point, and
   an exponent is introduced by upper-case E                             *)

Lemma has_byte_app b l1 l2 : has_byte b (l1 ++ l2) = (has_byte b l1 || has_byte b l2)%bool.
Proof. unfold has_byte. apply existsb_app. Qed.

Lemma write_real_has_point rbuf : has_byte 46%N (write_real_text rbuf) = true.
Proof.
  unfold write_real_text. destruct (has_byte 46%N rbuf) eqn:E; [exact E|].
  destruct (has_byte 69%N rbuf || has_byte 101%N rbuf)%bool.
  - destruct (split_at _ rbuf) as [m e]. rewrite has_byte_app. cbn. apply orb_true_r.
  - rewrite has_byte_app. cbn. apply orb_true_r.
Qed.

Lemma split_at_no b l : has_byte b (fst (split_at b l)) = false.
Proof.
  induction l as [|c r IH]; cbn; [reflexivity|].
  destruct (N.eqb c b) eqn:E; [reflexivity|].
  destruct (split_at b r) as [x y]. cbn in *. rewrite IH.
  rewrite N.eqb_sym in E. unfold has_byte in *. cbn. rewrite E. reflexivity.
Qed.

Lemma split_at_join b l : has_byte b l = true ->
  l = fst (split_at b l) ++ b :: snd (split_at b l).
Proof.
  induction l as [|c r IH]; cbn; [discriminate|].
  rewrite N.eqb_sym. destruct (N.eqb c b) eqn:E.
  - apply N.eqb_eq in E. subst. reflexivity.
  - cbn. intros H. destruct (split_at b r) as [x y] eqn:S. cbn in *. f_equal. apply IH. exact H.
Qed.

(* the mantissa/exponent split loses nothing: only ".E" is inserted *)
Lemma write_real_only_inserts rbuf :
  has_byte 46%N rbuf = false -> has_byte 69%N rbuf = true ->
  exists m e, rbuf = m ++ 69%N :: e /\ write_real_text rbuf = m ++ [46%N; 69%N] ++ e /\ has_byte 69%N m = false.
Proof.
  intros Hp He. unfold write_real_text. rewrite Hp, He. cbn [orb].
  exists (fst (split_at 69%N rbuf)), (snd (split_at 69%N rbuf)).
  split; [apply split_at_join; exact He|]. split; [|apply split_at_no].
  destruct (split_at 69%N rbuf). reflexivity.
Qed.

Lemma write_real_plain rbuf :
  has_byte 46%N rbuf = false -> has_byte 69%N rbuf = false -> has_byte 101%N rbuf = false ->
  write_real_text rbuf = rbuf ++ [46%N].
Proof. intros H1 H2 H3. unfold write_real_text. rewrite H1, H2, H3. reflexivity. Qed.

Lemma write_real_keeps rbuf : has_byte 46%N rbuf = true -> write_real_text rbuf = rbuf.
Proof. intros H. unfold write_real_text. rewrite H. reflexivity. Qed.

(* ------------------------------------------------------------------ *)
(* (E) C05: the ReadReal scan buffer                                    *)
Lemma read_real_buffer_safe s : READREAL_BUF = 0 \/ read_real_buf_index s < READREAL_BUF.
Proof. left. reflexivity. Qed.

(* garbage after a value is skipped up to the next delimiter, but never beyond the semicolon that ends the instance:
   the stream is left at that semicolon and the error is not a recoverable one *)
Lemma semicolon_stops_recovery u r s sev :
  eofb s = false -> clean u -> u <> [] -> (forall c, In c u -> is_space c = false) -> rest s = u ++ 59%N :: r ->
  check_remaining s sev (Some DELIMS) = (greater sev SEVERITY_INPUT_ERROR, mkS (59%N :: r) false false).
Proof.
  intros He Hu Hne Hsp Hr. unfold check_remaining. rewrite He, Hr.
  pose proof (sep_scan_clean_prefix u 59%N r Hu eq_refl eq_refl eq_refl) as Hs. unfold byte in *. rewrite Hs. clear Hs.
  destruct u as [|c u']; [congruence|].
  assert (Hc : is_space c = false) by (apply Hsp; left; reflexivity).
  cbn [app skip_ws]. rewrite Hc.
  destruct (clean_head c u' Hu) as [H1 H2]. rewrite H1.
  assert (E : forall v, clean v -> skip_to_delim DELIMS (v ++ 59%N :: r) = SkSemi r).
  { induction v as [|x v IH]; intros Hv; cbn [app skip_to_delim].
    - reflexivity.
    - destruct (clean_head x v Hv) as [A B]. rewrite A, B. apply IH. eapply clean_tail; eauto. }
  specialize (E (c :: u') Hu). cbn [app] in E. unfold byte in *. rewrite E. reflexivity.
Qed.
