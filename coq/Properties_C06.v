(* C06 -- EXPRESS tools are memory-safe and terminate on any input: the part that is logic.
   Only statements closed by [exact]. *)
From Coq Require Import List ZArith Bool.
From SC Require Import gen.ExpBuffers ExpSafe ExpSafe_Proofs gen.ExprBound ExprBuf ExprBuf_Proofs gen.ErrArena ErrBuf ErrBufMem_Proofs.
Import ListNotations.
Local Open Scope Z_scope.

(* For every sequence of scope openings and closings the parser can be driven through - any
   length, any nesting depth, balanced or not - the scope-stack pointer never reaches
   MAX_SCOPE_DEPTH: deeper nesting stops the tool with a diagnostic instead.  (With the guard
   regenerated as absent this theorem does not type-check its proof: [unguarded_overflows].) *)
Theorem c06_scope_stack_in_bounds : forall es x, In x (sreach 0 es) -> x < MAX_SCOPE_DEPTH.
Proof. exact scope_stack_in_bounds. Qed.
Print Assumptions c06_scope_stack_in_bounds.

(* Both copies of a tail remark stay inside last_comment_[] for a remark of any length. *)
Theorem c06_remark_buffer_in_bounds : forall len, 0 <= len ->
  semicolon_extent len <= COMMENT_BUFFER /\ save_extent len <= COMMENT_BUFFER.
Proof. exact remark_copies_in_bounds. Qed.
Print Assumptions c06_remark_buffer_in_bounds.

Example c06_example :
  sreach 0 (repeat Push 25) = [0;1;2;3;4;5;6;7;8;9;10;11;12;13;14;15;16;17;18;19] /\
  snd (srun 0 (repeat Push 25)) = true /\ snd (srun 0 (repeat Push 19)) = false /\
  semicolon_extent 10000 = 256.
Proof. vm_compute. repeat split. Qed.

(* exppp's EXPRlength() prints an expression into a buffer of EXPRstring_bound( e ) + 1 bytes with
   sprintf / strcpy / strcat.  Whatever the expression - any nesting of queries, function calls,
   aggregate and ONEOF lists of any number of elements, operators, names of any length - every byte
   EXPRstring() stores, the terminator included, lies inside that buffer.  The lengths of the
   literal pieces and the terms of the bound are regenerated from pretty_expr.c (gen/ExprBound.v);
   [wf] says that a numeric or logical literal is no longer than its format allows (NUM_MAX). *)
Theorem c06_expression_text_fits_its_buffer : forall e, wf e = true -> (bytes_stored e <= buffer_size e)%nat.
Proof. exact expression_fits_its_buffer. Qed.
Print Assumptions c06_expression_text_fits_its_buffer.

Example c06_expression_example :
  let e := XFuncall 6%nat [XQuery 1%nat (XName 5%nat false) (XOp false (XOp true (XName 1%nat false) (Some (XName 1%nat false))) (Some (XNum 1%nat)));
                           XAggregate [(false, XNum 11%nat); (true, XNegate (XNum 22%nat)); (false, XOneof [XName 300%nat true; XBinary 64%nat])]] in
  wf e = true /\ (450 <=? written e)%nat = true /\ (bytes_stored e <=? buffer_size e)%nat = true.
Proof. vm_compute. repeat split. Qed.

(* The message buffer of -B: whatever diagnostics a file raises, every one that is buffered is formatted by writes that
   start inside the arena of ERROR_MAX_SPACE bytes (each write is bounded by what is left: vsnprintf) and its heap entry lies
   inside heap[ERROR_MAX_ERRORS + 1].  This does not depend on whether the length is measured first (that a message is also
   stored whole is C20's theorem); sizes and the conditions for printing the buffer are regenerated from error.c. *)
Theorem c06_message_buffer_in_bounds : forall ms, forallb msg_ok ms = true ->
  forall w, In w (snd (run init ms)) ->
  match w with
  | Direct => True
  | Stored a slot _ => 0 <= a <= EB_MAX_SPACE /\ 1 <= slot < EB_HEAP_SLOTS
  end.
Proof. exact buffer_writes_start_in_bounds. Qed.
Print Assumptions c06_message_buffer_in_bounds.
