(* Working-session save / load at population level (C16):
   STEPfile::WriteWorkingData, ReadData1/ReadData2 with _fileType = WORKING_SESSION
   (src/cleditor/STEPfile.cc).  A session is a list of nodes (editing state, id,
   values); references are parameters PRef.  No proofs here. *)
From Coq Require Import List ZArith Bool NArith.
From SC Require Import P21Lex P21Syntax Append WorkSessionDefs.
From SC.gen Require Import WsLetters.
Import ListNotations.
Local Open Scope Z_scope.

Record wnode := { w_state : wstate; w_inst : pinst }.

(* one line of the DATA section: state letter + instance *)
Definition save (s : list wnode) : list (N * pinst) :=
  flat_map (fun n => match ws_letter (w_state n) with
                     | Some c => [(c, w_inst n)]
                     | None => []                (* "no state information for this node" *)
                     end) s.

(* an unresolved reference is left unset - except inside an aggregate of aggregates, whose elements the
   reader keeps as text (GenericAggregate): there the name stays *)
Fixpoint scrub_param_at (live : Z -> bool) (depth : nat) (p : param) : param :=
  match p with
  | PRef n => if live n then PRef n else match depth with S (S _) => PRef n | _ => PNull end
  | PTyped k q => PTyped k (scrub_param_at live depth q)
  | PList l => PList (map (scrub_param_at live (S depth)) l)
  | _ => p
  end.
Definition scrub_param (live : Z -> bool) (p : param) : param := scrub_param_at live 0 p.
Definition scrub_inst (live : Z -> bool) (i : pinst) : pinst :=
  {| p_id := p_id i; p_body := map (fun kp => (fst kp, map (scrub_param live) (snd kp))) (p_body i) |}.

Definition is_delete (s : wstate) : bool := match s with WDelete => true | _ => false end.

(* pass 1 creates every instance whose state is not "delete"; pass 2 fills the
   values; references to instances that were not created stay unset *)
Definition restore (l : list (wstate * pinst)) : list wnode :=
  let kept := filter (fun x => negb (is_delete (fst x))) l in
  let live := fun id => existsb (fun x => Z.eqb (p_id (snd x)) id) kept in
  map (fun x => {| w_state := fst x; w_inst := scrub_inst live (snd x) |}) kept.

Definition load (f : list (N * pinst)) : list wnode :=
  restore (map (fun ci => (ws_state (fst ci), snd ci)) f).

(* the population a working session denotes: deleted instances left out *)
Definition view (s : list wnode) : list (wstate * pinst) := map (fun n => (w_state n, w_inst n)) s.
Definition surviving (s : list wnode) : list wnode := restore (view s).

Definition has_state (n : wnode) : bool := match w_state n with WNoState => false | _ => true end.
