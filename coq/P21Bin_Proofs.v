From Coq Require Import List ZArith Bool NArith Lia.
From SC.gen Require Import SevTable.
From SC Require Import P21Lex P21Bin.
Import ListNotations.
Local Open Scope Z_scope.

Lemma hex_loop_digits rest : forall ds fuel c acc,
  (length ds + 2 <= fuel)%nat -> is_xdigit c = true -> forallb is_xdigit ds = true ->
  hex_loop fuel (mkS (ds ++ DQUOTE :: rest) false false) c acc =
  (mkS rest false false, DQUOTE, acc ++ map up_hex (c :: ds)).
Proof.
  induction ds as [|d ds IH]; intros fuel c acc Hf Hc Hd.
  - destruct fuel as [|[|f]]; cbn [length] in Hf; try lia.
    cbn [hex_loop app]. change (good (mkS (DQUOTE :: rest) false false)) with true. rewrite Hc. cbn [andb].
    unfold s_get. change (good (mkS (DQUOTE :: rest) false false)) with true. cbv iota. cbn [P21Lex.rest eofb failb].
    cbn [hex_loop]. change (is_xdigit DQUOTE) with false. rewrite andb_false_r. reflexivity.
  - cbn [forallb] in Hd. apply andb_prop in Hd. destruct Hd as [Hd0 Hds].
    destruct fuel as [|f]; [cbn [length] in Hf; lia|].
    cbn [hex_loop app]. change (good (mkS (d :: ds ++ DQUOTE :: rest) false false)) with true. rewrite Hc. cbn [andb].
    unfold s_get. change (good (mkS (d :: ds ++ DQUOTE :: rest) false false)) with true. cbv iota. cbn [P21Lex.rest eofb failb].
    rewrite IH; [| cbn [length] in Hf; lia | exact Hd0 | exact Hds].
    rewrite <- app_assoc. reflexivity.
Qed.

(* a well-formed BINARY literal -- a quote, one or more hexadecimal digits, a quote -- is read to
   exactly its digits without an error, and nothing after the closing quote is consumed *)
Theorem binary_literal_read ds rest :
  ds <> [] -> forallb is_xdigit ds = true ->
  read_binary (of_bytes (DQUOTE :: ds ++ DQUOTE :: rest)) SEVERITY_NULL true =
  (Some (map up_hex ds), SEVERITY_NULL, mkS rest false false).
Proof.
  intros Hne Hd. destruct ds as [|d ds]; [congruence|].
  cbn [forallb] in Hd. apply andb_prop in Hd. destruct Hd as [Hd0 Hds].
  unfold read_binary, of_bytes.
  assert (W : s_ws (mkS (DQUOTE :: (d :: ds) ++ DQUOTE :: rest) false false) = mkS (DQUOTE :: (d :: ds) ++ DQUOTE :: rest) false false) by reflexivity.
  rewrite W. change (good (mkS (DQUOTE :: (d :: ds) ++ DQUOTE :: rest) false false)) with true. cbv iota.
  unfold s_get at 1. change (good (mkS (DQUOTE :: (d :: ds) ++ DQUOTE :: rest) false false)) with true. cbv iota. cbn [P21Lex.rest eofb failb].
  change (N.eqb DQUOTE DQUOTE) with true. cbn [orb]. cbv iota.
  cbn [app]. unfold s_get at 1. change (good (mkS (d :: ds ++ DQUOTE :: rest) false false)) with true. cbv iota. cbn [P21Lex.rest eofb failb].
  rewrite (hex_loop_digits rest ds _ d []); [| cbn [P21Lex.rest]; rewrite ?app_length; cbn [length]; lia | exact Hd0 | exact Hds].
  change (N.eqb DQUOTE DQUOTE) with true. cbn [negb andb app].
  rewrite andb_false_r. reflexivity.
Qed.

(* without the opening quote the value is never accepted silently (needDelims = 1, as STEPread calls it) *)
Theorem unquoted_binary_flagged ds rest c :
  ds <> [] -> forallb is_xdigit ds = true -> is_xdigit c = false -> N.eqb c DQUOTE = false ->
  snd (fst (read_binary (of_bytes (ds ++ c :: rest)) SEVERITY_NULL true)) = SEVERITY_WARNING.
Proof.
  intros Hne Hd Hc Hq. destruct ds as [|d ds]; [congruence|].
  cbn [forallb] in Hd. apply andb_prop in Hd. destruct Hd as [Hd0 Hds].
  unfold read_binary, of_bytes. cbn [app].
  assert (Sp : is_space d = false).
  { unfold is_xdigit, is_digit in Hd0. unfold is_space.
    destruct (N.eqb_spec d 32); [subst; discriminate|]. destruct (N.eqb_spec d 9); [subst; discriminate|].
    destruct (N.eqb_spec d 10); [subst; discriminate|]. destruct (N.eqb_spec d 11); [subst; discriminate|].
    destruct (N.eqb_spec d 12); [subst; discriminate|]. destruct (N.eqb_spec d 13); [subst; discriminate|]. reflexivity. }
  assert (W : s_ws (mkS (d :: ds ++ c :: rest) false false) = mkS (d :: ds ++ c :: rest) false false).
  { unfold s_ws. change (good (mkS (d :: ds ++ c :: rest) false false)) with true. cbv iota. cbn [P21Lex.rest skip_ws]. rewrite Sp. reflexivity. }
  rewrite W. change (good (mkS (d :: ds ++ c :: rest) false false)) with true. cbv iota.
  unfold s_get at 1. change (good (mkS (d :: ds ++ c :: rest) false false)) with true. cbv iota. cbn [P21Lex.rest eofb failb].
  assert (Dq : N.eqb d DQUOTE = false).
  { destruct (N.eqb_spec d DQUOTE); [subst; discriminate|reflexivity]. }
  rewrite Dq, Hd0. cbn [orb]. cbv iota.
  (* the loop stops at c, which is not a quote: valid = false *)
  assert (L : forall ds0 fuel c0 acc, (length ds0 + 2 <= fuel)%nat -> is_xdigit c0 = true -> forallb is_xdigit ds0 = true ->
              hex_loop fuel (mkS (ds0 ++ c :: rest) false false) c0 acc = (mkS rest false false, c, acc ++ map up_hex (c0 :: ds0))).
  { induction ds0 as [|x ds0 IH]; intros fuel c0 acc Hf H0 Hs.
    - destruct fuel as [|[|f]]; cbn [length] in Hf; try lia.
      cbn [hex_loop app]. change (good (mkS (c :: rest) false false)) with true. rewrite H0. cbn [andb].
      unfold s_get. change (good (mkS (c :: rest) false false)) with true. cbv iota. cbn [P21Lex.rest eofb failb].
      cbn [hex_loop]. rewrite Hc, andb_false_r. reflexivity.
    - cbn [forallb] in Hs. apply andb_prop in Hs. destruct Hs as [Hx Hs].
      destruct fuel as [|f]; [cbn [length] in Hf; lia|].
      cbn [hex_loop app]. change (good (mkS (x :: ds0 ++ c :: rest) false false)) with true. rewrite H0. cbn [andb].
      unfold s_get. change (good (mkS (x :: ds0 ++ c :: rest) false false)) with true. cbv iota. cbn [P21Lex.rest eofb failb].
      rewrite IH; [| cbn [length] in Hf; lia | exact Hx | exact Hs]. rewrite <- app_assoc. reflexivity. }
  rewrite (L ds _ d []); [| cbn [P21Lex.rest]; rewrite ?app_length; cbn [length]; lia | exact Hd0 | exact Hds].
  rewrite Hq. cbn [negb andb snd fst]. reflexivity.
Qed.

(* two quotes with nothing between them are neither a BINARY nor an unset attribute: flagged, nothing assigned *)
Theorem empty_binary_flagged rest c :
  is_xdigit c = false -> N.eqb c DQUOTE = false ->
  fst (read_binary (of_bytes (DQUOTE :: DQUOTE :: c :: rest)) SEVERITY_NULL true) = (None, SEVERITY_WARNING).
Proof.
  intros Hc Hq. unfold read_binary, of_bytes.
  assert (W : s_ws (mkS (DQUOTE :: DQUOTE :: c :: rest) false false) = mkS (DQUOTE :: DQUOTE :: c :: rest) false false) by reflexivity.
  rewrite W. change (good (mkS (DQUOTE :: DQUOTE :: c :: rest) false false)) with true. cbv iota.
  unfold s_get at 1. change (good (mkS (DQUOTE :: DQUOTE :: c :: rest) false false)) with true. cbv iota. cbn [P21Lex.rest eofb failb].
  change (N.eqb DQUOTE DQUOTE) with true. cbn [orb]. cbv iota.
  unfold s_get at 1. change (good (mkS (DQUOTE :: c :: rest) false false)) with true. cbv iota. cbn [P21Lex.rest eofb failb].
  cbn [hex_loop length]. change (good (mkS (c :: rest) false false)) with true.
  change (is_xdigit DQUOTE) with false. cbn [andb]. cbv iota.
  change (N.eqb DQUOTE DQUOTE) with true. cbn [negb andb]. reflexivity.
Qed.
