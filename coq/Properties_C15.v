(* C15 -- strict and lenient handling of missing required attributes.
   [null_precheck], [lenient_filler] and the severities are REGENERATED from
   STEPattribute::STEPread on every run (coq/gen/NullTable.v); the documented
   behaviour is written out below and proved equal to it over the whole finite
   domain (strict x optional x 11 attribute kinds).  The file-level verdict is
   proved for arbitrary populations via the bookkeeping model. *)
From Coq Require Import List ZArith Bool.
From SC.gen Require Import SevTable NullTable.
From SC Require Import FileSev FileSev_Proofs.
Import ListNotations.
Local Open Scope Z_scope.

(* the documented table *)
Definition documented (strict optional : bool) (k : akind) : Z * filler :=
  if optional then (SEVERITY_NULL, FNone)
  else if strict then (SEVERITY_INCOMPLETE, FNone)
  else match k with
       | KInteger => (SEVERITY_USERMSG, FInt0)
       | KReal => (SEVERITY_USERMSG, FReal0)
       | KNumber => (SEVERITY_USERMSG, FInt0)
       | KString => (SEVERITY_USERMSG, FEmptyStr)
       | _ => (SEVERITY_INCOMPLETE, FNone)
       end.

Theorem c15_table : forall strict optional k, null_precheck strict optional k = documented strict optional k.
Proof. intros [|] [|] []; reflexivity. Qed.
Print Assumptions c15_table.

Definition exit_status (file_sev : Z) : Z := if file_sev <=? P21READ_FAIL_AT then 1 else 0.

(* accepted exactly in the lenient-substitution cases: an instance whose only
   defect is such an attribute has severity USERMSG, and a population of clean
   and USERMSG instances (simple or complex, any position) is accepted: exit 0 *)
Theorem c15_lenient_population_accepted : forall os,
  Forall fine os ->
  exit_status (snd (append_file COMPLEX_APPENDS SEVERITY_NULL os true)) = 0.
Proof.
  intros os H. destruct (all_fine_accepted os H) as [Hs _]. unfold exit_status, P21READ_FAIL_AT.
  change COMPLEX_APPENDS with true.
  destruct (Z.leb_spec (snd (append_file true SEVERITY_NULL os true)) SEVERITY_INCOMPLETE) as [Hl|Hl]; [|reflexivity].
  unfold SEVERITY_INCOMPLETE, SEVERITY_USERMSG in *. Lia.lia.
Qed.
Print Assumptions c15_lenient_population_accepted.

(* rejected in every other case: INCOMPLETE (strict mode, or a kind without a
   filler) on any instance fails the read *)
Theorem c15_incomplete_rejected : forall os end_ok,
  (exists o, In o os /\ (o = Simple SEVERITY_INCOMPLETE \/ o = Complex SEVERITY_INCOMPLETE)) ->
  exit_status (snd (append_file COMPLEX_APPENDS SEVERITY_NULL os end_ok)) = 1.
Proof.
  intros os end_ok [o [Hin Ho]].
  assert (Hb : exists o, In o os /\ bad o).
  { exists o. split; [exact Hin|]. destruct Ho as [-> | ->]; cbn; Lia.lia. }
  pose proof (bad_outcome_rejected COMPLEX_APPENDS SEVERITY_NULL os end_ok Hb) as H.
  unfold exit_status, P21READ_FAIL_AT.
  destruct (Z.leb_spec (snd (append_file COMPLEX_APPENDS SEVERITY_NULL os end_ok)) SEVERITY_INCOMPLETE); [reflexivity|Lia.lia].
Qed.
Print Assumptions c15_incomplete_rejected.

(* the instance severity of "one lenient substitution, everything else clean" *)
Theorem c15_instance_usermsg : forall pre post,
  (forall s, In s pre -> s = SEVERITY_NULL) -> (forall s, In s post -> s = SEVERITY_NULL) ->
  inst_sev (pre ++ SEVERITY_USERMSG :: post) = SEVERITY_USERMSG.
Proof.
  intros pre post Hpre Hpost. unfold inst_sev. rewrite fold_left_app. cbn [fold_left].
  fold (inst_sev pre). rewrite (inst_sev_clean pre Hpre).
  vm_compute (if SEVERITY_USERMSG <=? SEVERITY_USERMSG then greater SEVERITY_NULL SEVERITY_USERMSG else SEVERITY_NULL).
  induction post as [|x r IH]; [reflexivity|]. cbn [fold_left].
  rewrite (Hpost x (or_introl eq_refl)). vm_compute (if SEVERITY_NULL <=? SEVERITY_USERMSG then greater 2 SEVERITY_NULL else 2).
  apply IH. intros s Hs. apply Hpost. right. exact Hs.
Qed.
Print Assumptions c15_instance_usermsg.

Example c15_example :
  null_precheck false false KInteger = (SEVERITY_USERMSG, FInt0) /\
  null_precheck true false KString = (SEVERITY_INCOMPLETE, FNone) /\
  null_precheck false false KEnum = (SEVERITY_INCOMPLETE, FNone) /\
  null_precheck true true KAggregate = (SEVERITY_NULL, FNone) /\
  snd (append_file COMPLEX_APPENDS SEVERITY_NULL [Simple SEVERITY_NULL; Complex SEVERITY_USERMSG] true) = SEVERITY_USERMSG.
Proof. vm_compute. repeat split. Qed.
