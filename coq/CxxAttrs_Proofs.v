From Coq Require Import List NArith Bool.
From SC Require Import PyGen PyGen_Proofs CxxAttrs.
Import ListNotations.

Lemma populate_vs_p21 G fuel : forall i, dedup (filter is_explicit (populate fuel G i)) = p21_all fuel G i.
Proof.
  induction fuel as [|f IH]; intros i; [reflexivity|].
  cbn [populate p21_all]. destruct (lookup G i) as [e|]; [|reflexivity].
  rewrite filter_app, filter_flat_map.
  rewrite (flat_map_ext (p21_all f G) (fun s => dedup (filter is_explicit (populate f G s)))) by (intros; symmetry; apply IH).
  unfold dedup at 2. rewrite (dedup_flat_absorb (fun s => filter is_explicit (populate f G s))). reflexivity.
Qed.

(* for EVERY inheritance graph (chains, diamonds, any number of supertypes, any depth): the
   attribute order of the generated class is ISO 10303-21's inherited-then-own order with an
   ancestor reached along several paths contributing once, where first met *)
Theorem cxx_order_is_p21 G fuel e : cxx_order fuel G e = p21_ctor fuel G e.
Proof.
  unfold cxx_order, p21_ctor. rewrite filter_app, filter_flat_map.
  rewrite (flat_map_ext (p21_all fuel G) (fun s => dedup (filter is_explicit (populate fuel G s)))) by (intros; symmetry; apply populate_vs_p21).
  unfold dedup at 2. rewrite (dedup_flat_absorb (fun s => filter is_explicit (populate fuel G s))). reflexivity.
Qed.

(* on the diamond where the Python generator repeats the shared ancestor, the C++ order does not *)
Example cxx_diamond : cxx_order 5 G_diamond (mk 4 [2; 3]%N 1) = p21_ctor 5 G_diamond (mk 4 [2; 3]%N 1) /\
                      length (cxx_order 5 G_diamond (mk 4 [2; 3]%N 1)) = 4%nat.
Proof. vm_compute. split; reflexivity. Qed.
