(* Model of InstMgr (src/clstepcore/instmgr.cc, include/clstepcore/instmgr.h),
   MgrNodeArray::Remove/Append (src/clstepcore/mgrnodearray.cc) and the part of
   MgrNode they use.  No proofs in this file: it is extracted to OCaml for the
   correspondence check.

   Instances (SDAI_Application_instance objects) live in a store indexed by a
   handle (nat).  A MgrNode is identified with the instance it wraps (the C++
   creates exactly one node per successful Append and destroys the instance
   together with the node, MgrNode::~MgrNode).                                  *)
From Coq Require Import List ZArith Bool NArith.
Import ListNotations.
Local Open Scope Z_scope.

Inductive st := Complete | Incomplete | Delete_ | New_ | NoState.

Record inst := { i_id : Z; i_name : N; i_alive : bool }.

(* a MgrNode: wrapped instance handle, currState, arrayIndex *)
Record mnode := { n_inst : nat; n_state : st; n_idx : Z }.

Record mgr := {
  insts  : list inst;           (* object store; handle = position *)
  master : list mnode;          (* MgrNodeArray, _buf[0.._count-1] *)
  sorted : list (Z * nat);      (* std::map<int,MgrNode*>; node named by its instance *)
  maxid  : Z                    (* maxFileId *)
}.

Definition init : mgr := {| insts := []; master := []; sorted := []; maxid := -1 |}.

Fixpoint upd {A} (l : list A) (k : nat) (f : A -> A) : list A :=
  match l, k with
  | [], _ => []
  | x :: r, O => f x :: r
  | x :: r, S k' => x :: upd r k' f
  end.

(* std::map operations on an association list with unique keys *)
Fixpoint m_find (k : Z) (m : list (Z * nat)) : option nat :=
  match m with
  | [] => None
  | (k', v) :: r => if Z.eqb k k' then Some v else m_find k r
  end.
Fixpoint m_erase (k : Z) (m : list (Z * nat)) : list (Z * nat) :=
  match m with
  | [] => []
  | (k', v) :: r => if Z.eqb k k' then m_erase k r else (k', v) :: m_erase k r
  end.
Definition m_set (k : Z) (v : nat) (m : list (Z * nat)) := (k, v) :: m_erase k m.

Definition inst_id (s : mgr) (h : nat) : Z :=
  match nth_error (insts s) h with Some i => i_id i | None => -1 end.
Definition inst_alive (s : mgr) (h : nat) : bool :=
  match nth_error (insts s) h with Some i => i_alive i | None => false end.
Definition set_id (s : mgr) (h : nat) (id : Z) : mgr :=
  {| insts := upd (insts s) h (fun i => {| i_id := id; i_name := i_name i; i_alive := i_alive i |});
     master := master s; sorted := sorted s; maxid := maxid s |}.
Definition kill (l : list inst) (h : nat) : list inst :=
  upd l h (fun i => {| i_id := i_id i; i_name := i_name i; i_alive := false |}).

(* int NextFileId() -- include/clstepcore/instmgr.h *)
Definition next_file_id (mx : Z) : Z := if mx <? 0 then 1 else mx + 1.

Fixpoint in_master (h : nat) (m : list mnode) : bool :=
  match m with [] => false | n :: r => Nat.eqb (n_inst n) h || in_master h r end.

Inductive op :=
| OCreate (id : Z) (name : N)      (* new instance object, STEPfile_id = id (0 = unset) *)
| OAppend (h : nat) (s : st)       (* InstMgr::Append(se, s) *)
| ODeleteIdx (i : nat)             (* InstMgr::Delete(GetMgrNode(i)) *)
| ODeleteInst (h : nat)            (* InstMgr::Delete(se) *)
| OChangeState (i : nat) (s : st)  (* InstMgr::ChangeState(GetMgrNode(i), s) *)
| OClear                           (* ClearInstances *)
| ODeleteAll                       (* DeleteInstances *)
| ONextId.                         (* NextFileId() called by the user *)

Inductive res := Ok (s : mgr) | Skip | Crash.

(* InstMgr::Append *)
Definition append (s : mgr) (h : nat) (state : st) : mgr :=
  let s1 := if Z.eqb (inst_id s h) 0
            then let nx := next_file_id (maxid s) in
                 {| insts := insts (set_id s h nx); master := master s; sorted := sorted s; maxid := nx |}
            else s in
  let found := m_find (inst_id s1 h) (sorted s1) in
  match found with
  | Some h' =>
      if Nat.eqb h' h then s1   (* already in list: return 0 *)
      else
        let nx := next_file_id (maxid s1) in
        let s2 := {| insts := insts (set_id s1 h nx); master := master s1; sorted := sorted s1; maxid := nx |} in
        let id := inst_id s2 h in
        {| insts := insts s2;
           master := master s2 ++ [ {| n_inst := h; n_state := state; n_idx := Z.of_nat (length (master s2)) |} ];
           sorted := m_set id h (sorted s2);
           maxid := if maxid s2 <? id then id else maxid s2 |}
  | None =>
      let id := inst_id s1 h in
      {| insts := insts s1;
         master := master s1 ++ [ {| n_inst := h; n_state := state; n_idx := Z.of_nat (length (master s1)) |} ];
         sorted := m_set id h (sorted s1);
         maxid := if maxid s1 <? id then id else maxid s1 |}
  end.

(* MgrNodeArray::Remove(index): GenNodeArray::Remove + renumber from index on *)
Fixpoint renumber (m : list mnode) (from : Z) : list mnode :=
  match m with
  | [] => []
  | n :: r => {| n_inst := n_inst n; n_state := n_state n; n_idx := from |} :: renumber r (from + 1)
  end.
Definition arr_remove (m : list mnode) (index : Z) : list mnode :=
  if (0 <=? index) && (index <? Z.of_nat (length m)) then
    let k := Z.to_nat index in
    firstn k m ++ renumber (skipn (S k) m) index
  else m.

(* InstMgr::Delete(MgrNode ptr) for the node at master position i *)
Definition delete_node (s : mgr) (n : mnode) : mgr :=
  {| insts := kill (insts s) (n_inst n);                 (* delete node => delete se *)
     master := arr_remove (master s) (n_idx n);
     sorted := m_erase (inst_id s (n_inst n)) (sorted s);
     maxid := maxid s |}.

Fixpoint find_node (h : nat) (m : list mnode) : option mnode :=
  match m with
  | [] => None
  | n :: r => if Nat.eqb (n_inst n) h then Some n else find_node h r
  end.

Definition step (s : mgr) (o : op) : res :=
  match o with
  | OCreate id name =>
      Ok {| insts := insts s ++ [ {| i_id := id; i_name := name; i_alive := true |} ];
            master := master s; sorted := sorted s; maxid := maxid s |}
  | OAppend h state =>
      if inst_alive s h then Ok (append s h state) else Skip
  | ODeleteIdx i =>
      match nth_error (master s) i with
      | Some n => Ok (delete_node s n)
      | None => Skip
      end
  | ODeleteInst h =>
      if inst_alive s h then
        if in_master h (master s) then
          match m_find (inst_id s h) (sorted s) with
          | Some h' => match find_node h' (master s) with
                       | Some n => Ok (delete_node s n)
                       | None => Crash
                       end
          | None => Crash              (* Delete(null node) *)
          end
        else Ok s                      (* an instance this manager does not hold: nothing is deleted (whoever carries its id stays) *)
      else Skip
  | OChangeState i state =>
      match nth_error (master s) i with
      | Some _ =>
          match state with
          | NoState => Ok s          (* "can't change this node state": node->Remove() only *)
          | _ => Ok {| insts := insts s;
                       master := upd (master s) i (fun n => {| n_inst := n_inst n; n_state := state; n_idx := n_idx n |});
                       sorted := sorted s; maxid := maxid s |}
          end
      | None => Skip
      end
  | OClear => Ok {| insts := insts s; master := []; sorted := []; maxid := -1 |}
  | ODeleteAll =>
      Ok {| insts := fold_left (fun l n => kill l (n_inst n)) (master s) (insts s);
            master := []; sorted := []; maxid := -1 |}
  | ONextId => Ok {| insts := insts s; master := master s; sorted := sorted s;
                     maxid := next_file_id (maxid s) |}
  end.

(* InstMgr::~InstMgr: an owning manager deletes the registered instances *)
Definition final_alive (owns : bool) (s : mgr) : list bool :=
  map i_alive (if owns then fold_left (fun l n => kill l (n_inst n)) (master s) (insts s) else insts s).

Definition step' (s : mgr) (o : op) : mgr :=
  match step s o with Ok s' => s' | _ => s end.

Definition run (ops : list op) : mgr := fold_left step' ops init.

(* ---- public queries (what the harness prints after every operation) ---- *)
Definition q_count (s : mgr) : Z := Z.of_nat (length (master s)).
Definition q_inst_at (s : mgr) (i : nat) : option nat := option_map n_inst (nth_error (master s) i).
Definition q_index_at (s : mgr) (i : nat) : option Z := option_map n_idx (nth_error (master s) i).
Definition q_state_at (s : mgr) (i : nat) : option st := option_map n_state (nth_error (master s) i).
Definition q_find (s : mgr) (id : Z) : option nat := m_find id (sorted s).
Definition inst_name (s : mgr) (h : nat) : N :=
  match nth_error (insts s) h with Some i => i_name i | None => 0%N end.
Definition q_kwcount (s : mgr) (name : N) : Z :=
  Z.of_nat (length (filter (fun n => N.eqb (inst_name s (n_inst n)) name) (master s))).
Fixpoint first_match (s : mgr) (name : N) (m : list mnode) : option nat :=
  match m with
  | [] => None
  | n :: r => if N.eqb (inst_name s (n_inst n)) name then Some (n_inst n) else first_match s name r
  end.
Definition q_by_name (s : mgr) (name : N) (start : nat) : option nat :=
  first_match s name (skipn start (master s)).
