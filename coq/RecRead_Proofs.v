(* C03: whatever attributes of a class are redefining ones, a record with too few or too many
   parameters is reported and one with the right number of good values is not. *)
From Coq Require Import List ZArith Bool Lia.
From SC.gen Require Import SevTable.
From SC Require Import P21Lex_Proofs FileSev FileSev_Proofs RecRead.
Import ListNotations.
Local Open Scope Z_scope.

Lemma merge_null acc : merge acc SEVERITY_NULL = acc.
Proof. reflexivity. Qed.

Lemma no_explicit_all_redefining attrs : explicit_count attrs = 0%nat -> forallb (fun b => b) attrs = true.
Proof.
  induction attrs as [|b r IH]; intros H; [reflexivity|].
  destruct b; cbn [explicit_count filter negb length forallb andb] in *; [apply IH; exact H|discriminate].
Qed.

Lemma some_explicit_not_all_redefining attrs : (0 < explicit_count attrs)%nat -> forallb (fun b => b) attrs = false.
Proof.
  induction attrs as [|b r IH]; intros H; [cbn in H; lia|].
  destruct b; cbn [explicit_count filter negb length forallb andb] in *; [apply IH; exact H|reflexivity].
Qed.

Lemma params_cons2 s s2 r : params (s :: s2 :: r) = RV s :: RComma :: params (s2 :: r).
Proof. reflexivity. Qed.

Section Counts.
  Variable empty_sev : nat -> Z.
  Let NULLS (sevs : list Z) := Forall (fun s => s = SEVERITY_NULL) sevs.

  Lemma attr_loop_redef rest idx s r acc :
    attr_loop empty_sev (true :: rest) idx (params (s :: r)) acc = attr_loop empty_sev rest (S idx) (params (s :: r)) acc.
  Proof. destruct r; reflexivity. Qed.

  Lemma loop_exact attrs : forall idx sevs acc, sevs <> [] -> NULLS sevs -> length sevs = explicit_count attrs ->
    attr_loop empty_sev attrs idx (params sevs) acc = acc.
  Proof.
    induction attrs as [|b rest IH]; intros idx sevs acc Hne Hn Hl.
    - destruct sevs; [congruence|discriminate].
    - destruct b.
      + cbn [explicit_count filter negb] in Hl.
        destruct sevs as [|s r]; [congruence|]. rewrite attr_loop_redef. apply IH; assumption.
      + cbn [explicit_count filter negb length] in Hl.
        destruct sevs as [|s [|s2 r]]; [congruence| |].
        * inversion Hn as [|? ? Hs _]; subst s. cbn [attr_loop params]. rewrite merge_null.
          cbn [length] in Hl. unfold after_close. rewrite no_explicit_all_redefining; [reflexivity|].
          unfold explicit_count. lia.
        * inversion Hn as [|? ? Hs Hr]; subst s. rewrite params_cons2. cbn [attr_loop]. rewrite merge_null.
          apply IH; [discriminate|exact Hr|]. cbn [length] in Hl |- *. unfold explicit_count. lia.
  Qed.

  Lemma loop_few attrs : forall idx sevs acc, sevs <> [] -> NULLS sevs -> (length sevs < explicit_count attrs)%nat ->
    attr_loop empty_sev attrs idx (params sevs) acc = greater acc SEVERITY_WARNING.
  Proof.
    induction attrs as [|b rest IH]; intros idx sevs acc Hne Hn Hl.
    - cbn in Hl. lia.
    - destruct b.
      + cbn [explicit_count filter negb] in Hl.
        destruct sevs as [|s r]; [congruence|]. rewrite attr_loop_redef. apply IH; assumption.
      + cbn [explicit_count filter negb length] in Hl.
        destruct sevs as [|s [|s2 r]]; [congruence| |].
        * inversion Hn as [|? ? Hs _]; subst s. cbn [attr_loop params]. rewrite merge_null.
          unfold after_close. rewrite some_explicit_not_all_redefining; [reflexivity|].
          cbn [length] in Hl. unfold explicit_count. lia.
        * inversion Hn as [|? ? Hs Hr]; subst s. rewrite params_cons2. cbn [attr_loop]. rewrite merge_null.
          apply IH; [discriminate|exact Hr|]. cbn [length] in Hl |- *. unfold explicit_count. lia.
  Qed.

  Lemma loop_many attrs : forall idx sevs acc, NULLS sevs -> (explicit_count attrs < length sevs)%nat ->
    attr_loop empty_sev attrs idx (params sevs) acc = greater acc SEVERITY_INPUT_ERROR.
  Proof.
    induction attrs as [|b rest IH]; intros idx sevs acc Hn Hl.
    - reflexivity.
    - destruct b.
      + cbn [explicit_count filter negb] in Hl.
        destruct sevs as [|s r]; [cbn in Hl; lia|]. rewrite attr_loop_redef. apply IH; assumption.
      + cbn [explicit_count filter negb length] in Hl.
        destruct sevs as [|s [|s2 r]]; [cbn in Hl; lia| |].
        * cbn [length] in Hl. lia.
        * inversion Hn as [|? ? Hs Hr]; subst s. rewrite params_cons2. cbn [attr_loop]. rewrite merge_null.
          apply IH; [exact Hr|]. cbn [length] in Hl |- *. unfold explicit_count. lia.
  Qed.

  Lemma record_sev_values b rest s r :
    record_sev empty_sev (b :: rest) (params (s :: r)) = attr_loop empty_sev (b :: rest) 0 (params (s :: r)) SEVERITY_NULL.
  Proof. destruct r; reflexivity. Qed.

  (* the record as a whole, for any placement of redefining attributes *)
  Theorem right_count_clean attrs sevs : NULLS sevs -> length sevs = explicit_count attrs ->
    record_sev empty_sev attrs (params sevs) = SEVERITY_NULL.
  Proof.
    intros Hn Hl. destruct attrs as [|b rest].
    - destruct sevs; [reflexivity|discriminate].
    - destruct sevs as [|s r].
      + unfold record_sev. cbn [params]. rewrite no_explicit_all_redefining; [reflexivity|]. cbn [length] in Hl. lia.
      + rewrite record_sev_values. apply loop_exact; [discriminate|exact Hn|exact Hl].
  Qed.

  Theorem wrong_count_reported attrs sevs : NULLS sevs -> length sevs <> explicit_count attrs ->
    record_sev empty_sev attrs (params sevs) <= SEVERITY_WARNING.
  Proof.
    intros Hn Hl. destruct attrs as [|b rest].
    - unfold record_sev. destruct sevs as [|s r]; [cbn in Hl; congruence|]. destruct r; cbn [params]; unfold SEVERITY_INPUT_ERROR, SEVERITY_WARNING; lia.
    - destruct sevs as [|s r].
      + unfold record_sev. cbn [params]. rewrite some_explicit_not_all_redefining; [unfold SEVERITY_WARNING; lia|]. cbn [length] in Hl. lia.
      + rewrite record_sev_values.
        destruct (Nat.lt_ge_cases (length (s :: r)) (explicit_count (b :: rest))) as [Hlt|Hge].
        * rewrite loop_few; [|discriminate|exact Hn|exact Hlt]. apply greater_le_r.
        * rewrite loop_many; [|exact Hn|lia]. pose proof (greater_le_r SEVERITY_NULL SEVERITY_INPUT_ERROR).
          unfold SEVERITY_INPUT_ERROR, SEVERITY_WARNING in *. lia.
  Qed.
End Counts.
