(* C10: the first pass of the lazy loader over a DATA section - which instances it finds, under
   which name and keyword, and which instance names each one mentions.
     src/cllazyfile/sectionReader.cc   skipWS, skipWSandComments, findNormalString("*/"),
                                       readInstanceNumber, getDelimitedKeyword, seekInstanceEnd
     src/cllazyfile/lazyP21DataSectionReader.cc   nextInstance and the loop of the constructor
   The input is the text that follows "DATA;".  Everything the index, the forward and the
   reverse reference tables (coq/Lazy.v) are built from comes out of this scan.
   No proofs here; extracted for the correspondence check. *)
From Coq Require Import List ZArith Bool NArith.
From SC.gen Require Import ScanRule.
From SC Require Import P21Lex P21Str.
From SC Require Export P21Sep.
Import ListNotations.
Local Open Scope N_scope.

(* 2^64 - 1 : std::numeric_limits<instanceID>::max() *)
Definition ID_MAX : N := 18446744073709551615.

(* skipWSandComments(); None: a comment that never ends (the stream is at its end, not good) *)
Fixpoint skip_sep (fuel : nat) (l : list byte) : option (list byte) :=
  match fuel with
  | O => None
  | S f =>
    let l1 := skip_ws l in
    match l1 with
    | a :: b :: r =>
      if (a =? SLASH) && (b =? STAR) then
        match comment_end r with
        | Some r' => skip_sep f r'
        | None => None
        end
      else Some l1
    | _ => Some l1
    end
  end.

(* the digit loop of readInstanceNumber / operator>> : value, number of digits, rest *)
Fixpoint digits_loop (l : list byte) (acc : N) (cnt : nat) : N * nat * list byte :=
  match l with
  | c :: r => if is_digit c then digits_loop r (acc * ID_BASE + (c - 48)) (S cnt) else (acc, cnt, l)
  | [] => (acc, cnt, [])
  end.

Inductive rnum : Set :=
| RSome (id : N) (rest : list byte)
| RNone              (* returns 0: no instance name here *)
| RAbort.            (* assert( id > 0 ) *)

(* readInstanceNumber() *)
Definition read_inst_number (fuel : nat) (l : list byte) : rnum :=
  match skip_sep fuel l with
  | None => RNone
  | Some l1 =>
    match l1 with
    | c :: r =>
      if c =? HASH then
        let '(v, cnt, r2) := digits_loop (skip_ws r) 0 0 in
        if Nat.ltb ID_MAXLEN cnt then RNone               (* "A very large instance ID" *)
        else
          match skip_sep fuel r2 with
          | None => RNone
          | Some r3 =>
            match r3 with
            | e :: r4 =>
              if (e =? EQUALS) && Nat.ltb 0 cnt then
                (if v =? 0 then RAbort else RSome (N.min v ID_MAX) r4)     (* strtoull saturates *)
              else RNone
            | [] => RNone
            end
          end
      else RNone
    | [] => RNone
    end
  end.

Definition is_upper (c : byte) : bool := (65 <=? c) && (c <=? 90).
Definition is_kw_char (c : byte) : bool := (c =? MINUS) || (c =? USCORE) || is_upper c || is_digit c.
(* strchr( ";( /\\", c ) || isspace( c ) : the terminating NUL of the delimiter string matches too *)
Definition is_kw_delim (c : byte) : bool := existsb (N.eqb c) KW_DELIMS || (c =? 0) || is_space c.

(* getDelimitedKeyword( ";( /\\" ) after skipWS(); None: abort() - no delimiter after the keyword *)
Fixpoint keyword (fuel : nat) (l : list byte) (acc : list byte) : option (list byte * list byte) :=
  match fuel with
  | O => None
  | S f =>
    match l with
    | c :: r =>
      if is_kw_char c || ((c =? BANG) && match acc with [] => true | _ => false end) then keyword f r (acc ++ [c])
      else if (c =? SLASH) && match r with b :: _ => b =? STAR | [] => false end && match acc with [] => true | _ => false end then
        match comment_end (tl r) with
        | Some r' => keyword f (skip_ws r') acc
        | None => None                       (* peek() at the end of the input: EOF is no delimiter *)
        end
      else if is_kw_delim c then Some (acc, l) else None
    | [] => None
    end
  end.

(* seekInstanceEnd( &refs ): the instance names met outside strings and comments, and the text after the closing ");" *)
Fixpoint seek_end (fuel : nat) (l : list byte) (depth : Z) (refs : list N) : option (list N * list byte) :=
  match fuel with
  | O => None
  | S f =>
    match l with
    | [] => None
    | c :: r =>
      if c =? LPAR then seek_end f r (depth + 1)%Z refs
      else if c =? SLASH then
        match r with
        | b :: r2 => if b =? STAR then
                       match comment_end r2 with
                       | Some r3 => seek_end f r3 depth refs
                       | None => None
                       end
                     else None
        | [] => None
        end
      else if c =? APOS then
        let '(_, unclosed, r') := get_literal l in
        if unclosed then None else seek_end f r' depth refs
      else if c =? EQUALS then None
      else if c =? HASH then
        let r1 := skip_ws r in
        match r1 with
        | d :: _ =>
          if is_digit d then
            let '(v, _, r2) := digits_loop r1 0 0 in
            if ID_MAX <? v then None                 (* operator>> sets failbit on overflow *)
            else seek_end f r2 depth (refs ++ [v])
          else None
        | [] => None
        end
      else if c =? RPAR then
        let d' := (depth - 1)%Z in
        if (d' =? 0)%Z then
          match skip_sep (S (length r)) r with
          | Some r1 =>
            match r1 with
            | e :: r2 => if e =? SEMI then Some (refs, r2) else seek_end f r1 d' refs
            | [] => None
            end
          | None => None
          end
        else seek_end f r d' refs
      else seek_end f r depth refs
    end
  end.

Inductive nres : Set :=
| NInst (id : N) (kw : list byte) (refs : list N) (rest : list byte)
| NNone               (* no valid instance here: the stream is put back to where it was *)
| NAbort.

(* lazyP21DataSectionReader::nextInstance() *)
Definition next_instance (l : list byte) : nres :=
  let fuel := S (length l) in
  match read_inst_number fuel l with
  | RNone => NNone
  | RAbort => NAbort
  | RSome id r =>
    match keyword fuel (skip_ws r) [] with
    | None => NAbort
    | Some (kw, r2) =>
      match seek_end (length r2) r2 0%Z [] with
      | Some (refs, r3) => NInst id kw refs r3
      | None => NNone
      end
    end
  end.

Definition inst : Set := (N * list byte * list N)%type.

(* the loop of the constructor: the instances it registers, whether the process aborted, and the text it stopped at *)
Fixpoint locate_all (fuel : nat) (l : list byte) : list inst * bool * list byte :=
  match fuel with
  | O => ([], false, l)
  | S f =>
    match next_instance l with
    | NInst id kw refs r => let '(is, ab, rest) := locate_all f r in ((id, kw, refs) :: is, ab, rest)
    | NNone => ([], false, l)
    | NAbort => ([], true, l)
    end
  end.

Definition scan_section (l : list byte) : list inst * bool * list byte := locate_all (S (length l)) l.

(* "ENDSEC" white space ";" after separators: what the constructor accepts as the end of the section *)
Definition ENDSEC : list byte := [69; 78; 68; 83; 69; 67].
Fixpoint starts_with (p l : list byte) : option (list byte) :=
  match p with
  | [] => Some l
  | a :: p' => match l with b :: l' => if a =? b then starts_with p' l' else None | [] => None end
  end.
Definition at_endsec (l : list byte) : bool :=
  match skip_sep (S (length l)) l with
  | Some l1 =>
    match starts_with ENDSEC l1 with
    | Some l2 => match skip_ws l2 with c :: _ => c =? SEMI | [] => false end
    | None => false
    end
  | None => false
  end.

(* ------------------------------------------------------------------------------------------
   The records of ISO 10303-21 as far as the scan is concerned: what follows "#n =" up to the
   closing parenthesis, as a list of tokens in any layout.
   ------------------------------------------------------------------------------------------ *)
Inductive rtok : Set :=
| KOpen
| KClose
| KStr (its : list item)                  (* a string literal (coq/P21Str.v) *)
| KRef (ws : list byte) (ds : list byte)  (* an instance name: number sign, white space, digits *)
| KCmt (txt : list byte)                  (* a comment *)
| KPlain (c : byte).                      (* any other character: letters, digits, white space, commas, dots, dollar ... *)

Definition rtext (t : rtok) : list byte :=
  match t with
  | KOpen => [LPAR]
  | KClose => [RPAR]
  | KStr its => APOS :: body its ++ [APOS]
  | KRef ws ds => HASH :: ws ++ ds
  | KCmt txt => SLASH :: STAR :: txt ++ [STAR; SLASH]
  | KPlain c => [c]
  end.
Definition render (ts : list rtok) : list byte := flat_map rtext ts.

Definition dval (ds : list byte) : N := fold_left (fun a c => a * ID_BASE + (c - 48)) ds 0.

Definition plain_ok (c : byte) : bool :=
  negb (c =? LPAR) && negb (c =? RPAR) && negb (c =? SLASH) && negb (c =? APOS) && negb (c =? EQUALS) && negb (c =? HASH).

(* a token is well formed given the text that follows it *)
Definition tok_ok (t : rtok) (next : list byte) : bool :=
  match t with
  | KOpen | KClose => true
  | KStr its => forallb item_ok its && negb (head_is (fun c => c =? APOS) next)
  | KRef ws ds => forallb is_space ws && forallb is_digit ds && negb (Nat.eqb (length ds) 0) && (dval ds <=? ID_MAX)
                  && negb (head_is is_digit next)
  | KCmt txt => no_close txt
  | KPlain c => plain_ok c
  end.

Fixpoint toks_ok (ts : list rtok) (k : list byte) : bool :=
  match ts with
  | [] => true
  | t :: r => tok_ok t (render r ++ k) && toks_ok r k
  end.

(* nesting depth after the tokens; None: a closing parenthesis that would take the depth to 0 or below *)
Fixpoint walk (d : Z) (ts : list rtok) : option Z :=
  match ts with
  | [] => Some d
  | KOpen :: r => walk (d + 1)%Z r
  | KClose :: r => if (1 <? d)%Z then walk (d - 1)%Z r else None
  | _ :: r => walk d r
  end.

(* the instance names a record mentions, in order, with repetitions *)
Fixpoint refs_of (ts : list rtok) : list N :=
  match ts with
  | KRef _ ds :: r => dval ds :: refs_of r
  | _ :: r => refs_of r
  | [] => []
  end.

(* one instance of the data section in an arbitrary layout *)
Record pinst : Set := mkPI {
  pi_s0 : seps;               (* before the number sign *)
  pi_ws1 : list byte;         (* between the number sign and the digits *)
  pi_ds : list byte;          (* the digits *)
  pi_s1 : seps;               (* before the equals sign *)
  pi_ws2 : list byte;         (* after it *)
  pi_kw : list byte;          (* the keyword; empty for an externally mapped instance *)
  pi_rec : list rtok;         (* everything up to the last closing parenthesis (not included) *)
  pi_s2 : seps                (* between that parenthesis and the semicolon *)
}.

Definition pinst_text (p : pinst) : list byte :=
  seps_text (pi_s0 p) ++ HASH :: pi_ws1 p ++ pi_ds p ++ seps_text (pi_s1 p) ++ EQUALS :: pi_ws2 p ++ pi_kw p
  ++ render (pi_rec p ++ [KClose]) ++ seps_text (pi_s2 p) ++ [SEMI].

Definition pinst_ok (p : pinst) : bool :=
  seps_ok (pi_s0 p) && forallb is_space (pi_ws1 p)
  && forallb is_digit (pi_ds p) && negb (Nat.eqb (length (pi_ds p)) 0) && Nat.leb (length (pi_ds p)) ID_MAXLEN
  && (0 <? dval (pi_ds p)) && (dval (pi_ds p) <=? ID_MAX)
  && seps_ok (pi_s1 p) && forallb is_space (pi_ws2 p)
  && forallb is_kw_char (pi_kw p)
  (* the keyword ends at a parenthesis or at white space; without a keyword the record starts with its parenthesis *)
  && head_is (fun c => (c =? LPAR) || (is_space c && negb (Nat.eqb (length (pi_kw p)) 0))) (render (pi_rec p))
  && toks_ok (pi_rec p ++ [KClose]) (seps_text (pi_s2 p) ++ [SEMI])
  && match walk 0%Z (pi_rec p) with Some d => (d =? 1)%Z | None => false end
  && seps_ok (pi_s2 p).

Definition pinst_summary (p : pinst) : inst := (dval (pi_ds p), pi_kw p, refs_of (pi_rec p)).

(* the tables of coq/Lazy.v as the loader builds them from the text of a data section *)
From SC Require Lazy.
Definition scan_insts (l : list byte) : list (Z * list Z) :=
  map (fun i : inst => (Z.of_N (fst (fst i)), map Z.of_N (snd i))) (fst (fst (scan_section l))).
Definition tables_of_text (l : list byte) : Lazy.table * Lazy.table := Lazy.build (scan_insts l).
