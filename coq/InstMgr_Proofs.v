(* Invariant and refinement proofs for the InstMgr model (C13). *)
From Coq Require Import List ZArith Bool NArith Lia Arith.
From SC Require Import InstMgr.
Import ListNotations.
Local Open Scope Z_scope.

(* ------------------------------------------------------------------ *)
(* association-list map                                                *)

Lemma m_find_erase_same k m : m_find k (m_erase k m) = None.
Proof.
  induction m as [|[k' v] r IH]; cbn; [reflexivity|].
  destruct (Z.eqb k k') eqn:E; [exact IH|]. cbn. rewrite E. exact IH.
Qed.

Lemma m_find_erase_other k k' m : k <> k' -> m_find k' (m_erase k m) = m_find k' m.
Proof.
  intros Hne. induction m as [|[k2 v] r IH]; cbn; [reflexivity|].
  destruct (Z.eqb k k2) eqn:E.
  - apply Z.eqb_eq in E. subst k2.
    destruct (Z.eqb k' k) eqn:E2; [apply Z.eqb_eq in E2; congruence|]. exact IH.
  - cbn. destruct (Z.eqb k' k2); [reflexivity|exact IH].
Qed.

Lemma m_find_set_same k v m : m_find k (m_set k v m) = Some v.
Proof. unfold m_set. cbn. rewrite Z.eqb_refl. reflexivity. Qed.

Lemma m_find_set_other k k' v m : k <> k' -> m_find k' (m_set k v m) = m_find k' m.
Proof.
  intros Hne. unfold m_set. cbn.
  destruct (Z.eqb k' k) eqn:E; [apply Z.eqb_eq in E; congruence|].
  apply m_find_erase_other. exact Hne.
Qed.

(* ------------------------------------------------------------------ *)
(* list helpers                                                        *)

Definition remove_at {A} (i : nat) (l : list A) : list A := firstn i l ++ skipn (S i) l.

Lemma nth_error_upd_same {A} (l : list A) k f x :
  nth_error l k = Some x -> nth_error (upd l k f) k = Some (f x).
Proof.
  revert k. induction l as [|y r IH]; intros [|k] H; cbn in *; try discriminate.
  - inversion H. reflexivity.
  - apply IH. exact H.
Qed.

Lemma nth_error_upd_other {A} (l : list A) k k' f :
  k <> k' -> nth_error (upd l k f) k' = nth_error l k'.
Proof.
  revert k k'. induction l as [|y r IH]; intros [|k] [|k'] H; cbn; try reflexivity; try congruence.
  apply IH. congruence.
Qed.

Lemma nth_error_upd_none {A} (l : list A) k f :
  nth_error l k = None -> upd l k f = l.
Proof.
  revert k. induction l as [|y r IH]; intros [|k] H; cbn in *; try reflexivity; try discriminate.
  f_equal. apply IH. exact H.
Qed.

Lemma length_upd {A} (l : list A) k f : length (upd l k f) = length l.
Proof. revert k. induction l as [|y r IH]; intros [|k]; cbn; try reflexivity. f_equal. apply IH. Qed.

Lemma map_upd_inv {A B} (g : A -> B) (l : list A) k f :
  (forall x, g (f x) = g x) -> map g (upd l k f) = map g l.
Proof.
  intros H. revert k. induction l as [|y r IH]; intros [|k]; cbn; try reflexivity.
  - rewrite H. reflexivity.
  - f_equal. apply IH.
Qed.

Lemma In_remove_at {A} (i : nat) (l : list A) x : In x (remove_at i l) -> In x l.
Proof.
  unfold remove_at. intros H. apply in_app_or in H. destruct H as [H|H].
  - rewrite <- (firstn_skipn i l). apply in_or_app. left. exact H.
  - rewrite <- (firstn_skipn (S i) l). apply in_or_app. right. exact H.
Qed.

Lemma NoDup_remove_at {A} (i : nat) (l : list A) : NoDup l -> NoDup (remove_at i l).
Proof.
  revert i. induction l as [|x r IH]; intros i H.
  - unfold remove_at. rewrite firstn_nil, skipn_nil. constructor.
  - destruct i as [|i]; unfold remove_at; cbn.
    + inversion H. assumption.
    + inversion H as [|? ? Hnin Hnd]. subst. constructor.
      * intro Hin. apply Hnin. apply (In_remove_at i r x). exact Hin.
      * apply IH. exact Hnd.
Qed.

Lemma remove_at_not_in {A} (i : nat) (l : list A) x :
  NoDup l -> nth_error l i = Some x -> ~ In x (remove_at i l).
Proof.
  revert i. induction l as [|y r IH]; intros [|i] Hnd Hn; cbn in *; try discriminate.
  - inversion Hn. subst. unfold remove_at. cbn. inversion Hnd. assumption.
  - unfold remove_at. cbn. inversion Hnd as [|? ? Hnin Hnd']. subst.
    intros [He|Hin].
    + subst. apply Hnin. eapply nth_error_In. exact Hn.
    + eapply IH; eauto.
Qed.

Lemma nth_error_remove_at_lt {A} (i j : nat) (l : list A) :
  (j < i)%nat -> nth_error (remove_at i l) j = nth_error l j.
Proof.
  revert i j. induction l as [|y r IH]; intros i j H.
  - unfold remove_at. rewrite firstn_nil, skipn_nil. destruct j; reflexivity.
  - destruct i as [|i]; [lia|]. destruct j as [|j]; unfold remove_at; cbn; [reflexivity|].
    apply IH. lia.
Qed.

Lemma nth_error_remove_at_ge {A} (i j : nat) (l : list A) :
  (i <= j)%nat -> nth_error (remove_at i l) j = nth_error l (S j).
Proof.
  revert i j. induction l as [|y r IH]; intros i j H.
  - unfold remove_at. rewrite firstn_nil, skipn_nil. destruct j; reflexivity.
  - destruct i as [|i]; unfold remove_at; cbn.
    + reflexivity.
    + destruct j as [|j]; [lia|]. cbn. apply (IH i j). lia.
Qed.

Lemma nth_error_firstn_lt {A} (l : list A) i j :
  (j < i)%nat -> nth_error (firstn i l) j = nth_error l j.
Proof.
  revert i j. induction l as [|x r IH]; intros [|i] [|j] H; cbn; try reflexivity; try lia.
  apply IH. lia.
Qed.

Lemma NoDup_snoc {A} (l : list A) x : NoDup l -> ~ In x l -> NoDup (l ++ [x]).
Proof.
  induction l as [|y r IH]; intros Hnd Hnin; cbn.
  - constructor; [intros []|constructor].
  - inversion Hnd as [|? ? Hy Hr]. subst. constructor.
    + intro Hin. apply in_app_or in Hin. destruct Hin as [Hin|[Hin|[]]]; [contradiction|].
      subst. apply Hnin. left. reflexivity.
    + apply IH; [exact Hr|]. intro Hin. apply Hnin. right. exact Hin.
Qed.

Lemma map_remove_at {A B} (g : A -> B) i (l : list A) :
  map g (remove_at i l) = remove_at i (map g l).
Proof. unfold remove_at. rewrite map_app, firstn_map, skipn_map. reflexivity. Qed.

(* ------------------------------------------------------------------ *)
(* renumber / arr_remove                                               *)

Lemma map_inst_renumber m k : map n_inst (renumber m k) = map n_inst m.
Proof. revert k. induction m as [|n r IH]; intros k; cbn; [reflexivity|]. f_equal. apply IH. Qed.

Lemma map_state_renumber m k : map n_state (renumber m k) = map n_state m.
Proof. revert k. induction m as [|n r IH]; intros k; cbn; [reflexivity|]. f_equal. apply IH. Qed.

Lemma nth_error_renumber m k j n :
  nth_error (renumber m k) j = Some n ->
  n_idx n = k + Z.of_nat j /\ exists n0, nth_error m j = Some n0 /\ n_inst n = n_inst n0 /\ n_state n = n_state n0.
Proof.
  revert k j. induction m as [|x r IH]; intros k [|j] H; cbn in *; try discriminate.
  - inversion H. subst. cbn. split; [lia|]. exists x. auto.
  - apply IH in H. destruct H as [H1 H2]. split; [lia|exact H2].
Qed.

Lemma length_renumber m k : length (renumber m k) = length m.
Proof. revert k. induction m as [|x r IH]; intros k; cbn; [reflexivity|]. f_equal. apply IH. Qed.

Definition handles (s : mgr) : list nat := map n_inst (master s).
Definition live_ids (s : mgr) : list Z := map (fun n => inst_id s (n_inst n)) (master s).

Lemma arr_remove_handles m (i : nat) :
  (i < length m)%nat ->
  map n_inst (arr_remove m (Z.of_nat i)) = remove_at i (map n_inst m).
Proof.
  intros H. unfold arr_remove.
  replace ((0 <=? Z.of_nat i) && (Z.of_nat i <? Z.of_nat (length m))) with true.
  2:{ symmetry. apply andb_true_intro. split; [apply Z.leb_le; lia|apply Z.ltb_lt; lia]. }
  rewrite Nat2Z.id. rewrite map_app, map_inst_renumber. unfold remove_at.
  rewrite firstn_map, skipn_map. reflexivity.
Qed.

Lemma arr_remove_states m (i : nat) :
  (i < length m)%nat ->
  map n_state (arr_remove m (Z.of_nat i)) = remove_at i (map n_state m).
Proof.
  intros H. unfold arr_remove.
  replace ((0 <=? Z.of_nat i) && (Z.of_nat i <? Z.of_nat (length m))) with true.
  2:{ symmetry. apply andb_true_intro. split; [apply Z.leb_le; lia|apply Z.ltb_lt; lia]. }
  rewrite Nat2Z.id. rewrite map_app, map_state_renumber. unfold remove_at.
  rewrite firstn_map, skipn_map. reflexivity.
Qed.

Lemma arr_remove_idx m (i : nat) :
  (i < length m)%nat ->
  (forall j n, nth_error m j = Some n -> n_idx n = Z.of_nat j) ->
  forall j n, nth_error (arr_remove m (Z.of_nat i)) j = Some n -> n_idx n = Z.of_nat j.
Proof.
  intros H Hidx j n. unfold arr_remove.
  replace ((0 <=? Z.of_nat i) && (Z.of_nat i <? Z.of_nat (length m))) with true.
  2:{ symmetry. apply andb_true_intro. split; [apply Z.leb_le; lia|apply Z.ltb_lt; lia]. }
  rewrite Nat2Z.id. intros Hn.
  destruct (Nat.lt_ge_cases j i) as [Hlt|Hge].
  - rewrite nth_error_app1 in Hn by (rewrite firstn_length; lia).
    apply Hidx. rewrite nth_error_firstn_lt in Hn by exact Hlt. exact Hn.
  - rewrite nth_error_app2 in Hn by (rewrite firstn_length; lia).
    rewrite firstn_length in Hn. replace (Nat.min i (length m)) with i in Hn by lia.
    apply nth_error_renumber in Hn. destruct Hn as [Hn _]. lia.
Qed.

(* ------------------------------------------------------------------ *)
(* the invariant                                                       *)

Record Inv (s : mgr) : Prop := {
  inv_idx : forall i n, nth_error (master s) i = Some n -> n_idx n = Z.of_nat i;
  inv_handles : NoDup (handles s);
  inv_alive : forall h, In h (handles s) -> inst_alive s h = true;
  inv_ids : NoDup (live_ids s);
  inv_sorted : forall k h, m_find k (sorted s) = Some h <-> (In h (handles s) /\ inst_id s h = k);
  inv_max : forall h, In h (handles s) -> inst_id s h <= maxid s;
  inv_max_lo : -1 <= maxid s;
  inv_nonzero : forall h, In h (handles s) -> inst_id s h <> 0
}.

Lemma live_ids_alt s : live_ids s = map (inst_id s) (handles s).
Proof. unfold live_ids, handles. rewrite map_map. reflexivity. Qed.

Lemma inv_empty l mx : mx = -1 -> Inv {| insts := l; master := []; sorted := []; maxid := mx |}.
Proof.
  intros ->. constructor; cbn.
  - intros i n H. destruct i; discriminate.
  - constructor.
  - intros h [].
  - constructor.
  - intros k h. split; [discriminate|intros [[] _]].
  - intros h [].
  - lia.
  - intros h [].
Qed.

Lemma inv_init : Inv init.
Proof. apply inv_empty. reflexivity. Qed.

Lemma next_file_id_gt mx : -1 <= mx -> mx < next_file_id mx /\ 1 <= next_file_id mx.
Proof. intros H. unfold next_file_id. destruct (mx <? 0) eqn:E; [apply Z.ltb_lt in E|apply Z.ltb_ge in E]; lia. Qed.

Lemma in_master_spec h m : in_master h m = true <-> In h (map n_inst m).
Proof.
  induction m as [|n r IH]; cbn; [split; [discriminate|contradiction]|].
  rewrite orb_true_iff, IH, Nat.eqb_eq. tauto.
Qed.

Lemma find_node_spec h m : In h (map n_inst m) -> exists n, find_node h m = Some n /\ n_inst n = h /\ In n m.
Proof.
  induction m as [|x r IH]; cbn; [contradiction|]. intros H.
  destruct (Nat.eqb (n_inst x) h) eqn:E.
  - apply Nat.eqb_eq in E. exists x. auto.
  - apply Nat.eqb_neq in E. destruct H as [H|H]; [contradiction|].
    destruct (IH H) as [n [H1 [H2 H3]]]. exists n. auto.
Qed.

(* Generic "a node for h is appended" step. *)
Lemma inv_add s s' h id state :
  Inv s ->
  ~ In h (handles s) ->
  inst_alive s' h = true ->
  inst_id s' h = id ->
  id <> 0 ->
  ~ In id (live_ids s) ->
  (forall h', h' <> h -> inst_id s' h' = inst_id s h' /\ inst_alive s' h' = inst_alive s h') ->
  master s' = master s ++ [ {| n_inst := h; n_state := state; n_idx := Z.of_nat (length (master s)) |} ] ->
  sorted s' = m_set id h (sorted s) ->
  id <= maxid s' -> maxid s <= maxid s' ->
  Inv s'.
Proof.
  intros HI Hnin Hal Hid Hnz Hfresh Hoth Hm Hs Hmx1 Hmx2.
  assert (Hh : handles s' = handles s ++ [h]).
  { unfold handles. rewrite Hm, map_app. reflexivity. }
  assert (Hsame : forall h', In h' (handles s) -> inst_id s' h' = inst_id s h' /\ inst_alive s' h' = inst_alive s h').
  { intros h' Hin. apply Hoth. intro; subst; contradiction. }
  assert (Hl : live_ids s' = live_ids s ++ [id]).
  { rewrite !live_ids_alt, Hh, map_app. cbn. rewrite Hid. f_equal.
    apply map_ext_in. intros a Ha. apply Hsame. exact Ha. }
  constructor.
  - intros i n. rewrite Hm. intros Hn.
    destruct (Nat.lt_ge_cases i (length (master s))) as [Hlt|Hge].
    + rewrite nth_error_app1 in Hn by exact Hlt. eapply inv_idx; eauto.
    + rewrite nth_error_app2 in Hn by exact Hge.
      destruct (i - length (master s))%nat eqn:E; cbn in Hn.
      * inversion Hn. subst n. cbn. f_equal. lia.
      * destruct n0; discriminate.
  - rewrite Hh. apply NoDup_snoc; [apply (inv_handles s HI)|exact Hnin].
  - intros h'. rewrite Hh. intros Hin. apply in_app_or in Hin. destruct Hin as [Hin|[Hin|[]]].
    + destruct (Hsame h' Hin) as [_ Ha]. rewrite Ha. eapply inv_alive; eauto.
    + subst. exact Hal.
  - rewrite Hl. apply NoDup_snoc; [apply (inv_ids s HI)|exact Hfresh].
  - intros k h'. rewrite Hs, Hh. destruct (Z.eq_dec id k) as [E|E].
    + subst k. rewrite m_find_set_same. split.
      * intros H. inversion H. subst h'. split; [apply in_or_app; right; left; reflexivity|exact Hid].
      * intros [Hin Hk]. apply in_app_or in Hin. destruct Hin as [Hin|[Hin|[]]]; [|subst; reflexivity].
        exfalso. apply Hfresh. rewrite live_ids_alt. apply in_map_iff. exists h'. split; [|exact Hin].
        destruct (Hsame h' Hin) as [Hi _]. rewrite <- Hi. exact Hk.
    + rewrite m_find_set_other by exact E. rewrite (inv_sorted s HI). split.
      * intros [Hin Hk]. split; [apply in_or_app; left; exact Hin|].
        destruct (Hsame h' Hin) as [Hi _]. rewrite Hi. exact Hk.
      * intros [Hin Hk]. apply in_app_or in Hin. destruct Hin as [Hin|[Hin|[]]].
        -- split; [exact Hin|]. destruct (Hsame h' Hin) as [Hi _]. rewrite <- Hi. exact Hk.
        -- subst h'. congruence.
  - intros h'. rewrite Hh. intros Hin. apply in_app_or in Hin. destruct Hin as [Hin|[Hin|[]]].
    + destruct (Hsame h' Hin) as [Hi _]. rewrite Hi. pose proof (inv_max s HI h' Hin). lia.
    + subst. lia.
  - pose proof (inv_max_lo s HI). lia.
  - intros h'. rewrite Hh. intros Hin. apply in_app_or in Hin. destruct Hin as [Hin|[Hin|[]]].
    + destruct (Hsame h' Hin) as [Hi _]. rewrite Hi. eapply inv_nonzero; eauto.
    + subst. exact Hnz.
Qed.

Lemma inst_id_set_id_same s h id : inst_alive s h = true -> inst_id (set_id s h id) h = id.
Proof.
  unfold inst_alive, inst_id, set_id. cbn. destruct (nth_error (insts s) h) eqn:E; [|discriminate].
  intros _. erewrite nth_error_upd_same by exact E. reflexivity.
Qed.
Lemma inst_alive_set_id_same s h id : inst_alive (set_id s h id) h = inst_alive s h.
Proof.
  unfold inst_alive, set_id. cbn. destruct (nth_error (insts s) h) eqn:E.
  - erewrite nth_error_upd_same by exact E. reflexivity.
  - rewrite nth_error_upd_none by exact E. rewrite E. reflexivity.
Qed.
Lemma inst_set_id_other s h h' id : h' <> h ->
  inst_id (set_id s h id) h' = inst_id s h' /\ inst_alive (set_id s h id) h' = inst_alive s h'.
Proof.
  intros Hne. unfold inst_id, inst_alive, set_id. cbn.
  rewrite nth_error_upd_other by congruence. auto.
Qed.

(* What Append does, stated against the invariant. *)
Inductive append_outcome (s : mgr) (h : nat) (state : st) (s' : mgr) : Prop :=
| AO_already : In h (handles s) -> s' = s -> append_outcome s h state s'
| AO_added (id : Z) :
    ~ In h (handles s) ->
    handles s' = handles s ++ [h] ->
    map n_state (master s') = map n_state (master s) ++ [state] ->
    inst_id s' h = id ->
    (* the id is kept when it is set and unused, otherwise it is fresh *)
    ((inst_id s h <> 0 /\ ~ In (inst_id s h) (live_ids s) /\ id = inst_id s h) \/
     ((inst_id s h = 0 \/ In (inst_id s h) (live_ids s)) /\ id = next_file_id (maxid s) /\ maxid s < id)) ->
    (forall h', h' <> h -> inst_id s' h' = inst_id s h' /\ inst_alive s' h' = inst_alive s h') ->
    inst_alive s' h = true ->
    maxid s <= maxid s' -> id <= maxid s' ->
    append_outcome s h state s'.

Lemma ids_le_max s : Inv s -> forall k, In k (live_ids s) -> k <= maxid s.
Proof.
  intros HI k Hin. rewrite live_ids_alt in Hin. apply in_map_iff in Hin.
  destruct Hin as [h [E Hin]]. subst. eapply inv_max; eauto.
Qed.

Lemma find_none_not_live s : Inv s -> forall k, m_find k (sorted s) = None -> ~ In k (live_ids s).
Proof.
  intros HI k Hf Hin. rewrite live_ids_alt in Hin. apply in_map_iff in Hin.
  destruct Hin as [h [E Hin]].
  assert (m_find k (sorted s) = Some h) by (apply (inv_sorted s HI); auto). congruence.
Qed.

Ltac t_added s h nx Hal :=
  lazymatch goal with
  | |- ~ In _ (handles _) => assumption
  | |- handles _ = _ => unfold handles; cbn [master]; rewrite map_app; reflexivity
  | |- map n_state _ = _ => rewrite map_app; reflexivity
  | |- inst_alive _ _ = true =>
      first [ exact Hal
            | unfold inst_alive; cbn [insts]; change (inst_alive (set_id s h nx) h = true);
              rewrite inst_alive_set_id_same; exact Hal ]
  | |- forall h', h' <> _ -> _ =>
      let h' := fresh "h'" in let Hne := fresh "Hne" in
      intros h' Hne;
      first [ split; reflexivity
            | unfold inst_id, inst_alive; cbn [insts]; apply (inst_set_id_other s h h' nx Hne) ]
  | |- inst_id _ _ = _ => first [ assumption | reflexivity ]
  | |- ~ In _ (live_ids _) => assumption
  | |- _ <> _ => first [ assumption | lia ]
  | |- _ \/ _ =>
      first [ left; repeat split; solve [ assumption | reflexivity | lia ]
            | right; repeat split;
              solve [ assumption | reflexivity | lia | left; assumption | right; assumption ] ]
  | |- _ => first [ reflexivity | lia | tauto ]
  end.

Lemma append_correct s h state :
  Inv s -> inst_alive s h = true ->
  Inv (append s h state) /\ append_outcome s h state (append s h state).
Proof.
  intros HI Hal. unfold append.
  pose proof (inv_max_lo s HI) as Hlo.
  destruct (Z.eqb (inst_id s h) 0) eqn:E0.
  - (* id unset: assign the next id *)
    apply Z.eqb_eq in E0.
    assert (Hnin : ~ In h (handles s)).
    { intro Hin. apply (inv_nonzero s HI h Hin). exact E0. }
    destruct (next_file_id_gt (maxid s) Hlo) as [Hgt Hge1].
    set (nx := next_file_id (maxid s)) in *.
    cbn [insts master sorted maxid].
    set (s1 := {| insts := insts (set_id s h nx); master := master s; sorted := sorted s; maxid := nx |}).
    assert (Hid1 : inst_id s1 h = nx) by (apply (inst_id_set_id_same s h nx Hal)).
    rewrite Hid1.
    assert (Hfresh : ~ In nx (live_ids s)).
    { intro Hin. apply (ids_le_max s HI) in Hin. lia. }
    assert (Hfind : m_find nx (sorted s) = None).
    { destruct (m_find nx (sorted s)) eqn:F; [|reflexivity].
      apply (inv_sorted s HI) in F. destruct F as [Hin Hk].
      pose proof (inv_max s HI n Hin). lia. }
    cbn [sorted s1]. rewrite Hfind.
    replace (nx <? nx) with false by (symmetry; apply Z.ltb_irrefl).
    assert (Hnz : nx <> 0) by lia.
    split.
    + eapply (inv_add s _ h nx state HI Hnin); cbn [master sorted maxid]; t_added s h nx Hal.
    + eapply (AO_added s h state _ nx); cbn [master sorted maxid]; t_added s h nx Hal.
  - apply Z.eqb_neq in E0.
    destruct (m_find (inst_id s h) (sorted s)) as [h'|] eqn:F.
    + destruct (Nat.eqb h' h) eqn:Eh.
      * apply Nat.eqb_eq in Eh. subst h'. split; [exact HI|].
        apply AO_already; [|reflexivity]. apply (inv_sorted s HI) in F. tauto.
      * apply Nat.eqb_neq in Eh.
        assert (Hnin : ~ In h (handles s)).
        { intro Hin. assert (m_find (inst_id s h) (sorted s) = Some h) by (apply (inv_sorted s HI); auto). congruence. }
        destruct (next_file_id_gt (maxid s) Hlo) as [Hgt Hge1].
        set (nx := next_file_id (maxid s)) in *.
        cbn [insts master sorted maxid].
        set (s2 := {| insts := insts (set_id s h nx); master := master s; sorted := sorted s; maxid := nx |}).
        assert (Hid2 : inst_id s2 h = nx) by (apply (inst_id_set_id_same s h nx Hal)).
        rewrite Hid2.
        replace (nx <? nx) with false by (symmetry; apply Z.ltb_irrefl).
        assert (Hfresh : ~ In nx (live_ids s)).
        { intro Hin. apply (ids_le_max s HI) in Hin. lia. }
        assert (Hused : In (inst_id s h) (live_ids s)).
        { apply (inv_sorted s HI) in F. destruct F as [Hin Hk]. rewrite live_ids_alt.
          apply in_map_iff. exists h'. auto. }
        assert (Hnz : nx <> 0) by lia.
        split.
        -- eapply (inv_add s _ h nx state HI Hnin); cbn [master sorted maxid]; t_added s h nx Hal.
        -- eapply (AO_added s h state _ nx); cbn [master sorted maxid]; t_added s h nx Hal.
    + assert (Hnin : ~ In h (handles s)).
      { intro Hin. assert (m_find (inst_id s h) (sorted s) = Some h) by (apply (inv_sorted s HI); auto). congruence. }
      pose proof (find_none_not_live s HI _ F) as Hfresh.
      set (id := inst_id s h) in *.
      assert (Hmx : id <= (if maxid s <? id then id else maxid s) /\ maxid s <= (if maxid s <? id then id else maxid s)).
      { destruct (maxid s <? id) eqn:E; [apply Z.ltb_lt in E|apply Z.ltb_ge in E]; lia. }
      destruct Hmx as [Hmx1 Hmx2].
      split.
      * eapply (inv_add s _ h id state HI Hnin); cbn [master sorted maxid]; t_added s h id Hal.
      * eapply (AO_added s h state _ id); cbn [master sorted maxid]; t_added s h id Hal.
Qed.

(* ------------------------------------------------------------------ *)
(* Delete                                                              *)

Lemma inst_kill_other (l : list inst) h h' :
  h' <> h ->
  nth_error (kill l h) h' = nth_error l h'.
Proof. intros Hne. unfold kill. apply nth_error_upd_other. congruence. Qed.

Lemma delete_correct s (i : nat) n :
  Inv s -> nth_error (master s) i = Some n ->
  let s' := delete_node s n in
  Inv s' /\
  handles s' = remove_at i (handles s) /\
  map n_state (master s') = remove_at i (map n_state (master s)) /\
  inst_alive s' (n_inst n) = false /\
  maxid s' = maxid s /\
  (forall h', h' <> n_inst n -> inst_id s' h' = inst_id s h' /\ inst_alive s' h' = inst_alive s h').
Proof.
  intros HI Hn s'.
  assert (Hidx : n_idx n = Z.of_nat i) by (eapply inv_idx; eauto).
  assert (Hlen : (i < length (master s))%nat) by (apply nth_error_Some; congruence).
  assert (Hh : handles s' = remove_at i (handles s)).
  { unfold s', delete_node, handles. cbn [master]. rewrite Hidx. apply arr_remove_handles. exact Hlen. }
  assert (Hhn : nth_error (handles s) i = Some (n_inst n)).
  { unfold handles. rewrite nth_error_map, Hn. reflexivity. }
  assert (Hnotin : ~ In (n_inst n) (handles s')).
  { rewrite Hh. apply remove_at_not_in; [apply (inv_handles s HI)|exact Hhn]. }
  assert (Hoth : forall h', h' <> n_inst n -> inst_id s' h' = inst_id s h' /\ inst_alive s' h' = inst_alive s h').
  { intros h' Hne. unfold s', delete_node, inst_id, inst_alive. cbn [insts].
    rewrite inst_kill_other by exact Hne. auto. }
  assert (Hsub : forall h', In h' (handles s') -> In h' (handles s) /\ h' <> n_inst n).
  { intros h' Hin. split; [rewrite Hh in Hin; eapply In_remove_at; eauto|]. intro; subst; contradiction. }
  assert (Hl : live_ids s' = remove_at i (live_ids s)).
  { rewrite !live_ids_alt, Hh, <- map_remove_at. rewrite <- Hh.
    apply map_ext_in. intros a Ha. apply Hoth. apply Hsub. exact Ha. }
  split; [|split; [|split; [|split; [|split]]]].
  - constructor.
    + unfold s', delete_node. cbn [master]. rewrite Hidx. apply arr_remove_idx; [exact Hlen|apply (inv_idx s HI)].
    + rewrite Hh. apply NoDup_remove_at. apply (inv_handles s HI).
    + intros h' Hin. destruct (Hsub h' Hin) as [Hin' Hne]. destruct (Hoth h' Hne) as [_ Ha]. rewrite Ha.
      eapply inv_alive; eauto.
    + rewrite Hl. apply NoDup_remove_at. apply (inv_ids s HI).
    + intros k h'. unfold s' at 1, delete_node. cbn [sorted].
      destruct (Z.eq_dec (inst_id s (n_inst n)) k) as [E|E].
      * subst k. rewrite m_find_erase_same. split; [discriminate|].
        intros [Hin Hk]. exfalso. destruct (Hsub h' Hin) as [Hin' Hne].
        destruct (Hoth h' Hne) as [Hi _]. rewrite Hi in Hk.
        (* two handles with the same id *)
        pose proof (inv_ids s HI) as Hnd. rewrite live_ids_alt in Hnd.
        assert (Hin0 : In (n_inst n) (handles s)) by (eapply nth_error_In; eauto).
        clear -Hnd Hin' Hin0 Hk Hne.
        induction (handles s) as [|x r IH]; [contradiction|].
        cbn in Hnd. inversion Hnd as [|? ? Hx Hr]. subst.
        destruct Hin' as [E1|H1]; destruct Hin0 as [E2|H2]; subst.
        -- congruence.
        -- apply Hx. apply in_map_iff. exists (n_inst n). auto.
        -- apply Hx. apply in_map_iff. exists h'. auto.
        -- apply IH; auto.
      * rewrite m_find_erase_other by exact E. rewrite (inv_sorted s HI). split.
        -- intros [Hin Hk]. assert (Hne : h' <> n_inst n) by (intro; subst; contradiction).
           destruct (Hoth h' Hne) as [Hi _]. split; [|congruence].
           rewrite Hh. unfold handles in *.
           (* h' is in handles and differs from the removed one *)
           clear -Hin Hne Hhn. revert i Hhn. induction (map n_inst (master s)) as [|x r IH]; intros i Hhn; [contradiction|].
           destruct i as [|i]; cbn in Hhn.
           ++ inversion Hhn. subst. destruct Hin as [E1|H1]; [congruence|]. unfold remove_at. cbn. exact H1.
           ++ unfold remove_at. cbn. destruct Hin as [E1|H1]; [left; exact E1|right]. apply (IH H1 i Hhn).
        -- intros [Hin Hk]. destruct (Hsub h' Hin) as [Hin' Hne]. destruct (Hoth h' Hne) as [Hi _].
           split; [exact Hin'|congruence].
    + intros h' Hin. destruct (Hsub h' Hin) as [Hin' Hne]. destruct (Hoth h' Hne) as [Hi _]. rewrite Hi.
      unfold s', delete_node. cbn [maxid]. eapply inv_max; eauto.
    + unfold s', delete_node. cbn [maxid]. apply (inv_max_lo s HI).
    + intros h' Hin. destruct (Hsub h' Hin) as [Hin' Hne]. destruct (Hoth h' Hne) as [Hi _]. rewrite Hi.
      eapply inv_nonzero; eauto.
  - exact Hh.
  - unfold s', delete_node. cbn [master]. rewrite Hidx. apply arr_remove_states. exact Hlen.
  - unfold s', delete_node, inst_alive, kill. cbn [insts].
    destruct (nth_error (insts s) (n_inst n)) eqn:E.
    + erewrite nth_error_upd_same by exact E. reflexivity.
    + rewrite nth_error_upd_none by exact E. rewrite E. reflexivity.
  - reflexivity.
  - exact Hoth.
Qed.

(* ------------------------------------------------------------------ *)
(* step preserves the invariant; never crashes                         *)

Lemma inv_insts_ext s s' :
  Inv s -> master s' = master s -> sorted s' = sorted s -> maxid s <= maxid s' ->
  (forall h, In h (handles s) -> inst_id s' h = inst_id s h /\ inst_alive s' h = inst_alive s h) ->
  Inv s'.
Proof.
  intros HI Hm Hs Hmx Hsame.
  assert (Hh : handles s' = handles s) by (unfold handles; rewrite Hm; reflexivity).
  assert (Hl : live_ids s' = live_ids s).
  { rewrite !live_ids_alt, Hh. apply map_ext_in. intros a Ha. apply Hsame. exact Ha. }
  constructor.
  - rewrite Hm. apply (inv_idx s HI).
  - rewrite Hh. apply (inv_handles s HI).
  - intros h. rewrite Hh. intros Hin. destruct (Hsame h Hin) as [_ Ha]. rewrite Ha. eapply inv_alive; eauto.
  - rewrite Hl. apply (inv_ids s HI).
  - intros k h. rewrite Hs, Hh, (inv_sorted s HI). split; intros [Hin Hk]; split; auto;
      destruct (Hsame h Hin) as [Hi _]; congruence.
  - intros h. rewrite Hh. intros Hin. destruct (Hsame h Hin) as [Hi _]. rewrite Hi.
    pose proof (inv_max s HI h Hin). lia.
  - pose proof (inv_max_lo s HI). lia.
  - intros h. rewrite Hh. intros Hin. destruct (Hsame h Hin) as [Hi _]. rewrite Hi. eapply inv_nonzero; eauto.
Qed.

Lemma step_inv s o s' : Inv s -> step s o = Ok s' -> Inv s'.
Proof.
  intros HI. destruct o as [id name|h state|i|h|i state| | |]; cbn [step].
  - (* create *) intros H. inversion H. subst s'. clear H.
    apply (inv_insts_ext s); cbn [master sorted maxid]; try reflexivity; try lia; [exact HI|].
    intros h Hin. pose proof (inv_alive s HI h Hin) as Ha.
    unfold inst_id, inst_alive in *. cbn [insts].
    destruct (nth_error (insts s) h) eqn:E; [|discriminate].
    rewrite nth_error_app1 by (apply nth_error_Some; congruence). rewrite E. auto.
  - destruct (inst_alive s h) eqn:Ha; [|discriminate]. intros H. inversion H. subst.
    apply append_correct; assumption.
  - destruct (nth_error (master s) i) eqn:E; [|discriminate]. intros H. inversion H. subst.
    apply (delete_correct s i m HI E).
  - destruct (inst_alive s h) eqn:Hal; [|discriminate].
    destruct (in_master h (master s)) eqn:Hc; [|intros H; inversion H; subst; exact HI].
    destruct (m_find (inst_id s h) (sorted s)) as [h'|] eqn:F; [|discriminate].
    destruct (find_node h' (master s)) as [n|] eqn:Fn; [|discriminate].
    intros H. inversion H. subst.
    assert (Hin : In n (master s)).
    { clear -Fn. induction (master s) as [|x r IH]; cbn in Fn; [discriminate|].
      destruct (Nat.eqb (n_inst x) h'); [inversion Fn; left; reflexivity|right; auto]. }
    apply In_nth_error in Hin. destruct Hin as [i Hi].
    apply (delete_correct s i n HI Hi).
  - destruct (nth_error (master s) i) eqn:E; [|discriminate].
    destruct state; intros H; inversion H; subst; try exact HI.
    all: match goal with |- Inv ?t => set (s2 := t) end.
    all: assert (Hh : handles s2 = handles s) by (unfold handles, s2; cbn [master]; apply map_upd_inv; reflexivity).
    all: assert (Hl : live_ids s2 = live_ids s) by (rewrite !live_ids_alt, Hh; reflexivity).
    all: constructor; try (rewrite ?Hh, ?Hl; first [apply (inv_handles s HI)|apply (inv_alive s HI)|apply (inv_ids s HI)|apply (inv_sorted s HI)|apply (inv_max s HI)|apply (inv_max_lo s HI)|apply (inv_nonzero s HI)]).
    all: intros j n; unfold s2; cbn [master]; destruct (Nat.eq_dec i j) as [Ej|Ej];
      [subst j; erewrite nth_error_upd_same by exact E; intros Hn; inversion Hn; cbn; eapply inv_idx; eauto
      |rewrite nth_error_upd_other by exact Ej; apply (inv_idx s HI)].
  - intros H. inversion H. apply inv_empty. reflexivity.
  - intros H. inversion H. apply inv_empty. reflexivity.
  - intros H. inversion H. subst. destruct (next_file_id_gt (maxid s) (inv_max_lo s HI)).
    apply (inv_insts_ext s); cbn [master sorted maxid]; try reflexivity; try lia; [exact HI|]. auto.
Qed.

Lemma step_no_crash s o : Inv s -> step s o <> Crash.
Proof.
  intros HI. destruct o as [id name|h state|i|h|i state| | |]; cbn [step]; try discriminate.
  - destruct (inst_alive s h); discriminate.
  - destruct (nth_error (master s) i); discriminate.
  - destruct (inst_alive s h) eqn:Ha; [|discriminate].
    destruct (in_master h (master s)) eqn:Hm; [|discriminate]. apply in_master_spec in Hm.
    assert (F : m_find (inst_id s h) (sorted s) = Some h) by (apply (inv_sorted s HI); auto).
    rewrite F. destruct (find_node_spec h (master s) Hm) as [n [Fn _]]. rewrite Fn. discriminate.
  - destruct (nth_error (master s) i); [destruct state|]; discriminate.
Qed.

Lemma step'_inv s o : Inv s -> Inv (step' s o).
Proof.
  intros HI. unfold step'. destruct (step s o) eqn:E; try exact HI. eapply step_inv; eauto.
Qed.

Lemma run_inv_from ops s : Inv s -> Inv (fold_left step' ops s).
Proof.
  revert s. induction ops as [|o r IH]; intros s HI; cbn [fold_left]; [exact HI|].
  apply IH. apply step'_inv. exact HI.
Qed.

Lemma run_inv ops : Inv (run ops).
Proof. apply run_inv_from. exact inv_init. Qed.

(* ------------------------------------------------------------------ *)
(* queries against the list/dictionary specification                   *)

(* abstraction: the live instances in insertion order *)
Definition abs (s : mgr) : list (nat * Z * N * st) :=
  map (fun n => (n_inst n, inst_id s (n_inst n), inst_name s (n_inst n), n_state n)) (master s).

Lemma q_count_spec s : q_count s = Z.of_nat (length (abs s)).
Proof. unfold q_count, abs. rewrite map_length. reflexivity. Qed.

Lemma q_inst_at_spec s i :
  q_inst_at s i = option_map (fun x => fst (fst (fst x))) (nth_error (abs s) i).
Proof. unfold q_inst_at, abs. rewrite nth_error_map. destruct (nth_error (master s) i); reflexivity. Qed.

Lemma q_index_at_spec s i : Inv s -> (i < length (abs s))%nat -> q_index_at s i = Some (Z.of_nat i).
Proof.
  intros HI Hlt. unfold abs in Hlt. rewrite map_length in Hlt. unfold q_index_at.
  destruct (nth_error (master s) i) eqn:E.
  - cbn. f_equal. eapply inv_idx; eauto.
  - apply nth_error_None in E. lia.
Qed.

Lemma q_find_spec s k h :
  Inv s -> (q_find s k = Some h <-> exists nm state, In (h, k, nm, state) (abs s)).
Proof.
  intros HI. unfold q_find. rewrite (inv_sorted s HI). unfold abs, handles. split.
  - intros [Hin Hk]. apply in_map_iff in Hin. destruct Hin as [n [E Hin]]. subst.
    exists (inst_name s (n_inst n)), (n_state n). apply in_map_iff. exists n. auto.
  - intros [nm [state Hin]]. apply in_map_iff in Hin. destruct Hin as [n [E Hin]]. inversion E. subst.
    split; [apply in_map; exact Hin|reflexivity].
Qed.

Lemma ids_unique s : Inv s -> NoDup (map (fun x => snd (fst (fst x))) (abs s)).
Proof.
  intros HI. unfold abs. rewrite map_map. cbn. apply (inv_ids s HI).
Qed.

Lemma q_find_none_spec s k :
  Inv s -> (q_find s k = None <-> ~ In k (live_ids s)).
Proof.
  intros HI. split.
  - apply find_none_not_live. exact HI.
  - intros Hn. unfold q_find. destruct (m_find k (sorted s)) eqn:F; [|reflexivity].
    exfalso. apply Hn. apply (inv_sorted s HI) in F. destruct F as [Hin Hk].
    rewrite live_ids_alt. apply in_map_iff. eauto.
Qed.

Lemma q_kwcount_spec s name :
  q_kwcount s name = Z.of_nat (length (filter (fun x => N.eqb (snd (fst x)) name) (abs s))).
Proof.
  unfold q_kwcount, abs. f_equal.
  induction (master s) as [|n r IH]; cbn; [reflexivity|].
  destruct (N.eqb (inst_name s (n_inst n)) name); cbn; rewrite IH; reflexivity.
Qed.

Fixpoint spec_first (name : N) (l : list (nat * Z * N * st)) : option nat :=
  match l with
  | [] => None
  | x :: r => if N.eqb (snd (fst x)) name then Some (fst (fst (fst x))) else spec_first name r
  end.

Lemma q_by_name_spec s name start :
  q_by_name s name start = spec_first name (skipn start (abs s)).
Proof.
  unfold q_by_name, abs. rewrite skipn_map.
  induction (skipn start (master s)) as [|n r IH]; cbn; [reflexivity|].
  destruct (N.eqb (inst_name s (n_inst n)) name); [reflexivity|exact IH].
Qed.

Lemma max_ge_live s : Inv s -> forall k, In k (live_ids s) -> k <= maxid s.
Proof. apply ids_le_max. Qed.

(* maxid only goes down when the manager is emptied *)
Lemma maxid_monotone s o s' :
  Inv s -> step s o = Ok s' -> o <> OClear -> o <> ODeleteAll -> maxid s <= maxid s'.
Proof.
  intros HI. destruct o as [id name|h state|i|h|i state| | |]; cbn [step]; intros H Hc Hd; try congruence.
  - inversion H. cbn. lia.
  - destruct (inst_alive s h) eqn:Ha; [|discriminate]. inversion H. subst.
    destruct (append_correct s h state HI Ha) as [_ [Hin E| id]]; [rewrite E; lia|assumption].
  - destruct (nth_error (master s) i) eqn:E; [|discriminate]. inversion H. cbn. lia.
  - destruct (inst_alive s h); [|discriminate].
    destruct (in_master h (master s)); [|inversion H; subst; lia].
    destruct (m_find (inst_id s h) (sorted s)); [|discriminate].
    destruct (find_node n (master s)); [|discriminate]. inversion H. cbn. lia.
  - destruct (nth_error (master s) i); [|discriminate]. destruct state; inversion H; cbn; lia.
  - inversion H. cbn. destruct (next_file_id_gt (maxid s) (inv_max_lo s HI)). lia.
Qed.
