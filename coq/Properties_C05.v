(* C05 -- reading and writing Part 21 is memory-safe and terminates: the part that is logic.
   Only statements closed by [exact]. *)
From Coq Require Import List ZArith Bool NArith.
From SC Require Import gen.P21Buffers gen.Consts P21Safe P21Safe_Proofs P21Lex P21Lex_Proofs.
Import ListNotations.
Local Open Scope Z_scope.

(* The scratch buffers the property names, with sizes and fill bounds regenerated from the
   sources on every run, are never written past their end, whatever the input length. *)
Theorem c05_entnode_name_in_bounds : forall len, 0 <= len -> entnode_extent len <= entnode_name_size.
Proof. exact entnode_name_in_bounds. Qed.
Print Assumptions c05_entnode_name_in_bounds.

Theorem c05_pretty_name_in_bounds : forall l, 0 <= pretty_loop l 0 < pretty_buf_size.
Proof. exact pretty_name_in_bounds. Qed.
Print Assumptions c05_pretty_name_in_bounds.

Theorem c05_complex_name_array_in_bounds : forall n, 0 <= n -> 0 <= ena_terminator_index n < ena_size.
Proof. exact ena_terminator_in_bounds. Qed.
Print Assumptions c05_complex_name_array_in_bounds.

(* no case-conversion helper copies into a fixed buffer without a bound any more, and embedded
   aggregates are skipped with a counter instead of one stack frame per nesting level *)
Theorem c05_no_unbounded_scratch_copies : unbounded_case_helpers = 0 /\ imbed_aggr_recursive = false.
Proof. exact no_unbounded_helpers. Qed.
Print Assumptions c05_no_unbounded_scratch_copies.

(* ReadReal's 64-byte token buffer (model P21Lex.v, proved for every input stream) *)
Theorem c05_read_real_buffer : forall s, READREAL_BUF = 0 \/ read_real_buf_index s < READREAL_BUF.
Proof. exact read_real_buffer_safe. Qed.
Print Assumptions c05_read_real_buffer.
