From Coq Require Import List NArith Bool Lia.
From SC Require Import PyGen.
Import ListNotations.
Local Open Scope N_scope.

(* ---------- bubble sort leaves an already ordered list alone ---------- *)
Lemma bubble_pass_sorted len x l :
  nonincreasing len (x :: l) = true -> bubble_pass len x l = (x :: l, false).
Proof.
  revert x. induction l as [|y r IH]; intros x H; [reflexivity|].
  cbn [nonincreasing] in H. apply andb_prop in H. destruct H as [H1 H2].
  cbn [bubble_pass]. apply N.leb_le in H1.
  destruct (N.ltb_spec (len x) (len y)) as [L|L]; [lia|].
  rewrite (IH y H2). reflexivity.
Qed.

Lemma bubble_sort_sorted n len l : nonincreasing len l = true -> bubble_sort n len l = l.
Proof.
  destruct n as [|n]; [reflexivity|]. destruct l as [|x r]; [reflexivity|].
  intros H. cbn [bubble_sort]. rewrite (bubble_pass_sorted len x r H). reflexivity.
Qed.

(* ---------- removing duplicates ---------- *)
Definition mem (a : attr) (s : list attr) : bool := existsb (attr_eqb a) s.

Lemma attr_eqb_refl a : attr_eqb a a = true.
Proof. unfold attr_eqb. rewrite !N.eqb_refl. reflexivity. Qed.

Lemma attr_eqb_cong a b : attr_eqb a b = true -> forall z, attr_eqb a z = attr_eqb b z.
Proof.
  unfold attr_eqb. intros H z. apply andb_prop in H. destruct H as [H1 H2].
  apply N.eqb_eq in H1. apply N.eqb_eq in H2. rewrite H1, H2. reflexivity.
Qed.

Lemma mem_cong a b s : attr_eqb a b = true -> mem a s = mem b s.
Proof.
  intros H. unfold mem. induction s as [|z s IH]; [reflexivity|].
  cbn [existsb]. rewrite IH, (attr_eqb_cong a b H z). reflexivity.
Qed.

Definition sub (s' s : list attr) : Prop := forall x, mem x s' = true -> mem x s = true.

Lemma sub_cons_in x s' s : sub s' s -> mem x s = true -> sub (x :: s') s.
Proof.
  intros S M y. unfold mem at 1. cbn [existsb]. fold (mem y s'). intros H.
  apply orb_prop in H. destruct H as [H|H]; [|apply S; exact H].
  rewrite (mem_cong y x s H). exact M.
Qed.

Lemma sub_cons_cons x s' s : sub s' s -> sub (x :: s') (x :: s).
Proof.
  intros S y. unfold mem. cbn [existsb]. intros H. apply orb_prop in H.
  destruct H as [H|H]; [rewrite H; reflexivity|]. apply S in H. unfold mem in H. rewrite H. apply orb_true_r.
Qed.

Lemma dedup_absorb a : forall s s' b, sub s' s ->
  dedup_acc s (dedup_acc s' a ++ b) = dedup_acc s (a ++ b).
Proof.
  induction a as [|x r IH]; intros s s' b S; [reflexivity|].
  cbn [dedup_acc app]. fold (mem x s'). fold (mem x s).
  destruct (mem x s') eqn:M'.
  - rewrite (S x M'). apply IH. exact S.
  - cbn [app dedup_acc]. fold (mem x s). destruct (mem x s) eqn:M.
    + apply IH. apply sub_cons_in; assumption.
    + f_equal. apply IH. apply sub_cons_cons. exact S.
Qed.

Fixpoint seen_after (s : list attr) (l : list attr) : list attr :=
  match l with
  | [] => s
  | a :: r => if mem a s then seen_after s r else seen_after (a :: s) r
  end.

Lemma dedup_app a : forall s b, dedup_acc s (a ++ b) = dedup_acc s a ++ dedup_acc (seen_after s a) b.
Proof.
  induction a as [|x r IH]; intros s b; [reflexivity|].
  cbn [app dedup_acc seen_after]. fold (mem x s). destruct (mem x s).
  - apply IH.
  - cbn [app]. f_equal. apply IH.
Qed.

Lemma sub_nil s : sub [] s.
Proof. intros x H. discriminate H. Qed.

Lemma dedup_flat_absorb (g : N -> list attr) l : forall s X,
  dedup_acc s (flat_map (fun i => dedup (g i)) l ++ X) = dedup_acc s (flat_map g l ++ X).
Proof.
  induction l as [|i r IH]; intros s X; [reflexivity|].
  cbn [flat_map]. rewrite <- !app_assoc. unfold dedup at 1.
  rewrite (dedup_absorb (g i) s [] _ (sub_nil s)).
  rewrite (dedup_app (g i) s (flat_map (fun i => dedup (g i)) r ++ X)), (dedup_app (g i) s (flat_map g r ++ X)).
  f_equal. apply IH.
Qed.

(* ---------- generator vs ISO order ---------- *)
Lemma lookup_In G i e : lookup G i = Some e -> In e G.
Proof.
  induction G as [|x r IH]; cbn [lookup]; [discriminate|].
  destruct (e_id x =? i); [intros E; injection E as <-; left; reflexivity|intros H; right; apply IH; exact H].
Qed.

Lemma filter_flat_map {A B} (P : B -> bool) (f : A -> list B) l :
  filter P (flat_map f l) = flat_map (fun x => filter P (f x)) l.
Proof.
  induction l as [|x r IH]; [reflexivity|]. cbn [flat_map]. rewrite filter_app, IH. reflexivity.
Qed.

Section Ordered.
Variable G : schema.
(* every entity lists its supertypes deepest first already: the generator's sort is the identity *)
Hypothesis H : forall e, In e G -> nonincreasing (depth G) (e_supers e) = true.

Lemma sorted_id e : In e G -> sorted_supers G e = e_supers e.
Proof. intros I. unfold sorted_supers. apply bubble_sort_sorted, H, I. Qed.

Lemma all_vs_p21 fuel : forall i, dedup (filter is_explicit (all_attrs fuel G i)) = p21_all fuel G i.
Proof.
  induction fuel as [|f IH]; intros i; [reflexivity|].
  cbn [all_attrs p21_all]. destruct (lookup G i) as [e|] eqn:L; [|reflexivity].
  rewrite (sorted_id e (lookup_In _ _ _ L)).
  rewrite filter_app, filter_flat_map.
  rewrite (flat_map_ext (p21_all f G) (fun s => dedup (filter is_explicit (all_attrs f G s)))) by (intros; symmetry; apply IH).
  unfold dedup at 2. rewrite (dedup_flat_absorb (fun s => filter is_explicit (all_attrs f G s))). reflexivity.
Qed.

Theorem ctor_is_p21_up_to_repeats fuel e : In e G ->
  dedup (gen_ctor fuel G e) = p21_ctor fuel G e.
Proof.
  intros I. unfold gen_ctor, p21_ctor. rewrite (sorted_id e I), filter_flat_map.
  rewrite (flat_map_ext (p21_all fuel G) (fun s => dedup (filter is_explicit (all_attrs fuel G s)))) by (intros; symmetry; apply all_vs_p21).
  unfold dedup at 2. rewrite (dedup_flat_absorb (fun s => filter is_explicit (all_attrs fuel G s))). reflexivity.
Qed.

Corollary ctor_is_p21 fuel e : In e G ->
  dedup (gen_ctor fuel G e) = gen_ctor fuel G e ->       (* no ancestor is reached twice *)
  gen_ctor fuel G e = p21_ctor fuel G e.
Proof. intros I D. rewrite <- D. apply ctor_is_p21_up_to_repeats, I. Qed.

Theorem bases_in_declaration_order e : In e G -> gen_bases G e = e_supers e.
Proof. exact (sorted_id e). Qed.
End Ordered.

(* ---------- where the generator departs from the ISO order ---------- *)
Definition mk (i : N) (sup : list N) (n : N) : ent :=
  {| e_id := i; e_supers := sup; e_attrs := map (fun k => {| a_owner := i; a_index := k; a_kind := Explicit |}) (firstn (N.to_nat n) [0; 1; 2]) |}.

(* diamond: d(b, c), b(a), c(a): a's attribute is a constructor parameter twice *)
Definition G_diamond : schema := [mk 1 [] 1; mk 2 [1] 1; mk 3 [1] 1; mk 4 [2; 3] 1].
Lemma diamond_refuted :
  (forall e, In e G_diamond -> nonincreasing (depth G_diamond) (e_supers e) = true) /\
  exists e, In e G_diamond /\ gen_ctor 5 G_diamond e <> p21_ctor 5 G_diamond e /\
            length (gen_ctor 5 G_diamond e) = 5%nat /\ length (p21_ctor 5 G_diamond e) = 4%nat.
Proof.
  split.
  - intros e [<-|[<-|[<-|[<-|[]]]]]; vm_compute; reflexivity.
  - exists (mk 4 [2; 3] 1). split; [right; right; right; left; reflexivity|]. vm_compute. repeat split. discriminate.
Qed.

(* supertypes of different depth: e(a, c) with c(b): bases come out as (c, a) *)
Definition G_depth : schema := [mk 1 [] 1; mk 2 [] 1; mk 3 [2] 1; mk 4 [1; 3] 1].
Lemma depth_order_refuted :
  exists e, In e G_depth /\ gen_bases G_depth e <> e_supers e /\ gen_ctor 5 G_depth e <> p21_ctor 5 G_depth e.
Proof.
  exists (mk 4 [1; 3] 1). split; [right; right; right; left; reflexivity|]. vm_compute. split; discriminate.
Qed.
