(* C07: a reader for the token language exppp prints expressions in (coq/ExpPP.v).  It uses no
   operator precedence at all: an operand is an atom or a parenthesised expression, and an
   unparenthesised run  x o y o z  is accepted only when every operator is the same chain
   operator (or there is exactly one operator).  That such a reader recovers the flattened tree
   from the printed text (ExpParse_Proofs.v) says that exppp never relies on precedence or on
   the associativity of a non-chain operator to be understood.  No proofs here. *)
From Coq Require Import List NArith Bool.
From SC Require Import gen.PPRule ExpPP.
Import ListNotations.
Local Open Scope N_scope.

Section Step.
  (* the reader for the inside of a pair of parentheses, one level of fuel down *)
  Variable body : list tok -> option (ct * list tok).

  Definition operand (ts : list tok) : option (ct * list tok) :=
    match ts with
    | TAtom a :: r => Some (CA a, r)
    | TLP :: r =>
      match body r with
      | Some (t, TRP :: r') => Some (t, r')
      | _ => None
      end
    | _ => None
    end.

  (* ( op operand )* *)
  Fixpoint oploop (n : nat) (ts : list tok) : option (list (N * ct) * list tok) :=
    match n with
    | O => None
    | S n' =>
      match ts with
      | TOp o :: r =>
        match operand r with
        | Some (x, r') =>
          match oploop n' r' with
          | Some (l, r'') => Some ((o, x) :: l, r'')
          | None => None
          end
        | None => None
        end
      | _ => Some ([], ts)
      end
    end.

  Definition assemble (x0 : ct) (l : list (N * ct)) : option ct :=
    match l with
    | [] => Some x0
    | (o, x1) :: more =>
      if forallb (fun p => fst p =? o) more then
        if is_chain o then Some (CC o (x0 :: x1 :: map snd more))
        else match more with [] => Some (CB o x0 x1) | _ => None end
      else None
    end.

  Definition body_step (n : nat) (ts : list tok) : option (ct * list tok) :=
    match ts with
    | TUn o :: r =>
      match operand r with
      | Some (x, r') => Some (CU o x, r')
      | None => None
      end
    | _ =>
      match operand ts with
      | Some (x0, r) =>
        match oploop n r with
        | Some (l, r') =>
          match assemble x0 l with
          | Some t => Some (t, r')
          | None => None
          end
        | None => None
        end
      | None => None
      end
    end.
End Step.

Fixpoint parse_body (fuel : nat) (ts : list tok) : option (ct * list tok) :=
  match fuel with
  | O => None
  | S f => body_step (parse_body f) fuel ts
  end.

(* the whole text of an expression; fuel = number of tokens + 1 is always enough *)
Definition parse (ts : list tok) : option ct :=
  match parse_body (S (length ts)) ts with
  | Some (t, []) => Some t
  | _ => None
  end.

(* size of a flattened tree, and the trees the printer can be asked to print *)
Fixpoint size (t : ct) : nat :=
  match t with
  | CA _ => 1
  | CU _ x => S (size x)
  | CB _ l r => S (size l + size r)%nat
  | CC _ xs => S ((fix sum (xs : list ct) : nat := match xs with [] => O | x :: r => (size x + sum r)%nat end) xs)
  end.

Fixpoint ops_known (e : expr) : bool :=
  match e with
  | Atom _ => true
  | Un _ x => ops_known x
  | Bin o l r => negb (o =? OP_UNKNOWN) && ops_known l && ops_known r
  end.

Fixpoint known (t : ct) : bool :=
  match t with
  | CA _ => true
  | CU _ x => known x
  | CB o l r => negb (o =? OP_UNKNOWN) && known l && known r
  | CC o xs => (fix all (xs : list ct) : bool := match xs with [] => true | x :: r => known x && all r end) xs
  end.
