From Coq Require Import List ZArith Bool Lia.
From SC Require Import gen.ErrArena ErrBuf.
Import ListNotations.
Local Open Scope Z_scope.

Lemma kb_slots : EB_MAX_ERRORS < EB_HEAP_SLOTS. Proof. vm_compute. reflexivity. Qed.
Lemma kb_errors : 1 <= EB_MAX_ERRORS. Proof. vm_compute. discriminate. Qed.

(* memory safety of the buffer does not depend on the measuring step: the writes are bounded by what is left (vsnprintf),
   so it is enough that they start inside the arena and that the heap slot exists - for every run *)
Lemma kb_space : 0 <= EB_MAX_SPACE. Proof. vm_compute. discriminate. Qed.

Lemma inv_mem_spec s : inv_mem s = true <-> 0 <= used s /\ used s <= EB_MAX_SPACE /\ 0 <= cnt s /\ cnt s < EB_MAX_ERRORS.
Proof. unfold inv_mem. rewrite !andb_true_iff, !Z.leb_le, Z.ltb_lt. tauto. Qed.

Lemma inv_mem_init : inv_mem init = true.
Proof. apply inv_mem_spec. cbn [init used cnt]. pose proof kb_space. pose proof kb_errors. lia. Qed.

Lemma report_mem s m : inv_mem s = true -> msg_ok m = true ->
  inv_mem (fst (report s m)) = true /\ what_mem (snd (report s m)) = true.
Proof.
  intros Hi Hm.
  assert (Hpos : 0 <= stored_len m).
  { unfold msg_ok in Hm. unfold stored_len, prefix_len.
    apply andb_prop in Hm. destruct Hm as [Hm H4]. apply andb_prop in Hm. destruct Hm as [Hm H3]. apply andb_prop in Hm. destruct Hm as [H1 H2].
    apply Z.leb_le in H1, H2, H3, H4. unfold EB_PREFIX_FIXED, EB_CODE_DIGITS, EB_TAIL. lia. }
  pose proof kb_space as S0. pose proof kb_slots as KS. pose proof kb_errors as KE.
  unfold report.
  set (s1 := if EB_MEASURES_FIRST && (EB_MAX_SPACE - used s <? need m) then init else s).
  assert (I1 : inv_mem s1 = true) by (subst s1; destruct (EB_MEASURES_FIRST && (EB_MAX_SPACE - used s <? need m)); [apply inv_mem_init|exact Hi]).
  apply inv_mem_spec in I1. destruct I1 as [V0 [V1 [D0 D1]]].
  destruct (EB_MEASURES_FIRST && (EB_MAX_SPACE <? need m)).
  - cbn [fst snd what_mem]. split; [|reflexivity]. apply inv_mem_spec. lia.
  - cbn [fst snd]. split.
    + destruct ((EB_MAX_SPACE <? Z.min EB_MAX_SPACE (used s1 + stored_len m) + EB_MAX_STRLEN) || (cnt s1 + 1 =? EB_MAX_ERRORS)) eqn:G.
      * apply inv_mem_init.
      * apply orb_false_iff in G. destruct G as [_ G2]. apply Z.eqb_neq in G2.
        apply inv_mem_spec. cbn [used cnt]. lia.
    + unfold what_mem. rewrite !andb_true_iff, !Z.leb_le, Z.ltb_lt. lia.
Qed.

Theorem run_mem : forall ms s, inv_mem s = true -> forallb msg_ok ms = true ->
  inv_mem (fst (run s ms)) = true /\ forallb what_mem (snd (run s ms)) = true.
Proof.
  induction ms as [|m r IH]; intros s Hi Hm.
  - cbn. split; [exact Hi|reflexivity].
  - cbn [forallb] in Hm. apply andb_prop in Hm. destruct Hm as [Hm Hr].
    destruct (report_mem s m Hi Hm) as [Hi' Hw].
    cbn [run]. destruct (report s m) as [s' w] eqn:E. cbn [fst snd] in Hi', Hw.
    specialize (IH s' Hi' Hr). destruct (run s' r) as [s'' ws] eqn:E2. cbn [fst snd] in IH |- *.
    destruct IH as [IH1 IH2]. split; [exact IH1|]. cbn [forallb]. rewrite Hw, IH2. reflexivity.
Qed.

Theorem buffer_writes_start_in_bounds : forall ms, forallb msg_ok ms = true ->
  forall w, In w (snd (run init ms)) ->
  match w with
  | Direct => True
  | Stored a slot _ => 0 <= a <= EB_MAX_SPACE /\ 1 <= slot < EB_HEAP_SLOTS
  end.
Proof.
  intros ms Hm w Hin.
  destruct (run_mem ms init inv_mem_init Hm) as [_ H].
  pose proof (proj1 (forallb_forall _ _) H w Hin) as Hw.
  destruct w as [|a slot cut]; [exact I|].
  unfold what_mem in Hw. rewrite !andb_true_iff, !Z.leb_le, Z.ltb_lt in Hw. lia.
Qed.
