(* C11 -- inverse attributes resolved on load contain exactly the real referrers.
   [resolve_inverse] mirrors lazyRefs: candidates are the distinct entries of the
   reverse table for x, narrowed by type (E or a subtype) and by whether attribute
   a of E really refers to x.  For any population with unique ids, any subtype
   relation and any inverse declaration: none missing, none extra, none twice;
   instances that mention x only through another attribute are not included. *)
From Coq Require Import List ZArith Bool.
From SC Require Import Lazy Lazy_Proofs.
From SC Require SuperIter SuperIter_Proofs.
Import ListNotations.
Local Open Scope Z_scope.

Theorem c11_inverse_exact : forall isa pop x ent attr,
  NoDup (map r_id pop) ->
  let rev := snd (build (map (fun i => (r_id i, all_refs i)) pop)) in
  let res := resolve_inverse isa pop rev x ent attr in
  NoDup res /\
  forall y, In y res <-> exists i, In i pop /\ r_id i = y /\ isa (r_type i) ent = true /\ In x (attr_refs i ent attr).
Proof. exact inverse_exact. Qed.
Print Assumptions c11_inverse_exact.

Example c11_example :
  (* types: 1 = owner, 2 = special_owner (subtype of 1), 3 = other; attributes named by numbers *)
  let isa := fun t e => orb (Z.eqb t e) (andb (Z.eqb t 2) (Z.eqb e 1)) in
  let pop := [ {| r_id := 10; r_type := 1; r_attrs := [(1, 7, [20; 21])] |};
               {| r_id := 11; r_type := 2; r_attrs := [(1, 7, [20; 20]); (2, 8, [21])] |};
               {| r_id := 12; r_type := 3; r_attrs := [(3, 7, [20])] |};
               {| r_id := 13; r_type := 1; r_attrs := [(1, 9, [20])] |} ] in
  let rev := snd (build (map (fun i => (r_id i, all_refs i)) pop)) in
  resolve_inverse isa pop rev 20 1 7 = [10; 11] /\ resolve_inverse isa pop rev 21 1 7 = [10].
Proof. vm_compute. split; reflexivity. Qed.

(* which inverse attributes an instance has entries for at all (SDAI_Application_instance::InitIAttrs over
   superInvAttrIter, coq/SuperIter.v): exactly those the entity declares itself and those declared by an entity above it -
   a parent, a grandparent, a second supertype, at any height.  (None: a supertype graph with a cycle, which EXPRESS forbids.) *)
Theorem c11_every_inherited_inverse_has_an_entry : forall G fuel e l,
  SuperIter.init_iattrs fuel G e = Some l ->
  forall i, In i l <-> (In i (SuperIter.invs G e) \/
                        exists a, SuperIter.above G (SuperIter.supers G e) a /\ In i (SuperIter.invs G a)).
Proof. exact SuperIter_Proofs.init_iattrs_exact. Qed.
Print Assumptions c11_every_inherited_inverse_has_an_entry.

(* schemas/verif_inv.exp in small: 1 part (attributes 11 12), 2 special_part < 1 (21), 3 very_special_part < 2, 4 tagged (41),
   5 tagged_part < 1, 4 *)
Example c11_entries_example :
  let G := {| SuperIter.s_supers := [(2, [1]); (3, [2]); (5, [1; 4])]%N;
              SuperIter.s_invs := [(1, [11; 12]); (2, [21]); (4, [41])]%N |} in
  SuperIter.init_iattrs 10 G 3%N = Some [21; 11; 12]%N /\
  SuperIter.init_iattrs 10 G 5%N = Some [11; 12; 41]%N /\
  SuperIter.init_iattrs 10 G 1%N = Some [11; 12]%N.
Proof. vm_compute. repeat split. Qed.
