(* C11 -- inverse attributes resolved on load contain exactly the real referrers.
   [resolve_inverse] mirrors lazyRefs: candidates are the distinct entries of the
   reverse table for x, narrowed by type (E or a subtype) and by whether attribute
   a of E really refers to x.  For any population with unique ids, any subtype
   relation and any inverse declaration: none missing, none extra, none twice;
   instances that mention x only through another attribute are not included. *)
From Coq Require Import List ZArith Bool.
From SC Require Import Lazy Lazy_Proofs.
Import ListNotations.
Local Open Scope Z_scope.

Theorem c11_inverse_exact : forall isa pop x ent attr,
  NoDup (map r_id pop) ->
  let rev := snd (build (map (fun i => (r_id i, all_refs i)) pop)) in
  let res := resolve_inverse isa pop rev x ent attr in
  NoDup res /\
  forall y, In y res <-> exists i, In i pop /\ r_id i = y /\ isa (r_type i) ent = true /\ In x (attr_refs i ent attr).
Proof. exact inverse_exact. Qed.
Print Assumptions c11_inverse_exact.

Example c11_example :
  (* types: 1 = owner, 2 = special_owner (subtype of 1), 3 = other; attributes named by numbers *)
  let isa := fun t e => orb (Z.eqb t e) (andb (Z.eqb t 2) (Z.eqb e 1)) in
  let pop := [ {| r_id := 10; r_type := 1; r_attrs := [(1, 7, [20; 21])] |};
               {| r_id := 11; r_type := 2; r_attrs := [(1, 7, [20; 20]); (2, 8, [21])] |};
               {| r_id := 12; r_type := 3; r_attrs := [(3, 7, [20])] |};
               {| r_id := 13; r_type := 1; r_attrs := [(1, 9, [20])] |} ] in
  let rev := snd (build (map (fun i => (r_id i, all_refs i)) pop)) in
  resolve_inverse isa pop rev 20 1 7 = [10; 11] /\ resolve_inverse isa pop rev 21 1 7 = [10].
Proof. vm_compute. split; reflexivity. Qed.
