From Coq Require Import List ZArith Bool NArith Lia.
From SC.gen Require Import SevTable.
From SC Require Import P21Lex P21Str.
Import ListNotations.
Local Open Scope N_scope.

Definition Inv (racc : list byte) : Prop := ends_with_page racc = false.

Lemma loop_noapos : forall bs l racc,
  forallb (fun c => negb (c =? APOS)) bs = true ->
  lit_loop (bs ++ l) racc true = lit_loop l (rev bs ++ racc) true.
Proof.
  induction bs as [|c bs IH]; intros l racc H; [reflexivity|].
  cbn [forallb] in H. apply andb_prop in H. destruct H as [Hc Hbs].
  apply negb_true_iff in Hc.
  cbn [app lit_loop]. rewrite Hc. cbn [negb]. rewrite IH by exact Hbs.
  cbn [rev]. rewrite <- app_assoc. reflexivity.
Qed.

Lemma ends_with_page_app x y : (3 <= length x)%nat -> ends_with_page (x ++ y) = ends_with_page x.
Proof.
  intros H. destruct x as [|a [|b [|c x']]]; cbn [length] in H; try lia. reflexivity.
Qed.

Lemma item_step i l racc : item_ok i = true -> Inv racc ->
  lit_loop (itext i ++ l) racc true = lit_loop l (rev (itext i) ++ racc) true /\ Inv (rev (itext i) ++ racc).
Proof.
  unfold Inv. intros Ok I. destruct i as [c| | |c|bs]; cbn [itext].
  - cbn [item_ok] in Ok. apply andb_prop in Ok. destruct Ok as [Ha Hb].
    apply negb_true_iff in Ha. apply negb_true_iff in Hb.
    cbn [app lit_loop rev]. rewrite Ha. cbn [negb]. split; [reflexivity|].
    destruct racc as [|x [|y r]]; cbn [ends_with_page]; try reflexivity. rewrite Hb. reflexivity.
  - cbn [app lit_loop rev]. change (APOS =? APOS) with true. cbv iota. rewrite I.
    cbn [negb]. split; [|destruct racc as [|x r]; reflexivity].
    assert (E : ends_with_page (APOS :: racc) = false) by (destruct racc as [|x [|y r]]; reflexivity).
    rewrite E. reflexivity.
  - cbn [app lit_loop rev]. change (BSL =? APOS) with false. cbv iota. cbn [negb].
    split; [reflexivity|]. destruct racc as [|x r]; reflexivity.
  - cbn [app lit_loop rev]. change (BSL =? APOS) with false. change (CAP_S =? APOS) with false. cbv iota. cbn [negb].
    destruct (c =? APOS) eqn:E.
    + assert (P : ends_with_page (BSL :: CAP_S :: BSL :: racc) = true) by reflexivity.
      rewrite P. split; [reflexivity|]. cbn [app ends_with_page]. change (BSL =? CAP_S) with false.
      rewrite andb_false_r. reflexivity.
    + split; [reflexivity|]. cbn [app ends_with_page]. change (BSL =? CAP_S) with false.
      rewrite andb_false_r. reflexivity.
  - cbn [item_ok] in Ok. apply andb_prop in Ok. destruct Ok as [Ok Hp]. apply andb_prop in Ok. destruct Ok as [Hn Hl].
    apply negb_true_iff in Hp. apply N.leb_le in Hl.
    split; [apply loop_noapos; exact Hn|].
    rewrite ends_with_page_app; [exact Hp|]. rewrite rev_length. lia.
Qed.

Lemma items_steps : forall its l racc, forallb item_ok its = true -> Inv racc ->
  lit_loop (body its ++ l) racc true = lit_loop l (rev (body its) ++ racc) true /\ Inv (rev (body its) ++ racc).
Proof.
  induction its as [|i its IH]; intros l racc Ok I.
  - split; [reflexivity | exact I].
  - cbn [forallb] in Ok. apply andb_prop in Ok. destruct Ok as [Oi Ot].
    unfold body. cbn [flat_map]. fold (body its). rewrite <- app_assoc.
    destruct (item_step i (body its ++ l) racc Oi I) as [E1 I1]. rewrite E1.
    destruct (IH l (rev (itext i) ++ racc) Ot I1) as [E2 I2]. rewrite E2.
    rewrite rev_app_distr, <- app_assoc. split; [reflexivity|].
    exact I2.
Qed.

Definition not_apos_head (l : list byte) : Prop := match l with c :: _ => (c =? APOS) = false | [] => True end.

(* a well-formed literal followed by anything but an apostrophe is read exactly, nothing of
   what follows is consumed, and no error is raised *)
Theorem literal_extent its rest : forallb item_ok its = true -> not_apos_head rest ->
  get_literal (APOS :: body its ++ APOS :: rest) = (APOS :: body its ++ [APOS], false, rest).
Proof.
  intros Ok Hr. unfold get_literal. change (skip_ws (APOS :: body its ++ APOS :: rest)) with (APOS :: body its ++ APOS :: rest).
  change (APOS =? APOS) with true. cbv iota.
  assert (I0 : Inv [APOS]) by reflexivity.
  destruct (items_steps its (APOS :: rest) [APOS] Ok I0) as [E I]. rewrite E.
  cbn [lit_loop]. change (APOS =? APOS) with true. cbv iota. unfold Inv in I. rewrite I. cbn [negb].
  assert (R : rev (APOS :: rev (body its) ++ [APOS]) = APOS :: body its ++ [APOS]).
  { cbn [rev]. rewrite rev_app_distr, rev_involutive. reflexivity. }
  destruct rest as [|c r]; cbn [lit_loop].
  - rewrite R. reflexivity.
  - cbn [not_apos_head] in Hr. rewrite Hr. cbn [negb]. rewrite R. reflexivity.
Qed.

Corollary string_read_wellformed its rest : forallb item_ok its = true -> not_apos_head rest ->
  string_read (APOS :: body its ++ APOS :: rest) = (APOS :: body its ++ [APOS], SEVERITY_NULL, rest).
Proof.
  intros Ok Hr. unfold string_read. rewrite literal_extent by assumption. reflexivity.
Qed.

(* a literal that is never closed is never accepted silently *)
Theorem unclosed_reported its :
  forallb item_ok its = true ->
  exists s, string_read (APOS :: body its) = (s, SEVERITY_INPUT_ERROR, []).
Proof.
  intros Ok. unfold string_read, get_literal.
  change (skip_ws (APOS :: body its)) with (APOS :: body its). change (APOS =? APOS) with true. cbv iota.
  assert (I0 : Inv [APOS]) by reflexivity.
  destruct (items_steps its [] [APOS] Ok I0) as [E _]. rewrite app_nil_r in E. rewrite E.
  cbn [lit_loop]. destruct (rev (rev (body its) ++ [APOS])) as [|x r] eqn:R.
  - apply (f_equal (@length byte)) in R. rewrite rev_length, app_length in R. cbn [length] in R. lia.
  - eexists. reflexivity.
Qed.
