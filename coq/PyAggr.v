(* The Python runtime's aggregate classes (C19), modelled line by line from
   src/exp2python/python/stepcode/AggregationDataTypes.py: ARRAY, LIST, BAG, SET with
   base type INTEGER.  Values are tagged with their Python type so that check_type is
   a comparison.  No proofs here (extracted for the correspondence check). *)
From Coq Require Import List ZArith Bool.
Import ListNotations.
Local Open Scope Z_scope.

Inductive pv := VInt (z : Z) | VStr (z : Z).           (* INTEGER(z) | STRING(..) *)
Definition pv_eqb (a b : pv) : bool :=
  match a, b with VInt x, VInt y => Z.eqb x y | VStr x, VStr y => Z.eqb x y | _, _ => false end.
Definition typed (v : pv) : bool := match v with VInt _ => true | _ => false end.

Inductive exn := IndexError | TypeError | AssertionError.
Inductive b3 := BTrue | BFalse | BUnknown.
Inductive rv := RNone | RVal (v : pv) | RInt (z : Z) | RB (b : b3).
Inductive result := Ok (r : rv) | Raise (e : exn).

Inductive kind := KArray | KList | KBag | KSet.

Record agg := {
  a_kind : kind;
  a_b1 : Z;
  a_b2 : option Z;              (* None = unbounded upper bound *)
  a_unique : bool;
  a_optional : bool;
  a_cont : list (option pv)     (* _container; BAG/SET hold Some only *)
}.

Definition memv (v : pv) (l : list (option pv)) : bool :=
  existsb (fun x => match x with Some w => pv_eqb v w | None => false end) l.
Definition has_none (l : list (option pv)) : bool :=
  existsb (fun x => match x with None => true | _ => false end) l.
Fixpoint dedup (l : list (option pv)) : list (option pv) :=
  match l with
  | [] => []
  | Some v :: r => if memv v r then dedup r else Some v :: dedup r
  | None :: r => if has_none r then dedup r else None :: dedup r
  end.
Definition count_some (l : list (option pv)) : Z :=
  Z.of_nat (length (filter (fun x => match x with Some _ => true | None => false end) l)).
Definition zlen {A} (l : list A) : Z := Z.of_nat (length l).

Fixpoint set_nth {A} (l : list A) (n : nat) (x : A) : list A :=
  match l, n with
  | [], _ => []
  | _ :: r, O => x :: r
  | y :: r, S n' => y :: set_nth r n' x
  end.

(* is v held at a position other than n? *)
Fixpoint mem_other (v : pv) (l : list (option pv)) (n : nat) : bool :=
  match l with
  | [] => false
  | x :: r =>
      match n with
      | O => memv v r
      | S n' => (match x with Some w => pv_eqb v w | None => false end) || mem_other v r n'
      end
  end.

(* constructors: b1 is always an int here; b2 = None only for LIST/BAG/SET *)
Definition new_agg (k : kind) (b1 : Z) (b2 : option Z) (u o : bool) : agg + exn :=
  match k with
  | KArray =>
      match b2 with
      | None => inr TypeError                                   (* "upper bound must be an integer" *)
      | Some n2 =>
          if b1 <=? n2 then inl {| a_kind := k; a_b1 := b1; a_b2 := b2; a_unique := u; a_optional := o;
                                   a_cont := repeat None (Z.to_nat (n2 - b1 + 1)) |}
          else inr AssertionError
      end
  | KList =>
      if negb (0 <=? b1) then inr AssertionError
      else match b2 with
           | Some n2 =>
               if b1 <=? n2 then inl {| a_kind := k; a_b1 := b1; a_b2 := b2; a_unique := u; a_optional := false;
                                        a_cont := repeat None (Z.to_nat (n2 - b1 + 1)) |}
               else inr AssertionError
           | None => inl {| a_kind := k; a_b1 := b1; a_b2 := None; a_unique := u; a_optional := false; a_cont := [None] |}
           end
  | _ =>
      if negb (0 <=? b1) then inr AssertionError
      else match b2 with
           | Some n2 => if b1 <=? n2 then inl {| a_kind := k; a_b1 := b1; a_b2 := b2; a_unique := false; a_optional := false; a_cont := [] |}
                        else inr AssertionError
           | None => inl {| a_kind := k; a_b1 := b1; a_b2 := None; a_unique := false; a_optional := false; a_cont := [] |}
           end
  end.

Definition with_cont (a : agg) (c : list (option pv)) : agg :=
  {| a_kind := a_kind a; a_b1 := a_b1 a; a_b2 := a_b2 a; a_unique := a_unique a; a_optional := a_optional a; a_cont := c |}.

Inductive op :=
| OGet (i : Z) | OSet (i : Z) (v : pv) | OAdd (v : pv)
| QSize | QHiIndex | QLoIndex | QHiBound | QLoBound | QUnique.

Definition opt_z (o : option Z) : rv := match o with Some z => RInt z | None => RNone end.

Definition value_unique (size : Z) (c : list (option pv)) : rv :=
  if has_none c then RB BUnknown
  else if 0 <? size - zlen (dedup c) then RB BFalse else RB BTrue.

(* ---- ARRAY ---- *)
Definition array_step (a : agg) (o : op) : agg * result :=
  let b1 := a_b1 a in
  let b2 := match a_b2 a with Some z => z | None => b1 end in
  match o with
  | OGet i =>
      if i <? b1 then (a, Raise IndexError)
      else if b2 <? i then (a, Raise IndexError)
      else match nth (Z.to_nat (i - b1)) (a_cont a) None with
           | None => if a_optional a then (a, Ok RNone) else (a, Raise AssertionError)
           | Some v => (a, Ok (RVal v))
           end
  | OSet i v =>
      if i <? b1 then (a, Raise IndexError)
      else if b2 <? i then (a, Raise IndexError)
      else if negb (typed v) then (a, Raise TypeError)
      else if a_unique a && mem_other v (a_cont a) (Z.to_nat (i - b1)) then (a, Raise AssertionError)
      else (with_cont a (set_nth (a_cont a) (Z.to_nat (i - b1)) (Some v)), Ok RNone)
  | OAdd _ => (a, Raise TypeError)       (* no such method; never generated *)
  | QSize => (a, Ok (RInt (b2 - b1 + 1)))
  | QHiIndex => (a, Ok (RInt b2))
  | QLoIndex => (a, Ok (RInt b1))
  | QHiBound => (a, Ok (RInt b2))
  | QLoBound => (a, Ok (RInt b1))
  | QUnique => (a, Ok (value_unique (b2 - b1 + 1) (a_cont a)))
  end.

(* ---- BAG / SET ---- *)
Definition full (a : agg) : bool :=
  match a_b2 a with Some n2 => zlen (a_cont a) >=? n2 | None => false end.

Definition bagset_step (a : agg) (o : op) : agg * result :=
  match o with
  | OAdd v =>
      match a_kind a with
      | KSet =>
          if full a then (if memv v (a_cont a) then (a, Ok RNone) else (a, Raise AssertionError))
          else if negb (typed v) then (a, Raise TypeError)
          else if memv v (a_cont a) then (a, Ok RNone)
          else (with_cont a (a_cont a ++ [Some v]), Ok RNone)
      | _ =>
          if full a then (a, Raise AssertionError)
          else if negb (typed v) then (a, Raise TypeError)
          else (with_cont a (a_cont a ++ [Some v]), Ok RNone)
      end
  | QSize => (a, Ok (RInt (zlen (a_cont a))))
  | QHiIndex => (a, Ok (RInt (zlen (a_cont a))))
  | QLoIndex => (a, Ok (RInt 1))
  | QHiBound => (a, Ok (opt_z (a_b2 a)))
  | QLoBound => (a, Ok (RInt (a_b1 a)))
  | QUnique =>
      match a_kind a with
      | KSet => (a, Ok (RB BTrue))
      | _ => (a, Ok (value_unique (zlen (a_cont a)) (a_cont a)))
      end
  | _ => (a, Raise TypeError)            (* BAG/SET are not subscriptable; never generated *)
  end.

(* ---- LIST (as implemented: a bounded LIST is indexed from bound_1 and pre-sized) ---- *)
Definition list_step (a : agg) (o : op) : agg * result :=
  let b1 := a_b1 a in
  let c := a_cont a in
  match o with
  | OGet i =>
      match a_b2 a with
      | Some b2 =>
          if i <? b1 then (a, Raise IndexError)
          else if b2 <? i then (a, Raise IndexError)
          else match nth (Z.to_nat (i - b1)) c None with
               | None => (a, Raise AssertionError)
               | Some v => (a, Ok (RVal v))
               end
      | None =>
          if zlen c <? i - b1 then (a, Raise AssertionError)
          else if i - b1 <? 0 then
            (* Python negative index: counts from the end *)
            (if zlen c + (i - b1) <? 0 then (a, Raise IndexError)
             else match nth (Z.to_nat (zlen c + (i - b1))) c None with
                  | None => (a, Raise AssertionError) | Some v => (a, Ok (RVal v)) end)
          else if zlen c <=? i - b1 then (a, Raise IndexError)        (* index == len: list index out of range *)
          else match nth (Z.to_nat (i - b1)) c None with
               | None => (a, Raise AssertionError)
               | Some v => (a, Ok (RVal v))
               end
      end
  | OSet i v =>
      match a_b2 a with
      | Some b2 =>
          if i <? b1 then (a, Raise IndexError)
          else if b2 <? i then (a, Raise IndexError)
          else if negb (typed v) then (a, Raise TypeError)
          else if a_unique a && mem_other v c (Z.to_nat (i - b1)) then (a, Raise AssertionError)
          else (with_cont a (set_nth c (Z.to_nat (i - b1)) (Some v)), Ok RNone)
      | None =>
          if i <? b1 then (a, Raise IndexError)
          else if i - b1 <? zlen c then
            (if negb (typed v) then (a, Raise TypeError)
             else if a_unique a && mem_other v c (Z.to_nat (i - b1)) then (a, Raise AssertionError)
             else (with_cont a (set_nth c (Z.to_nat (i - b1)) (Some v)), Ok RNone))
          else
            let c' := c ++ repeat None (Z.to_nat ((i - b1) - zlen c + 1)) in
            (* the list is extended before the checks: it stays extended when they raise *)
            if negb (typed v) then (with_cont a c', Raise TypeError)
            else if a_unique a && mem_other v c' (Z.to_nat (i - b1)) then (with_cont a c', Raise AssertionError)
            else (with_cont a (set_nth c' (Z.to_nat (i - b1)) (Some v)), Ok RNone)
      end
  | OAdd _ => (a, Raise TypeError)
  | QSize => (a, Ok (RInt (count_some c)))
  | QHiIndex => (a, Ok (RInt (count_some c)))
  | QLoIndex => (a, Ok (RInt 1))
  | QHiBound => (a, Ok (opt_z (a_b2 a)))
  | QLoBound => (a, Ok (RInt b1))
  | QUnique => (a, Ok (value_unique (count_some c) c))
  end.

Definition step (a : agg) (o : op) : agg * result :=
  match a_kind a with
  | KArray => array_step a o
  | KList => list_step a o
  | _ => bagset_step a o
  end.

Fixpoint run (a : agg) (ops : list op) : agg * list result :=
  match ops with
  | [] => (a, [])
  | o :: r => let '(a1, x) := step a o in let '(a2, xs) := run a1 r in (a2, x :: xs)
  end.
