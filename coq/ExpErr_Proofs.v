From Coq Require Import List ZArith Bool Lia Arith.
From SC.gen Require Import ErrTable.
From SC Require Import ExpErr.
Import ListNotations.
Local Open Scope Z_scope.

(* ---------------- exit status <-> an ERROR line was printed ---------------- *)
Definition has_error (l : list diag) : Prop := exists d, In d l /\ d_error d = true.

Definition coherent (s : est) : Prop :=
  (occurred s = true <-> has_error (printed s)) /\
  (match fate s with Running => True | _ => has_error (printed s) end).

Lemma has_error_app_l l1 l2 : has_error l1 -> has_error (l1 ++ l2).
Proof. intros [d [H1 H2]]. exists d. split; [apply in_or_app; left; exact H1|exact H2]. Qed.

Lemma coherent0 : coherent est0.
Proof. split; cbn; [|exact I]. split; [discriminate|intros [d [[] _]]]. Qed.

Lemma report_coherent ov s ev : coherent s -> coherent (report ov s ev).
Proof.
  intros [H1 H2]. destruct ev as [code line]. unfold report.
  destruct (fate s) eqn:Ef; try (split; [exact H1|rewrite Ef; exact H2]).
  destruct (Z.eqb code SUBORDINATE_FAILED || negb (enabled ov code)); [split; [exact H1|rewrite Ef; exact I]|].
  remember (entry code) as e eqn:Ee. remember ({| d_error := 1 <=? e_sev e; d_code := code; d_line := line |}) as d eqn:Ed.
  assert (Hc : (occurred s || (1 <=? e_sev e) = true) <-> has_error (printed s ++ [d])).
  { split.
    - intros H. apply orb_prop in H. destruct H as [H|H].
      + apply has_error_app_l. apply H1. exact H.
      + exists d. split; [apply in_or_app; right; left; reflexivity|subst d; exact H].
    - intros [x [Hin Hx]]. apply in_app_or in Hin. destruct Hin as [Hin|[Hin|[]]].
      + apply orb_true_intro. left. apply H1. exists x. auto.
      + subst x. apply orb_true_intro. right. subst d. exact Hx. }
  assert (Hsev : forall k, 1 <= k -> k <=? e_sev e = true -> has_error (printed s ++ [d])).
  { intros k Hk H. apply Z.leb_le in H. exists d. split; [apply in_or_app; right; left; reflexivity|].
    subst d. cbn. apply Z.leb_le. lia. }
  destruct (3 <=? e_sev e) eqn:E3; [split; cbn; [exact Hc|apply (Hsev 3); [lia|exact E3]]|].
  destruct (2 <=? e_sev e) eqn:E2; [split; cbn; [exact Hc|apply (Hsev 2); [lia|exact E2]]|].
  split; cbn; [exact Hc|exact I].
Qed.

Lemma run_phase_coherent ov evs s : coherent s -> coherent (run_phase ov s evs).
Proof.
  unfold run_phase. revert s. induction evs as [|e r IH]; intros s H; cbn [fold_left]; [exact H|].
  apply IH. apply report_coherent. exact H.
Qed.

(* in reachable states an Exited fate carries status 1 *)
Definition exit1 (s : est) : Prop := match fate s with Exited n => n = 1 | _ => True end.

Lemma report_exit1 ov s ev : exit1 s -> exit1 (report ov s ev).
Proof.
  intros H. destruct ev as [code line]. unfold report. destruct (fate s) eqn:Ef; try exact H.
  destruct (Z.eqb code SUBORDINATE_FAILED || negb (enabled ov code)); [exact H|].
  destruct (3 <=? e_sev (entry code)); [exact I|]. destruct (2 <=? e_sev (entry code)); [reflexivity|].
  unfold exit1. cbn. exact I.
Qed.

Lemma run_phase_exit1 ov evs s : exit1 s -> exit1 (run_phase ov s evs).
Proof.
  unfold run_phase. revert s. induction evs as [|e r IH]; intros s H; cbn [fold_left]; [exact H|].
  apply IH. apply report_exit1. exact H.
Qed.

Lemma status_iff s : coherent s -> exit1 s -> (status_of s <> 0 <-> has_error (printed s)).
Proof.
  intros [H1 H2] H3. unfold status_of, exit1 in *. destruct (fate s) eqn:Ef.
  - destruct (occurred s) eqn:Eo; split; intros H; try lia; try congruence.
    + apply H1. reflexivity.
    + apply H1 in H. discriminate.
  - subst status. split; [intros _; exact H2|intros _; lia].
  - split; [intros _; exact H2|intros _; lia].
Qed.

Lemma main_exit_iff_error ov p r b :
  let v := main ov p r b in v_status v <> 0 <-> has_error (printed (v_state v)).
Proof.
  unfold main.
  pose proof (run_phase_coherent ov p est0 coherent0) as C1.
  pose proof (run_phase_exit1 ov p est0 I) as X1.
  destruct (gate (run_phase ov est0 p)); cbn [v_status v_state]; [apply status_iff; assumption|].
  pose proof (run_phase_coherent ov r _ C1) as C2. pose proof (run_phase_exit1 ov r _ X1) as X2.
  destruct (gate (run_phase ov (run_phase ov est0 p) r)); cbn [v_status v_state]; [apply status_iff; assumption|].
  apply status_iff; [apply run_phase_coherent; exact C2|apply run_phase_exit1; exact X2].
Qed.

(* the backend runs only behind the two gates: nothing failed before it *)
Lemma gate_false s : coherent s -> gate s = false -> fate s = Running /\ ~ has_error (printed s).
Proof.
  intros [H1 H2] H. unfold gate in H. destruct (fate s); try discriminate. split; [reflexivity|].
  intro He. apply H1 in He. congruence.
Qed.

Lemma main_backend_gated ov p r b :
  v_backend_ran (main ov p r b) = true ->
  ~ has_error (printed (run_phase ov (run_phase ov est0 p) r)).
Proof.
  unfold main.
  pose proof (run_phase_coherent ov p est0 coherent0) as C1.
  destruct (gate (run_phase ov est0 p)) eqn:G1; cbn [v_backend_ran]; [discriminate|].
  pose proof (run_phase_coherent ov r _ C1) as C2.
  destruct (gate (run_phase ov (run_phase ov est0 p) r)) eqn:G2; cbn [v_backend_ran]; [discriminate|].
  intros _. apply (gate_false _ C2 G2).
Qed.

(* the verdict before the backend does not depend on the tool (its backend) *)
Lemma main_front_end_same ov p r b1 b2 :
  v_backend_ran (main ov p r b1) = v_backend_ran (main ov p r b2) /\
  (v_backend_ran (main ov p r b1) = false -> main ov p r b1 = main ov p r b2).
Proof.
  unfold main. destruct (gate (run_phase ov est0 p)); cbn; [auto|].
  destruct (gate (run_phase ov (run_phase ov est0 p) r)); cbn; [auto|]. split; [reflexivity|discriminate].
Qed.

(* ---------------- -w / -i change one class only ---------------- *)
Lemma nth_map_combine {A B C} (f : A * B -> C) (la : list A) (lb : list B) n da db dc :
  (n < length la)%nat -> length lb = length la ->
  nth n (map f (combine la lb)) dc = f (nth n la da, nth n lb db).
Proof.
  revert lb n. induction la as [|a ra IH]; intros [|b rb] n Hn Hl; cbn in *; try lia.
  destruct n; [reflexivity|]. apply IH; lia.
Qed.

Lemma set_class_length ov cls b : length ov = length err_table -> length (set_class ov cls b) = length err_table.
Proof. intros H. unfold set_class. rewrite map_length, combine_length, H. apply Nat.min_id. Qed.

Lemma set_all_length ov b : length ov = length err_table -> length (set_all ov b) = length err_table.
Proof. intros H. unfold set_all. rewrite map_length, combine_length, H. apply Nat.min_id. Qed.

Definition in_table (code : Z) : Prop := 0 <= code /\ (Z.to_nat code < length err_table)%nat.

Lemma set_class_nth ov cls b code : length ov = length err_table -> in_table code ->
  nth (Z.to_nat code) (set_class ov cls b) false =
  if (e_sev (entry code) <=? 0) && (0 <? e_class (entry code)) && Z.eqb (e_class (entry code)) cls then b
  else nth (Z.to_nat code) ov false.
Proof.
  intros Hl [_ Hc]. unfold set_class.
  rewrite (nth_map_combine _ err_table ov (Z.to_nat code) {| e_sev := 1; e_class := 0; e_nargs := 0 |} false false Hc Hl).
  cbn [fst snd]. reflexivity.
Qed.

Lemma fold_options_length opts ov : length ov = length err_table ->
  length (fold_left apply_option opts ov) = length err_table.
Proof.
  revert ov. induction opts as [|[w c] r IH]; intros ov H; cbn [fold_left]; [exact H|].
  apply IH. unfold apply_option. apply set_class_length. exact H.
Qed.

Lemma process_options_snoc opts o :
  DEFAULT_BEFORE_OPTIONS = true ->
  process_options (opts ++ [o]) = apply_option (process_options opts) o.
Proof. intros H. unfold process_options. rewrite H. rewrite fold_left_app. reflexivity. Qed.

Lemma process_options_length opts : length (process_options opts) = length err_table.
Proof.
  unfold process_options.
  assert (H0 : length ov_init = length err_table) by (unfold ov_init; apply map_length).
  destruct DEFAULT_BEFORE_OPTIONS.
  - apply fold_options_length. apply set_all_length. exact H0.
  - destruct opts; [apply set_all_length; exact H0|apply fold_options_length; exact H0].
Qed.

(* one more -w/-i option for class x leaves every diagnostic of another class,
   and every error, exactly as enabled as before *)
Lemma option_local opts (o : bool * Z) code :
  DEFAULT_BEFORE_OPTIONS = true -> in_table code ->
  (e_class (entry code) <> snd o \/ 1 <= e_sev (entry code)) ->
  enabled (process_options (opts ++ [o])) code = enabled (process_options opts) code.
Proof.
  intros Hd Hc Hx. rewrite (process_options_snoc opts o Hd). destruct o as [w cls]. unfold apply_option, enabled.
  rewrite set_class_nth by (try apply process_options_length; exact Hc). cbn [snd] in Hx.
  destruct (Z.leb_spec (e_sev (entry code)) 0) as [Hs|Hs]; cbn [andb]; [|reflexivity].
  destruct (0 <? e_class (entry code)); cbn [andb]; [|reflexivity].
  destruct (Z.eqb_spec (e_class (entry code)) cls) as [E|E]; [|reflexivity].
  destruct Hx as [Hx|Hx]; [congruence|lia].
Qed.

(* errors are never suppressed, whatever the options *)
Lemma set_class_keeps_errors ov cls b code : length ov = length err_table -> in_table code ->
  1 <= e_sev (entry code) -> nth (Z.to_nat code) (set_class ov cls b) false = nth (Z.to_nat code) ov false.
Proof.
  intros Hl Hc Hs. rewrite set_class_nth by assumption.
  destruct (Z.leb_spec (e_sev (entry code)) 0); [lia|reflexivity].
Qed.

Lemma errors_always_enabled opts code : in_table code -> 1 <= e_sev (entry code) ->
  enabled (process_options opts) code = true.
Proof.
  intros Hc Hs. unfold enabled.
  assert (Hfold : forall opts ov, length ov = length err_table -> nth (Z.to_nat code) ov false = false ->
                   nth (Z.to_nat code) (fold_left apply_option opts ov) false = false).
  { induction opts0 as [|[w c] r IH]; intros ov Hl Hn; cbn [fold_left]; [exact Hn|].
    apply IH; [unfold apply_option; apply set_class_length; exact Hl|].
    unfold apply_option. rewrite set_class_keeps_errors by assumption. exact Hn. }
  assert (H0 : length ov_init = length err_table) by (unfold ov_init; apply map_length).
  assert (Hinit : nth (Z.to_nat code) ov_init false = false).
  { unfold ov_init. clear. generalize (Z.to_nat code). induction err_table as [|x r IH]; intros [|n]; cbn; auto. }
  assert (Hall : forall b, nth (Z.to_nat code) (set_all ov_init b) false = false).
  { intros b. unfold set_all. destruct Hc as [Hc0 Hc].
    rewrite (nth_map_combine _ err_table ov_init (Z.to_nat code) {| e_sev := 1; e_class := 0; e_nargs := 0 |} false false Hc H0).
    cbn [fst snd]. fold (entry code). destruct (Z.leb_spec (e_sev (entry code)) 0); [lia|exact Hinit]. }
  rewrite negb_true_iff. unfold process_options. destruct DEFAULT_BEFORE_OPTIONS.
  - apply Hfold; [apply set_all_length; exact H0|apply Hall].
  - destruct opts; [apply Hall|apply Hfold; [exact H0|exact Hinit]].
Qed.

(* the verdict (status, whether the backend ran) depends on the options only
   through the enabledness of errors -- which they cannot change *)
Definition errs_of (l : list diag) : list diag := filter d_error l.

Definition same_errors (s1 s2 : est) : Prop :=
  occurred s1 = occurred s2 /\ fate s1 = fate s2 /\ errs_of (printed s1) = errs_of (printed s2).

Lemma errs_of_app l1 l2 : errs_of (l1 ++ l2) = errs_of l1 ++ errs_of l2.
Proof. unfold errs_of. apply filter_app. Qed.

Lemma report_same_errors ov1 ov2 s1 s2 ev :
  (forall c, 1 <= e_sev (entry c) -> enabled ov1 c = enabled ov2 c) ->
  same_errors s1 s2 -> same_errors (report ov1 s1 ev) (report ov2 s2 ev).
Proof.
  intros Hov [H1 [H2 H3]]. destruct ev as [code line]. unfold report. rewrite <- H2.
  destruct (fate s1) eqn:Ef; try (repeat split; first [assumption|congruence]).
  destruct (Z.eqb code SUBORDINATE_FAILED); cbn [orb]; [repeat split; first [assumption|congruence]|].
  destruct (Z.leb_spec 1 (e_sev (entry code))) as [Hs|Hs].
  - (* an error: enabled in both *)
    rewrite (Hov code Hs). destruct (enabled ov2 code); cbn [negb]; [|repeat split; first [assumption|congruence]].
    destruct (3 <=? e_sev (entry code)); [|destruct (2 <=? e_sev (entry code))];
      repeat split; cbn; try (rewrite H1; reflexivity); try reflexivity;
      rewrite !errs_of_app, H3; reflexivity.
  - (* a warning: may be printed on one side only; it changes nothing that matters *)
    assert (E3 : 3 <=? e_sev (entry code) = false) by (apply Z.leb_gt; lia).
    assert (E2 : 2 <=? e_sev (entry code) = false) by (apply Z.leb_gt; lia).
    assert (E1 : 1 <=? e_sev (entry code) = false) by (apply Z.leb_gt; lia).
    destruct (enabled ov1 code), (enabled ov2 code); cbn [negb]; rewrite ?E3, ?E2;
      repeat split; cbn; rewrite ?E1, ?orb_false_r, ?errs_of_app; cbn; rewrite ?E1, ?app_nil_r; first [assumption|congruence].
Qed.

Lemma run_phase_same_errors ov1 ov2 evs s1 s2 :
  (forall c, 1 <= e_sev (entry c) -> enabled ov1 c = enabled ov2 c) ->
  same_errors s1 s2 -> same_errors (run_phase ov1 s1 evs) (run_phase ov2 s2 evs).
Proof.
  intros Hov. unfold run_phase. revert s1 s2. induction evs as [|e r IH]; intros s1 s2 H; cbn [fold_left]; [exact H|].
  apply IH. apply report_same_errors; assumption.
Qed.

Lemma main_verdict_same ov1 ov2 p r b :
  (forall c, 1 <= e_sev (entry c) -> enabled ov1 c = enabled ov2 c) ->
  v_status (main ov1 p r b) = v_status (main ov2 p r b) /\
  v_backend_ran (main ov1 p r b) = v_backend_ran (main ov2 p r b) /\
  errs_of (printed (v_state (main ov1 p r b))) = errs_of (printed (v_state (main ov2 p r b))).
Proof.
  intros Hov. unfold main.
  assert (S0 : same_errors est0 est0) by (repeat split).
  pose proof (run_phase_same_errors ov1 ov2 p _ _ Hov S0) as S1.
  assert (Hg : forall s1 s2, same_errors s1 s2 -> gate s1 = gate s2 /\ status_of s1 = status_of s2).
  { intros s1 s2 [A [B C]]. unfold gate, status_of. rewrite A, B. auto. }
  destruct (Hg _ _ S1) as [G1 T1]. rewrite <- G1.
  destruct (gate (run_phase ov1 est0 p)); cbn [v_status v_backend_ran v_state]; [destruct S1 as [_ [_ S1]]; auto|].
  pose proof (run_phase_same_errors ov1 ov2 r _ _ Hov S1) as S2.
  destruct (Hg _ _ S2) as [G2 T2]. rewrite <- G2.
  destruct (gate (run_phase ov1 (run_phase ov1 est0 p) r)); cbn [v_status v_backend_ran v_state]; [destruct S2 as [_ [_ S2]]; auto|].
  pose proof (run_phase_same_errors ov1 ov2 b _ _ Hov S2) as S3.
  destruct (Hg _ _ S3) as [_ T3]. destruct S3 as [_ [_ S3]]. auto.
Qed.

(* ---------------- sub/supertype cycle check: soundness ---------------- *)
Inductive greach (g : graph) : Z -> Z -> Prop :=
| greach1 a b : In b (gfind g a) -> greach g a b
| greachS a c b : In c (gfind g a) -> greach g c b -> greach g a b.

Lemma zin_In x l : zin x l = true <-> In x l.
Proof.
  unfold zin. rewrite existsb_exists. split.
  - intros [y [Hy E]]. apply Z.eqb_eq in E. subst. exact Hy.
  - intros H. exists x. split; [exact H|apply Z.eqb_refl].
Qed.

(* whatever the marks, a reported loop is a real one: some element of the list
   being scanned reaches e (or is e) *)
Lemma cyc_loop_sound g e fuel subs marks m' :
  cyc_loop fuel g e subs marks = Some (true, m') ->
  exists s, In s subs /\ (s = e \/ greach g s e).
Proof.
  revert subs marks m'. induction fuel as [|f IH]; intros subs marks m' H; [discriminate|].
  cbn [cyc_loop] in H. destruct subs as [|sub rest]; [discriminate|].
  destruct (Z.eqb_spec e sub) as [E|E].
  - exists sub. split; [left; reflexivity|left; congruence].
  - destruct (zin sub marks).
    + destruct (IH rest marks m' H) as [s [Hs Hr]]. exists s. split; [right; exact Hs|exact Hr].
    + destruct (cyc_loop f g e (gfind g sub) (sub :: marks)) as [[found marks1]|] eqn:Er; [|discriminate].
      destruct found.
      * destruct (IH _ _ _ Er) as [s [Hs Hr]]. exists sub. split; [left; reflexivity|right].
        destruct Hr as [->|Hr]; [apply greach1; exact Hs|eapply greachS; eauto].
      * destruct (IH rest marks1 m' H) as [s [Hs Hr]]. exists s. split; [right; exact Hs|exact Hr].
Qed.

(* a negative answer is right as well: everything marked during the scan has all its
   subtypes marked and none of them is e *)
Definition closed_in (g : graph) (e : Z) (M M' : list Z) : Prop :=
  forall y, In y M' -> ~ In y M -> forall z, In z (gfind g y) -> z <> e /\ In z M'.

Lemma cyc_loop_complete g e fuel subs marks m' :
  cyc_loop fuel g e subs marks = Some (false, m') ->
  (forall x, In x marks -> In x m') /\
  (forall s, In s subs -> s <> e /\ In s m') /\
  closed_in g e marks m'.
Proof.
  revert subs marks m'. induction fuel as [|f IH]; intros subs marks m' H; [discriminate|].
  cbn [cyc_loop] in H. destruct subs as [|sub rest].
  - inversion H. subst. split; [auto|]. split; [intros s []|]. intros y Hy Hn. contradiction.
  - destruct (Z.eqb_spec e sub) as [E|E]; [discriminate|].
    destruct (zin sub marks) eqn:Ez.
    + destruct (IH rest marks m' H) as [H1 [H2 H3]]. split; [exact H1|]. split; [|exact H3].
      intros s [<-|Hs]; [split; [congruence|apply H1; apply zin_In; exact Ez]|apply H2; exact Hs].
    + destruct (cyc_loop f g e (gfind g sub) (sub :: marks)) as [[found marks1]|] eqn:Er; [|discriminate].
      destruct found; [discriminate|].
      destruct (IH _ _ _ Er) as [A1 [A2 A3]]. destruct (IH rest marks1 m' H) as [B1 [B2 B3]].
      split; [intros x Hx; apply B1; apply A1; right; exact Hx|]. split.
      * intros s [<-|Hs]; [split; [congruence|apply B1; apply A1; left; reflexivity]|apply B2; exact Hs].
      * intros y Hy Hn z Hz.
        destruct (in_dec Z.eq_dec y marks1) as [Hy1|Hy1].
        -- destruct (Z.eq_dec y sub) as [->|Hne].
           ++ destruct (A2 z Hz) as [Z1 Z2]. split; [exact Z1|apply B1; exact Z2].
           ++ assert (Hns : ~ In y (sub :: marks)) by (intros [E1|E1]; [congruence|contradiction]).
              destruct (A3 y Hy1 Hns z Hz) as [Z1 Z2]. split; [exact Z1|apply B1; exact Z2].
        -- apply (B3 y Hy Hy1 z Hz).
Qed.

Lemma closed_no_reach g e M' :
  (forall z, In z (gfind g e) -> z <> e /\ In z M') ->
  closed_in g e [] M' -> ~ greach g e e.
Proof.
  intros H0 Hc Hr.
  assert (Hgen : forall a b, greach g a b -> (a = e \/ In a M') -> b <> e /\ In b M').
  { induction 1 as [a b Hb|a c b Hcb Hrb IH]; intros Ha.
    - destruct Ha as [->|Ha]; [apply H0; exact Hb|apply (Hc a Ha (fun x => x) b Hb)].
    - apply IH. right. destruct Ha as [->|Ha]; [apply H0; exact Hcb|apply (Hc a Ha (fun x => x) c Hcb)]. }
  destruct (Hgen e e Hr (or_introl eq_refl)) as [Hne _]. congruence.
Qed.

(* the answer of the check, when it gives one, is exactly "e is a subtype of itself" *)
Lemma cyc_from_correct g e b : cyc_from_opt g e = Some b -> (b = true <-> greach g e e).
Proof.
  unfold cyc_from_opt. destruct (cyc_loop _ g e (gfind g e) []) as [[found m']|] eqn:E; [|discriminate].
  cbn. intros H. inversion H. subst b. clear H. destruct found.
  - split; [intros _|reflexivity]. destruct (cyc_loop_sound _ _ _ _ _ _ E) as [s [Hs [->|Hr]]].
    + apply greach1. exact Hs.
    + eapply greachS; eauto.
  - split; [discriminate|]. intros Hr. exfalso.
    destruct (cyc_loop_complete _ _ _ _ _ _ E) as [_ [H2 H3]].
    apply (closed_no_reach g e m' H2 H3 Hr).
Qed.

Lemma cyc_from_sound g e : cyc_from g e = true -> greach g e e.
Proof.
  unfold cyc_from. destruct (cyc_from_opt g e) as [b|] eqn:E; [|discriminate].
  intros ->. apply (cyc_from_correct g e true E). reflexivity.
Qed.

Lemma cyc_any_sound g : cyc_any g = true -> exists e, greach g e e.
Proof.
  unfold cyc_any. rewrite existsb_exists. intros [[k v] [_ H]]. exists k. apply cyc_from_sound. exact H.
Qed.

(* every call site in the sources (regenerated list) passes exactly as many arguments as the format of its code
   consumes: no conversion reads an argument that was not passed, no argument is dropped by the format *)
Lemma report_sites_all_ok : forallb site_ok report_sites = true.
Proof. vm_compute. reflexivity. Qed.

Lemma report_sites_match_formats : forall code passed, In (code, passed) report_sites ->
  in_table code /\ e_nargs (entry code) = passed.
Proof.
  intros code passed Hin.
  pose proof (proj1 (forallb_forall site_ok report_sites) report_sites_all_ok (code, passed) Hin) as H.
  unfold site_ok in H. cbn [fst snd] in H.
  apply andb_prop in H. destruct H as [H H3]. apply andb_prop in H. destruct H as [H1 H2].
  apply Z.eqb_eq in H1. apply Z.leb_le in H2. apply Z.ltb_lt in H3.
  split; [|exact H1]. unfold in_table. split; [lia|]. lia.
Qed.
