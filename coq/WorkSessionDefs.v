(* editing states of the instance manager (include/cleditor/editordefines.h) *)
Inductive wstate := WNoState | WComplete | WIncomplete | WDelete | WNew.
