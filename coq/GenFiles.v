(* C17: which files the configure-time scanner lists and which the C++ generator creates.
   The decision data (kinds, case lists, formats, fixed names) is regenerated from the
   sources into gen/ScannerRule.v; this file gives it meaning, following the control flow of
   schemaScanner.cc printSchemaFilenames()/notGenerated()/writeLists() on one side and
   classes_wrapper.cc SCOPEPrint()/SCHEMAprint(), classes_type.c TYPEprint_descriptions()/
   TYPEPrint(), selects.c TYPEselect_print(), genCxxFilenames.c, class_strings.c on the other.
   No proofs here. *)
From Coq Require Import List NArith Bool.
From SC Require Import gen.ScannerRule.
Import ListNotations.
Local Open Scope N_scope.

Definition name := list N.        (* bytes of an identifier as the lexer delivers it *)

Definition kind_eqb (a b : kind) : bool := kind_id a =? kind_id b.
Definition kmem (k : kind) (l : list kind) : bool := existsb (kind_eqb k) l.

(* ---- class_strings.c ---- *)
Definition is_lower (c : N) : bool := (97 <=? c) && (c <=? 122).
Definition is_upper (c : N) : bool := (65 <=? c) && (c <=? 90).
Definition to_upper (c : N) : N := if is_lower c then c - 32 else c.
Definition to_lower (c : N) : N := if is_upper c then c + 32 else c.

(* ClassName(): prefix, first character upper-cased, the rest lower-cased.
   (An empty name makes the C code read past the terminator; identifiers are never empty.) *)
Definition class_name (n : name) : name :=
  match n with
  | [] => ENTITYCLASS_PREFIX
  | c :: r => ENTITYCLASS_PREFIX ++ to_upper c :: map to_lower r
  end.

(* TypeName(): prefix ++ FirstToUpper(name); names are shorter than MAX_LEN *)
Definition type_name (n : name) : name :=
  match n with
  | [] => TYPE_PREFIX
  | c :: r => TYPE_PREFIX ++ to_upper c :: r
  end.

(* TYPEget_ctype() for the two kinds that ever get files *)
Definition ctype (k : kind) (n : name) : name :=
  if kind_eqb k k_enumeration then type_name n ++ CTYPE_ENUM_SUFFIX else type_name n.

Definition fmt (f : list N * list N) (n : name) : name := fst f ++ n ++ snd f.

Definition entity_files (n : name) : list name :=
  [fmt fmt_entity_hdr (class_name n); fmt fmt_entity_impl (class_name n)].
Definition type_files (k : kind) (n : name) : list name :=
  [fmt fmt_type_hdr (ctype k n); fmt fmt_type_impl (ctype k n)].

(* ---- declarations of one schema ---- *)
Inductive decl : Set :=
| DEnt (n : name)
| DType (n : name) (k : kind) (head : bool) (aggr_ref : bool).
(* head: TYPE n = other_defined_type;  aggr_ref: what TYPEget_RefTypeVarNm answers for an
   aggregate (depends on the element type; irrelevant to the outcome, kept to be faithful) *)

(* ---- the scanner ---- *)
Definition not_generated (k : kind) (head : bool) : bool :=
  kmem k scanner_builtin || (kmem k scanner_renamed_not_generated && head).
Definition scanner_lists_type (k : kind) (head : bool) : bool :=
  negb (kmem k scanner_skips_renamed && head) && negb (not_generated k head).

Definition upper (n : name) : name := map to_upper n.
Definition instantiate (schema : name) (t : list N * bool * list N) : name :=
  match t with (a, up, b) => if up then a ++ upper schema ++ b else a end.

Definition scanner_decl_files (d : decl) : list name :=
  match d with
  | DEnt n => entity_files n
  | DType n k h _ => if scanner_lists_type k h then type_files k n else []
  end.
Definition scanner_fixed (schema : name) : list name :=
  map (instantiate schema) (scanner_misc_hdrs ++ scanner_misc_impls ++ scanner_unity_impls).
Definition scanner_files (schema : name) (ds : list decl) : list name :=
  flat_map scanner_decl_files ds ++ scanner_fixed schema.

(* ---- the generator ---- *)
Definition reftype (k : kind) (head aggr_ref : bool) : bool :=
  if head then true else
  match gen_reftype_nohead k with R1 => true | R0 => false | Rdepends => aggr_ref end.

(* TYPEprint_descriptions(): does it reach TYPEPrint? *)
Definition descr_prints (k : kind) (head aggr_ref : bool) : bool :=
  if kmem k gen_descr_renamed_returns && head then false
  else if negb (reftype k head aggr_ref) then kmem k gen_descr_prints_when_noref
  else false.

(* TYPEselect_print(): does it reach TYPEPrint? *)
Definition select_prints (head : bool) : bool := negb (gen_select_renamed_returns && head).

(* SCOPEPrint(): loop 1 (all but deferred renamed types), the redefinition loop / loop 3
   (deferred enumerations go through TYPEprint_descriptions, selects through
   TYPEselect_print).  Every type is visited: multpass.c processes each type in some pass. *)
Definition gen_creates_type (k : kind) (head aggr_ref : bool) : bool :=
  let loop1 := negb (kmem k gen_loop1_defers_renamed && head) in
  (loop1 && descr_prints k head aggr_ref)
  || (negb loop1 && kind_eqb k k_enumeration && descr_prints k head aggr_ref)
  || (kind_eqb k k_select && select_prints head).

Definition gen_decl_files (d : decl) : list name :=
  match d with
  | DEnt n => entity_files n
  | DType n k h a => if gen_creates_type k h a then type_files k n else []
  end.
Definition gen_fixed_files (schema : name) : list name :=
  map (instantiate schema) (gen_fixed ++ gen_unity_impls).
Definition gen_aux_files (schema : name) : list name :=
  map (instantiate schema) gen_unity_hdrs.
Definition gen_files (schema : name) (ds : list decl) : list name :=
  flat_map gen_decl_files ds ++ gen_fixed_files schema ++ gen_aux_files schema.

(* ---- well-formedness: what the parser/resolver let through as a defined type ---- *)
Definition wf_kinds : list kind :=
  [k_integer; k_real; k_string; k_binary; k_boolean; k_logical; k_number;
   k_aggregate; k_array; k_bag; k_set; k_list; k_enumeration; k_select].
Definition wf_decl (d : decl) : bool :=
  match d with DEnt _ => true | DType _ k _ _ => kmem k wf_kinds end.

Definition decl_name (d : decl) : name := match d with DEnt n => n | DType n _ _ _ => n end.
Definition lower_name (n : name) : bool :=
  match n with [] => false | c :: _ => is_lower c end && forallb (fun c => negb (is_upper c)) n
  && forallb (fun c => negb (c =? 47)) n.
