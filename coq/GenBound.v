(* C12: what exp2cxx prints for an aggregate bound (classes_type.c AGGRprint_bound()).
   An Expression carries a union; only for an integer literal (and '?') does the member
   u.integer hold the bound's value -- for an identifier the same bytes are a pointer, for
   anything else they are whatever the allocator left there.  The model makes that explicit:
   [world] is everything that is not a function of the schema text.  No proofs here. *)
From Coq Require Import List ZArith.
From SC Require Import gen.BoundRule.
Import ListNotations.
Local Open Scope Z_scope.

Record bexpr := {
  etype : exptype;          (* bound->type *)
  etext : list N;           (* EXPRto_string(bound): a function of the schema text *)
  evalue : Z;               (* the literal's value when etype = Type_Integer *)
  eneg : option Z           (* Some v: the node is the negation of the integer literal v (its own type is not Type_Integer) *)
}.

Definition world := bexpr -> Z.     (* the bytes under u.integer for a non-literal node *)

Definition u_integer (w : world) (e : bexpr) : Z :=
  match etype e with Type_Integer => evalue e | _ => w e end.

Definition exptype_eqb (a b : exptype) : bool :=
  match a, b with
  | Type_Integer, Type_Integer | Type_Funcall, Type_Funcall | Type_Identifier, Type_Identifier
  | Type_Expression, Type_Expression | Type_Other, Type_Other => true
  | _, _ => false
  end.

Fixpoint pick (t : exptype) (l : list (exptype * form)) : form :=
  match l with
  | [] => bound_default
  | (c, f) :: r => if exptype_eqb t c then f else pick t r
  end.

Inductive printed := PNumber (z : Z) | PText (s : list N).

(* the text written after SetBound<n> for a resolved bound *)
Definition print_bound (w : world) (e : bexpr) : printed :=
  match pick (etype e) bound_branches with
  | FNumber => PNumber (u_integer w e)
  | FText =>
    (* the branch for a negated literal stands right before the final else: it reads the operand's u.integer, and the
       operand is an integer literal *)
    match negated_literal_as_number, eneg e with
    | true, Some v => PNumber (- v)
    | _, _ => PText (etext e)
    end
  end.
