(* src/express/hash.c: Larson's linear hashing as used by every EXPRESS dictionary.
   DICTdo()/HASHlist() walk the buckets in address order and each chain front to back, so the
   order in which a tool meets the declarations of a scope is decided here.  The model takes
   the keys (bytes) only: no address, no allocation order.  C12's correspondence check compares
   the order the model predicts with the order the real tools emit.  No proofs here. *)
From Coq Require Import List NArith Bool.
From SC Require Import gen.HashConsts.
Import ListNotations.
Local Open Scope N_scope.

Definition key := list N.

Fixpoint key_eqb (a b : key) : bool :=
  match a, b with
  | [], [] => true
  | x :: a', y :: b' => (x =? y) && key_eqb a' b'
  | _, _ => false
  end.

(* HASHhash(), first half: the string as a number.  Address is unsigned long (64 bit);
   the byte minus 32 is an int converted to unsigned long, so bytes below 32 wrap around. *)
Definition two64 : N := 18446744073709551616.
Definition hstep (h c : N) : N :=
  N.lxor ((h * PRIME1) mod two64) (if c <? 32 then two64 + c - 32 else c - 32).
Definition hash_value (k : key) : N := (fold_left hstep k 0) mod PRIME2.

Record table := {
  maxp : N; p : N; segcount : N; keycount : N;
  bk : N -> list key          (* bucket address -> collision chain, front first *)
}.

(* HASHhash(), second half.  MOD(h, maxp) is h & (maxp-1); maxp is always a power of two *)
Definition addr_of (hv : key -> N) (mx pp : N) (k : key) : N :=
  let a := hv k mod mx in
  if a <? pp then hv k mod (2 * mx) else a.
Definition addr (hv : key -> N) (t : table) (k : key) : N := addr_of hv (maxp t) (p t) k.

Definition upd (f : N -> list key) (a : N) (v : list key) : N -> list key :=
  fun x => if x =? a then v else f x.

(* HASHcreate(count): count rounded up to a power of two >= SEGMENT_SIZE; every dictionary of
   libexpress asks for fewer than SEGMENT_SIZE buckets, so one segment *)
Definition create : table :=
  {| maxp := SEGMENT_SIZE; p := 0; segcount := 1; keycount := 0; bk := fun _ => [] |}.

(* HASHexpand_table() *)
Definition expand (hv : key -> N) (t : table) : table :=
  if maxp t + p t <? DIRECTORY_SIZE * SEGMENT_SIZE then
    let newaddr := maxp t + p t in
    let old := p t in
    let p1 := p t + 1 in
    let '(p', maxp') := if p1 =? maxp t then (0, 2 * maxp t) else (p1, maxp t) in
    let chain := bk t old in
    let moves := fun k => addr_of hv maxp' p' k =? newaddr in
    {| maxp := maxp'; p := p'; segcount := segcount t + 1; keycount := keycount t;
       bk := upd (upd (bk t) old (filter (fun k => negb (moves k)) chain)) newaddr (filter moves chain) |}
  else t.

(* HASHsearch(table, item, HASH_INSERT) *)
Definition insert (hv : key -> N) (t : table) (k : key) : table :=
  let a := addr hv t k in
  let chain := bk t a in
  if existsb (key_eqb k) chain then t
  else
    let t1 := {| maxp := maxp t; p := p t; segcount := segcount t; keycount := keycount t + 1;
                 bk := upd (bk t) a (chain ++ [k]) |} in
    if MAX_LOAD_FACTOR <? (keycount t1) / (segcount t1 * SEGMENT_SIZE) then expand hv t1 else t1.

(* HASHsearch(table, item, HASH_FIND) *)
Definition find (hv : key -> N) (t : table) (k : key) : bool :=
  existsb (key_eqb k) (bk t (addr hv t k)).

(* HASHlistinit()/HASHlist() to the end: all elements in visiting order *)
Definition iterate (t : table) : list key :=
  flat_map (fun a => bk t (N.of_nat a)) (seq 0 (N.to_nat (maxp t + p t))).

Definition build (hv : key -> N) (ks : list key) : table := fold_left (insert hv) ks create.

(* the order in which DICTdo() delivers the symbols of a scope declared in the order ks *)
Definition dict_order (ks : list key) : list key := iterate (build hash_value ks).
