(* C20 -- diagnostics name the construct that is actually wrong; -i/-w change one class only.
   Proved here (error table and the option handling of fedex.c regenerated on every
   run): an additional -w x / -i x leaves the enabledness of every diagnostic outside
   class x, and of every ERROR, unchanged; errors can never be suppressed; hence the
   verdict (exit status, whether the back end runs) and the ERROR lines are the same
   under any two warning configurations.  That the quoted identifier/character/count
   is the offending one is established by tools/c20.py on single-fault mutants (testing). *)
From Coq Require Import List ZArith Bool Lia.
From SC.gen Require Import ErrTable.
From SC Require Import ExpErr ExpErr_Proofs.
From SC Require Import gen.ErrArena ErrBuf ErrBuf_Proofs.
Import ListNotations.
Local Open Scope Z_scope.

Theorem c20_option_changes_one_class : forall opts (o : bool * Z) code, in_table code ->
  (e_class (entry code) <> snd o \/ 1 <= e_sev (entry code)) ->
  enabled (process_options (opts ++ [o])) code = enabled (process_options opts) code.
Proof. intros opts o code. apply option_local. reflexivity. Qed.
Print Assumptions c20_option_changes_one_class.

Theorem c20_errors_never_suppressed : forall opts code, in_table code -> 1 <= e_sev (entry code) ->
  enabled (process_options opts) code = true.
Proof. exact errors_always_enabled. Qed.
Print Assumptions c20_errors_never_suppressed.

(* any two warning configurations give the same verdict and the same ERROR lines *)
Theorem c20_verdict_independent_of_warning_options : forall opts1 opts2 parse resolve backend,
  (forall ev, In ev (parse ++ resolve ++ backend) -> in_table (fst ev)) ->
  let v1 := main (process_options opts1) parse resolve backend in
  let v2 := main (process_options opts2) parse resolve backend in
  v_status v1 = v_status v2 /\ v_backend_ran v1 = v_backend_ran v2.
Proof.
  intros opts1 opts2 p r b _ v1 v2.
  destruct (main_verdict_same (process_options opts1) (process_options opts2) p r b) as [H1 [H2 _]]; [|auto].
  intros c Hs.
  destruct (Z_lt_le_dec c 0) as [Hneg|Hpos].
  - destruct c as [|q|q]; try lia. unfold enabled. change (Z.to_nat (Z.neg q)) with (Z.to_nat 0).
    fold (enabled (process_options opts1) 0). fold (enabled (process_options opts2) 0).
    assert (H0 : in_table 0) by (split; [lia|vm_compute; lia]).
    rewrite !errors_always_enabled; auto; vm_compute; discriminate.
  - destruct (lt_dec (Z.to_nat c) (length err_table)) as [Hin|Hout].
    + rewrite !errors_always_enabled; auto; split; assumption.
    + unfold enabled. rewrite !nth_overflow; [reflexivity| |]; rewrite process_options_length; lia.
Qed.
Print Assumptions c20_verdict_independent_of_warning_options.

(* Every place the front end and the tools report a diagnostic from with a literal code (the list is regenerated from
   the sources: ERRORreport, ERRORreport_with_symbol, ERRORreport_with_line) hands over exactly as many arguments as the
   format of that code has conversions: no %s prints a stale or missing argument, no offending name handed over is
   dropped by the format. *)
Theorem c20_every_report_passes_what_its_format_quotes : forall code passed, In (code, passed) report_sites ->
  in_table code /\ e_nargs (entry code) = passed.
Proof. exact report_sites_match_formats. Qed.
Print Assumptions c20_every_report_passes_what_its_format_quotes.

(* With -B no diagnostic is cut short or run into the next one: whatever diagnostics a file raises - any number, messages
   and file names of any length - each one is either printed at once (it is larger than the whole buffer) or stored whole:
   prefix, message, newline and terminator fit what is left of the buffer at that moment, under a slot of heap[] that
   exists.  [inv] is what holds between two reports; sizes, the measuring step, the prefix formats and the conditions for
   printing the buffer are regenerated from error.c (gen/ErrArena.v). *)
Theorem c20_buffered_diagnostics_are_stored_whole : forall ms s, inv s = true -> forallb msg_ok ms = true ->
  inv (fst (run s ms)) = true /\ forallb (fun p => what_ok (fst p) (snd p)) (combine ms (snd (run s ms))) = true.
Proof. exact run_ok. Qed.
Print Assumptions c20_buffered_diagnostics_are_stored_whole.

Example c20_buffer_example :
  let long := {| m_len := 290; m_fn := 12; m_digits := 2 |} in
  let huge := {| m_len := 5000; m_fn := 12; m_digits := 1 |} in
  inv init = true /\ forallb msg_ok (repeat long 30 ++ [huge]) = true /\
  map (fun w => match w with Direct => 0 | Stored a _ _ => a end) (snd (run init (repeat long 13))) =
    [0; 324; 648; 972; 1296; 1620; 1944; 2268; 2592; 2916; 3240; 3564; 0] /\
  nth 30 (snd (run init (repeat long 30 ++ [huge]))) (Stored 0 0 true) = Direct.
Proof. vm_compute. repeat split. Qed.

Example c20_example :
  (* IMPLICIT_DOWNCAST (code 14, class downcast) is off by default, on with -w, off again with -i *)
  enabled (process_options []) 14 = false /\
  enabled (process_options [(true, CLASS_downcast)]) 14 = true /\
  enabled (process_options [(true, CLASS_downcast); (false, CLASS_downcast)]) 14 = false /\
  enabled (process_options [(true, CLASS_downcast)]) 10 = false.
Proof. vm_compute. repeat split. Qed.
