(* C03 -- the reader never reports a schema-violating exchange file as clean.
   Proved here: the severity bookkeeping from a single instance outcome to the
   file verdict and the exit status of the reference tool, for ANY population
   (list of per-instance outcomes, no length bound) and any position of the
   faulty instance.  [append_file COMPLEX_APPENDS] uses the constant regenerated
   from src/cleditor/STEPfile.cc on every run; [P21READ_FAIL_AT] from p21read.cc.
   That each listed fault class makes its instance's outcome "bad" (attribute
   level) is established by the fault-injection correspondence of tools/c03.py,
   not by a theorem (see evidence.unproved_clauses). *)
From Coq Require Import List ZArith Bool.
From SC.gen Require Import SevTable NullTable.
From SC Require Import FileSev FileSev_Proofs RecRead RecRead_Proofs.
Import ListNotations.
Local Open Scope Z_scope.

Definition exit_status (file_sev : Z) : Z := if file_sev <=? P21READ_FAIL_AT then 1 else 0.

(* one bad instance anywhere => the read ends worse than a user message *)
Theorem c03_bad_instance_rejected : forall sev0 os end_ok,
  (exists o, In o os /\ bad o) ->
  snd (append_file COMPLEX_APPENDS sev0 os end_ok) < SEVERITY_USERMSG.
Proof.
  intros sev0 os end_ok H. pose proof (bad_outcome_rejected COMPLEX_APPENDS sev0 os end_ok H).
  unfold SEVERITY_INCOMPLETE, SEVERITY_USERMSG in *. Lia.lia.
Qed.
Print Assumptions c03_bad_instance_rejected.

(* ... and the reference tool exits non-zero *)
Theorem c03_exit_nonzero : forall sev0 os end_ok,
  (exists o, In o os /\ bad o) ->
  exit_status (snd (append_file COMPLEX_APPENDS sev0 os end_ok)) = 1.
Proof.
  intros sev0 os end_ok H. pose proof (bad_outcome_rejected COMPLEX_APPENDS sev0 os end_ok H) as Hb.
  unfold exit_status, P21READ_FAIL_AT. destruct (Z.leb_spec (snd (append_file COMPLEX_APPENDS sev0 os end_ok)) SEVERITY_INCOMPLETE); [reflexivity|Lia.lia].
Qed.
Print Assumptions c03_exit_nonzero.

(* an attribute error at USERMSG or worse is never lost in the instance severity *)
Theorem c03_instance_keeps_attr_error : forall sevs s,
  In s sevs -> s <= SEVERITY_USERMSG -> inst_sev sevs <= s.
Proof. exact inst_sev_le. Qed.
Print Assumptions c03_instance_keeps_attr_error.

(* no false alarm at this layer: a population read entirely clean gives NULL *)
Theorem c03_clean_population_clean : forall os,
  (forall o, In o os -> o = Simple SEVERITY_NULL \/ o = Complex SEVERITY_NULL) ->
  append_file true SEVERITY_NULL os true = (SEVERITY_NULL, SEVERITY_NULL).
Proof.
  intros os H. apply all_fine_accepted; [|exact H].
  apply Forall_forall. intros o Ho. destruct (H o Ho) as [-> | ->]; cbn; auto.
Qed.
Print Assumptions c03_clean_population_clean.

(* externally mapped instances (STEPcomplex::STEPread): what reading a part reported reaches the instance ... *)
Theorem c03_complex_keeps_part_error : forall own parts p,
  In p parts -> part_counts p = true -> complex_sev own parts <= fst p.
Proof. exact complex_sev_keeps. Qed.
Print Assumptions c03_complex_keeps_part_error.

(* ... the only severity of a part that does not is WARNING when every complaining attribute is derived by another part *)
Theorem c03_complex_tolerance_is_exact : forall p, fst p < SEVERITY_NULL ->
  (part_counts p = false <-> fst p = SEVERITY_WARNING /\ only_derived_values_given (snd p) = true).
Proof. exact part_tolerated_iff. Qed.
Print Assumptions c03_complex_tolerance_is_exact.

Theorem c03_complex_other_fault_not_hidden : forall attrs a,
  In a attrs -> fst a < SEVERITY_USERMSG -> snd a = false -> only_derived_values_given attrs = false.
Proof. exact not_derived_never_tolerated. Qed.
Print Assumptions c03_complex_other_fault_not_hidden.

(* so a file with such a part is rejected, wherever the instance stands *)
Theorem c03_bad_complex_part_rejected : forall sev0 os end_ok own parts p,
  In (Complex (complex_sev own parts)) os -> In p parts -> part_counts p = true -> fst p <= SEVERITY_INCOMPLETE ->
  exit_status (snd (append_file COMPLEX_APPENDS sev0 os end_ok)) = 1.
Proof.
  intros sev0 os end_ok own parts p Hin Hp Hc Hs. apply c03_exit_nonzero.
  exists (Complex (complex_sev own parts)). split; [exact Hin|].
  cbn [bad]. pose proof (complex_sev_keeps own parts p Hp Hc). Lia.lia.
Qed.
Print Assumptions c03_bad_complex_part_rejected.

(* a part written twice in an externally mapped instance is reported whatever else the record holds (the second record
   would silently replace the values of the first); with every part written once nothing changes *)
Theorem c03_part_written_twice_reported : forall own named,
  has_dup (map fst named) = true -> complex_sev_named own named <= SEVERITY_WARNING.
Proof. exact complex_sev_named_dup. Qed.
Print Assumptions c03_part_written_twice_reported.

Theorem c03_parts_written_once_as_before : forall own named,
  has_dup (map fst named) = false -> complex_sev_named own named = complex_sev own (map snd named).
Proof. exact complex_sev_named_nodup. Qed.
Print Assumptions c03_parts_written_once_as_before.

Example c03_complex_example :
  (* UNIT_B(7) beside SI_B: tolerated *)
  complex_sev SEVERITY_NULL [(SEVERITY_NULL, [(SEVERITY_NULL, false)]); (SEVERITY_NULL, [(SEVERITY_NULL, false)]); (SEVERITY_WARNING, [(SEVERITY_WARNING, true)])] = SEVERITY_NULL /\
  (* LEN_B(12) beside it: not hidden *)
  complex_sev SEVERITY_NULL [(SEVERITY_WARNING, [(SEVERITY_WARNING, false)]); (SEVERITY_NULL, [(SEVERITY_NULL, false)]); (SEVERITY_WARNING, [(SEVERITY_WARNING, true)])] = SEVERITY_WARNING /\
  (* a derived attribute and another one of the same part complain *)
  complex_sev SEVERITY_NULL [(SEVERITY_WARNING, [(SEVERITY_WARNING, true); (SEVERITY_WARNING, false)])] = SEVERITY_WARNING.
Proof. vm_compute. repeat split. Qed.

(* the attribute loop of SDAI_Application_instance::STEPread (coq/RecRead.v): whatever attributes of the class are
   redefining ones (they take no parameter) and wherever they stand, a record of good values is read clean exactly
   when it has as many parameters as the class has other attributes; too few and too many are both reported *)
Theorem c03_right_parameter_count_clean : forall empty_sev attrs sevs,
  Forall (fun s => s = SEVERITY_NULL) sevs -> length sevs = explicit_count attrs ->
  record_sev empty_sev attrs (params sevs) = SEVERITY_NULL.
Proof. exact right_count_clean. Qed.
Print Assumptions c03_right_parameter_count_clean.

Theorem c03_wrong_parameter_count_reported : forall empty_sev attrs sevs,
  Forall (fun s => s = SEVERITY_NULL) sevs -> length sevs <> explicit_count attrs ->
  record_sev empty_sev attrs (params sevs) <= SEVERITY_WARNING.
Proof. exact wrong_count_reported. Qed.
Print Assumptions c03_wrong_parameter_count_reported.

Example c03_count_example :
  let attrs := [false; false; true; false] in          (* DCARRIER: load, note, [redeclared load], extra *)
  let n := SEVERITY_NULL in
  record_sev (fun _ => n) attrs (params [n; n; n]) = SEVERITY_NULL /\
  record_sev (fun _ => n) attrs (params [n; n]) = SEVERITY_WARNING /\
  record_sev (fun _ => n) attrs (params [n; n; n; n]) = SEVERITY_INPUT_ERROR /\
  record_sev (fun _ => n) [false; false; true] (params [n; n]) = SEVERITY_NULL /\
  record_sev (fun _ => n) [false; false; true] (params [n]) = SEVERITY_WARNING.
Proof. vm_compute. repeat split. Qed.

Example c03_example :
  snd (append_file COMPLEX_APPENDS SEVERITY_NULL [Simple SEVERITY_NULL; Complex SEVERITY_WARNING; Simple SEVERITY_NULL] true) = SEVERITY_WARNING /\
  snd (append_file COMPLEX_APPENDS SEVERITY_NULL [Simple SEVERITY_NULL; NotCreated] true) = SEVERITY_WARNING /\
  inst_sev [SEVERITY_NULL; SEVERITY_INCOMPLETE; SEVERITY_NULL] = SEVERITY_INCOMPLETE.
Proof. vm_compute. repeat split. Qed.
