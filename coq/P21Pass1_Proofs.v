(* C01 / C03: the first pass of the eager reader (coq/P21Pass1.v) creates every well-formed instance of a
   data section - simple or externally mapped - whatever its layout, under its own name and with its
   keyword or the names of its parts. *)
From Coq Require Import List ZArith Bool NArith Lia.
From SC Require Import P21Lex P21Str P21Str_Proofs P21Sep P21Sep_Proofs P21Skip P21Skip_Proofs P21Pass1.
Import ListNotations.
Local Open Scope N_scope.

(* ---------------- operator>>( int ) ---------------- *)
Lemma int_digits_app ds : forall rest acc cnt,
  forallb is_digit ds = true -> head_is is_digit rest = false ->
  int_digits (ds ++ rest) acc cnt = (fold_left (fun a c => (a * 10 + Z.of_N (c - 48))%Z) ds acc, (cnt + length ds)%nat, rest).
Proof.
  induction ds as [|d ds IH]; intros rest acc cnt Hd Hr.
  - cbn [app fold_left length]. rewrite Nat.add_0_r.
    destruct rest as [|c r]; [reflexivity|]. cbn [head_is] in Hr. cbn [int_digits]. rewrite Hr. reflexivity.
  - cbn [forallb] in Hd. apply andb_true_iff in Hd. destruct Hd as [H1 H2].
    cbn [app int_digits]. rewrite H1. rewrite (IH rest _ _ H2 Hr).
    cbn [fold_left length]. rewrite Nat.add_succ_r. reflexivity.
Qed.

Lemma fold_digits_nonneg ds : forall acc, (0 <= acc)%Z ->
  (0 <= fold_left (fun a c => (a * 10 + Z.of_N (c - 48))%Z) ds acc)%Z.
Proof.
  induction ds as [|d ds IH]; intros acc Ha; cbn [fold_left]; [exact Ha|].
  apply IH. pose proof (N2Z.is_nonneg (d - 48)). lia.
Qed.

Lemma digit_not_sign c : is_digit c = true -> (c =? 45) = false /\ (c =? 43) = false.
Proof.
  unfold is_digit. intros H. apply andb_true_iff in H. destruct H as [H1 H2].
  apply N.leb_le in H1. split; apply N.eqb_neq; lia.
Qed.

Lemma read_int_digits ds rest :
  forallb is_digit ds = true -> ds <> [] -> (ival ds <= INT_MAX)%Z -> head_is is_digit rest = false ->
  read_int (ds ++ rest) = (Some (ival ds), rest).
Proof.
  intros Hd Hne Hmax Hr. unfold read_int.
  destruct ds as [|d0 ds']; [congruence|].
  assert (Hd0 : is_digit d0 = true) by (cbn [forallb] in Hd; apply andb_true_iff in Hd; exact (proj1 Hd)).
  change ((d0 :: ds') ++ rest) with (d0 :: (ds' ++ rest)).
  rewrite (skip_ws_nonspace _ _ (digit_not_space _ Hd0)).
  destruct (digit_not_sign _ Hd0) as [S1 S2]. rewrite S1, S2.
  change (d0 :: ds' ++ rest) with ((d0 :: ds') ++ rest).
  rewrite (int_digits_app (d0 :: ds') rest 0%Z 0%nat Hd Hr). fold (ival (d0 :: ds')).
  cbn [Nat.add length].
  pose proof (fold_digits_nonneg (d0 :: ds') 0%Z (Z.le_refl 0)) as Hnn. fold (ival (d0 :: ds')) in Hnn.
  destruct (Z.ltb_spec (ival (d0 :: ds')) INT_MIN) as [E|E]; [unfold INT_MIN in E; lia|].
  destruct (Z.ltb_spec INT_MAX (ival (d0 :: ds'))) as [E2|E2]; [lia|]. reflexivity.
Qed.

(* ---------------- ReadStdKeyword ---------------- *)
Lemma std_keyword_loop_app kw : forall rest acc,
  forallb is_alnum_us kw = true -> head_is is_alnum_us rest = false ->
  std_keyword_loop (kw ++ rest) acc = (acc ++ kw, rest).
Proof.
  induction kw as [|a kw IH]; intros rest acc Hk Hr.
  - cbn [app]. rewrite app_nil_r. destruct rest as [|c r]; [reflexivity|].
    cbn [head_is] in Hr. cbn [std_keyword_loop]. rewrite Hr. reflexivity.
  - cbn [forallb] in Hk. apply andb_true_iff in Hk. destruct Hk as [Ha Hk].
    cbn [app std_keyword_loop]. rewrite Ha. rewrite (IH rest (acc ++ [a]) Hk Hr). rewrite <- app_assoc. reflexivity.
Qed.

Lemma kw_start_tests c : kw_start_ok c = true ->
  is_space c = false /\ (c =? SLASH) = false /\ (c =? BSLASH) = false /\ (c =? 38) = false /\ (c =? LPAR) = false /\ (c =? BANG) = false.
Proof.
  unfold kw_start_ok. intros H. repeat (apply andb_true_iff in H; destruct H as [H ?]).
  repeat match goal with X : negb _ = true |- _ => apply negb_true_iff in X end.
  repeat split; assumption.
Qed.

(* ---------------- CreateInstance on a simple instance ---------------- *)
Lemma alnum_not_space c : is_alnum_us c = true -> is_space c = false.
Proof.
  unfold is_alnum_us, is_alpha, is_digit, is_space. intros H.
  repeat (apply orb_false_iff; split); apply N.eqb_neq; intros ->; discriminate H.
Qed.

Section Simple.
  Variable creatable : list byte -> bool.
  Variable legal : list (list byte) -> option bool.

  Lemma create_simple (i : sinst) (have : list Z) (next : list byte) :
    sinst_ok i next = true -> creatable (si_kw i) = true -> ~ In (ival (si_ds i)) have ->
    create_instance creatable legal have
      (seps_text (si_s1 i) ++ si_ds i ++ seps_text (si_s2 i) ++ EQUALS :: seps_text (si_s3 i)
       ++ si_kw i ++ srender (si_rec i) ++ SEMI :: next)
    = (Some (CSimple (ival (si_ds i)) (si_kw i)), Some (token_separator next), Done).
  Proof.
    intros Hok Hc Hnew. unfold sinst_ok in Hok.
    repeat match type of Hok with (_ && _) = true => apply andb_true_iff in Hok; let H := fresh "C" in destruct Hok as [Hok H] end.
    apply negb_true_iff in C4. apply negb_true_iff in C0. apply Z.leb_le in C3.
    unfold create_instance.
    (* the digits *)
    destruct (si_ds i) as [|d0 ds'] eqn:ED; [discriminate C4|]. clear C4.
    assert (Hd0 : is_digit d0 = true) by (cbn [forallb] in C5; apply andb_true_iff in C5; exact (proj1 C5)).
    assert (Hd0' : (d0 =? SLASH) = false /\ (d0 =? BSLASH) = false).
    { unfold is_digit in Hd0. apply andb_true_iff in Hd0. destruct Hd0 as [A B]. apply N.leb_le in A, B.
      split; apply N.eqb_neq; unfold SLASH, BSLASH; lia. }
    change ((d0 :: ds') ++ ?m) with (d0 :: (ds' ++ m)).
    rewrite (token_separator_skips (si_s1 i) d0 _ C8 (digit_not_space _ Hd0) (proj1 Hd0') (proj2 Hd0')).
    change (d0 :: ds' ++ ?m) with ((d0 :: ds') ++ m).
    rewrite (read_int_digits (d0 :: ds') _ C5 ltac:(discriminate) C3 (seps_head_not_digit (si_s2 i) EQUALS _ C7 eq_refl)).
    (* not a duplicate *)
    assert (Hdup : existsb (Z.eqb (ival (d0 :: ds'))) have = false).
    { apply not_true_iff_false. intros E. apply existsb_exists in E. destruct E as [x [Hx Ex]].
      apply Z.eqb_eq in Ex. subst x. exact (Hnew Hx). }
    rewrite Hdup.
    (* the equals sign *)
    rewrite (token_separator_skips (si_s2 i) EQUALS _ C7 eq_refl eq_refl eq_refl).
    change (EQUALS =? EQUALS) with true. cbn [negb]. cbv iota.
    (* the keyword *)
    destruct (si_kw i) as [|k0 kw'] eqn:EK; [discriminate C1|].
    cbn [head_is] in C1. destruct (kw_start_tests k0 C1) as (K1 & K2 & K3 & K4 & K5 & K6).
    change ((k0 :: kw') ++ ?m) with (k0 :: (kw' ++ m)).
    rewrite (token_separator_skips (si_s3 i) k0 _ C6 K1 K2 K3).
    rewrite K4, K5, K6. cbv iota.
    assert (Hkw : read_std_keyword (k0 :: kw' ++ srender (si_rec i) ++ SEMI :: next) = (k0 :: kw', srender (si_rec i) ++ SEMI :: next)).
    { unfold read_std_keyword. rewrite (skip_ws_nonspace _ _ K1).
      change (k0 :: kw' ++ ?m) with ((k0 :: kw') ++ m).
      rewrite (std_keyword_loop_app (k0 :: kw') _ [] C2); [reflexivity|].
      replace (srender (si_rec i) ++ SEMI :: next) with ((srender (si_rec i) ++ [SEMI]) ++ next)
        by (rewrite <- app_assoc; reflexivity).
      rewrite head_is_app; [exact C0|]. destruct (srender (si_rec i)); discriminate. }
    rewrite Hkw. rewrite Hc.
    unfold after_record. rewrite (skip_instance_wellformed (si_rec i) next C). reflexivity.
  Qed.
End Simple.

(* ---------------- the records of the parts of an externally mapped instance ---------------- *)
Lemma skip_balanced_S f l depth : skip_balanced (S f) l depth =
  match l with
  | [] => None
  | c :: r =>
    if c =? RPAR then match depth with O | S O => Some r | S d => skip_balanced f r d end
    else if c =? LPAR then skip_balanced f r (S depth)
    else if c =? APOS then
      let '(_, unclosed, r') := get_literal l in
      if unclosed then None else skip_balanced f r' depth
    else skip_balanced f r depth
  end.
Proof. reflexivity. Qed.

Lemma bchr_ok_tests c : bchr_ok c = true -> (c =? LPAR) = false /\ (c =? RPAR) = false /\ (c =? APOS) = false.
Proof.
  unfold bchr_ok. intros H. apply andb_true_iff in H. destruct H as [H H3]. apply andb_true_iff in H. destruct H as [H1 H2].
  apply negb_true_iff in H1, H2, H3. repeat split; assumption.
Qed.

Lemma skip_balanced_tokens ts : forall d rest f,
  closes d ts = true -> (length (brender ts) <= f)%nat ->
  skip_balanced f (brender ts ++ rest) d = Some rest.
Proof.
  induction ts as [|t r IH]; intros d rest f Hc Hf; [discriminate Hc|].
  change (brender (t :: r)) with (btext t ++ brender r) in *. rewrite app_length in Hf.
  destruct t as [its| | |c].
  - (* a string *)
    cbn [closes] in Hc. apply andb_true_iff in Hc. destruct Hc as [Hc Hr]. apply andb_true_iff in Hc. destruct Hc as [Hi Hn].
    apply negb_true_iff in Hn.
    cbn [btext] in *. cbn [length] in Hf. destruct f as [|f']; [lia|].
    rewrite <- app_assoc. cbn [app]. rewrite skip_balanced_S. rewrite <- app_assoc. cbn [app].
    change (APOS =? RPAR) with false. change (APOS =? LPAR) with false. change (APOS =? APOS) with true. cbv iota.
    rewrite (literal_extent its (brender r ++ rest) Hi).
    + apply IH; [exact Hr|]. rewrite app_length in Hf. cbn [length] in Hf. lia.
    + destruct r as [|t2 r2]; [discriminate Hr|].
      change (brender (t2 :: r2)) with (btext t2 ++ brender r2) in *.
      destruct t2 as [its2| | |c2]; cbn [btext app head_is not_apos_head] in *; try reflexivity; exact Hn.
  - (* an opening parenthesis *)
    cbn [closes] in Hc. cbn [btext app length] in *. destruct f as [|f']; [lia|].
    rewrite skip_balanced_S. change (LPAR =? RPAR) with false. change (LPAR =? LPAR) with true. cbv iota.
    apply IH; [exact Hc|lia].
  - (* a closing parenthesis *)
    cbn [btext app length] in *. destruct f as [|f']; [lia|].
    rewrite skip_balanced_S. change (RPAR =? RPAR) with true. cbv iota.
    cbn [closes] in Hc. destruct d as [|[|d']]; [discriminate Hc| |].
    + destruct r; [reflexivity|discriminate Hc].
    + apply IH; [exact Hc|lia].
  - (* another character *)
    cbn [closes] in Hc. apply andb_true_iff in Hc. destruct Hc as [Hb Hr].
    destruct (bchr_ok_tests c Hb) as (B1 & B2 & B3).
    cbn [btext app length] in *. destruct f as [|f']; [lia|].
    rewrite skip_balanced_S. rewrite B2, B1, B3. apply IH; [exact Hr|lia].
Qed.

(* ---------------- the loop of CreateSubSuperInstance ---------------- *)
Lemma part_names_S f l acc : part_names (S f) l acc =
    match l with
    | [] => Some (acc, [])
    | c :: _ =>
      if c =? RPAR then Some (acc, l)
      else if Nat.leb 63 (length acc) then Some (acc, l)
      else
        let '(nm, r1) := read_std_keyword l in
        let acc' := acc ++ match nm with [] => [] | _ => [nm] end in
        match (match nm with [] => Some r1 | _ => skip_simple_record r1 end) with
        | None => Some (acc', [])
        | Some r2 =>
          match skip_junk (S (length r2)) r2 with
          | None => None
          | Some [] => Some (acc', [])
          | Some m => part_names f m acc'
          end
        end
    end.
Proof. reflexivity. Qed.

Lemma alpha_tests c : is_alpha c = true -> is_space c = false /\ (c =? RPAR) = false /\ is_alnum_us c = true.
Proof.
  intros H. assert (A : is_alnum_us c = true) by (unfold is_alnum_us; rewrite H; reflexivity).
  split; [exact (alnum_not_space c A)|]. split; [|exact A].
  apply N.eqb_neq. intros ->. discriminate H.
Qed.

Lemma spaces_then_lpar_not_alnum ws x : forallb is_space ws = true -> head_is is_alnum_us (ws ++ LPAR :: x) = false.
Proof.
  destruct ws as [|w ws']; intros H; [reflexivity|].
  cbn [forallb] in H. apply andb_true_iff in H. destruct H as [Hw _]. cbn [app head_is].
  destruct (is_alnum_us w) eqn:E; [|reflexivity]. rewrite (alnum_not_space w E) in Hw. discriminate Hw.
Qed.

(* what stands after a part: a letter (the next part) or the closing parenthesis *)
Definition part_follow (l : list byte) : Prop :=
  match l with x :: _ => is_space x = false /\ ((x =? RPAR) || is_alpha x) = true | [] => False end.

Lemma skip_junk_at ws l : forallb is_space ws = true -> part_follow l ->
  skip_junk (S (length (ws ++ l))) (ws ++ l) = Some l.
Proof.
  intros Hws Hl. destruct l as [|x m]; [contradiction|]. destruct Hl as [Hs Ha].
  cbn [skip_junk]. rewrite (skip_ws_spaces _ _ Hws), (skip_ws_nonspace _ _ Hs). rewrite Ha. reflexivity.
Qed.

Lemma cpart_follow p more : cpart_ok p = true -> part_follow (cpart_text p ++ more).
Proof.
  unfold cpart_ok. intros H. repeat (apply andb_true_iff in H; destruct H as [H ?]).
  unfold cpart_text. destruct (cp_name p) as [|k0 kw]; [discriminate|].
  cbn [head_is] in *. cbn [app part_follow].
  match goal with A : is_alpha k0 = true |- _ => destruct (alpha_tests k0 A) as (T1 & T2 & T3); rewrite A end.
  split; [exact T1|apply orb_true_r].
Qed.

Lemma parts_follow ps rest : forallb cpart_ok ps = true -> part_follow (flat_map cpart_text ps ++ RPAR :: rest).
Proof.
  destruct ps as [|p ps']; intros H.
  - cbn [flat_map app part_follow]. split; reflexivity.
  - cbn [forallb] in H. apply andb_true_iff in H. destruct H as [Hp _].
    cbn [flat_map]. rewrite <- app_assoc. apply cpart_follow. exact Hp.
Qed.

Lemma part_names_parts ps : forall acc rest f,
  forallb cpart_ok ps = true -> (length acc + length ps <= 63)%nat -> (length ps < f)%nat ->
  part_names f (flat_map cpart_text ps ++ RPAR :: rest) acc = Some (acc ++ map cp_name ps, RPAR :: rest).
Proof.
  induction ps as [|p ps IH]; intros acc rest f Hok Hn Hf.
  - destruct f as [|f']; [cbn [length] in Hf; lia|].
    cbn [flat_map app map]. rewrite part_names_S. change (RPAR =? RPAR) with true. cbv iota. rewrite app_nil_r. reflexivity.
  - destruct f as [|f']; [lia|].
    cbn [forallb] in Hok. apply andb_true_iff in Hok. destruct Hok as [Hp Hps].
    pose proof (parts_follow ps rest Hps) as Hfol.
    cbn [flat_map]. rewrite <- app_assoc.
    set (more := flat_map cpart_text ps ++ RPAR :: rest) in *.
    unfold cpart_ok in Hp. repeat (apply andb_true_iff in Hp; destruct Hp as [Hp ?]).
    unfold cpart_text. destruct (cp_name p) as [|k0 kw] eqn:EN; [discriminate|].
    match goal with A : head_is is_alpha (k0 :: kw) = true |- _ => cbn [head_is] in A; destruct (alpha_tests k0 A) as (T1 & T2 & T3) end.
    repeat (rewrite <- app_assoc || rewrite <- app_comm_cons). rewrite part_names_S. rewrite T2.
    assert (L63 : Nat.leb 63 (length acc) = false) by (apply Nat.leb_gt; cbn [length] in Hn; lia).
    rewrite L63.
    assert (Hkw : read_std_keyword (k0 :: kw ++ cp_ws1 p ++ LPAR :: brender (cp_toks p) ++ cp_ws2 p ++ more)
                  = (k0 :: kw, cp_ws1 p ++ LPAR :: brender (cp_toks p) ++ cp_ws2 p ++ more)).
    { unfold read_std_keyword. rewrite (skip_ws_nonspace _ _ T1).
      change (k0 :: kw ++ ?m) with ((k0 :: kw) ++ m).
      rewrite (std_keyword_loop_app (k0 :: kw) _ []); [reflexivity|assumption|].
      apply spaces_then_lpar_not_alnum. assumption. }
    rewrite Hkw. cbv zeta iota beta.
    assert (Hrec : skip_simple_record (cp_ws1 p ++ LPAR :: brender (cp_toks p) ++ cp_ws2 p ++ more) = Some (cp_ws2 p ++ more)).
    { unfold skip_simple_record. rewrite skip_ws_spaces by assumption. rewrite skip_ws_nonspace by reflexivity.
      change (LPAR =? LPAR) with true. cbv iota.
      apply skip_balanced_tokens; [assumption|]. rewrite app_length. lia. }
    rewrite Hrec.
    rewrite (skip_junk_at (cp_ws2 p) more) by assumption.
    assert (IHm : part_names f' more (acc ++ [k0 :: kw]) = Some ((acc ++ [k0 :: kw]) ++ map cp_name ps, RPAR :: rest)).
    { apply IH; [exact Hps| |].
      - rewrite app_length. cbn [length] in *. lia.
      - cbn [length] in Hf. lia. }
    clearbody more. destruct more as [|x m]; [contradiction|].
    rewrite IHm. rewrite <- app_assoc. cbn [app map]. rewrite EN. reflexivity.
Qed.

Lemma flat_map_length_ge {A} (f : A -> list byte) (l : list A) :
  (forall a, (1 <= length (f a))%nat) -> (length l <= length (flat_map f l))%nat.
Proof.
  intros H. induction l as [|a l IH]; [apply le_n|]. cbn [flat_map length]. rewrite app_length. pose proof (H a). lia.
Qed.

Lemma cpart_text_length p : (1 <= length (cpart_text p))%nat.
Proof. unfold cpart_text. rewrite !app_length. cbn [length]. lia. Qed.

Section Complex.
  Variable creatable : list byte -> bool.
  Variable legal : list (list byte) -> option bool.

  Lemma create_complex (i : cinst) (have : list Z) (next : list byte) :
    cinst_ok i next = true -> legal (map cp_name (ci_parts i)) = Some true -> ~ In (ival (ci_ds i)) have ->
    create_instance creatable legal have (cinst_body i ++ next)
    = (Some (CComplex (ival (ci_ds i)) (map cp_name (ci_parts i))), Some (token_separator next), Done).
  Proof.
    intros Hok Hl Hnew. unfold cinst_ok in Hok.
    repeat match type of Hok with (_ && _) = true => apply andb_true_iff in Hok; let H := fresh "C" in destruct Hok as [Hok H] end.
    apply negb_true_iff in C4. apply Z.leb_le in C3. apply Nat.leb_le in C0.
    unfold cinst_body. repeat (rewrite <- app_assoc || rewrite <- app_comm_cons). change ([] ++ next) with next.
    unfold create_instance.
    destruct (ci_ds i) as [|d0 ds'] eqn:ED; [discriminate C4|]. clear C4.
    assert (Hd0 : is_digit d0 = true) by (cbn [forallb] in C5; apply andb_true_iff in C5; exact (proj1 C5)).
    assert (Hd0' : (d0 =? SLASH) = false /\ (d0 =? BSLASH) = false).
    { unfold is_digit in Hd0. apply andb_true_iff in Hd0. destruct Hd0 as [A B]. apply N.leb_le in A, B.
      split; apply N.eqb_neq; unfold SLASH, BSLASH; lia. }
    change ((d0 :: ds') ++ ?m) with (d0 :: (ds' ++ m)).
    rewrite (token_separator_skips (ci_s1 i) d0 _ C8 (digit_not_space _ Hd0) (proj1 Hd0') (proj2 Hd0')).
    change (d0 :: ds' ++ ?m) with ((d0 :: ds') ++ m).
    rewrite (read_int_digits (d0 :: ds') _ C5 ltac:(discriminate) C3 (seps_head_not_digit (ci_s2 i) EQUALS _ C7 eq_refl)).
    assert (Hdup : existsb (Z.eqb (ival (d0 :: ds'))) have = false).
    { apply not_true_iff_false. intros E. apply existsb_exists in E. destruct E as [x [Hx Ex]].
      apply Z.eqb_eq in Ex. subst x. exact (Hnew Hx). }
    rewrite Hdup.
    rewrite (token_separator_skips (ci_s2 i) EQUALS _ C7 eq_refl eq_refl eq_refl).
    change (EQUALS =? EQUALS) with true. cbn [negb]. cbv iota.
    rewrite (token_separator_skips (ci_s3 i) LPAR _ C6 eq_refl eq_refl eq_refl).
    change (LPAR =? 38) with false. change (LPAR =? LPAR) with true. cbv iota.
    set (rest := srender (ci_rec i) ++ SEMI :: next).
    pose proof (parts_follow (ci_parts i) rest C1) as Hfol.
    assert (Hsk : skip_ws (ci_ws0 i ++ flat_map cpart_text (ci_parts i) ++ RPAR :: rest) = flat_map cpart_text (ci_parts i) ++ RPAR :: rest).
    { rewrite (skip_ws_spaces _ _ C2).
      destruct (flat_map cpart_text (ci_parts i) ++ RPAR :: rest) as [|x m]; [contradiction|].
      apply skip_ws_nonspace. exact (proj1 Hfol). }
    rewrite Hsk.
    rewrite (part_names_parts (ci_parts i) [] rest); [|exact C1|cbn [length]; lia|].
    - cbn [app]. rewrite Hl. unfold after_record.
      change (RPAR :: rest) with (srender (SChr RPAR :: ci_rec i) ++ SEMI :: next).
      rewrite (skip_instance_wellformed (SChr RPAR :: ci_rec i) next); [reflexivity|].
      cbn [stoks_ok stok_ok]. rewrite C. reflexivity.
    - rewrite !app_length. pose proof (flat_map_length_ge cpart_text (ci_parts i) cpart_text_length). lia.
  Qed.
End Complex.

(* ---------------- the loop of ReadData1 ---------------- *)
(* ---------------- the loop of ReadData1 ---------------- *)
Lemma match_prefix_first c r p0 p : (c =? p0) = false -> match_prefix (p0 :: p) (c :: r) = (false, c :: r).
Proof. intros H. cbn [match_prefix]. rewrite H. reflexivity. Qed.

Lemma found_endsec_other c r : is_space c = false -> (c =? 69) = false -> found_endsec (c :: r) = (false, c :: r).
Proof.
  intros Hs He. unfold found_endsec. rewrite (skip_ws_nonspace _ _ Hs).
  rewrite (match_prefix_first c r 69 _ He). reflexivity.
Qed.

Lemma found_endsec_endsec ws x : forallb is_space ws = true ->
  found_endsec ([69; 78; 68; 83; 69; 67] ++ ws ++ SEMI :: x) = (true, x).
Proof.
  intros Hws. unfold found_endsec. cbn [app]. rewrite skip_ws_nonspace by reflexivity.
  cbn [match_prefix]. repeat (rewrite N.eqb_refl). rewrite (skip_ws_spaces _ _ Hws).
  rewrite skip_ws_nonspace by reflexivity. change (SEMI =? SEMI) with true. reflexivity.
Qed.

Lemma token_separator_at c r : is_space c = false -> (c =? SLASH) = false -> (c =? BSLASH) = false ->
  token_separator (c :: r) = c :: r.
Proof.
  intros A B C. exact (token_separator_skips ([], []) c r eq_refl A B C).
Qed.

Lemma skip_ws_seps s c r : seps_ok s = true -> is_space c = false ->
  exists s', seps_ok s' = true /\ skip_ws (seps_text s ++ c :: r) = seps_text s' ++ c :: r.
Proof.
  destruct s as [pairs wsf]. intros Hok Hc. unfold seps_ok in Hok. cbn [fst snd] in Hok.
  apply andb_true_iff in Hok. destruct Hok as [Hps Hwf].
  destruct pairs as [|[ws txt] ps].
  - exists ([], []). split; [reflexivity|]. unfold seps_text. cbn [fst snd flat_map app].
    rewrite (skip_ws_spaces _ _ Hwf), (skip_ws_nonspace _ _ Hc). reflexivity.
  - cbn [forallb fst snd] in Hps. apply andb_true_iff in Hps. destruct Hps as [Hp Hps'].
    apply andb_true_iff in Hp. destruct Hp as [Hws Htxt].
    exists (([], txt) :: ps, wsf). split.
    + unfold seps_ok. cbn [fst snd forallb]. rewrite Htxt, Hps', Hwf. reflexivity.
    + unfold seps_text. cbn [fst snd flat_map]. repeat rewrite <- app_assoc.
      rewrite (skip_ws_spaces _ _ Hws). cbn [app]. rewrite skip_ws_nonspace by reflexivity. reflexivity.
Qed.

Lemma seps_head s c r : seps_ok s = true -> is_space c = false ->
  forall s', skip_ws (seps_text s ++ c :: r) = seps_text s' ++ c :: r ->
  match skip_ws (seps_text s ++ c :: r) with x :: _ => (x =? SLASH) || (x =? c) = true | [] => False end.
Proof.
  destruct s as [pairs wsf]. intros Hok Hc s' _. unfold seps_ok in Hok. cbn [fst snd] in Hok.
  apply andb_true_iff in Hok. destruct Hok as [Hps Hwf].
  destruct pairs as [|[ws txt] ps].
  - unfold seps_text. cbn [fst snd flat_map app]. rewrite (skip_ws_spaces _ _ Hwf), (skip_ws_nonspace _ _ Hc).
    rewrite N.eqb_refl, orb_true_r. reflexivity.
  - cbn [forallb fst snd] in Hps. apply andb_true_iff in Hps. destruct Hps as [Hp _].
    apply andb_true_iff in Hp. destruct Hp as [Hws _].
    unfold seps_text. cbn [fst snd flat_map]. repeat rewrite <- app_assoc.
    rewrite (skip_ws_spaces _ _ Hws). cbn [app]. rewrite skip_ws_nonspace by reflexivity. reflexivity.
Qed.

Lemma inst_s0_ok i next : inst_ok i next = true -> seps_ok (inst_s0 i) = true.
Proof.
  destruct i as [s|c]; cbn [inst_ok inst_s0]; intros H.
  - unfold sinst_ok in H. do 10 (apply andb_true_iff in H; destruct H as [H _]). exact H.
  - unfold cinst_ok in H. do 10 (apply andb_true_iff in H; destruct H as [H _]). exact H.
Qed.

Lemma inst_text_length i : (1 <= length (inst_text i))%nat.
Proof. unfold inst_text. rewrite app_length. cbn [length]. lia. Qed.

Section Mixed.
  Variable creatable : list byte -> bool.
  Variable legal : list (list byte) -> option bool.

  Lemma create_inst (i : inst) (have : list Z) (next : list byte) :
    inst_ok i next = true -> inst_accepted creatable legal i = true -> ~ In (inst_id i) have ->
    create_instance creatable legal have (inst_body i ++ next)
    = (Some (inst_summary i), Some (token_separator next), Done).
  Proof.
    destruct i as [s|c]; cbn [inst_ok inst_accepted inst_id inst_body inst_summary]; intros Hok Hacc Hnew.
    - unfold sinst_body. repeat (rewrite <- app_assoc || rewrite <- app_comm_cons). change ([] ++ next) with next.
      exact (create_simple creatable legal s have next Hok Hacc Hnew).
    - apply create_complex; [exact Hok| |exact Hnew].
      destruct (legal (map cp_name (ci_parts c))) as [[|]|]; [reflexivity|discriminate Hacc|discriminate Hacc].
  Qed.

  Definition gsection_text (is : list inst) (tail : list byte) : list byte := flat_map inst_text is ++ tail.

  Lemma inst_text_shape i more : inst_text i ++ more = seps_text (inst_s0 i) ++ HASH :: (inst_body i ++ more).
  Proof. unfold inst_text. rewrite <- app_assoc. reflexivity. Qed.

  Lemma inst_id_nonzero i next : inst_ok i next = true -> (inst_id i =? 0)%Z = false.
  Proof.
    destruct i as [s|c]; cbn [inst_ok inst_id]; intros H.
    - unfold sinst_ok in H. do 5 (apply andb_true_iff in H; destruct H as [H _]). apply andb_true_iff in H. destruct H as [_ H].
      apply negb_true_iff in H. exact H.
    - unfold cinst_ok in H. do 5 (apply andb_true_iff in H; destruct H as [H _]). apply andb_true_iff in H. destruct H as [_ H].
      apply negb_true_iff in H. exact H.
  Qed.

  Lemma pass1_mixed is : forall st ws x acc mx f l,
    ginsts_ok is (seps_text st ++ [69; 78; 68; 83; 69; 67] ++ ws ++ SEMI :: x) = true ->
    seps_ok st = true -> forallb is_space ws = true ->
    forallb (inst_accepted creatable legal) is = true ->
    NoDup (map cid acc ++ map inst_id is) ->
    (length is <= f)%nat ->
    token_separator l = token_separator (gsection_text is (seps_text st ++ [69; 78; 68; 83; 69; 67] ++ ws ++ SEMI :: x)) ->
    l <> [] -> is <> [] ->
    pass1 creatable legal (S f) l acc (map cid acc) mx = (acc ++ map inst_summary is, Done).
  Proof.
    induction is as [|i r IH]; intros st ws x acc mx f l Hok Hst Hws Hcr Hnd Hf Hl Hne Hnn; [congruence|]. clear Hnn.
    set (tail := seps_text st ++ [69; 78; 68; 83; 69; 67] ++ ws ++ SEMI :: x) in *.
    cbn [ginsts_ok] in Hok. apply andb_true_iff in Hok. destruct Hok as [Hi Hr].
    cbn [forallb] in Hcr. apply andb_true_iff in Hcr. destruct Hcr as [Hci Hcr].
    set (next := flat_map inst_text r ++ tail) in *.
    assert (Hsec : gsection_text (i :: r) tail = inst_text i ++ next).
    { unfold gsection_text, next. cbn [flat_map]. rewrite <- app_assoc. reflexivity. }
    rewrite Hsec, inst_text_shape in Hl.
    pose proof (inst_s0_ok i next Hi) as Hs0.
    rewrite (token_separator_skips (inst_s0 i) HASH _ Hs0 eq_refl eq_refl eq_refl) in Hl.
    destruct l as [|l0 l']; [congruence|].
    cbn [pass1]. rewrite Hl. rewrite skip_ws_nonspace by reflexivity.
    change (HASH =? HASH) with true. cbn [negb]. cbv iota.
    assert (Hnew : ~ In (inst_id i) (map cid acc)).
    { cbn [map] in Hnd. apply NoDup_remove_2 in Hnd. intros Hin. apply Hnd. apply in_or_app. left. exact Hin. }
    rewrite (create_inst i (map cid acc) next Hi Hci Hnew).
    assert (Hcid : cid (inst_summary i) = inst_id i) by (destruct i; reflexivity).
    unfold mgr_append. rewrite Hcid, (inst_id_nonzero i next Hi).
    destruct r as [|i2 r2].
    - unfold next. cbn [flat_map app]. unfold tail.
      change ([69; 78; 68; 83; 69; 67] ++ ws ++ SEMI :: x) with (69 :: ([78; 68; 83; 69; 67] ++ ws ++ SEMI :: x)).
      rewrite (token_separator_skips st 69 _ Hst eq_refl eq_refl eq_refl).
      change (69 :: [78; 68; 83; 69; 67] ++ ws ++ SEMI :: x) with ([69; 78; 68; 83; 69; 67] ++ ws ++ SEMI :: x).
      rewrite (found_endsec_endsec ws x Hws). reflexivity.
    - assert (Hnext : next = inst_text i2 ++ (flat_map inst_text r2 ++ tail)).
      { unfold next. cbn [flat_map]. rewrite <- app_assoc. reflexivity. }
      assert (Hs02 : seps_ok (inst_s0 i2) = true).
      { cbn [ginsts_ok] in Hr. apply andb_true_iff in Hr. destruct Hr as [Hi2 _]. exact (inst_s0_ok _ _ Hi2). }
      rewrite Hnext, inst_text_shape.
      rewrite (token_separator_skips (inst_s0 i2) HASH _ Hs02 eq_refl eq_refl eq_refl).
      rewrite found_endsec_other by reflexivity.
      destruct f as [|f']; [cbn [length] in Hf; lia|].
      specialize (IH st ws x (acc ++ [inst_summary i]) (Z.max mx (inst_id i)) f'
                     (HASH :: inst_body i2 ++ flat_map inst_text r2 ++ tail)
                     Hr Hst Hws Hcr).
      rewrite map_app in IH. cbn [map] in IH. rewrite Hcid in IH.
      rewrite IH.
      + rewrite <- app_assoc. reflexivity.
      + rewrite <- app_assoc. cbn [app]. cbn [map] in Hnd. exact Hnd.
      + cbn [length] in Hf |- *. lia.
      + rewrite token_separator_at by reflexivity.
        fold tail. unfold gsection_text. cbn [flat_map]. rewrite <- app_assoc, inst_text_shape.
        rewrite (token_separator_skips (inst_s0 i2) HASH _ Hs02 eq_refl eq_refl eq_refl). reflexivity.
      + discriminate.
      + discriminate.
  Qed.
End Mixed.

(* every well-formed instance of a data section, simple or externally mapped, is created in file order *)
Theorem read_data1_mixed creatable legal is st ws x :
  is <> [] ->
  ginsts_ok is (seps_text st ++ [69; 78; 68; 83; 69; 67] ++ ws ++ SEMI :: x) = true ->
  seps_ok st = true -> forallb is_space ws = true ->
  forallb (inst_accepted creatable legal) is = true ->
  NoDup (map inst_id is) ->
  read_data1 creatable legal (gsection_text is (seps_text st ++ [69; 78; 68; 83; 69; 67] ++ ws ++ SEMI :: x))
  = (map inst_summary is, Done).
Proof.
  intros Hne Hok Hst Hws Hcr Hnd.
  set (tail := seps_text st ++ [69; 78; 68; 83; 69; 67] ++ ws ++ SEMI :: x) in *.
  destruct is as [|i r]; [congruence|].
  assert (Hs0 : seps_ok (inst_s0 i) = true).
  { cbn [ginsts_ok] in Hok. apply andb_true_iff in Hok. destruct Hok as [Hi _]. exact (inst_s0_ok _ _ Hi). }
  set (more := flat_map inst_text r ++ tail).
  assert (Hsec : gsection_text (i :: r) tail = inst_text i ++ more).
  { unfold gsection_text, more. cbn [flat_map]. rewrite <- app_assoc. reflexivity. }
  unfold read_data1. rewrite Hsec, inst_text_shape.
  set (B := inst_body i ++ more).
  destruct (skip_ws_seps (inst_s0 i) HASH B Hs0 eq_refl) as [s' [Hs' Esk]].
  pose proof (seps_head (inst_s0 i) HASH B Hs0 eq_refl s' Esk) as Hh.
  unfold found_endsec.
  destruct (skip_ws (seps_text (inst_s0 i) ++ HASH :: B)) as [|h t] eqn:EL; [contradiction|].
  assert (Hh69 : (h =? 69) = false).
  { apply orb_true_iff in Hh. destruct Hh as [E|E]; apply N.eqb_eq in E; subst h; reflexivity. }
  rewrite (match_prefix_first h t 69 _ Hh69).
  pose proof (pass1_mixed creatable legal (i :: r) st ws x [] (-1)%Z (length (seps_text (inst_s0 i) ++ HASH :: B)) (h :: t)) as P.
  apply P; [exact Hok|exact Hst|exact Hws|exact Hcr|exact Hnd| | |discriminate|discriminate].
  - unfold B. rewrite <- inst_text_shape, <- Hsec. unfold gsection_text. rewrite app_length.
    pose proof (flat_map_length_ge inst_text (i :: r) inst_text_length). lia.
  - fold tail. rewrite Hsec, inst_text_shape. fold B. rewrite Esk.
    rewrite (token_separator_skips s' HASH B Hs' eq_refl eq_refl eq_refl).
    rewrite (token_separator_skips (inst_s0 i) HASH B Hs0 eq_refl eq_refl eq_refl). reflexivity.
Qed.

(* ---------------- the statement for simple instances alone ---------------- *)
Definition section_text (is : list sinst) (tail : list byte) : list byte := flat_map sinst_text is ++ tail.

Lemma simple_texts is : flat_map inst_text (map ISimple is) = flat_map sinst_text is.
Proof. induction is as [|i r IH]; [reflexivity|]. cbn [map flat_map]. rewrite IH. reflexivity. Qed.

Lemma simple_ok is tail : ginsts_ok (map ISimple is) tail = insts_ok is tail.
Proof.
  induction is as [|i r IH]; [reflexivity|]. cbn [map ginsts_ok insts_ok inst_ok]. rewrite IH, simple_texts. reflexivity.
Qed.

(* every well-formed simple instance of a data section is created, in file order, under its name and keyword *)
Theorem read_data1_wellformed creatable legal is st ws x :
  is <> [] ->
  insts_ok is (seps_text st ++ [69; 78; 68; 83; 69; 67] ++ ws ++ SEMI :: x) = true ->
  seps_ok st = true -> forallb is_space ws = true ->
  forallb (fun i => creatable (si_kw i)) is = true ->
  NoDup (map (fun i => ival (si_ds i)) is) ->
  read_data1 creatable legal (section_text is (seps_text st ++ [69; 78; 68; 83; 69; 67] ++ ws ++ SEMI :: x))
  = (map sinst_summary is, Done).
Proof.
  intros Hne Hok Hst Hws Hcr Hnd.
  pose proof (read_data1_mixed creatable legal (map ISimple is) st ws x) as M.
  unfold gsection_text in M. rewrite simple_texts, simple_ok in M. rewrite !map_map in M. cbn [inst_summary inst_id] in M.
  unfold section_text. apply M; try assumption.
  - destruct is; [congruence|discriminate].
  - rewrite forallb_forall in Hcr |- *. intros j Hj. apply in_map_iff in Hj. destruct Hj as [s [<- Hs]]. exact (Hcr s Hs).
Qed.
