(* C01 / C03: the first pass of the eager reader (coq/P21Pass1.v) creates every well-formed simple
   instance of a data section, whatever its layout, under its own name and keyword. *)
From Coq Require Import List ZArith Bool NArith Lia.
From SC Require Import P21Lex P21Str P21Str_Proofs P21Sep P21Sep_Proofs P21Skip P21Skip_Proofs P21Pass1.
Import ListNotations.
Local Open Scope N_scope.

(* ---------------- operator>>( int ) ---------------- *)
Lemma int_digits_app ds : forall rest acc cnt,
  forallb is_digit ds = true -> head_is is_digit rest = false ->
  int_digits (ds ++ rest) acc cnt = (fold_left (fun a c => (a * 10 + Z.of_N (c - 48))%Z) ds acc, (cnt + length ds)%nat, rest).
Proof.
  induction ds as [|d ds IH]; intros rest acc cnt Hd Hr.
  - cbn [app fold_left length]. rewrite Nat.add_0_r.
    destruct rest as [|c r]; [reflexivity|]. cbn [head_is] in Hr. cbn [int_digits]. rewrite Hr. reflexivity.
  - cbn [forallb] in Hd. apply andb_true_iff in Hd. destruct Hd as [H1 H2].
    cbn [app int_digits]. rewrite H1. rewrite (IH rest _ _ H2 Hr).
    cbn [fold_left length]. rewrite Nat.add_succ_r. reflexivity.
Qed.

Lemma fold_digits_nonneg ds : forall acc, (0 <= acc)%Z ->
  (0 <= fold_left (fun a c => (a * 10 + Z.of_N (c - 48))%Z) ds acc)%Z.
Proof.
  induction ds as [|d ds IH]; intros acc Ha; cbn [fold_left]; [exact Ha|].
  apply IH. pose proof (N2Z.is_nonneg (d - 48)). lia.
Qed.

Lemma digit_not_sign c : is_digit c = true -> (c =? 45) = false /\ (c =? 43) = false.
Proof.
  unfold is_digit. intros H. apply andb_true_iff in H. destruct H as [H1 H2].
  apply N.leb_le in H1. split; apply N.eqb_neq; lia.
Qed.

Lemma read_int_digits ds rest :
  forallb is_digit ds = true -> ds <> [] -> (ival ds <= INT_MAX)%Z -> head_is is_digit rest = false ->
  read_int (ds ++ rest) = (Some (ival ds), rest).
Proof.
  intros Hd Hne Hmax Hr. unfold read_int.
  destruct ds as [|d0 ds']; [congruence|].
  assert (Hd0 : is_digit d0 = true) by (cbn [forallb] in Hd; apply andb_true_iff in Hd; exact (proj1 Hd)).
  change ((d0 :: ds') ++ rest) with (d0 :: (ds' ++ rest)).
  rewrite (skip_ws_nonspace _ _ (digit_not_space _ Hd0)).
  destruct (digit_not_sign _ Hd0) as [S1 S2]. rewrite S1, S2.
  change (d0 :: ds' ++ rest) with ((d0 :: ds') ++ rest).
  rewrite (int_digits_app (d0 :: ds') rest 0%Z 0%nat Hd Hr). fold (ival (d0 :: ds')).
  cbn [Nat.add length].
  pose proof (fold_digits_nonneg (d0 :: ds') 0%Z (Z.le_refl 0)) as Hnn. fold (ival (d0 :: ds')) in Hnn.
  destruct (Z.ltb_spec (ival (d0 :: ds')) INT_MIN) as [E|E]; [unfold INT_MIN in E; lia|].
  destruct (Z.ltb_spec INT_MAX (ival (d0 :: ds'))) as [E2|E2]; [lia|]. reflexivity.
Qed.

(* ---------------- ReadStdKeyword ---------------- *)
Lemma std_keyword_loop_app kw : forall rest acc,
  forallb is_alnum_us kw = true -> head_is is_alnum_us rest = false ->
  std_keyword_loop (kw ++ rest) acc = (acc ++ kw, rest).
Proof.
  induction kw as [|a kw IH]; intros rest acc Hk Hr.
  - cbn [app]. rewrite app_nil_r. destruct rest as [|c r]; [reflexivity|].
    cbn [head_is] in Hr. cbn [std_keyword_loop]. rewrite Hr. reflexivity.
  - cbn [forallb] in Hk. apply andb_true_iff in Hk. destruct Hk as [Ha Hk].
    cbn [app std_keyword_loop]. rewrite Ha. rewrite (IH rest (acc ++ [a]) Hk Hr). rewrite <- app_assoc. reflexivity.
Qed.

Lemma kw_start_tests c : kw_start_ok c = true ->
  is_space c = false /\ (c =? SLASH) = false /\ (c =? BSLASH) = false /\ (c =? 38) = false /\ (c =? LPAR) = false /\ (c =? BANG) = false.
Proof.
  unfold kw_start_ok. intros H. repeat (apply andb_true_iff in H; destruct H as [H ?]).
  repeat match goal with X : negb _ = true |- _ => apply negb_true_iff in X end.
  repeat split; assumption.
Qed.

(* ---------------- CreateInstance on a simple instance ---------------- *)
Lemma alnum_not_space c : is_alnum_us c = true -> is_space c = false.
Proof.
  unfold is_alnum_us, is_alpha, is_digit, is_space. intros H.
  repeat (apply orb_false_iff; split); apply N.eqb_neq; intros ->; discriminate H.
Qed.

Section Simple.
  Variable creatable : list byte -> bool.
  Variable legal : list (list byte) -> option bool.

  Lemma create_simple (i : sinst) (have : list Z) (next : list byte) :
    sinst_ok i next = true -> creatable (si_kw i) = true -> ~ In (ival (si_ds i)) have ->
    create_instance creatable legal have
      (seps_text (si_s1 i) ++ si_ds i ++ seps_text (si_s2 i) ++ EQUALS :: seps_text (si_s3 i)
       ++ si_kw i ++ srender (si_rec i) ++ SEMI :: next)
    = (Some (CSimple (ival (si_ds i)) (si_kw i)), Some (token_separator next), Done).
  Proof.
    intros Hok Hc Hnew. unfold sinst_ok in Hok.
    repeat match type of Hok with (_ && _) = true => apply andb_true_iff in Hok; let H := fresh "C" in destruct Hok as [Hok H] end.
    apply negb_true_iff in C4. apply negb_true_iff in C0. apply Z.leb_le in C3.
    unfold create_instance.
    (* the digits *)
    destruct (si_ds i) as [|d0 ds'] eqn:ED; [discriminate C4|].
    assert (Hd0 : is_digit d0 = true) by (cbn [forallb] in C5; apply andb_true_iff in C5; exact (proj1 C5)).
    assert (Hd0' : (d0 =? SLASH) = false /\ (d0 =? BSLASH) = false).
    { unfold is_digit in Hd0. apply andb_true_iff in Hd0. destruct Hd0 as [A B]. apply N.leb_le in A, B.
      split; apply N.eqb_neq; unfold SLASH, BSLASH; lia. }
    change ((d0 :: ds') ++ ?m) with (d0 :: (ds' ++ m)).
    rewrite (token_separator_skips (si_s1 i) d0 _ C8 (digit_not_space _ Hd0) (proj1 Hd0') (proj2 Hd0')).
    change (d0 :: ds' ++ ?m) with ((d0 :: ds') ++ m).
    rewrite (read_int_digits (d0 :: ds') _ C5 ltac:(discriminate) C3 (seps_head_not_digit (si_s2 i) EQUALS _ C7 eq_refl)).
    (* not a duplicate *)
    assert (Hdup : existsb (Z.eqb (ival (d0 :: ds'))) have = false).
    { apply not_true_iff_false. intros E. apply existsb_exists in E. destruct E as [x [Hx Ex]].
      apply Z.eqb_eq in Ex. subst x. exact (Hnew Hx). }
    rewrite Hdup.
    (* the equals sign *)
    rewrite (token_separator_skips (si_s2 i) EQUALS _ C7 eq_refl eq_refl eq_refl).
    change (EQUALS =? EQUALS) with true. cbn [negb]. cbv iota.
    (* the keyword *)
    destruct (si_kw i) as [|k0 kw'] eqn:EK; [discriminate C1|].
    cbn [head_is] in C1. destruct (kw_start_tests k0 C1) as (K1 & K2 & K3 & K4 & K5 & K6).
    change ((k0 :: kw') ++ ?m) with (k0 :: (kw' ++ m)).
    rewrite (token_separator_skips (si_s3 i) k0 _ C6 K1 K2 K3).
    rewrite K4, K5, K6. cbv iota.
    assert (Hkw : read_std_keyword (k0 :: kw' ++ srender (si_rec i) ++ SEMI :: next) = (k0 :: kw', srender (si_rec i) ++ SEMI :: next)).
    { unfold read_std_keyword. rewrite (skip_ws_nonspace _ _ K1).
      change (k0 :: kw' ++ ?m) with ((k0 :: kw') ++ m).
      rewrite (std_keyword_loop_app (k0 :: kw') _ [] C2); [reflexivity|].
      replace (srender (si_rec i) ++ SEMI :: next) with ((srender (si_rec i) ++ [SEMI]) ++ next)
        by (rewrite <- app_assoc; reflexivity).
      rewrite head_is_app; [exact C0|]. destruct (srender (si_rec i)); discriminate. }
    rewrite Hkw. rewrite Hc.
    unfold after_record. rewrite (skip_instance_wellformed (si_rec i) next C). reflexivity.
  Qed.
End Simple.

(* ---------------- the loop of ReadData1 ---------------- *)
Lemma match_prefix_first c r p0 p : (c =? p0) = false -> match_prefix (p0 :: p) (c :: r) = (false, c :: r).
Proof. intros H. cbn [match_prefix]. rewrite H. reflexivity. Qed.

Lemma found_endsec_other c r : is_space c = false -> (c =? 69) = false -> found_endsec (c :: r) = (false, c :: r).
Proof.
  intros Hs He. unfold found_endsec. rewrite (skip_ws_nonspace _ _ Hs).
  rewrite (match_prefix_first c r 69 _ He). reflexivity.
Qed.

Lemma found_endsec_endsec ws x : forallb is_space ws = true ->
  found_endsec ([69; 78; 68; 83; 69; 67] ++ ws ++ SEMI :: x) = (true, x).
Proof.
  intros Hws. unfold found_endsec. cbn [app]. rewrite skip_ws_nonspace by reflexivity.
  cbn [match_prefix]. repeat (rewrite N.eqb_refl). rewrite (skip_ws_spaces _ _ Hws).
  rewrite skip_ws_nonspace by reflexivity. change (SEMI =? SEMI) with true. reflexivity.
Qed.

Lemma token_separator_at c r : is_space c = false -> (c =? SLASH) = false -> (c =? BSLASH) = false ->
  token_separator (c :: r) = c :: r.
Proof.
  intros A B C. exact (token_separator_skips ([], []) c r eq_refl A B C).
Qed.

Section Loop.
  Variable creatable : list byte -> bool.
  Variable legal : list (list byte) -> option bool.

  Definition section_text (is : list sinst) (tail : list byte) : list byte := flat_map sinst_text is ++ tail.

  (* what stands at the head of the loop: the number sign of the next instance, after separators *)
  Lemma sinst_text_shape i more :
    sinst_text i ++ more = seps_text (si_s0 i) ++ HASH :: (seps_text (si_s1 i) ++ si_ds i ++ seps_text (si_s2 i) ++ EQUALS :: seps_text (si_s3 i)
                           ++ si_kw i ++ srender (si_rec i) ++ SEMI :: more).
  Proof. unfold sinst_text. repeat (rewrite <- app_assoc || rewrite <- app_comm_cons). reflexivity. Qed.

  Lemma pass1_insts is : forall st ws x acc f l,
    insts_ok is (seps_text st ++ [69; 78; 68; 83; 69; 67] ++ ws ++ SEMI :: x) = true ->
    seps_ok st = true -> forallb is_space ws = true ->
    forallb (fun i => creatable (si_kw i)) is = true ->
    NoDup (map cid acc ++ map (fun i => ival (si_ds i)) is) ->
    (length is <= f)%nat ->
    (* l: the text at the head of the loop - the section, possibly with its leading separators already skipped *)
    token_separator l = token_separator (section_text is (seps_text st ++ [69; 78; 68; 83; 69; 67] ++ ws ++ SEMI :: x)) ->
    l <> [] -> is <> [] ->
    pass1 creatable legal (S f) l acc = (acc ++ map sinst_summary is, Done).
  Proof.
    induction is as [|i r IH]; intros st ws x acc f l Hok Hst Hws Hcr Hnd Hf Hl Hne Hnn; [congruence|]. clear Hnn.
    set (tail := seps_text st ++ [69; 78; 68; 83; 69; 67] ++ ws ++ SEMI :: x) in *.
    cbn [insts_ok] in Hok. apply andb_true_iff in Hok. destruct Hok as [Hi Hr].
    cbn [forallb] in Hcr. apply andb_true_iff in Hcr. destruct Hcr as [Hci Hcr].
    set (next := flat_map sinst_text r ++ tail) in *.
    assert (Hsec : section_text (i :: r) tail = sinst_text i ++ next).
    { unfold section_text, next. cbn [flat_map]. rewrite <- app_assoc. reflexivity. }
    rewrite Hsec, sinst_text_shape in Hl.
    assert (Hs0 : seps_ok (si_s0 i) = true).
    { pose proof Hi as Hi'. unfold sinst_ok in Hi'. do 10 (apply andb_true_iff in Hi'; destruct Hi' as [Hi' _]). exact Hi'. }
    rewrite (token_separator_skips (si_s0 i) HASH _ Hs0 eq_refl eq_refl eq_refl) in Hl.
    destruct l as [|l0 l']; [congruence|].
    cbn [pass1]. rewrite Hl. rewrite skip_ws_nonspace by reflexivity.
    change (HASH =? HASH) with true. cbn [negb]. cbv iota.
    assert (Hnew : ~ In (ival (si_ds i)) (map cid acc)).
    { cbn [map] in Hnd. apply NoDup_remove_2 in Hnd. intros Hin. apply Hnd. apply in_or_app. left. exact Hin. }
    rewrite (create_simple creatable legal i (map cid acc) next Hi Hci Hnew).
    (* what follows *)
    destruct r as [|i2 r2].
    - (* the last instance: ENDSEC follows *)
      unfold next. cbn [flat_map app]. unfold tail.
      change ([69; 78; 68; 83; 69; 67] ++ ws ++ SEMI :: x) with (69 :: ([78; 68; 83; 69; 67] ++ ws ++ SEMI :: x)).
      rewrite (token_separator_skips st 69 _ Hst eq_refl eq_refl eq_refl).
      change (69 :: [78; 68; 83; 69; 67] ++ ws ++ SEMI :: x) with ([69; 78; 68; 83; 69; 67] ++ ws ++ SEMI :: x).
      rewrite (found_endsec_endsec ws x Hws). reflexivity.
    - (* another instance follows *)
      assert (Hnext : next = sinst_text i2 ++ (flat_map sinst_text r2 ++ tail)).
      { unfold next. cbn [flat_map]. rewrite <- app_assoc. reflexivity. }
      assert (Hs02 : seps_ok (si_s0 i2) = true).
      { cbn [insts_ok] in Hr. apply andb_true_iff in Hr. destruct Hr as [Hi2 _].
        unfold sinst_ok in Hi2. do 10 (apply andb_true_iff in Hi2; destruct Hi2 as [Hi2 _]). exact Hi2. }
      rewrite Hnext, sinst_text_shape.
      rewrite (token_separator_skips (si_s0 i2) HASH _ Hs02 eq_refl eq_refl eq_refl).
      rewrite found_endsec_other by reflexivity.
      destruct f as [|f']; [cbn [length] in Hf; lia|].
      specialize (IH st ws x (acc ++ [CSimple (ival (si_ds i)) (si_kw i)]) f'
                     (HASH :: seps_text (si_s1 i2) ++ si_ds i2 ++ seps_text (si_s2 i2) ++ EQUALS :: seps_text (si_s3 i2)
                           ++ si_kw i2 ++ srender (si_rec i2) ++ SEMI :: flat_map sinst_text r2 ++ tail)
                     Hr Hst Hws Hcr).
      rewrite IH.
      + rewrite <- app_assoc. reflexivity.
      + rewrite map_app. cbn [map cid]. rewrite <- app_assoc. cbn [app]. cbn [map] in Hnd.
        exact Hnd.
      + cbn [length] in Hf |- *. lia.
      + rewrite token_separator_at by reflexivity.
        fold tail. unfold section_text. cbn [flat_map]. rewrite <- app_assoc, sinst_text_shape.
        rewrite (token_separator_skips (si_s0 i2) HASH _ Hs02 eq_refl eq_refl eq_refl). reflexivity.
      + discriminate.
      + discriminate.
  Qed.
End Loop.

Lemma skip_ws_seps s c r : seps_ok s = true -> is_space c = false ->
  exists s', seps_ok s' = true /\ skip_ws (seps_text s ++ c :: r) = seps_text s' ++ c :: r.
Proof.
  destruct s as [pairs wsf]. intros Hok Hc. unfold seps_ok in Hok. cbn [fst snd] in Hok.
  apply andb_true_iff in Hok. destruct Hok as [Hps Hwf].
  destruct pairs as [|[ws txt] ps].
  - exists ([], []). split; [reflexivity|]. unfold seps_text. cbn [fst snd flat_map app].
    rewrite (skip_ws_spaces _ _ Hwf), (skip_ws_nonspace _ _ Hc). reflexivity.
  - cbn [forallb fst snd] in Hps. apply andb_true_iff in Hps. destruct Hps as [Hp Hps'].
    apply andb_true_iff in Hp. destruct Hp as [Hws Htxt].
    exists (([], txt) :: ps, wsf). split.
    + unfold seps_ok. cbn [fst snd forallb]. rewrite Htxt, Hps', Hwf. reflexivity.
    + unfold seps_text. cbn [fst snd flat_map]. repeat rewrite <- app_assoc.
      rewrite (skip_ws_spaces _ _ Hws). cbn [app]. rewrite skip_ws_nonspace by reflexivity. reflexivity.
Qed.

Lemma seps_head s c r : seps_ok s = true -> is_space c = false ->
  forall s', skip_ws (seps_text s ++ c :: r) = seps_text s' ++ c :: r ->
  match skip_ws (seps_text s ++ c :: r) with x :: _ => (x =? SLASH) || (x =? c) = true | [] => False end.
Proof.
  destruct s as [pairs wsf]. intros Hok Hc s' _. unfold seps_ok in Hok. cbn [fst snd] in Hok.
  apply andb_true_iff in Hok. destruct Hok as [Hps Hwf].
  destruct pairs as [|[ws txt] ps].
  - unfold seps_text. cbn [fst snd flat_map app]. rewrite (skip_ws_spaces _ _ Hwf), (skip_ws_nonspace _ _ Hc).
    rewrite N.eqb_refl, orb_true_r. reflexivity.
  - cbn [forallb fst snd] in Hps. apply andb_true_iff in Hps. destruct Hps as [Hp _].
    apply andb_true_iff in Hp. destruct Hp as [Hws _].
    unfold seps_text. cbn [fst snd flat_map]. repeat rewrite <- app_assoc.
    rewrite (skip_ws_spaces _ _ Hws). cbn [app]. rewrite skip_ws_nonspace by reflexivity. reflexivity.
Qed.

(* every well-formed simple instance of a data section is created, in file order, under its name and keyword *)
Theorem read_data1_wellformed creatable legal is st ws x :
  is <> [] ->
  insts_ok is (seps_text st ++ [69; 78; 68; 83; 69; 67] ++ ws ++ SEMI :: x) = true ->
  seps_ok st = true -> forallb is_space ws = true ->
  forallb (fun i => creatable (si_kw i)) is = true ->
  NoDup (map (fun i => ival (si_ds i)) is) ->
  read_data1 creatable legal (section_text is (seps_text st ++ [69; 78; 68; 83; 69; 67] ++ ws ++ SEMI :: x))
  = (map sinst_summary is, Done).
Proof.
  intros Hne Hok Hst Hws Hcr Hnd.
  set (tail := seps_text st ++ [69; 78; 68; 83; 69; 67] ++ ws ++ SEMI :: x) in *.
  destruct is as [|i r]; [congruence|].
  assert (Hs0 : seps_ok (si_s0 i) = true).
  { cbn [insts_ok] in Hok. apply andb_true_iff in Hok. destruct Hok as [Hi _].
    unfold sinst_ok in Hi. do 10 (apply andb_true_iff in Hi; destruct Hi as [Hi _]). exact Hi. }
  set (more := flat_map sinst_text r ++ tail).
  assert (Hsec : section_text (i :: r) tail = sinst_text i ++ more).
  { unfold section_text, more. cbn [flat_map]. rewrite <- app_assoc. reflexivity. }
  unfold read_data1. rewrite Hsec, sinst_text_shape.
  set (B := seps_text (si_s1 i) ++ si_ds i ++ seps_text (si_s2 i) ++ EQUALS :: seps_text (si_s3 i)
            ++ si_kw i ++ srender (si_rec i) ++ SEMI :: more).
  destruct (skip_ws_seps (si_s0 i) HASH B Hs0 eq_refl) as [s' [Hs' Esk]].
  pose proof (seps_head (si_s0 i) HASH B Hs0 eq_refl s' Esk) as Hh.
  unfold found_endsec.
  destruct (skip_ws (seps_text (si_s0 i) ++ HASH :: B)) as [|h t] eqn:EL; [contradiction|].
  assert (Hh69 : (h =? 69) = false).
  { apply orb_true_iff in Hh. destruct Hh as [E|E]; apply N.eqb_eq in E; subst h; reflexivity. }
  rewrite (match_prefix_first h t 69 _ Hh69).
  pose proof (pass1_insts creatable legal (i :: r) st ws x [] (length (seps_text (si_s0 i) ++ HASH :: B)) (h :: t)) as P.
  apply P; [exact Hok|exact Hst|exact Hws|exact Hcr|exact Hnd| | |discriminate|discriminate].
  - (* enough fuel: one byte at least per instance *)
    unfold B. rewrite <- sinst_text_shape, <- Hsec. unfold section_text. rewrite app_length.
    assert (G : forall l : list sinst, (length l <= length (flat_map sinst_text l))%nat).
    { induction l as [|a l IHl]; [apply le_n|]. cbn [flat_map length]. rewrite app_length.
      assert (1 <= length (sinst_text a))%nat by (unfold sinst_text; rewrite !app_length; cbn [length]; lia). lia. }
    pose proof (G (i :: r)). lia.
  - fold tail. rewrite Hsec, sinst_text_shape. fold B. rewrite Esk.
    rewrite (token_separator_skips s' HASH B Hs' eq_refl eq_refl eq_refl).
    rewrite (token_separator_skips (si_s0 i) HASH B Hs0 eq_refl eq_refl eq_refl). reflexivity.
Qed.
