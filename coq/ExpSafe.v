(* C06: the fixed-size tables of the EXPRESS front end, with the constants and guards
   regenerated from the sources (gen/ExpBuffers.v).
   (1) the parser's scope stack: scopes[MAX_SCOPE_DEPTH], PUSH_SCOPE / PUSH_SCOPE_DUMMY / POP_SCOPE;
   (2) the lexer's tail-remark buffer last_comment_[COMMENT_BUFFER].
   No proofs here. *)
From Coq Require Import List ZArith Bool.
From SC Require Import gen.ExpBuffers.
Import ListNotations.
Local Open Scope Z_scope.

(* ---- scope stack ---- *)
Inductive sev := Push | PushDummy | Pop.

(* index of [scope] in scopes[]; None = the tool stopped with a diagnostic *)
Definition guard_fires (i : Z) : bool := MAX_SCOPE_DEPTH - guard_margin <=? i.

(* one event: the new index and the index written by it (PUSH_SCOPE writes scope[new]) *)
Definition sstep (i : Z) (e : sev) : option (Z * option Z) :=
  match e with
  | Push => if push_guarded && guard_fires i then None else Some (i + 1, Some (i + 1))
  | PushDummy => if push_dummy_guarded && guard_fires i then None else Some (i + 1, None)
  | Pop => Some (i - 1, None)
  end.

(* run: the list of indices written, and whether the run was cut short by the guard *)
Fixpoint srun (i : Z) (es : list sev) : list Z * bool :=
  match es with
  | [] => ([], false)
  | e :: r =>
    match sstep i e with
    | None => ([], true)
    | Some (i', w) =>
      let '(ws, stopped) := srun i' r in
      (match w with Some x => x :: ws | None => ws end, stopped)
    end
  end.

(* every index reached (written or merely pointed at, since scope->... is read after a dummy push) *)
Fixpoint sreach (i : Z) (es : list sev) : list Z :=
  match es with
  | [] => [i]
  | e :: r => match sstep i e with None => [i] | Some (i', _) => i :: sreach i' r end
  end.

(* ---- tail remark buffer ---- *)
(* bytes written by copying a remark of length len (without its terminator) into the buffer:
   the highest index written + 1 *)
Definition semicolon_extent (len : Z) : Z :=
  match semicolon_copy with
  | CopyUnbounded => len + 1                       (* strcpy: text and terminator *)
  | CopyBounded => Z.max (Z.min (len + 1) semicolon_copy_max) COMMENT_BUFFER   (* strncpy (pads) then [size-1] := 0 *)
  end.
Definition save_extent (len : Z) : Z := save_copy_max.      (* strncpy always writes exactly n bytes *)
