(* C17 -- the build-time scanner predicts exactly the files the C++ generator writes.
   Only statements closed by [exact]; proofs live in GenFiles_Proofs.v. *)
From Coq Require Import List NArith Bool Permutation.
From SC Require Import gen.ScannerRule GenFiles GenFiles_Proofs.
Import ListNotations.
Local Open Scope N_scope.

(* The rule "does this defined type get its own files" is written twice, once in the scanner
   and once (spread over four functions) in the generator; both are regenerated from the
   sources.  They give the same answer for every type the front end accepts. *)
Theorem c17_rules_agree : forall k head aggr_ref,
  kmem k wf_kinds = true -> scanner_lists_type k head = gen_creates_type k head aggr_ref.
Proof. exact rules_agree. Qed.
Print Assumptions c17_rules_agree.

(* For every schema (any number of declarations, in whatever order each program meets them)
   the generator writes exactly the files the scanner lists, plus the two unity headers that
   only the listed unity sources include. *)
Theorem c17_file_sets_equal : forall schema ds ds',
  Forall (fun d => wf_decl d = true) ds -> Permutation ds ds' ->
  forall f, In f (gen_files schema ds') <->
            (In f (scanner_files schema ds) \/ In f (gen_aux_files schema)).
Proof. exact file_sets_equal. Qed.
Print Assumptions c17_file_sets_equal.

(* Two declarations share a file only if they are the same declaration, or an enumeration n
   meets a select called n_var (then both tools name the same file twice). *)
Theorem c17_shared_file_characterised : forall d d' f,
  wf_decl d = true -> wf_decl d' = true ->
  lower_name (decl_name d) = true -> lower_name (decl_name d') = true ->
  In f (scanner_decl_files d) -> In f (scanner_decl_files d') ->
  same_decl d d' \/ var_collision d d'.
Proof. exact shared_file_characterised. Qed.
Print Assumptions c17_shared_file_characterised.

(* non-vacuity: a schema with an entity, an enumeration, a renamed enumeration, a select, a
   renamed select, an aggregate and a simple type; hypotheses hold and the sets are computed *)
Example c17_example_sets :
  let ds := [DEnt [97]; DType [98] k_enumeration false false; DType [99] k_enumeration true false;
             DType [100] k_select false false; DType [101] k_select true false;
             DType [102] k_list false true; DType [103] k_integer false false] in
  forallb wf_decl ds = true /\ length (flat_map scanner_decl_files ds) = 6%nat /\
  length (scanner_files [115] ds) = 17%nat /\ length (gen_files [115] ds) = 19%nat.
Proof. vm_compute. repeat split. Qed.
