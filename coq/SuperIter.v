(* C11: which inverse attributes an instance has entries for.
     src/clstepcore/sdaiApplication_instance.cc   InitIAttrs
     src/clstepcore/superInvAttrIter.h            superInvAttrIter (reset / next / empty)
     include/clstepcore/SubSuperIterators.h       supertypesIterator (a queue: next() drops the front and
                                                  queues its supertypes)
   InitIAttrs registers the entity's own inverse attributes and then those the iterator yields: for the
   supertype at the front of the queue all of its inverse attributes, then the front is dropped, its own
   supertypes are queued, and the new front is taken up.  Entities and attributes are numbers; a schema gives
   each entity its supertypes and its inverse attributes in declaration order.  No proofs here. *)
From Coq Require Import List NArith Bool.
Import ListNotations.
Local Open Scope N_scope.

Record schema := { s_supers : list (N * list N); s_invs : list (N * list N) }.

Fixpoint lookup (l : list (N * list N)) (e : N) : list N :=
  match l with
  | [] => []
  | (k, v) :: r => if k =? e then v else lookup r e
  end.
Definition supers (G : schema) (e : N) : list N := lookup (s_supers G) e.
Definition invs (G : schema) (e : N) : list N := lookup (s_invs G) e.

(* the iterator run to its end, from a queue whose front has not been taken up yet; None: out of fuel
   (a supertype graph with a cycle keeps the queue alive for ever) *)
Fixpoint inherited (fuel : nat) (G : schema) (q : list N) : option (list N) :=
  match fuel with
  | O => None
  | S f =>
    match q with
    | [] => Some []
    | c :: r =>
      match inherited f G (r ++ supers G c) with
      | Some l => Some (invs G c ++ l)
      | None => None
      end
    end
  end.

(* InitIAttrs(): the keys of iAMap, in the order they are inserted *)
Definition init_iattrs (fuel : nat) (G : schema) (e : N) : option (list N) :=
  match inherited fuel G (supers G e) with
  | Some l => Some (invs G e ++ l)
  | None => None
  end.

(* what the property asks for: the entity itself and everything above it *)
Inductive above (G : schema) : list N -> N -> Prop :=
| above_here q a : In a q -> above G q a
| above_step q x a : In x q -> above G (supers G x) a -> above G q a.
